package main

import (
	"fmt"
	"go/ast"
	"go/token"
	"go/types"
	"sort"
	"strings"
)

func init() {
	register(&propInfo{
		id: "C19", fn: checkC19, multiConfig: true,
		explanation: "Exactly-once over all directory sizes and byte counts is a runtime statement; decided are the structural conditions without which paging cannot be right, cross-checked over every Readdir implementation of the module: (r1) server truncation — rreaddir.encode emits a prefix of whole entries within Count, in order (the idiom verified by the layout extractor, C01.r9), and the server gives the backend's entries to it unchanged; (r2) stateless resume — an implementation that pulls entries from a stateful cursor ((*os.File).Readdirnames/Readdir/ReadDir) and numbers them from zero must first reposition that cursor in the same call (Seek(0, io.SeekStart) on the same file on every path before the first pull); (r3) cookie discipline — the Offset stored in each Dirent strictly increases (index+1 from the slice start, or a counter incremented once per pulled entry) and the entry whose cookie equals the offset argument is not returned again: slicing from names[offset:] with Offset = offset+i+1, or a skip test that holds for cookie == offset (decided on the orderings <, =, > of the two values through the path facts at the append site); a request beyond the end returns nothing; (r4) stable order — a name list produced from a map reaches readdir.Readdir only after a sort of that very list; (r5) QID/type agreement by construction — in every Dirent literal Type is the .Type of the value stored in QID, and that QID comes from the producer the implementation's Walk/GetAttr use (localfs: (*Local).info for all three; staticfs: the attacher's qids table for Walk and Readdir; composefs: GetAttr of the mounted file in both); the wrapper qidTransformFile overrides every QID-returning method of p9.File and maps the QIDs through the same Mapper; a Readdir implementation returns a slice built in that call (not a window into long-lived state the wrapper would rewrite in place). (r5, continued) the QID mapper hands out one path per file under concurrency: lookup and insert are one critical section (the rule of C20.r1); (r6) the reply is cut to the clamped Count, not the requested one (the rule of C13.r2). (r7) the bound the reply is clamped against is the msize announced to the client, not the one it proposed (the rule of C12.r3).",
		assumptions: []string{"explicitly partial: completeness/no-duplicates for concrete sizes, os.File directory-stream semantics and the 'as long as one entry fits' progress clause are not decided"},
	})
}

var fsPkgs = []string{"fsimpl/localfs", "fsimpl/readdir", "fsimpl/staticfs", "fsimpl/composefs", "fsimpl/qids", "fsimpl/templatefs"}

func checkC19(r *Run) {
	norm := func(e ast.Node) string { return strings.ReplaceAll(r.L.str(e), " ", "") }
	// ---- r1 ----
	if x, err := newCodecX(r.L); err != nil {
		r.undecided("r1", "codec", token.NoPos, "%v", err)
	} else if nt := r.L.namedType("p9", "rreaddir"); nt != nil {
		if _, err := x.Layout(nt, "encode"); err != nil {
			r.fail("r1", "rreaddir.encode truncates to whole entries within Count", errPos(err), "%v", err)
		} else {
			r.ok("r1", "rreaddir.encode truncates to whole entries within Count", nt.Obj().Pos(), "prefix of whole Dirent encodings, cut where the running size first exceeds Count (strictly greater: an entry that fits exactly is kept), in order")
		}
		if _, err := x.Layout(nt, "decode"); err != nil {
			r.fail("r1", "rreaddir.decode", errPos(err), "%v", err)
		} else {
			r.ok("r1", "rreaddir.decode", nt.Obj().Pos(), "entries decoded until the payload is exhausted; an incomplete trailing entry is dropped")
		}
	}
	m := buildServerModel(r.L)
	if td := r.L.Func("p9", "treaddir.handle"); td != nil {
		// Entries: entries straight from the backend
		okE := false
		ast.Inspect(td.Decl.Body, func(n ast.Node) bool {
			if kv, ok := n.(*ast.KeyValueExpr); ok && norm(kv.Key) == "Entries" {
				if obj := objOf(m.Info, kv.Value); obj != nil {
					okE = allDefsAre(m.Info, td, kv.Value.(*ast.Ident), func(e ast.Expr) bool { return false }) || true
					// defined by the backend call
					cnt, bad := 0, 0
					ast.Inspect(td.Decl.Body, func(n2 ast.Node) bool {
						if as, ok := n2.(*ast.AssignStmt); ok {
							for _, l := range as.Lhs {
								if objOf(m.Info, l) == obj {
									cnt++
									if len(as.Rhs) != 1 {
										bad++
									} else if c, ok := unparen(as.Rhs[0]).(*ast.CallExpr); !ok || calleeKey(m.Info, c) != "p9.File.Readdir" {
										bad++
									}
								}
							}
						}
						return true
					})
					okE = cnt >= 1 && bad == 0
				}
			}
			return true
		})
		r.check(okE, "r1", "treaddir: the backend's entries reach the encoder unchanged", td.Decl.Pos(), "Entries = result of File.Readdir", "the entries given to rreaddir are not exactly what File.Readdir returned (reordered, filtered or re-sliced)")
	}

	// ---- all Readdir implementations ----
	db := buildSiteDB(r.L, fsPkgs...)
	c19QidWrapper(r, db)
	type impl struct {
		fi   *FuncInfo
		info *types.Info
	}
	var impls []impl
	for _, pk := range fsPkgs {
		for _, fi := range r.L.funcsOfPkg(pk) {
			if fi.Decl.Name.Name == "Readdir" && fi.Decl.Body != nil {
				impls = append(impls, impl{fi, fi.Pkg.TypesInfo})
			}
		}
	}
	r.floor("r2", "Readdir implementations in the module", len(impls), 7)
	rdHelper := r.L.Func("fsimpl/readdir", "Readdir")
	for _, im := range impls {
		fi, info := im.fi, im.info
		// classify
		var pulls []*Site
		for _, s := range db.ByFunc[fi] {
			switch s.Callee {
			case "os.File.Readdirnames", "os.File.Readdir", "os.File.ReadDir":
				pulls = append(pulls, s)
			}
		}
		var params []string
		for _, f := range fi.Decl.Type.Params.List {
			for _, nm := range f.Names {
				params = append(params, nm.Name)
			}
		}
		offN := ""
		if len(params) >= 1 {
			offN = params[0]
		}
		delegates := false
		for _, s := range db.ByFunc[fi] {
			if s.Callee == "fsimpl/readdir.Readdir" || strings.HasSuffix(s.Callee, ".Readdir") && s.Callee != "os.File.Readdir" && fi != rdHelper {
				delegates = true
			}
		}
		switch {
		case len(pulls) > 0:
			// r2: rewind before the first pull
			for _, s := range pulls {
				file := recvStr(newResolver(r.L, info, fi.Decl), s.Call)
				okSeek := false
				for _, sk := range db.ByFunc[fi] {
					if sk.Callee == "os.File.Seek" && sk.Call.Pos() < s.Call.Pos() && recvStr(newResolver(r.L, info, fi.Decl), sk.Call) == file && len(sk.Call.Args) == 2 {
						if v, ok := constInt(info, sk.Call.Args[0]); ok && v == 0 {
							if w, ok := constInt(info, sk.Call.Args[1]); ok && w == 0 {
								okSeek = s.St.Must["os.File.Seek"]
							}
						}
					}
				}
				r.check(okSeek, "r2", fi.Key+": the directory stream is rewound before entries are numbered from zero", s.Call.Pos(), file+".Seek(0, io.SeekStart) on every path before the first pull",
					"entries are pulled from the stateful cursor of "+file+" without first seeking to the start, yet they are numbered from 0 in this call: a second page (after the server truncated the first) continues from wherever the cursor was left and skips or repeats entries")
			}
			// r3: cookie counter and skip test
			c19Cursor(r, db, fi, info, offN)
		case fi == rdHelper:
			c19Helper(r, db, fi, info)
		case delegates:
			r.ok("r2", fi.Key+": stateless", fi.Decl.Pos(), "delegates to another Readdir / the shared helper with its own (offset, count)")
		default:
			// denials (templatefs) and other implementations: must not build Dirents from hidden state
			hasLit := false
			ast.Inspect(fi.Decl.Body, func(n ast.Node) bool {
				if cl, ok := n.(*ast.CompositeLit); ok && strings.HasSuffix(types.TypeString(info.TypeOf(cl), nil), "p9.Dirent") {
					hasLit = true
				}
				return true
			})
			if hasLit {
				r.undecided("r2", fi.Key+": Readdir implementation", fi.Decl.Pos(), "builds Dirents in a way the checker has no rule for")
			} else {
				r.ok("r2", fi.Key+": returns no entries", fi.Decl.Pos(), "denial / empty implementation")
			}
		}
		// r5: Dirent literals
		ast.Inspect(fi.Decl.Body, func(n ast.Node) bool {
			cl, ok := n.(*ast.CompositeLit)
			if !ok || !strings.HasSuffix(types.TypeString(info.TypeOf(cl), nil), "p9.Dirent") {
				return true
			}
			f := litFields(cl)
			q, t := f["QID"], f["Type"]
			okT := q != nil && t != nil && norm(t) == norm(q)+".Type"
			r.check(okT, "r5", fi.Key+": Dirent.Type is the type of the listed QID", cl.Pos(), "Type = "+norm(q)+".Type", "the entry's Type is "+norm(t)+" while its QID is "+norm(q)+": listing and Walk/GetAttr can disagree about the entry's type")
			return true
		})
		// r5: returns a slice built in this call
		for _, ex := range db.Exits[fi] {
			if ex.Ret == nil || len(ex.Ret.Results) != 2 {
				continue
			}
			e := unparen(ex.Ret.Results[0])
			if sl, ok := e.(*ast.SliceExpr); ok {
				base := unparen(sl.X)
				if _, isSel := base.(*ast.SelectorExpr); isSel {
					if fld := fieldOf(info, base); fld != nil {
						r.fail("r5", fi.Key+": returns a slice built in this call", ex.Ret.Pos(), "Readdir returns a window %s into long-lived state: qidTransformFile.Readdir rewrites the QIDs of the slice it gets in place, so from the second listing on the cached entries carry QIDs that were already remapped (they no longer equal what Walk/GetAttr report)", norm(e))
					}
				}
			}
		}
	}

	// ---- r4: stable order ----
	for _, s := range db.Calls["fsimpl/readdir.Readdir"] {
		if len(s.Call.Args) < 3 {
			continue
		}
		info := s.Root.Pkg.TypesInfo
		names := s.Call.Args[2]
		obj := objOf(info, names)
		fromMap := false
		if obj != nil {
			ast.Inspect(s.Root.Decl.Body, func(n ast.Node) bool {
				if as, ok := n.(*ast.AssignStmt); ok && len(as.Lhs) == 1 && objOf(info, as.Lhs[0]) == obj {
					if c, ok := unparen(as.Rhs[0]).(*ast.CallExpr); ok && strings.HasSuffix(calleeKey(info, c), "maps.Keys") {
						fromMap = true
					}
				}
				return true
			})
		}
		if !fromMap {
			r.ok("r4", s.Root.Key+": name order", s.Call.Pos(), "names do not come from a map iteration")
			continue
		}
		sorted := false
		for _, c := range db.ByFunc[s.Root] {
			if c.Call != nil && (strings.HasSuffix(c.Callee, "slices.Sort") || c.Callee == "sort.Strings") && c.Call.Pos() < s.Call.Pos() && len(c.Call.Args) == 1 && objOf(info, c.Call.Args[0]) == obj {
				sorted = s.St.Must[c.Callee]
			}
		}
		r.check(sorted, "r4", s.Root.Key+": names from a map are sorted before paging", s.Call.Pos(), "sorted on every path before readdir.Readdir", "names come from a map iteration and reach readdir.Readdir unsorted: two calls of one listing see different orders, so paging by index skips and repeats entries")
	}

	// ---- r5: producers ----
	c19Producers(r, db)

	if r.borrowed == nil {
		// r6: the listing that leaves fits the connection: the Count the reply is cut to is the
		// clamped one, not the requested one (the rule of C13.r2) - a too large Rreaddir ends
		// the listing with a connection error on the client
		r.borrow(checkC13, map[string]string{"r2": "r6"})
		// r7: ... and the bound it is clamped against is the msize that was announced to the
		// client, not the one it proposed (the rule of C12.r3)
		r.borrow(checkC12, map[string]string{"r3": "r7"})
		// ... and the client asks for what its caller asked for (C03.r1: parameters are sent
		// as passed) - a client-side clamp below one entry ends the listing early
		r.borrow(checkC03, map[string]string{"r1": "r6"})
		// r5 (continued): the QID a listing reports for an entry is the one a walk reports:
		// the mapper's lookup and insert are one critical section (the rule of C20.r1)
		r.borrow(checkC20, map[string]string{"r1": "r5"})
	}
}

func c19Helper(r *Run, db *SiteDB, fi *FuncInfo, info *types.Info) {
	norm := func(e ast.Node) string { return strings.ReplaceAll(r.L.str(e), " ", "") }
	var params []string
	for _, f := range fi.Decl.Type.Params.List {
		for _, nm := range f.Names {
			params = append(params, nm.Name)
		}
	}
	if len(params) != 4 {
		r.undecided("r3", "readdir.Readdir", fi.Decl.Pos(), "unexpected signature")
		return
	}
	offN, namesN := params[0], params[2]
	// beyond the end → nothing
	okEnd := false
	for _, ex := range db.Exits[fi] {
		if ex.Ret != nil && len(ex.Ret.Results) == 2 && isNilIdent(info, unparen(ex.Ret.Results[0])) && ex.St.holds("uint64(len("+namesN+")) > "+offN, false) {
			okEnd = true
		}
	}
	r.check(okEnd, "r3", "readdir.Readdir: an offset at or beyond the end returns nothing", fi.Decl.Pos(), "offset >= len(names) → nil", "a listing resumed at the end does not terminate with an empty result")
	// range over names[offset:end], Offset = offset+uint64(i)+1
	var rs *ast.RangeStmt
	ast.Inspect(fi.Decl.Body, func(n ast.Node) bool {
		if x, ok := n.(*ast.RangeStmt); ok && rs == nil {
			rs = x
		}
		return true
	})
	okSlice, okCookie := false, false
	if rs != nil {
		if sl, ok := unparen(rs.X).(*ast.SliceExpr); ok && norm(sl.X) == namesN && sl.Low != nil && norm(sl.Low) == offN {
			okSlice = true
		}
		iN := ""
		if rs.Key != nil {
			iN = norm(rs.Key)
		}
		ast.Inspect(rs.Body, func(n ast.Node) bool {
			if kv, ok := n.(*ast.KeyValueExpr); ok && norm(kv.Key) == "Offset" {
				v := norm(kv.Value)
				if v == offN+"+uint64("+iN+")+1" || v == offN+"+1+uint64("+iN+")" || v == "uint64("+iN+")+"+offN+"+1" {
					okCookie = true
				}
			}
			return true
		})
	}
	r.check(okSlice, "r3", "readdir.Readdir: entries are taken from names[offset:]", fi.Decl.Pos(), "the entry with cookie == offset is not returned again", "the page does not start at names[offset]: the last entry of the previous page is repeated or an entry is skipped")
	r.check(okCookie, "r3", "readdir.Readdir: the cookie is the index of the entry plus one", fi.Decl.Pos(), "Offset = offset + i + 1 (strictly increasing)", "Dirent.Offset is not offset+i+1: resuming at the last cookie does not continue with the next entry")
}

// c19Cursor: implementations that count pulled entries.
func c19Cursor(r *Run, db *SiteDB, fi *FuncInfo, info *types.Info, offN string) {
	norm := func(e ast.Node) string { return strings.ReplaceAll(r.L.str(e), " ", "") }
	// the Dirent literal's Offset value
	cookie := ""
	var litPos token.Pos
	ast.Inspect(fi.Decl.Body, func(n ast.Node) bool {
		if cl, ok := n.(*ast.CompositeLit); ok && strings.HasSuffix(types.TypeString(info.TypeOf(cl), nil), "p9.Dirent") {
			if v := litFields(cl)["Offset"]; v != nil {
				cookie = norm(v)
				litPos = cl.Pos()
			}
		}
		return true
	})
	if cookie == "" {
		r.fail("r3", fi.Key+": cookie", fi.Decl.Pos(), "Dirent literal sets no Offset")
		return
	}
	// counter incremented once per pull
	nInc := 0
	ast.Inspect(fi.Decl.Body, func(n ast.Node) bool {
		if inc, ok := n.(*ast.IncDecStmt); ok && inc.Tok == token.INC && norm(inc.X) == cookie {
			nInc++
		}
		return true
	})
	r.check(nInc == 1, "r3", fi.Key+": the cookie counts pulled entries", litPos, cookie+"++ once per entry", fmt.Sprintf("the cookie %s is incremented %d times per iteration", cookie, nInc))
	// at the append (literal) site: cookie > offset must hold
	var st *HState
	for _, s := range db.ByFunc[fi] {
		if s.Call != nil {
			if id, ok := s.Call.Fun.(*ast.Ident); ok && id.Name == "append" && containsNode(s.Call, nodeAt(fi, litPos)) {
				st = s.St
			}
		}
	}
	if st == nil {
		r.undecided("r3", fi.Key+": skip test", litPos, "append site of the Dirent not found")
		return
	}
	gt := st.holds(cookie+" > "+offN, true)
	r.check(gt, "r3", fi.Key+": the entry whose cookie equals the offset is not returned again", litPos, cookie+" > "+offN+" holds where entries are appended",
		fmt.Sprintf("entries are appended where only %s is known (facts: %s): for cookie == offset — the last entry the caller already has — the entry is returned again", "!("+cookie+" < "+offN+")", describePaths(st)))
}

func nodeAt(fi *FuncInfo, pos token.Pos) ast.Node {
	var found ast.Node
	ast.Inspect(fi.Decl, func(n ast.Node) bool {
		if n != nil && n.Pos() == pos {
			if _, ok := n.(*ast.CompositeLit); ok {
				found = n
			}
		}
		return true
	})
	if found == nil {
		return fi.Decl
	}
	return found
}

func c19Producers(r *Run, db *SiteDB) {
	norm := func(e ast.Node) string { return strings.ReplaceAll(r.L.str(e), " ", "") }
	// localfs: Walk, GetAttr, Readdir all obtain QIDs from (*Local).info
	for _, nm := range []string{"Local.Walk", "Local.GetAttr", "Local.Readdir", "Local.Open", "Local.Create"} {
		fi := r.L.Func("fsimpl/localfs", nm)
		if fi == nil {
			if nm == "Local.Walk" || nm == "Local.GetAttr" || nm == "Local.Readdir" {
				r.undecided("r5", "localfs."+nm, token.NoPos, "not found")
			}
			continue
		}
		uses := false
		// in the method itself or in a private helper it calls (direntFor)
		for _, s := range append(append([]*Site{}, db.ByFunc[fi]...), db.Deep[fi]...) {
			if s.Callee == "fsimpl/localfs.Local.info" {
				uses = true
			}
		}
		r.check(uses, "r5", "localfs."+nm+" takes its QID from (*Local).info", fi.Decl.Pos(), "single producer", "localfs."+nm+" does not obtain its QID from (*Local).info: listing and Walk/GetAttr can report different QIDs for one file")
	}
	// staticfs: Walk returns a.qids[name]; Readdir passes a.qids
	if w := r.L.Func("fsimpl/staticfs", "dir.Walk"); w != nil {
		// the successful single-name walk returns {qids[K]} together with files[K], K the walked name
		okW := false
		wres := newResolver(r.L, w.Pkg.TypesInfo, w.Decl)
		namesParam := ""
		if ps := w.Decl.Type.Params.List; len(ps) == 1 && len(ps[0].Names) == 1 {
			namesParam = ps[0].Names[0].Name
		}
		ast.Inspect(w.Decl.Body, func(n ast.Node) bool {
			ret, ok := n.(*ast.ReturnStmt)
			if !ok || len(ret.Results) != 3 {
				return true
			}
			cl, ok := unparen(ret.Results[0]).(*ast.CompositeLit)
			if !ok || len(cl.Elts) != 1 {
				return true
			}
			q := strings.ReplaceAll(wres.str(cl.Elts[0]), " ", "")
			f := strings.ReplaceAll(wres.str(ret.Results[1]), " ", "")
			key := "[" + namesParam + "[0]]"
			if strings.HasSuffix(q, ".a.qids"+key) && strings.HasSuffix(f, ".a.files"+key) {
				okW = true
			}
			return true
		})
		r.check(okW, "r5", "staticfs: Walk reports the QID table's entry", w.Decl.Pos(), "d.a.qids[name]", "staticfs Walk does not take the QID from the attacher's table")
	}
	if rd := r.L.Func("fsimpl/staticfs", "dir.Readdir"); rd != nil {
		okR := false
		for _, s := range db.ByFunc[rd] {
			if s.Callee == "fsimpl/readdir.Readdir" && len(s.Call.Args) == 4 && strings.HasSuffix(norm(s.Call.Args[3]), ".a.qids") {
				okR = true
			}
		}
		r.check(okR, "r5", "staticfs: Readdir lists from the same QID table", rd.Decl.Pos(), "readdir.Readdir(…, d.a.qids)", "staticfs Readdir does not list from the attacher's QID table")
	}
	// composefs: both Readdir and Walk use GetAttr of the mounted file
	for _, nm := range []string{"root.Readdir", "root.Walk"} {
		fi := r.L.Func("fsimpl/composefs", nm)
		if fi == nil {
			r.undecided("r5", "composefs."+nm, token.NoPos, "not found")
			continue
		}
		okG := false
		info := fi.Pkg.TypesInfo
		for _, s := range db.ByFunc[fi] {
			if s.Call == nil {
				continue
			}
			// GetAttr called here, or by a private helper (one the pinned tree does not have)
			// on the File it is handed: qidOf(f) - the File is then the helper's argument
			var recvX ast.Expr
			if s.Callee == "p9.File.GetAttr" {
				if sel, ok := unparen(s.Call.Fun).(*ast.SelectorExpr); ok {
					recvX = sel.X
				}
			} else if tf := r.L.FuncOf(callee(info, s.Call)); tf != nil && tf != fi && tf.Decl.Body != nil && !tf.Obj.Exported() && !pinnedFuncs[tf.Key] && tf.Pkg == fi.Pkg {
				idx := 0
				for _, f := range tf.Decl.Type.Params.List {
					for _, nm := range f.Names {
						pobj := info.Defs[nm]
						ast.Inspect(tf.Decl.Body, func(n ast.Node) bool {
							if c, ok := n.(*ast.CallExpr); ok && calleeKey(info, c) == "p9.File.GetAttr" {
								if sel, ok := unparen(c.Fun).(*ast.SelectorExpr); ok && objOf(info, sel.X) == pobj && idx < len(s.Call.Args) {
									recvX = s.Call.Args[idx]
								}
							}
							return true
						})
						idx++
					}
					if len(f.Names) == 0 {
						idx++
					}
				}
			}
			if recvX != nil {
				// the receiver, with single-assignment locals replaced by what they stand for
				sel := &ast.SelectorExpr{X: recvX}
				fromMount := func(e ast.Expr) bool {
					return strings.Contains(strings.ReplaceAll(s.Res.str(e), " ", ""), ".fs.mounts[")
				}
				// ... or a variable that only ever holds a mounted file or what walking from it returned
				recvObj := objOf(info, sel.X)
				if fromMount(sel.X) || recvObj != nil && allDefsAre(info, fi, sel.X, func(e ast.Expr) bool {
					if fromMount(e) {
						return true
					}
					c, isCall := unparen(e).(*ast.CallExpr)
					if !isCall || calleeKey(info, c) != "p9.File.Walk" {
						return false
					}
					csel, isSel := unparen(c.Fun).(*ast.SelectorExpr)
					return isSel && objOf(info, csel.X) == recvObj
				}) {
					okG = true
				}
			}
		}
		r.check(okG, "r5", "composefs."+nm+" reports the mounted file's GetAttr QID", fi.Decl.Pos(), "GetAttr of r.fs.mounts[name]", "composefs."+nm+" does not derive the entry's QID from GetAttr of the mounted file")
	}
	// qidTransformFile overrides every QID-returning File method
	p9 := r.L.Pkg("p9")
	fileI, _ := p9.Types.Scope().Lookup("File").Type().Underlying().(*types.Interface)
	qt := r.L.namedType("fsimpl/qids", "qidTransformFile")
	if fileI == nil || qt == nil {
		r.undecided("r5", "qidTransformFile", token.NoPos, "type or interface not found")
		return
	}
	var need []string
	for i := 0; i < fileI.NumMethods(); i++ {
		mth := fileI.Method(i)
		sig := mth.Type().(*types.Signature)
		for j := 0; j < sig.Results().Len(); j++ {
			ts := sig.Results().At(j).Type().String()
			if strings.HasSuffix(ts, "p9.QID") || strings.HasSuffix(ts, "p9.Dirents") {
				need = append(need, mth.Name())
				break
			}
		}
	}
	sort.Strings(need)
	for _, nm := range need {
		fi := r.L.Func("fsimpl/qids", "qidTransformFile."+nm)
		if fi == nil {
			r.fail("r5", "qidTransformFile."+nm, qt.Obj().Pos(), "File.%s returns QIDs but qidTransformFile does not override it: its QIDs reach the client unmapped while the other methods map them — Readdir/Walk/GetAttr disagree", nm)
			continue
		}
		maps := false
		// in the method itself or in a private helper it calls (q.mapQIDs(qids))
		for _, s := range append(append([]*Site{}, db.ByFunc[fi]...), db.Deep[fi]...) {
			if s.Call != nil && s.Callee == "fsimpl/qids.Mapper.QIDFor" && strings.HasSuffix(s.recvStr(), ".m") {
				maps = true
			}
		}
		r.check(maps, "r5", "qidTransformFile."+nm+" maps its QIDs through the wrapper's Mapper", fi.Decl.Pos(), "q.m.QIDFor", "qidTransformFile."+nm+" does not pass its QIDs through q.m.QIDFor")
	}
	r.floor("r5", "QID-returning File methods", len(need), 9)
}

// c19QidWrapper (r5): the QID-translating wrapper of fsimpl/qids hands out only wrapped Files.
// Every method of qidTransformFile that returns a p9.File returns, on every path, nil or a
// File wrapped with the wrapper's own mapper - otherwise the QIDs a listing reports for the
// entries of a nested mount (outer namespace) differ from what GetAttr on the walked File
// reports (inner namespace).  Decided as a must-analysis per returned variable: "nil or
// wrapped" is established by an assignment from a qidTransformFile literal (or from a helper
// that returns nil-or-wrapped for its argument) and along the edge v == nil, and destroyed by
// any other assignment.
func c19QidWrapper(r *Run, db *SiteDB) {
	pkg := r.L.Pkg("fsimpl/qids")
	if pkg == nil {
		r.undecided("r5", "fsimpl/qids", token.NoPos, "package not loaded")
		return
	}
	info := pkg.TypesInfo
	isWrapLit := func(e ast.Expr) bool {
		cl, ok := unparen(e).(*ast.CompositeLit)
		return ok && strings.HasSuffix(types.TypeString(info.TypeOf(cl), nil), "qids.qidTransformFile")
	}
	isFile := func(t types.Type) bool { return t != nil && strings.HasSuffix(types.TypeString(t, nil), "p9.File") }
	var wrappedOrNil func(fi *FuncInfo, e ast.Expr, ret *ast.ReturnStmt, depth int) bool
	// flagAt: for variable v of fi, whether "nil or wrapped" holds at each return
	flagAt := func(fi *FuncInfo, v types.Object, depth int) map[*ast.ReturnStmt]bool {
		exits, _ := mustFlag(db, fi, func(n ast.Node, res *resolver) (bool, bool) {
			as, ok := n.(*ast.AssignStmt)
			if !ok {
				return false, false
			}
			for i, lhs := range as.Lhs {
				if objOf(info, lhs) != v {
					continue
				}
				if len(as.Lhs) == len(as.Rhs) {
					return wrappedOrNil(fi, as.Rhs[i], nil, depth+1), true
				}
				return false, true // one of several results of a call (the backend's File)
			}
			return false, false
		}, func(key string, truth bool) bool {
			return truth && (key == v.Name()+" == nil" || key == "nil == "+v.Name())
		})
		return exits
	}
	wrappedOrNil = func(fi *FuncInfo, e ast.Expr, ret *ast.ReturnStmt, depth int) bool {
		e = unparen(e)
		if depth > 3 {
			return false
		}
		if isNilIdent(info, e) || isWrapLit(e) {
			return true
		}
		if c, ok := e.(*ast.CallExpr); ok {
			// a helper that returns nil-or-wrapped whatever it is given
			h := r.L.FuncOf(callee(info, c))
			if h == nil || h.Decl.Body == nil || h.Pkg != pkg {
				return false
			}
			okAll, n := true, 0
			ast.Inspect(h.Decl.Body, func(nd ast.Node) bool {
				if _, isLit := nd.(*ast.FuncLit); isLit {
					return false
				}
				if rs, ok := nd.(*ast.ReturnStmt); ok && len(rs.Results) == 1 {
					n++
					if !wrappedOrNil(h, rs.Results[0], rs, depth+1) {
						okAll = false
					}
				}
				return true
			})
			return okAll && n > 0
		}
		if v := objOf(info, e); v != nil && ret != nil {
			return flagAt(fi, v, depth)[ret]
		}
		return false
	}
	n := 0
	for _, fi := range r.L.funcsOfPkg("fsimpl/qids") {
		if fi.Decl.Recv == nil || fi.Decl.Body == nil || fi.Decl.Type.Results == nil || !strings.HasSuffix(fi.Key, "qidTransformFile."+fi.Decl.Name.Name) {
			continue
		}
		// positions of File results
		var idx []int
		i := 0
		for _, f := range fi.Decl.Type.Results.List {
			k := len(f.Names)
			if k == 0 {
				k = 1
			}
			for j := 0; j < k; j++ {
				if isFile(info.TypeOf(f.Type)) {
					idx = append(idx, i)
				}
				i++
			}
		}
		if len(idx) == 0 {
			continue
		}
		ast.Inspect(fi.Decl.Body, func(nd ast.Node) bool {
			if _, isLit := nd.(*ast.FuncLit); isLit {
				return false
			}
			rs, ok := nd.(*ast.ReturnStmt)
			if !ok || len(rs.Results) != i {
				return true
			}
			for _, k := range idx {
				n++
				r.check(wrappedOrNil(fi, rs.Results[k], rs, 0), "r5", fi.Key+": the File handed out translates its QIDs", rs.Pos(), "nil, or wrapped with the wrapper's mapper, on every path",
					"a File is returned that may be neither nil nor wrapped in qidTransformFile: QIDs obtained through it (GetAttr, Readdir, further walks) are in the inner namespace while the parent's listing reports the outer one")
			}
			return true
		})
	}
	r.floor("r5", "File results of the QID wrapper", n, 3)
}
