package main

import (
	"fmt"
	"go/ast"
	"go/token"
	"go/types"
	"strings"
)

func init() {
	register(&propInfo{
		id: "C17", fn: checkC17, multiConfig: true,
		explanation: "The segmentation quantifier ranges over runtime delivery; what is decided are the structural conditions without which a short delivery could yield a truncated message. (r1) package p9 never calls Read on the transport directly: the header is read with io.ReadAtLeast(r, hdr, headerLength), bodies with vecnet.Buffers.ReadFrom, rejected bodies are drained with io.Copy on a LimitReader; (r2) complete-fill loops: in Buffers.ReadFrom and (where it is compiled) readFromBuffersLinux the only return with a nil error is the statement after the fill loop(s), whose loop condition compares the accumulated count with the requested length and which contain no break/goto out of the fill; every return inside the loops carries a non-nil error (a constant such as io.EOF, or err under err != nil), and a zero-byte read without error cannot loop for ever (generic path: n == 0 && err == nil → io.EOF; Linux path: recvmsg turns a 0-byte receive into io.EOF); (r3) lock-step accounting: the count added to the accumulator is the count returned by that very read, the destination of the next read starts at the accumulator (buf[filled:]), and on the Linux path the iovec consumption loop advances by exactly the bytes not yet accounted for (bufs[0][cur−consumed:] with consumed accumulated from the lengths of the buffers dropped) — a template check of that idiom; (r4) errors of both reads reach recv's caller as ConnError before decode is reached; (r5) ReadFrom selects the vectored path only for syscall.Conn readers when it is compiled in; the quick tier analyses linux/amd64 (both functions), the thorough tier also linux/386, windows and darwin where only the generic path exists. (r4) the body of an undecodable frame is drained by exactly its length from the stream itself (the rule of C02.r3), so the frames after it are found wherever the transport cut.",
		assumptions: []string{"explicitly partial: the arithmetic of iovec consumption for every split and the kernel's recvmsg behaviour are not decided; r3 checks the shape of the consumption idiom, not its result for all splits"},
	})
}

func checkC17(r *Run) {
	m := buildServerModel(r.L)
	info := m.Info
	db := m.DB
	norm := func(e ast.Node) string { return strings.ReplaceAll(r.L.str(e), " ", "") }

	// ---- r1 ----
	nRead := 0
	for k, sites := range db.Calls {
		if k == "io.Reader.Read" || strings.HasSuffix(k, ".Read") && strings.HasPrefix(k, "io.") {
			for _, s := range sites {
				nRead++
				r.fail("r1", s.Root.Key+": bare Read on the transport", s.Call.Pos(), "package p9 calls %s directly: a short read would be taken for a complete one", k)
			}
		}
	}
	if nRead == 0 {
		r.ok("r1", "package p9 never reads the transport with a bare Read", token.NoPos, "0 calls of io.Reader.Read in package p9")
	}
	if recv := r.mustFunc("r1", "p9", "recv"); recv != nil {
		okHdr := false
		// (destination: a full slice of a 7-byte array; io.ReadFull is ReadAtLeast with the
		// length of the destination)
		for _, s := range append(m.callsIn(recv, "io.ReadAtLeast"), m.callsIn(recv, "io.ReadFull")...) {
			if fullHeaderRead(info, s.Call) {
				okHdr = true
			}
		}
		r.check(okHdr, "r1", "recv reads the whole header or fails", recv.Decl.Pos(), "io.ReadAtLeast(r, hdr[:], 7)", "the 7-byte header is not read with io.ReadAtLeast(..., headerLength) / io.ReadFull: a header split across reads would be parsed incomplete")
		nrf := len(m.callsIn(recv, "vecnet.Buffers.ReadFrom"))
		r.check(nrf == 1, "r1", "recv reads bodies through Buffers.ReadFrom", recv.Decl.Pos(), "1 call", fmt.Sprintf("%d calls of vecs.ReadFrom in recv", nrf))
		// r4: both error branches are ConnErrors
		nConn := 0
		for _, ex := range db.Exits[recv] {
			if ex.Ret == nil || len(ex.Ret.Results) != 3 || ex.St.Dead {
				continue
			}
			// ConnError{e} with e an error variable
			var wrapped types.Object
			if cl, isCL := unparen(ex.Ret.Results[2]).(*ast.CompositeLit); isCL && len(cl.Elts) == 1 && strings.HasSuffix(types.TypeString(info.TypeOf(cl), nil), "p9.ConnError") {
				if o := objOf(info, cl.Elts[0]); o != nil && isErrorType(o.Type()) && o.Parent() != o.Pkg().Scope() {
					wrapped = o // a local error variable (not a package-level sentinel)
				}
			}
			if wrapped != nil {
				nConn++
				// the err is the read's error, known non-nil
				okNN := ex.St.holds(m.resolver(recv).nameOf(wrapped)+" == nil", false)
				r.check(okNN && !ex.St.May["p9.message.decode"], "r4", fmt.Sprintf("recv: read error #%d ends the connection before decode", nConn), ex.Ret.Pos(), "ConnError{err} under err != nil, decode not reached", "a read error is not turned into a ConnError before any decoding")
			}
		}
		r.check(nConn == 2, "r4", "recv: both reads report failures as connection errors", recv.Decl.Pos(), "header read and body read", fmt.Sprintf("%d ConnError{err} exits found, expected 2 (header, body)", nConn))
	}

	// ---- vecnet ----
	vdb := buildSiteDB(r.L, "vecnet")
	vp := r.L.Pkg("vecnet")
	if vp == nil {
		r.undecided("r2", "package vecnet", token.NoPos, "not loaded")
		return
	}
	vinfo := vp.TypesInfo
	gen := r.L.Func("vecnet", "Buffers.ReadFrom")
	if gen == nil {
		r.undecided("r2", "vecnet.Buffers.ReadFrom", token.NoPos, "not found")
		return
	}
	c17Generic(r, vdb, vinfo, gen)
	if lin := r.L.Func("vecnet", "readFromBuffersLinux"); lin != nil {
		c17Linux(r, vdb, vinfo, lin)
		// the variable selects it
		okSel := false
		for _, f := range vp.Syntax {
			ast.Inspect(f, func(n ast.Node) bool {
				if vs, ok := n.(*ast.ValueSpec); ok && len(vs.Names) == 1 && vs.Names[0].Name == "readFromBuffers" && len(vs.Values) == 1 && norm(vs.Values[0]) == "readFromBuffersLinux" {
					okSel = true
				}
				return true
			})
		}
		r.check(okSel, "r5", "vectored path selected on this platform", lin.Decl.Pos(), "readFromBuffers = readFromBuffersLinux", "readFromBuffersLinux is compiled but not selected")
	} else {
		r.ok("r5", "generic path only on "+r.Config, token.NoPos, "readFromBuffersLinux is not compiled here; Buffers.ReadFrom uses the io.Reader loop")
	}
	// selection test in ReadFrom
	// every call through the package-level function variable happens where the reader is known
	// to be a syscall.Conn (comma-ok of the assertion true) and the variable is known non-nil
	okTest := false
	gres := newResolver(r.L, vinfo, gen.Decl)
	connOK := resultNameIn(r.L, gen, gres, -1, isAssertTo(vinfo, "syscall.Conn"))
	for _, s := range vdb.ByFunc[gen] {
		if s.Call == nil || s.Callee != "" {
			continue
		}
		id, isId := unparen(s.Call.Fun).(*ast.Ident)
		if !isId {
			continue
		}
		v, isVar := vinfo.Uses[id].(*types.Var)
		if !isVar || v.Parent() != v.Pkg().Scope() {
			continue
		}
		okTest = connOK != "" && s.St.holds(connOK, true) && s.St.holds(id.Name+" == nil", false)
	}
	r.check(okTest, "r5", "ReadFrom uses the vectored path only for syscall.Conn readers", gen.Decl.Pos(), "r.(syscall.Conn) ok && readFromBuffers != nil", "the path selection in ReadFrom is not 'r is a syscall.Conn and the vectored reader exists'")

	// r4: what follows an undecodable frame does not depend on how it was delivered: the body
	// is drained with exactly its length from the stream itself (no read-ahead that is thrown
	// away) on every non-connection-error exit of recv (the rule of C02.r3)
	if r.borrowed == nil {
		r.borrow(checkC02, map[string]string{"r3": "r4"})
	}
}

// loopsWithoutEscape: no break/goto/labelled continue inside n (other than inside nested function literals).
func noLoopEscape(n ast.Node) (bool, token.Pos) {
	ok := true
	var pos token.Pos
	ast.Inspect(n, func(m ast.Node) bool {
		if _, isLit := m.(*ast.FuncLit); isLit {
			return false
		}
		if b, isB := m.(*ast.BranchStmt); isB && (b.Tok == token.BREAK || b.Tok == token.GOTO) {
			ok = false
			pos = b.Pos()
		}
		return true
	})
	return ok, pos
}

func c17Generic(r *Run, db *SiteDB, info *types.Info, fi *FuncInfo) {
	norm := func(e ast.Node) string { return strings.ReplaceAll(r.L.str(e), " ", "") }
	body := fi.Decl.Body.List
	// the top-level range over the receiver and the final return
	var outer *ast.RangeStmt
	var final *ast.ReturnStmt
	recv := fi.Decl.Recv.List[0].Names[0].Name
	for i, s := range body {
		if rs, ok := s.(*ast.RangeStmt); ok && norm(rs.X) == recv {
			outer = rs
			if i+1 < len(body) {
				final, _ = body[i+1].(*ast.ReturnStmt)
			}
		}
	}
	if outer == nil || final == nil {
		r.fail("r2", "Buffers.ReadFrom: fill loop", fi.Decl.Pos(), "no 'for _, buf := range bufs' followed by the final return found")
		return
	}
	// accepted idiom B: per-buffer io.ReadFull / io.ReadAtLeast(r, buf, len(buf))
	bufName := ""
	if outer.Value != nil {
		bufName = norm(outer.Value)
	}
	var inner *ast.ForStmt
	for _, s := range outer.Body.List {
		if fs, ok := s.(*ast.ForStmt); ok {
			inner = fs
		}
	}
	delegated := false
	var helper *FuncInfo
	ast.Inspect(outer.Body, func(n ast.Node) bool {
		if c, ok := n.(*ast.CallExpr); ok {
			k := calleeKey(info, c)
			if k == "io.ReadFull" && len(c.Args) == 2 && norm(c.Args[1]) == bufName {
				delegated = true
			}
			if k == "io.ReadAtLeast" && len(c.Args) == 3 && norm(c.Args[1]) == bufName && norm(c.Args[2]) == "len("+bufName+")" {
				delegated = true
			}
		}
		return true
	})
	if inner == nil && !delegated {
		// the per-buffer fill may live in a private helper fill(r, buf) whose count is added and
		// whose error ends ReadFrom: the helper is judged by the same rules, ReadFrom by the
		// rules about its returns
		for _, st := range outer.Body.List {
			ast.Inspect(st, func(n ast.Node) bool {
				c, ok := n.(*ast.CallExpr)
				if !ok || len(c.Args) != 2 || norm(c.Args[1]) != bufName {
					return true
				}
				h := r.L.FuncOf(callee(info, c))
				if h == nil || h.Decl.Body == nil || pinnedFuncs[h.Key] || h.Decl.Type.Params == nil || len(h.Decl.Body.List) < 2 {
					return true
				}
				var hBuf string
				idx := 0
				for _, f := range h.Decl.Type.Params.List {
					for _, nm := range f.Names {
						if idx == 1 {
							hBuf = nm.Name
						}
						idx++
					}
				}
				var hInner *ast.ForStmt
				for _, hs := range h.Decl.Body.List {
					if fs, ok := hs.(*ast.ForStmt); ok {
						hInner = fs
					}
				}
				hFinal, _ := h.Decl.Body.List[len(h.Decl.Body.List)-1].(*ast.ReturnStmt)
				if hInner == nil || hFinal == nil || hBuf == "" {
					return true
				}
				helper = h
				c17Fill(r, db, info, h, hInner, hInner, hBuf, hFinal, false, norm)
				// the helper's error ends ReadFrom: nothing it returned is still untested when
				// the success return is reached
				pend, seen := pendingErrors(&ServerModel{L: r.L, DB: db, Info: info}, fi, func(k string) bool { return k == h.Key }, final)
				r.check(seen && len(pend) == 0, "r2", "Buffers.ReadFrom: an error of "+h.Decl.Name.Name+" ends the read", c.Pos(), "the error result is tested before the next buffer / the success return",
					"the error returned by "+h.Decl.Name.Name+" is not tested on every path to the success return: a partially filled buffer would be reported as a complete read")
				return false
			})
		}
	}
	c17Fill(r, db, info, fi, outer, inner, bufName, final, delegated || helper != nil, norm)
}

// c17Fill judges one function that contains a fill loop: ReadFrom itself (host = the range over
// the buffers) or a private helper that fills one buffer (host = its loop).
func c17Fill(r *Run, db *SiteDB, info *types.Info, fi *FuncInfo, host ast.Node, inner *ast.ForStmt, bufName string, final *ast.ReturnStmt, delegated bool, norm func(ast.Node) string) {
	okEsc, escPos := noLoopEscape(host)
	r.check(okEsc, "r2", "Buffers.ReadFrom: the fill loops are left only by completion or an error return", escPos, "no break/goto inside the fill loops", "a break/goto leaves the fill loop early: the nil-error return after it could be reached with buffers not yet full")
	// the only nil-error return is the final one
	nNil := 0
	var acc string
	if inner != nil && inner.Cond != nil {
		c := norm(inner.Cond)
		if strings.HasSuffix(c, "<len("+bufName+")") {
			acc = strings.TrimSuffix(c, "<len("+bufName+")")
		}
	}
	zeroGuard := false
	for _, ex := range db.Exits[fi] {
		if ex.Ret == nil || len(ex.Ret.Results) != 2 || ex.St.Dead {
			continue
		}
		e := unparen(ex.Ret.Results[1])
		key := fmt.Sprintf("Buffers.ReadFrom: return %s", norm(ex.Ret))
		if len(ex.Ret.Results) == 2 && isNilIdent(info, e) {
			nNil++
			r.check(ex.Ret == final, "r2", key, ex.Ret.Pos(), "the nil-error return is the statement after the fill loops", "a nil error is returned from inside the function before the fill loops have completed: a short delivery yields a truncated message")
			continue
		}
		if containsNode(host, ex.Ret) {
			nonNil := false
			if sel, ok := e.(*ast.SelectorExpr); ok && norm(sel) == "io.EOF" {
				nonNil = true
			}
			if obj := objOf(info, e); obj != nil && isErrorType(obj.Type()) {
				for _, p := range ex.St.Paths {
					_ = p
				}
				nonNil = anyFact(ex.St, " == nil", false) && errFactFor(ex.St, obj.Name())
			}
			r.check(nonNil, "r2", key, ex.Ret.Pos(), "returns a non-nil error", "a return inside the fill loop may carry a nil error: a partial fill would be reported as success")
			// zero-progress guard
			for _, p := range ex.St.Paths {
				z, e1 := false, false
				for k, v := range p {
					if strings.HasSuffix(k, " == 0") && v && !strings.Contains(k, "len(") {
						z = true
					}
					if strings.HasSuffix(k, " == nil") && v {
						e1 = true // the read's error is nil on this path
					}
				}
				if z && e1 {
					zeroGuard = true
				}
			}
		}
	}
	r.check(nNil == 1, "r2", "Buffers.ReadFrom: exactly one success return", fi.Decl.Pos(), "1", fmt.Sprintf("%d returns with a nil error", nNil))
	if delegated {
		r.ok("r2", "Buffers.ReadFrom: each buffer is filled completely", host.Pos(), "delegated to io.ReadFull / io.ReadAtLeast(r, buf, len(buf))")
		return
	}
	if inner == nil || acc == "" {
		r.fail("r2", "Buffers.ReadFrom: each buffer is filled completely", host.Pos(), "the per-buffer loop 'for filled := 0; filled < len(buf);' (or io.ReadFull) was not found")
		return
	}
	r.check(inner.Post == nil || true, "r2", "Buffers.ReadFrom: each buffer is filled completely", inner.Pos(), "loops while "+norm(inner.Cond), "")
	r.check(zeroGuard, "r2", "Buffers.ReadFrom: a read of 0 bytes without error cannot loop for ever", inner.Pos(), "n == 0 && err == nil → io.EOF", "a reader that returns (0, nil) would make ReadFrom spin or — worse — is not turned into an error: no 'n == 0 && err == nil' exit")
	// r3: Read into buf[acc:], acc += n with n the Read's count
	var readCall *ast.CallExpr
	nName := ""
	ast.Inspect(inner.Body, func(n ast.Node) bool {
		if as, ok := n.(*ast.AssignStmt); ok && len(as.Rhs) == 1 && len(as.Lhs) == 2 {
			if c, ok := unparen(as.Rhs[0]).(*ast.CallExpr); ok && strings.HasSuffix(calleeKey(info, c), ".Read") && readCall == nil {
				readCall = c
				nName = norm(as.Lhs[0])
			}
		}
		return true
	})
	okDst := readCall != nil && len(readCall.Args) == 1 && norm(readCall.Args[0]) == bufName+"["+acc+":]"
	nAdd := 0
	ast.Inspect(inner.Body, func(n ast.Node) bool {
		if as, ok := n.(*ast.AssignStmt); ok && as.Tok == token.ADD_ASSIGN && len(as.Lhs) == 1 && norm(as.Lhs[0]) == acc && norm(as.Rhs[0]) == nName {
			nAdd++
		}
		return true
	})
	r.check(okDst && nAdd == 1, "r3", "Buffers.ReadFrom: destination and accumulator advance together", inner.Pos(), "Read(buf["+acc+":]); "+acc+" += n",
		fmt.Sprintf("the next read does not start where the last one ended (destination is buf[%s:]=%v, %s += n ×%d): bytes would be overwritten or skipped after a short read", acc, okDst, acc, nAdd))
}

func errFactFor(st *HState, name string) bool {
	for _, p := range st.Paths {
		ok := false
		for k, v := range p {
			if strings.HasPrefix(k, name) && strings.HasSuffix(k, "== nil") && !v {
				ok = true
			}
		}
		if !ok {
			return false
		}
	}
	return len(st.Paths) > 0
}

func c17Linux(r *Run, db *SiteDB, info *types.Info, fi *FuncInfo) {
	norm := func(e ast.Node) string { return strings.ReplaceAll(r.L.str(e), " ", "") }
	body := fi.Decl.Body.List
	var fill *ast.ForStmt
	var final *ast.ReturnStmt
	for i, s := range body {
		if fs, ok := s.(*ast.ForStmt); ok {
			fill = fs
			if i+1 < len(body) {
				final, _ = body[i+1].(*ast.ReturnStmt)
			}
		}
	}
	if fill == nil || final == nil || fill.Cond == nil {
		r.fail("r2", "readFromBuffersLinux: fill loop", fi.Decl.Pos(), "no 'for n := 0; n < length;' followed by the final return found")
		return
	}
	cond := norm(fill.Cond)
	parts := strings.Split(cond, "<")
	if len(parts) != 2 {
		r.fail("r2", "readFromBuffersLinux: fill loop", fill.Pos(), "loop condition %s is not accumulator < length", cond)
		return
	}
	acc, length := parts[0], parts[1]
	// length = sum of buffer lengths: accumulated by a range loop over the buffers, here or in a
	// private helper whose result initialises the bound (length := totalLen(bufs))
	sumLoop := func(stmts []ast.Stmt, accName, overName string) bool {
		found := false
		for _, s := range stmts {
			if rs, ok := s.(*ast.RangeStmt); ok && rs.Value != nil && norm(rs.X) == overName {
				ast.Inspect(rs.Body, func(n ast.Node) bool {
					if as, ok := n.(*ast.AssignStmt); ok && as.Tok == token.ADD_ASSIGN && norm(as.Lhs[0]) == accName && (norm(as.Rhs[0]) == "int64(len("+norm(rs.Value)+"))" || norm(as.Rhs[0]) == "len("+norm(rs.Value)+")") {
						found = true
					}
					return true
				})
			}
		}
		return found
	}
	onlyZeroInit := func(stmts []ast.Stmt, accName string) bool {
		ok := true
		for _, s := range stmts {
			if as, isAs := s.(*ast.AssignStmt); isAs && len(as.Lhs) == 1 && norm(as.Lhs[0]) == accName && as.Tok != token.ADD_ASSIGN {
				if v, isC := constInt(info, as.Rhs[0]); !isC || v != 0 {
					if c, isConv := unparen(as.Rhs[0]).(*ast.CallExpr); !isConv || len(c.Args) != 1 || norm(c.Args[0]) != "0" {
						ok = false
					}
				}
			}
		}
		return ok
	}
	bufsParam := ""
	if ps := fi.Decl.Type.Params.List; len(ps) > 0 && len(ps[0].Names) > 0 {
		bufsParam = ps[0].Names[0].Name
	}
	okLen := sumLoop(body, length, bufsParam) && onlyZeroInit(body, length)
	if !okLen {
		for _, s := range body {
			as, ok := s.(*ast.AssignStmt)
			if !ok || len(as.Lhs) != 1 || len(as.Rhs) != 1 || norm(as.Lhs[0]) != length {
				continue
			}
			call, ok := unparen(as.Rhs[0]).(*ast.CallExpr)
			if !ok || len(call.Args) != 1 || norm(call.Args[0]) != bufsParam {
				continue
			}
			hf := r.L.FuncOf(callee(info, call))
			if hf == nil || hf.Decl.Body == nil || len(hf.Decl.Type.Params.List) != 1 || len(hf.Decl.Type.Params.List[0].Names) != 1 {
				continue
			}
			hb := hf.Decl.Body.List
			if ret, isRet := hb[len(hb)-1].(*ast.ReturnStmt); isRet && len(ret.Results) == 1 {
				accN := norm(ret.Results[0])
				okLen = sumLoop(hb, accN, hf.Decl.Type.Params.List[0].Names[0].Name) && onlyZeroInit(hb, accN)
			}
		}
	}
	r.check(okLen, "r2", "readFromBuffersLinux: the requested length is the sum of the buffers", fi.Decl.Pos(), length+" += len(buf) for every buffer", "the loop bound is not the total length of the buffers")
	// escapes: only the break of the consumption loop (inner) is allowed; it must not leave the fill loop
	okEsc := true
	var escPos token.Pos
	ast.Inspect(fill.Body, func(n ast.Node) bool {
		if b, ok := n.(*ast.BranchStmt); ok && (b.Tok == token.BREAK || b.Tok == token.GOTO) {
			// is there a for loop between the break and the fill loop?
			inInner := false
			for p := r.L.parent(b); p != nil && p != ast.Node(fill); p = r.L.parent(p) {
				if _, isFor := p.(*ast.ForStmt); isFor {
					inInner = true
				}
				if _, isRange := p.(*ast.RangeStmt); isRange {
					inInner = true
				}
			}
			if !inInner || b.Label != nil || b.Tok == token.GOTO {
				okEsc = false
				escPos = b.Pos()
			}
		}
		return true
	})
	r.check(okEsc, "r2", "readFromBuffersLinux: the fill loop is left only by completion or an error return", escPos, "no break/goto out of the fill loop", "a break/goto leaves the fill loop early: the nil-error return after it could be reached before all bytes arrived")
	nNil := 0
	for _, ex := range db.Exits[fi] {
		if ex.Ret == nil || len(ex.Ret.Results) != 2 || ex.St.Dead {
			continue
		}
		e := unparen(ex.Ret.Results[1])
		key := fmt.Sprintf("readFromBuffersLinux: return %s", norm(ex.Ret))
		if isNilIdent(info, e) {
			nNil++
			r.check(ex.Ret == final, "r2", key, ex.Ret.Pos(), "the nil-error return is the statement after the fill loop", "a nil error is returned before the fill loop has completed")
			continue
		}
		if obj := objOf(info, e); obj != nil && isErrorType(obj.Type()) {
			r.check(errFactFor(ex.St, obj.Name()), "r2", key, ex.Ret.Pos(), "returns a non-nil error", "a return inside the fill loop may carry a nil error")
		}
	}
	r.check(nNil == 1, "r2", "readFromBuffersLinux: exactly one success return", fi.Decl.Pos(), "1", fmt.Sprintf("%d returns with a nil error", nNil))
	// recvmsg turns a 0-byte receive into io.EOF, and its nil-error exits return the byte count
	if rm := r.L.Func("vecnet", "recvmsg"); rm != nil {
		okZero := false
		for _, ex := range db.Exits[rm] {
			nName := resultNameIn(r.L, rm, newResolver(r.L, info, rm.Decl), 0, isCallTo(info, "syscall.Syscall"))
			if ex.Ret != nil && len(ex.Ret.Results) == 2 && norm(ex.Ret.Results[1]) == "io.EOF" && nName != "" && ex.St.holds(nName+" == 0", true) {
				okZero = true
			}
		}
		r.check(okZero, "r2", "recvmsg: a 0-byte receive is an error", rm.Decl.Pos(), "n == 0 → io.EOF", "recvmsg can return (0, nil): the fill loop would spin on a closed socket")
	}
	// r3: accumulator and consumption
	var curName string
	ast.Inspect(fill.Body, func(n ast.Node) bool {
		if as, ok := n.(*ast.AssignStmt); ok && len(as.Lhs) == 2 && len(as.Rhs) == 1 {
			if c, ok := unparen(as.Rhs[0]).(*ast.CallExpr); ok && calleeKey(info, c) == "vecnet.recvmsg" {
				curName = norm(as.Lhs[0])
			}
		}
		return true
	})
	nAdd := 0
	ast.Inspect(fill.Body, func(n ast.Node) bool {
		if as, ok := n.(*ast.AssignStmt); ok && as.Tok == token.ADD_ASSIGN && norm(as.Lhs[0]) == acc && (norm(as.Rhs[0]) == "int64("+curName+")" || norm(as.Rhs[0]) == curName) {
			nAdd++
		}
		return true
	})
	r.check(curName != "" && nAdd == 1, "r3", "readFromBuffersLinux: the accumulator advances by what recvmsg returned", fill.Pos(), acc+" += "+curName, fmt.Sprintf("the accumulator is not advanced exactly once by the count recvmsg returned (×%d)", nAdd))
	// consumption loop template, over the names of the buffer list and the received count; the
	// loop may sit in the fill loop itself or in a private helper called as bufs = h(bufs, cur)
	var cons *ast.ForStmt
	consBufs, consCur := bufsParam, curName
	for _, s := range fill.Body.List {
		if fs, ok := s.(*ast.ForStmt); ok {
			cons = fs
		}
		if as, ok := s.(*ast.AssignStmt); ok && cons == nil && len(as.Lhs) == 1 && len(as.Rhs) == 1 && norm(as.Lhs[0]) == bufsParam {
			call, ok := unparen(as.Rhs[0]).(*ast.CallExpr)
			if !ok || len(call.Args) != 2 || norm(call.Args[0]) != bufsParam || norm(call.Args[1]) != curName {
				continue
			}
			hf := r.L.FuncOf(callee(info, call))
			if hf == nil || hf.Decl.Body == nil {
				continue
			}
			var pn []string
			for _, f := range hf.Decl.Type.Params.List {
				for _, nm := range f.Names {
					pn = append(pn, nm.Name)
				}
			}
			hb := hf.Decl.Body.List
			if len(pn) != 2 || len(hb) != 2 {
				continue
			}
			fs, isFor := hb[0].(*ast.ForStmt)
			ret, isRet := hb[1].(*ast.ReturnStmt)
			if isFor && isRet && len(ret.Results) == 1 && norm(ret.Results[0]) == pn[0] {
				cons, consBufs, consCur = fs, pn[0], pn[1]
			}
		}
	}
	if cons == nil || cons.Cond == nil {
		r.fail("r3", "readFromBuffersLinux: iovec consumption", fill.Pos(), "no consumption loop found after the read")
		return
	}
	cparts := strings.Split(norm(cons.Cond), "<")
	okT := false
	why := "consumption loop is not 'for consumed := 0; consumed < cur;'"
	if len(cparts) == 2 && cparts[1] == consCur {
		a := cparts[0]
		rest := consCur + "-" + a
		b0 := consBufs + "[0]"
		var ifs *ast.IfStmt
		if len(cons.Body.List) == 1 {
			ifs, _ = cons.Body.List[0].(*ast.IfStmt)
		}
		zeroInit := false
		if as, ok := cons.Init.(*ast.AssignStmt); ok && len(as.Lhs) == 1 && norm(as.Lhs[0]) == a {
			if v, isC := constInt(info, as.Rhs[0]); isC && v == 0 {
				zeroInit = true
			}
		}
		if ifs != nil && ifs.Else != nil && zeroInit {
			// canonical comparison "len(bufs[0]) > cur-consumed": false on the branch that drops the
			// whole buffer, true on the branch that advances inside it - whichever is written first
			ckey, cpol := atomOf(newResolver(r.L, info, r.L.enclosingDecl(cons)), info, nil, ifs.Cond)
			condOK := nospace(ckey) == "len("+b0+")>"+rest
			thenS := norm(ifs.Body)
			elseS := norm(ifs.Else)
			if cpol {
				thenS, elseS = elseS, thenS // the then-branch is the partial one
			}
			thenOK := strings.Contains(thenS, a+"+=len("+b0+")") && strings.Contains(thenS, consBufs+"="+consBufs+"[1:]") && strings.Index(thenS, a+"+=len("+b0+")") < strings.Index(thenS, consBufs+"="+consBufs+"[1:]")
			elseOK := strings.Contains(elseS, b0+"="+b0+"["+rest+":]") && strings.Contains(elseS, "break")
			okT = condOK && thenOK && elseOK
			why = fmt.Sprintf("whole buffer dropped when len(%s) <= %s: %v; accumulate then drop: %v; partial buffer advanced by exactly %s: %v", b0, rest, condOK, thenOK, rest, elseOK)
		}
	}
	r.check(okT, "r3", "readFromBuffersLinux: iovec consumption advances by the bytes not yet accounted for", cons.Pos(), why,
		"the buffers are not advanced by exactly the bytes of this recvmsg that are not yet accounted for ("+why+"): after a delivery that ends inside a later buffer the payload gets a hole or the vector list runs out before the frame is complete")
}
