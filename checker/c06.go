package main

import (
	"fmt"
	"go/ast"
	"go/token"
	"go/types"
	"sort"
	"strings"
)

func init() {
	register(&propInfo{
		id: "C06", fn: checkC06, multiConfig: true,
		explanation: "All clauses are facts about the shape of connState.handleRequest and its helpers: (r1) on every path, the number of send calls is exactly one when the tag was started (carrying the tag value returned by recv and the message returned by cs.handle) or when recv reported a protocol error (carrying newErr(err)), and exactly zero on the connection-error, shutdown and duplicate-tag paths — counted by a min/max call-count dataflow, so a send inside a loop or on two branches of one path is seen; (r2) send on a connection is called only from handleRequest and Client.sendRecv, handler.handle only from connState.handle; (r3) every send site holds the connection's sendMu and send() hands header, fixed part and payload to a single vectored write; (r4) recvMu is not held (may-analysis) when cs.handle runs, and the spawn of a further receiver happens under the receive token, preceded by pendingWg.Add, conditioned on recvIdle == 0; (r5) ClearTag follows cs.handle and precedes the send, has no other caller, and cs.handle always yields a message because its deferred function recovers and substitutes EFAULT; (r6) no call that may reach an opaque backend method is made while fidMu, tagMu, sendMu or recvMu may be held (interprocedural may-held sets); (r7) a Tflush naming its own tag cannot wait for itself (shared with C14.r3). (r9) framing survives a rejected frame: every non-connection-error exit of recv has consumed exactly the frame's body (the rule of C02.r3), so the requests after an undecodable frame are still answered and no reply is made up from leftover bytes. (r10) stop waits for pendingWg before closing either transport, so replies of in-flight requests are still written (the rule of C05.r5); (r6, continued) lock regions that reach the backend are the documented ones (the pairing rule of C16.r8). (r11) no request waits for a lock for ever: the server's lock-order graph is acyclic, a read lock is not re-acquired where a queued writer can split the two acquisitions, and two path nodes are locked parent before child only (the rules of C16.r1/r2).",
		assumptions: []string{"fairness and actual progress under a scheduler are not decided; 'delays only what the contract orders' is decided in the necessary-condition form r4+r6 (no extra serialisation point exists)"},
	})
	register(&propInfo{
		id: "C14", fn: checkC14, multiConfig: true,
		explanation: "(r1) every exit of tflush.handle that returns Rflush has passed cs.WaitTag(t.OldTag); (r2) WaitTag blocks on the channel registered by StartTag for that tag and returns at once when none is registered, the channel is closed only in ClearTag, ClearTag is called only in handleRequest after cs.handle has returned, and no go statement is reachable from any handler, so all backend calls of a request (including deferred DecRef → Close) happen before its tag is cleared; (r3) a wait performed on behalf of a request cannot select that request's own channel: the request's tag (the recv result) reaches a comparison with OldTag that bypasses the wait; (r4) nothing reachable from tflush.handle writes connection state, sends, clears tags, touches the fid table or calls the backend; (r5) WaitTag holds no lock while blocked.",
		assumptions: []string{"mutual flush cycles between several in-flight flushes are a liveness question over request histories and are not decided"},
	})
}

// --- call counting (min/max number of calls of a key on the paths to a point) ---

type cnt struct{ Min, Max int }

func countCalls(db *SiteDB, info *types.Info, fi *FuncInfo, key string) (exits map[*ast.ReturnStmt]cnt, fallOff *cnt) {
	l, wrappers := db.L, db.Wrappers
	exits = map[*ast.ReturnStmt]cnt{}
	// Calls made by private helpers count as well: they are analysed in place.
	a := &Analysis[cnt]{L: l, Info: info, Wrappers: wrappers, Inline: inlinePolicy[cnt](db, fi),
		Join: func(a, b cnt) cnt {
			o := a
			if b.Min < o.Min {
				o.Min = b.Min
			}
			if b.Max > o.Max {
				o.Max = b.Max
			}
			return o
		},
		Equal: func(a, b cnt) bool { return a == b },
		Copy:  func(a cnt) cnt { return a },
	}
	a.Stmt = func(s cnt, n ast.Node, fc *FlowCtx[cnt]) cnt {
		if _, isDefer := n.(*ast.DeferStmt); isDefer {
			return s
		}
		if _, isGo := n.(*ast.GoStmt); isGo {
			return s
		}
		inspectNoLit(n, func(m ast.Node) {
			if c, ok := m.(*ast.CallExpr); ok && calleeKey(info, c) == key {
				s.Min++
				if s.Max < 1000 {
					s.Max++
				}
			}
		})
		return s
	}
	a.Exit = func(s cnt, ret *ast.ReturnStmt, fc *FlowCtx[cnt]) {
		if fc.Parent != nil {
			return
		}
		if ret == nil {
			c := s
			fallOff = &c
			return
		}
		if prev, ok := exits[ret]; ok {
			s = a.Join(prev, s)
		}
		exits[ret] = s
	}
	a.Run(fi.Decl, cnt{})
	return
}

func checkC06(r *Run) {
	m := buildServerModel(r.L)
	info := m.Info
	db := m.DB
	hr := r.mustFunc("r1", "p9", "connState.handleRequest")
	if hr == nil {
		return
	}
	res := m.resolver(hr)
	// Identify the variables: tag, m, err := recv(...)
	var recvCall *ast.CallExpr
	var tagName, msgName, errName string
	var recvSite *Site
	for _, s := range m.callsIn(hr, "p9.recv") {
		recvCall, recvSite = s.Call, s
		// the variables of handleRequest that hold recv's results (directly, or through the
		// results of a private helper that does the receiving)
		tagName, msgName, errName = m.resultVarIn(hr, s, 0), m.resultVarIn(hr, s, 1), m.resultVarIn(hr, s, 2)
	}
	if recvCall == nil || tagName == "" {
		r.undecided("r1", "handleRequest: recv", hr.Decl.Pos(), "no 'tag, m, err := recv(...)' found")
		return
	}
	// --- r1: number of sends per exit ---
	counts, fall := countCalls(db, info, hr, "p9.send")
	if fall != nil {
		r.undecided("r1", "handleRequest falls off its end", hr.Decl.End(), "expected explicit returns")
	}
	csName := "cs"
	if hr.Decl.Recv != nil && len(hr.Decl.Recv.List[0].Names) == 1 {
		csName = hr.Decl.Recv.List[0].Names[0].Name
	}
	startKey := csName + ".StartTag(" + tagName + ")"
	nExits := 0
	for _, ex := range db.Exits[hr] {
		if ex.Fn != ast.Node(hr.Decl) || ex.Ret == nil || ex.St.Dead {
			continue
		}
		nExits++
		c, ok := counts[ex.Ret]
		if !ok {
			r.undecided("r1", fmt.Sprintf("handleRequest exit #%d", nExits), ex.Ret.Pos(), "no send count for this exit")
			continue
		}
		// The paths that reach this exit are judged in groups: those on which StartTag
		// succeeded (a started request is owed exactly one reply) and the others.  Each path
		// carries its own count of send calls (SiteDB.CountIn); when the path set was
		// collapsed the exit is judged as a whole with the range of the counting pass.
		connOK, connTruth := m.boolTest(hr, isAssertTo(info, "p9.ConnError"))
		type group struct {
			paths    []FactSet
			min, max int
		}
		groups := map[bool]*group{}
		perPath := true
		for _, p := range ex.St.Paths {
			n, known := pathCount(p, "p9.send")
			if !known {
				perPath = false
				break
			}
			st := p[startKey]
			g := groups[st]
			if g == nil {
				g = &group{min: n, max: n}
				groups[st] = g
			}
			g.paths = append(g.paths, p)
			if n < g.min {
				g.min = n
			}
			if n > g.max {
				g.max = n
			}
		}
		if !perPath || len(ex.St.Paths) == 0 {
			groups = map[bool]*group{ex.St.holds(startKey, true): {paths: ex.St.Paths, min: c.Min, max: c.Max}}
		}
		for _, started := range []bool{true, false} {
			g := groups[started]
			if g == nil {
				continue
			}
			gs := &HState{Paths: g.paths}
			want := 0
			why := "no reply on this path (connection error, shutdown or duplicate tag)"
			protoErr := gs.holds(errName+" == nil", false) && !(connOK != "" && gs.holds(connOK, connTruth)) // err != nil and not a ConnError
			connErr := false
			for _, p := range g.paths {
				for k, v := range p {
					if connOK != "" && k == connOK && v == connTruth && ex.St.Must["p9.recv"] && !started {
						// errSocket, ok := err.(ConnError); ok
						connErr = true
					}
				}
			}
			switch {
			case started:
				want, why = 1, "request started: exactly one reply"
			case protoErr && !connErr && ex.St.Must["p9.recv"] && ex.St.Must["p9.newErr"]:
				want, why = 1, "protocol error: exactly one Rlerror"
			}
			key := fmt.Sprintf("handleRequest exit #%d (%s)", nExits, exitLabel(r, ex))
			if len(groups) > 1 {
				if started {
					key += ", paths with the request started"
				} else {
					key += ", paths without a started request"
				}
			}
			if g.min == want && g.max == want {
				r.ok("r1", key, ex.Ret.Pos(), "%s; sends on every path to this exit: %d", why, want)
			} else {
				r.fail("r1", key, ex.Ret.Pos(), "%s, but the paths to this exit perform between %d and %d send calls", why, g.min, g.max)
			}
		}
	}
	r.floor("r1", "exits of handleRequest", nExits, 3)
	// Arguments of the sends.
	nSend := 0
	sends := m.callsDeep(hr, "p9.send") // sends made through private helpers included
	for _, s := range sends {
		nSend++
		if len(s.Call.Args) != 4 {
			r.undecided("r1", "handleRequest: send arguments", s.Call.Pos(), "send has %d arguments", len(s.Call.Args))
			continue
		}
		tagArg := s.arg(2)
		msgArg := s.argExpr(info, 3)
		key := fmt.Sprintf("handleRequest: send #%d", nSend)
		// tag is the recv result, not reassigned (single definition => resolver keeps the name)
		// (single definition: the recv call itself, or the call of the helper whose result it is)
		tagObj := m.resultObjIn(hr, recvSite, 0)
		tagDef := s.St.Defs[tagObj]
		if len(recvSite.Inl) > 0 && tagDef != nil && tagDef == ast.Node(recvSite.Inl[0].Call) {
			tagDef = ast.Node(recvCall)
		}
		tagOK := tagArg == tagName && tagObj != nil && tagDef == ast.Node(recvCall)
		r.check(tagOK, "r1", key+" carries the request's tag", s.Call.Pos(), "tag = the value recv returned", "the reply's tag is "+tagArg+", not the tag returned by recv for this request")
		wArg := s.arg(1)
		r.check(wArg == csName+".r", "r1", key+" goes to this connection", s.Call.Pos(), "writer = cs.r", "the reply is written to "+wArg)
		if s.St.holds(startKey, true) {
			// message = result of cs.handle(m)
			okMsg := false
			if obj := objOf(info, msgArg); obj != nil {
				if def, ok := s.St.Defs[obj].(*ast.CallExpr); ok && calleeKey(info, def) == "p9.connState.handle" && len(def.Args) == 1 && res.str(def.Args[0]) == msgName {
					okMsg = true
				}
			}
			if !okMsg {
				// the message may be chosen between cs.handle(m) and a literal (self-flush bypass): every definition must be one of the two
				okMsg = allDefsAre(info, hr, msgArg, func(e ast.Expr) bool {
					if c, ok := unparen(e).(*ast.CallExpr); ok && calleeKey(info, c) == "p9.connState.handle" {
						return true
					}
					if u, ok := unparen(e).(*ast.UnaryExpr); ok && u.Op == token.AND {
						if cl, ok := u.X.(*ast.CompositeLit); ok {
							return strings.HasSuffix(types.TypeString(info.TypeOf(cl), nil), ".rflush")
						}
					}
					return false
				})
			}
			r.check(okMsg, "r1", key+" carries the handler's result", s.Call.Pos(), "message = cs.handle(m)", "the message sent for a started request is not the result of cs.handle(m)")
		} else {
			c, ok := msgArg.(*ast.CallExpr)
			r.check(ok && calleeKey(info, c) == "p9.newErr", "r1", key+" carries Rlerror", s.Call.Pos(), "message = newErr(err)", "the protocol-error reply is not newErr(err)")
		}
	}
	r.check(nSend == 2, "r1", "handleRequest: send sites", hr.Decl.Pos(), "2 send sites", fmt.Sprintf("%d send sites in handleRequest (expected the normal reply and the protocol-error reply)", nSend))

	// --- r2: who may call ---
	badCallers, via := m.reachedOnlyFrom("p9.send", map[string]bool{"p9.Client.sendRecv": true, "p9.connState.handleRequest": true})
	viaNote := ""
	if len(via) > 0 {
		viaNote = " (through the private helpers " + strings.Join(via, ", ") + ")"
	}
	r.check(len(badCallers) == 0 && len(db.Calls["p9.send"]) >= 2, "r2", "callers of send", token.NoPos, "send is reached only from handleRequest and sendRecv"+viaNote, "send is also called from "+strings.Join(badCallers, ", ")+"; only handleRequest (server) and sendRecv (client) may write frames")
	var hcallers []string
	for _, s := range db.Calls["p9.handler.handle"] {
		hcallers = append(hcallers, s.Root.Key)
	}
	hcallers = dedupe(hcallers)
	r.check(len(hcallers) == 1 && hcallers[0] == "p9.connState.handle", "r2", "callers of handler.handle", token.NoPos, "only connState.handle dispatches to handlers", "handler.handle is invoked from "+strings.Join(hcallers, ", "))
	// every server send is dominated by a recv in the same activation
	for _, s := range sends {
		r.check(s.St.Must["p9.recv"], "r2", "server send follows a recv", s.Call.Pos(), "recv precedes on every path", "a reply can be sent without a request having been received in this activation")
	}

	// --- r3: frames are contiguous ---
	for _, s := range db.Calls["p9.send"] {
		class := "p9.connState.sendMu"
		if isClientSide(s.Root) {
			class = "p9.Client.sendMu"
		}
		r.check(hasClass(s.St.Locks, class), "r3", s.Root.Key+": send under sendMu", s.Call.Pos(), "holds "+class, "send is called without "+class+": two replies could interleave their bytes on the connection; held "+describeSet(s.St.Locks))
	}
	if sf := r.mustFunc("r3", "p9", "send"); sf != nil {
		nw := 0
		other := 0
		for _, s := range db.ByFunc[sf] {
			if s.Callee == "net.Buffers.WriteTo" {
				nw++
			}
			if s.Callee == "io.Writer.Write" {
				other++
			}
		}
		r.check(nw == 1 && other == 0, "r3", "send: one vectored write", sf.Decl.Pos(), "header, fixed part and payload leave through one WriteTo", fmt.Sprintf("send performs %d WriteTo and %d Write calls", nw, other))
	}

	// --- r4: receiver hand-off ---
	for _, s := range m.callsIn(hr, "p9.connState.handle") {
		var bad []string
		for t := range s.St.MayL {
			c, _, _ := parseLockToken(t)
			if strings.HasPrefix(c, "p9.connState.") {
				bad = append(bad, t)
			}
		}
		sort.Strings(bad)
		r.check(len(bad) == 0, "r4", "handler runs with no connection lock", s.Call.Pos(), "recvMu/sendMu/fidMu/tagMu are not held when cs.handle runs", "cs.handle(m) may run while "+strings.Join(bad, ", ")+" is held: requests of this connection would be serialised behind the handler")
	}
	nGo := 0
	for _, b := range m.blockingIn(hr, "go") {
		nGo++
		okTok := hasClass(b.St.Locks, "p9.connState.recvMu")
		okAdd := false
		if g, ok := b.Node.(*ast.GoStmt); ok {
			okAdd = unconsumedAdd(m, hr)[g] // an Add of its own, not the one that counts this activation
		}
		okIdle := false
		for _, p := range b.St.Paths {
			for k, v := range p {
				if strings.Contains(k, "recvIdle") && strings.Contains(k, "== 0") && v {
					okIdle = true
				}
			}
		}
		okRecv := b.St.Must["p9.recv"]
		r.check(okTok && okAdd && okIdle && okRecv, "r4", "a further receiver is spawned before the token is released", b.Node.Pos(), "go handleRequests() after a successful recv, under recvMu, when recvIdle == 0, counted in pendingWg",
			fmt.Sprintf("receiver spawn: under recvMu=%v, after WaitGroup.Add=%v, conditioned on recvIdle==0=%v, after recv=%v", okTok, okAdd, okIdle, okRecv))
		// The goroutine runs handleRequests.
		runs := false
		if g, ok := b.Node.(*ast.GoStmt); ok {
			look := []ast.Node{g.Call}
			if body := m.spawnedBody(g.Call); body != nil {
				look = append(look, body) // a declared function started as the goroutine
			}
			for _, nd := range look {
				ast.Inspect(nd, func(n ast.Node) bool {
					if c, ok := n.(*ast.CallExpr); ok && calleeKey(info, c) == "p9.connState.handleRequests" {
						runs = true
					}
					return true
				})
			}
		}
		r.check(runs, "r4", "the spawned goroutine serves requests", b.Node.Pos(), "calls handleRequests", "the spawned goroutine does not call handleRequests")
	}
	r.check(nGo == 1, "r4", "handleRequest spawns exactly one kind of goroutine", hr.Decl.Pos(), "1 go statement", fmt.Sprintf("%d go statements", nGo))

	// The receive token is released on every exit.
	nEx := 0
	for _, ex := range db.Exits[hr] {
		if ex.Fn != ast.Node(hr.Decl) || ex.St.Dead {
			continue
		}
		nEx++
		var held []string
		for t := range ex.St.MayL {
			if c, _, _ := parseLockToken(t); strings.HasPrefix(c, "p9.connState.") {
				held = append(held, t)
			}
		}
		sort.Strings(held)
		pos := hr.Decl.End()
		if ex.Ret != nil {
			pos = ex.Ret.Pos()
		}
		r.check(len(held) == 0, "r4", fmt.Sprintf("handleRequest exit #%d releases every connection lock", nEx), pos, "no connection lock held at this exit",
			"handleRequest can return while "+strings.Join(held, ", ")+" is still held: every other receiver blocks for ever and the frames after this one are never served")
	}
	// Nothing blocks while a connection-wide lock may be held (except the transport operation
	// each token exists for: recv under recvMu, send under sendMu).
	nb := 0
	for _, b := range db.Blocking {
		if b.Callee == "go" || isClientSide(b.Root) || b.St.Dead || b.NonBlocking {
			continue
		}
		nb++
		var held []string
		for t := range b.St.MayL {
			if c, _, _ := parseLockToken(t); strings.HasPrefix(c, "p9.connState.") {
				held = append(held, t)
			}
		}
		sort.Strings(held)
		key := fmt.Sprintf("%s: %s holds no connection lock", b.Root.Key, b.Callee)
		r.check(len(held) == 0, "r8", key, b.Node.Pos(), "nothing held while blocked", "a blocking "+b.Callee+" in "+b.Root.Key+" may run while "+strings.Join(held, ", ")+" is held: the requests that need that lock (including the one being waited for) cannot complete")
	}
	for _, s := range db.Calls["sync.WaitGroup.Wait"] {
		if isClientSide(s.Root) || s.St.Dead {
			continue
		}
		nb++
		var held []string
		for t := range s.St.MayL {
			held = append(held, t)
		}
		sort.Strings(held)
		r.check(len(held) == 0, "r8", s.Root.Key+": WaitGroup.Wait holds no lock", s.Call.Pos(), "nothing held while waiting", "WaitGroup.Wait in "+s.Root.Key+" may run while "+strings.Join(held, ", ")+" is held")
	}
	r.floor("r8", "blocking operations on the server side", nb, 3)

	// --- r5: tag bookkeeping ---
	nClear := 0
	for _, s := range m.contextSites("p9.connState.ClearTag") {
		nClear++
		if s.Root != hr {
			r.fail("r5", s.Root.Key+" calls ClearTag", s.Call.Pos(), "ClearTag is called outside handleRequest: a tag could be released while its request is still executing")
			continue
		}
		r.check(s.arg(0) == tagName && s.St.holds(startKey, true), "r5", "ClearTag clears the started tag", s.Call.Pos(), "ClearTag(tag) after StartTag(tag) succeeded", "ClearTag is not applied to the tag that StartTag registered")
		r.check(s.St.Must["p9.connState.handle"] || handledOrBypassed(r, m, hr, s.Call), "r5", "ClearTag after the handler returned", s.Call.Pos(), "cs.handle(m) (or the self-flush bypass) precedes", "the tag is cleared before the handler has run")
	}
	r.check(nClear == 1, "r5", "exactly one ClearTag site", hr.Decl.Pos(), "1 site", fmt.Sprintf("%d ClearTag call sites", nClear))
	for _, s := range sends {
		if s.St.holds(startKey, true) {
			r.check(s.St.Must["p9.connState.ClearTag"], "r5", "tag cleared before the reply is sent", s.Call.Pos(), "ClearTag precedes send", "the reply can hit the wire before the tag is cleared: the client may legally reuse the tag and be refused as duplicate")
		}
	}
	c06Recover(r, m, "r5")

	// --- r6: no backend call under connection-wide leaf locks ---
	c06NoBackendUnderLeafLocks(r, m)

	// --- r7 ---
	c14SelfWait(r, m, "r7")

	// --- r9: framing is kept across a rejected frame (the rule of C02.r3): a request that
	// follows an undecodable one is still read from its own first byte, so it gets its reply
	// and no reply is produced for bytes nobody sent as a request ---
	r.borrow(checkC02, map[string]string{"r3": "r9"})

	// --- r10: replies of requests still in flight at disconnect are written: stop waits for
	// pendingWg before it closes either transport (C05.r5; Handle is called with one
	// connection for both directions) ---
	r.borrow(checkC05, map[string]string{"r5": "r10"})
	// --- r6 (continued): no lock of a reference is held across a backend call beyond the
	// path-tree locks of the File contract: lock regions that reach the backend release by
	// defer at the end of the region that took them (C16.r8) ---
	// --- r11: a request that waits for a lock for ever is never answered: the lock-order
	// graph of the server is acyclic, re-acquisition of a read lock that a queued writer can
	// split included, and two path nodes are only locked parent before child (C16.r1/r2) ---
	r.borrow(checkC16, map[string]string{"r8": "r6", "r1": "r11", "r2": "r11"})
}

func exitLabel(r *Run, ex *ExitRec) string {
	return r.L.str(ex.Ret)
}

func objByName(info *types.Info, fi *FuncInfo, name string) types.Object {
	var found types.Object
	ast.Inspect(fi.Decl, func(n ast.Node) bool {
		if id, ok := n.(*ast.Ident); ok && id.Name == name && found == nil {
			if o := info.Defs[id]; o != nil {
				found = o
			}
		}
		return true
	})
	return found
}

// allDefsAre: e is a local variable all of whose assignments satisfy pred.
// allDefsLoaded is the program allDefsAre looks variables up in (set by the checks that use it).
var allDefsLoaded *Loaded

func allDefsAre(info *types.Info, fi *FuncInfo, e ast.Expr, pred func(ast.Expr) bool) bool {
	obj := objOf(info, e)
	if obj == nil {
		return false
	}
	n, okAll := 0, true
	var scope ast.Node = fi.Decl
	if obj.Pos() < fi.Decl.Pos() || obj.Pos() >= fi.Decl.End() {
		// the variable lives in a helper (the expression was reached through one)
		if d := allDefsLoaded.declOf(obj); d != nil {
			scope = d
		}
	}
	ast.Inspect(scope, func(nd ast.Node) bool {
		switch v := nd.(type) {
		case *ast.AssignStmt:
			for i, l := range v.Lhs {
				if objOf(info, l) == obj {
					if len(v.Lhs) != len(v.Rhs) {
						// one of several results of a call, or the value of a comma-ok form
						n++
						if len(v.Rhs) != 1 || !pred(v.Rhs[0]) {
							okAll = false
						}
						continue
					}
					n++
					if !pred(v.Rhs[i]) {
						okAll = false
					}
				}
			}
		case *ast.ValueSpec:
			for i, nm := range v.Names {
				if info.Defs[nm] == obj && i < len(v.Values) {
					n++
					if !pred(v.Values[i]) {
						okAll = false
					}
				}
			}
		}
		return true
	})
	return okAll && n > 0
}

// c06Recover: connState.handle defers a function that recovers and substitutes EFAULT when no reply exists.
func c06Recover(r *Run, m *ServerModel, rule string) {
	info := m.Info
	fi := r.mustFunc(rule, "p9", "connState.handle")
	if fi == nil {
		return
	}
	// named result
	resName := ""
	if fi.Decl.Type.Results != nil && len(fi.Decl.Type.Results.List) == 1 && len(fi.Decl.Type.Results.List[0].Names) == 1 {
		resName = fi.Decl.Type.Results.List[0].Names[0].Name
	}
	okDefer, okRecover, okAssign, first := false, false, false, false
	for i, s := range fi.Decl.Body.List {
		d, ok := s.(*ast.DeferStmt)
		if !ok {
			continue
		}
		// the deferred function: a literal (it assigns the named result), or a declared
		// function / method that is handed &result (it assigns through the pointer); recover()
		// has to be called by that function itself
		var body *ast.BlockStmt
		target := resName
		if lit, ok := unparen(d.Call.Fun).(*ast.FuncLit); ok {
			body = lit.Body
		} else if tf := r.L.FuncOf(callee(info, d.Call)); tf != nil && tf.Decl.Body != nil {
			idx := 0
			for _, f := range tf.Decl.Type.Params.List {
				for _, nm := range f.Names {
					if idx < len(d.Call.Args) {
						if u, isAddr := unparen(d.Call.Args[idx]).(*ast.UnaryExpr); isAddr && u.Op == token.AND && r.L.str(u.X) == resName && resName != "" {
							body, target = tf.Decl.Body, "*"+nm.Name
						}
					}
					idx++
				}
			}
		}
		if body == nil {
			continue
		}
		okDefer = true
		first = i == 0
		ast.Inspect(body, func(n ast.Node) bool {
			switch v := n.(type) {
			case *ast.FuncLit:
				return false // recover() in a nested function would not stop the panic
			case *ast.CallExpr:
				if id, ok := v.Fun.(*ast.Ident); ok && id.Name == "recover" {
					if _, isB := info.Uses[id].(*types.Builtin); isB {
						okRecover = true
					}
				}
			case *ast.AssignStmt:
				if len(v.Lhs) == 1 && r.L.str(v.Lhs[0]) == target && resName != "" {
					if val, ok := errnoExpr(info, v.Rhs[0]); ok && val == 14 {
						okAssign = true
					}
				}
			}
			return true
		})
	}
	r.check(okDefer && first && okRecover && okAssign, rule, "connState.handle: panic barrier", fi.Decl.Pos(),
		"first statement defers a function that calls recover() and sets the reply to newErr(EFAULT)",
		fmt.Sprintf("panic barrier incomplete: deferred literal=%v first=%v recover()=%v reply=EFAULT=%v — a backend panic would kill the process or leave the request unanswered", okDefer, first, okRecover, okAssign))
	// Every exit yields a message: the non-handler branch returns ENOSYS.
	// (written as an assignment to the named result or as the operand of a return of handle
	// itself; a return inside a nested literal is not an exit of handle)
	okElse := false
	var scan func(n ast.Node, nested bool)
	scan = func(root ast.Node, nested bool) {
		ast.Inspect(root, func(n ast.Node) bool {
			switch v := n.(type) {
			case *ast.FuncLit:
				if !nested {
					scan(v.Body, true)
					return false
				}
			case *ast.AssignStmt:
				if len(v.Lhs) == 1 && resName != "" && r.L.str(v.Lhs[0]) == resName {
					if val, ok := errnoExpr(info, v.Rhs[0]); ok && val == 38 {
						okElse = true
					}
				}
			case *ast.ReturnStmt:
				if !nested && len(v.Results) == 1 {
					if val, ok := errnoExpr(info, v.Results[0]); ok && val == 38 {
						okElse = true
					}
				}
			}
			return true
		})
	}
	scan(fi.Decl.Body, false)
	r.check(okElse, rule, "connState.handle: unhandled message type answered", fi.Decl.Pos(), "ENOSYS for a message without a handler", "a message type without a handler is not answered with ENOSYS")
}

func c06NoBackendUnderLeafLocks(r *Run, m *ServerModel) {
	leaf := []string{"p9.connState.fidMu", "p9.connState.tagMu", "p9.connState.sendMu", "p9.connState.recvMu"}
	n := 0
	for _, b := range m.Backend {
		st := b.Site.St
		n++
		var bad []string
		sets := []map[string]bool{st.MayL}
		if b.Outer != nil {
			sets = append(sets, b.Outer.St.MayL)
		}
		for _, set := range sets {
			for t := range set {
				c, _, _ := parseLockToken(t)
				for _, l := range leaf {
					if c == l {
						bad = append(bad, t)
					}
				}
			}
		}
		sort.Strings(bad)
		bad = dedupe(bad)
		key := b.Key() + ": not under a connection-wide lock"
		if len(bad) == 0 {
			r.ok("r6", key, b.Site.Call.Pos(), "may-held locks: %s", describeSet(st.MayL))
		} else {
			r.fail("r6", key, b.Site.Call.Pos(), "backend %s may run while %s is held (through some caller): a backend call that blocks there stalls every request of the connection, which the File contract does not order after it", b.Method, strings.Join(bad, ", "))
		}
	}
	r.floor("r6", "backend call sites", n, 35)
}

// ---------------------------------------------------------------------------------
// C14

func checkC14(r *Run) {
	m := buildServerModel(r.L)
	info := m.Info
	db := m.DB
	tf := r.mustFunc("r1", "p9", "tflush.handle")
	if tf == nil {
		return
	}
	res := m.resolver(tf)
	recv := ""
	if tf.Decl.Recv != nil && len(tf.Decl.Recv.List[0].Names) == 1 {
		recv = tf.Decl.Recv.List[0].Names[0].Name
	}
	// r1
	n := 0
	for _, ex := range db.Exits[tf] {
		if ex.Fn != ast.Node(tf.Decl) || ex.Ret == nil || ex.St.Dead {
			continue
		}
		n++
		isRflush := false
		if len(ex.Ret.Results) == 1 {
			if u, ok := unparen(ex.Ret.Results[0]).(*ast.UnaryExpr); ok && u.Op == token.AND {
				if cl, ok := u.X.(*ast.CompositeLit); ok && strings.HasSuffix(types.TypeString(info.TypeOf(cl), nil), ".rflush") {
					isRflush = true
				}
			}
		}
		key := fmt.Sprintf("tflush.handle exit #%d", n)
		if !isRflush {
			r.fail("r1", key, ex.Ret.Pos(), "Tflush is answered with %s, not Rflush", r.L.str(ex.Ret.Results[0]))
			continue
		}
		// WaitTag passed, or the flush names its own tag (bypass), see r3.
		waited := ex.St.Must["p9.connState.WaitTag"]
		own := false
		for _, p := range ex.St.Paths {
			for k, v := range p {
				if strings.Contains(k, ".OldTag == ") && v && !comparesWithConstant(k) {
					own = true
				}
			}
		}
		r.check(waited || own, "r1", key, ex.Ret.Pos(), "Rflush is returned only after WaitTag", "an Rflush can be returned without having waited for the flushed tag")
	}
	r.check(n > 0, "r1", "tflush.handle has exits", tf.Decl.Pos(), fmt.Sprintf("%d exits", n), "no exits found")
	for _, s := range m.callsIn(tf, "p9.connState.WaitTag") {
		r.check(res.str(s.Call.Args[0]) == recv+".OldTag", "r1", "WaitTag waits for the flushed tag", s.Call.Pos(), "WaitTag(t.OldTag)", "WaitTag is given "+res.str(s.Call.Args[0])+" instead of the request's OldTag")
	}

	// r2
	if wt := r.mustFunc("r2", "p9", "connState.WaitTag"); wt != nil {
		wres := m.resolver(wt)
		tparam := wt.Decl.Type.Params.List[0].Names[0].Name
		// the comma-ok of the lookup in the tag table
		regOK := m.resultName(wt, -1, func(e ast.Expr) bool {
			ix, isIx := e.(*ast.IndexExpr)
			return isIx && strings.HasSuffix(r.L.str(ix.X), ".tags")
		})
		var recvSite *Site
		for _, b := range db.Blocking {
			if b.Root == wt && b.Callee == "<-chan" {
				recvSite = b
			}
		}
		if recvSite == nil {
			r.fail("r2", "WaitTag blocks on the tag's channel", wt.Decl.Pos(), "WaitTag does not wait on a channel")
		} else {
			u := recvSite.Node.(*ast.UnaryExpr)
			chs := wres.str(u.X)
			okCh := strings.Contains(chs, ".tags["+tparam+"]")
			okOk := regOK != "" && recvSite.St.holds(regOK, true)
			r.check(okCh && okOk, "r2", "WaitTag blocks on the tag's channel", u.Pos(), "<-cs.tags[t] when registered", "WaitTag waits on "+chs+" (registered="+fmt.Sprint(okOk)+"), not on the channel registered for the tag")
			// r5: nothing held while blocked
			r.check(len(recvSite.St.MayL) == 0, "r5", "WaitTag holds no lock while blocked", u.Pos(), "tagMu released before <-ch", "WaitTag blocks while "+describeSet(recvSite.St.MayL)+" may be held: ClearTag of the flushed request (and every StartTag) would wait for the flush, which waits for them")
		}
		// returns at once when not registered
		okEarly := false
		for _, ex := range db.Exits[wt] {
			if regOK != "" && ex.St.holds(regOK, false) && !ex.St.Dead {
				okEarly = true
			}
		}
		r.check(okEarly, "r2", "WaitTag returns at once for an idle tag", wt.Decl.Pos(), "!ok → return", "WaitTag has no immediate return for a tag that is not in flight")
	}
	// the tag table is only ever changed entry by entry, by StartTag and ClearTag: replacing
	// the map (or storing/deleting elsewhere) would make a request that is still executing
	// look idle to a Tflush
	nTagW := 0
	for _, fa := range m.fields() {
		if fa.Key != "p9.connState.tags" {
			continue
		}
		// the field itself assigned
		if fa.Write {
			nTagW++
			r.fail("r2", fa.Root.Key+": replaces the tag table", fa.Sel.Pos(), "cs.tags is assigned in %s: the tags of requests that are still executing are forgotten, a Tflush naming one of them is answered at once", fa.Root.Key)
			continue
		}
		// an element stored or deleted
		par := r.L.parent(fa.Sel)
		changed := false
		if ix, ok := par.(*ast.IndexExpr); ok && ix.X == ast.Expr(fa.Sel) {
			if as, ok := r.L.parent(ix).(*ast.AssignStmt); ok {
				for _, lhs := range as.Lhs {
					if lhs == ast.Expr(ix) {
						changed = true
					}
				}
			}
		}
		if c, ok := par.(*ast.CallExpr); ok {
			if id, ok := c.Fun.(*ast.Ident); ok && id.Name == "delete" && len(c.Args) == 2 && c.Args[0] == ast.Expr(fa.Sel) {
				changed = true
			}
		}
		if changed {
			nTagW++
			okW := fa.Root.Key == "p9.connState.StartTag" || fa.Root.Key == "p9.connState.ClearTag"
			r.check(okW, "r2", fa.Root.Key+": changes an entry of the tag table", fa.Sel.Pos(), "only StartTag registers and only ClearTag removes", "the tag table is changed outside StartTag/ClearTag")
		}
	}
	r.floor("r2", "changes of the tag table", nTagW, 2)
	// close(ch) only in ClearTag
	for _, fi := range r.L.funcsOfPkg("p9") {
		if fi.Decl.Body == nil || isClientSide(fi) {
			continue
		}
		ast.Inspect(fi.Decl.Body, func(nd ast.Node) bool {
			c, ok := nd.(*ast.CallExpr)
			if !ok {
				return true
			}
			if id, ok := c.Fun.(*ast.Ident); ok && id.Name == "close" && len(c.Args) == 1 {
				if t := info.TypeOf(c.Args[0]); t != nil && t.String() == "chan struct{}" {
					r.check(fi.Key == "p9.connState.ClearTag", "r2", fi.Key+": closes a tag channel", c.Pos(), "only ClearTag signals completion", "a completion channel is closed outside ClearTag")
				}
			}
			return true
		})
	}
	hr := r.L.Func("p9", "connState.handleRequest")
	for _, s := range m.contextSites("p9.connState.ClearTag") {
		okSite := s.Root == hr && (s.St.Must["p9.connState.handle"])
		// with the self-flush bypass, handle is skipped on that branch only
		if s.Root == hr && !okSite {
			okSite = handledOrBypassed(r, m, hr, s.Call)
		}
		r.check(okSite, "r2", "ClearTag only after the handler returned", s.Call.Pos(), "in handleRequest, after cs.handle(m)", "ClearTag can run before (or without) cs.handle having returned: an Rflush could be sent while the flushed request still executes")
	}
	// No go statement reachable from handlers.
	eff := computeEffects(db)
	var roots []*types.Func
	for _, fi := range r.L.funcsOfPkg("p9") {
		if isHandlerFunc(fi) {
			roots = append(roots, fi.Obj)
		}
	}
	reach := reachableFuncs(eff, roots)
	var spawners []string
	for f := range reach {
		for _, b := range db.Blocking {
			if b.Callee == "go" && b.Root.Obj == f {
				spawners = append(spawners, funcKey(f))
			}
		}
	}
	sort.Strings(spawners)
	r.check(len(spawners) == 0, "r2", "no goroutine is started on behalf of a request", token.NoPos, fmt.Sprintf("%d functions reachable from %d handlers, none contains a go statement", len(reach), len(roots)),
		"handlers can start goroutines in "+strings.Join(dedupe(spawners), ", ")+": backend calls could outlive cs.handle and thus the tag")

	// r3
	c14SelfWait(r, m, "r3")

	// r4: no side effects reachable from tflush.handle
	freach := reachableFuncs(eff, []*types.Func{tf.Obj})
	var bad []string
	for f := range freach {
		e := eff[f]
		if e == nil {
			continue
		}
		for k := range e.Backend {
			bad = append(bad, funcKey(f)+" → backend "+k)
		}
		for _, fi := range []*FuncInfo{r.L.FuncOf(f)} {
			if fi == nil {
				continue
			}
			for _, s := range db.ByFunc[fi] {
				switch s.Callee {
				case "p9.send", "p9.connState.ClearTag", "p9.connState.DeleteFID", "p9.connState.InsertFID", "p9.connState.StartTag":
					bad = append(bad, fi.Key+" → "+s.Callee)
				}
			}
			for _, fa := range m.fields() {
				if fa.Root == fi && fa.Write && strings.HasPrefix(fa.Key, "p9.connState.") {
					bad = append(bad, fi.Key+" writes "+fa.Key)
				}
			}
			// map writes on cs.tags / cs.fids
			ast.Inspect(fi.Decl.Body, func(nd ast.Node) bool {
				switch v := nd.(type) {
				case *ast.AssignStmt:
					for _, l := range v.Lhs {
						if ix, ok := unparen(l).(*ast.IndexExpr); ok {
							if s := r.L.str(ix.X); strings.HasSuffix(s, ".tags") || strings.HasSuffix(s, ".fids") {
								bad = append(bad, fi.Key+" writes "+s)
							}
						}
					}
				case *ast.CallExpr:
					if id, ok := v.Fun.(*ast.Ident); ok && (id.Name == "delete" || id.Name == "close") && len(v.Args) >= 1 {
						bad = append(bad, fi.Key+" calls "+id.Name+"("+r.L.str(v.Args[0])+")")
					}
				}
				return true
			})
		}
	}
	sort.Strings(bad)
	r.check(len(bad) == 0, "r4", "a flush has no side effects", tf.Decl.Pos(), fmt.Sprintf("%d functions reachable from tflush.handle: no send, no tag/fid table update, no backend call, no connection state write", len(freach)),
		"a flush can: "+strings.Join(dedupe(bad), "; "))
}

func ownTagBypass(st *HState) bool {
	// every path that did not go through cs.handle carries the own-tag fact: approximated by the
	// presence of the fact on at least one path while cs.handle may have run on the others.
	for _, p := range st.Paths {
		for k, v := range p {
			if strings.Contains(k, ".OldTag == ") && v {
				return true
			}
		}
	}
	return false
}

// c14SelfWait: the request's own tag must be comparable with OldTag on the way to the wait.
func c14SelfWait(r *Run, m *ServerModel, rule string) {
	db := m.DB
	hr := r.L.Func("p9", "connState.handleRequest")
	tf := r.L.Func("p9", "tflush.handle")
	if hr == nil || tf == nil {
		r.undecided(rule, "flush of the request's own tag", token.NoPos, "handleRequest / tflush.handle not found")
		return
	}
	res := m.resolver(hr)
	tagName := ""
	for _, s := range m.callsIn(hr, "p9.recv") {
		tagName = m.resultVarIn(hr, s, 0)
	}
	_ = res
	// (A) bypass in handleRequest: at cs.handle(m), every path refutes "<x>.OldTag == tag".
	okA := false
	var pos token.Pos = tf.Decl.Pos()
	for _, s := range m.callsIn(hr, "p9.connState.handle") {
		pos = s.Call.Pos()
		all := len(s.St.Paths) > 0
		for _, p := range s.St.Paths {
			ref := false
			for k, v := range p {
				if (strings.HasSuffix(k, ".OldTag == "+tagName) || strings.HasPrefix(k, tagName+" == ") && strings.HasSuffix(k, ".OldTag")) && !v {
					ref = true
				}
				// the type assertion failed: not a Tflush at all
				if !v && !strings.Contains(k, " ") {
					// only counts if that ok comes from m.(*tflush): checked through Defs below
					ref = ref || okFromTflushAssert(m, s, k)
				}
			}
			if !ref {
				all = false
			}
		}
		okA = all
	}
	// (B) the handler itself compares OldTag with the request's tag before waiting.
	okB := false
	for _, s := range m.callsIn(tf, "p9.connState.WaitTag") {
		for _, p := range s.St.Paths {
			for k, v := range p {
				if strings.Contains(k, ".OldTag == ") && !v && !comparesWithConstant(k) {
					okB = true
				}
			}
		}
	}
	_ = db
	r.check(okA || okB, rule, "a Tflush naming its own tag does not wait for itself", pos,
		"the request's tag is compared with OldTag and equality bypasses the wait",
		"tflush.handle waits on the channel of OldTag without the request's own tag ever being compared with it: a Tflush whose OldTag is its own tag waits on the channel that only its own completion closes — it is never answered and Handle can never return")
}

func okFromTflushAssert(m *ServerModel, site *Site, key string) bool {
	// Find the comma-ok assertion to *tflush whose ok variable renders as key - in the function
	// the site is written in (handleRequest, or a helper judged in its context).
	decl := m.L.declAt(site.Call.Pos())
	if decl == nil {
		return false
	}
	res := site.Res
	if res == nil {
		res = m.resolver(site.Root)
	}
	found := false
	ast.Inspect(decl, func(n ast.Node) bool {
		as, ok := n.(*ast.AssignStmt)
		if !ok || len(as.Lhs) != 2 || len(as.Rhs) != 1 {
			return true
		}
		ta, ok := unparen(as.Rhs[0]).(*ast.TypeAssertExpr)
		if !ok || ta.Type == nil {
			return true
		}
		if res.str(as.Lhs[1]) == key && strings.HasSuffix(m.L.str(ta.Type), "tflush") {
			found = true
		}
		return true
	})
	return found
}

// handledOrBypassed: the statement containing call is preceded, in the same block, by an
// if/else one branch of which is "r = cs.handle(m)" and whose condition compares OldTag
// with the request's tag (the self-flush bypass): every path to call went through one of them.
func handledOrBypassed(r *Run, m *ServerModel, hr *FuncInfo, call *ast.CallExpr) bool {
	info := m.Info
	// must-analysis: on every path to the call, cs.handle has returned, or the path went
	// through the edge on which the request is a Tflush naming its own tag (the bypass that
	// answers it directly) - however the if/else is arranged.
	tagName := ""
	for _, s := range m.callsIn(hr, "p9.recv") {
		tagName = m.resultVarIn(hr, s, 0)
	}
	_, at := mustFlag(m.DB, hr, func(n ast.Node, res *resolver) (bool, bool) {
		done := false
		inspectNoLit(n, func(x ast.Node) {
			if c, ok := x.(*ast.CallExpr); ok && calleeKey(info, c) == "p9.connState.handle" {
				done = true
			}
		})
		return done, done
	}, func(key string, truth bool) bool {
		if !truth || tagName == "" {
			return false
		}
		parts := strings.SplitN(key, " == ", 2)
		if len(parts) != 2 {
			return false
		}
		return strings.HasSuffix(parts[0], ".OldTag") && parts[1] == tagName || strings.HasSuffix(parts[1], ".OldTag") && parts[0] == tagName
	})
	// the statement that contains the call
	var stmt ast.Node = call
	for {
		p := r.L.parent(stmt)
		if p == nil {
			return false
		}
		if _, ok := p.(*ast.BlockStmt); ok {
			break
		}
		stmt = p
	}
	v, seen := at[stmt]
	return seen && v
}

// comparesWithConstant: the atom "X.OldTag == Y" compares with a constant (noTag, a number),
// which cannot be the request's own tag.
func comparesWithConstant(key string) bool {
	parts := strings.SplitN(key, " == ", 2)
	if len(parts) != 2 {
		return true
	}
	other := parts[1]
	if strings.Contains(parts[1], ".OldTag") {
		other = parts[0]
	}
	other = strings.TrimSpace(other)
	if other == "" {
		return true
	}
	if other[0] >= '0' && other[0] <= '9' {
		return true
	}
	switch other {
	case "noTag", "NoTag":
		return true
	}
	return strings.HasPrefix(other, "math.") || strings.HasPrefix(other, "tag(")
}
