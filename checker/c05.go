package main

// C05: File lifecycle.  Ownership typestate for Files handed out by the backend and
// balance analysis for counted references to *fidRef (analysis D).

import (
	"fmt"
	"go/ast"
	"go/token"
	"go/types"
	"sort"
	"strconv"
	"strings"
)

func init() {
	register(&propInfo{
		id: "C05", fn: checkC05, multiConfig: true,
		explanation: "Ownership typestate over the CFG (with closure inlining): (r1) on every path of every server function, a File obtained from a source (Attacher.Attach, File.Walk, WalkGetAttr, Create, walkOne) is closed, moved into exactly one &fidRef{file: …} literal, or returned to a caller — with the sources' convention that a non-nil error means no File was returned — and never overwritten, closed twice or leaked on an error path; (r2) the file: field of every fidRef literal is a fresh source value (never another reference's file) and fidRef.file is never assigned afterwards; (r3) reference balance: in every handler, doWalk, removeWithName and renameChildTo, acquisitions (LookupFID hit, doWalk result, IncRef, TryIncRef true branch, refs:1 literal) and releases (DecRef, deferred DecRef, move into a literal's parent: field, return to the caller) cancel on every exit, never going through an overwrite of an owned variable; (r4) DecRef closes the File and releases the parent only on the == 0 side of the atomic decrement, TryIncRef cannot resurrect a dead reference, and File.Close has no call site on a published file other than DecRef; (r5) Handle defers stop, stop waits for pendingWg before closing the transports and dropping the table's references, every goroutine of the serving path is counted in pendingWg (Add before go, deferred Done), ServeContext waits for its handlers. The fid table API (LookupFID/InsertFID/DeleteFID/stop) is checked by shape.",
		assumptions: []string{"a source returning a non-nil error returns no File (the backend contract stated in p9.File)", "the numeric value of the reference count over a history is not computed; pairing on every path is"},
	})
}

type OState struct {
	Bal   map[string]int    // reference balance per key (acquired - released so far)
	Def   map[string]int    // deferred releases per key
	Files map[string]string // File variable -> owned | closed | moved | none
	Link  map[string]olink  // guard variable (uniq name) -> what it decides
	Facts map[string]bool   // a few boolean facts (X.hasParent(), X == nil)
	Bad   map[string]string // key -> conflict recorded at a join / assignment
	// Ret: what a helper analysed in place hands to its caller, per result position
	// ("ref:<key>" / "file:<key>"); consumed by the assignment that receives the results
	Ret map[int]string
}

type olink struct {
	Key   string
	Kind  string // ref | file
	Guard types.Object
	// not acquired when the guard is: false (ok variables) / non-nil (error variables)
	OkVar bool
}

func newOState() *OState {
	return &OState{Bal: map[string]int{}, Def: map[string]int{}, Files: map[string]string{}, Link: map[string]olink{}, Facts: map[string]bool{}, Bad: map[string]string{}, Ret: map[int]string{}}
}

func oCopy(s *OState) *OState {
	o := newOState()
	for k, v := range s.Bal {
		o.Bal[k] = v
	}
	for k, v := range s.Def {
		o.Def[k] = v
	}
	for k, v := range s.Files {
		o.Files[k] = v
	}
	for k, v := range s.Link {
		o.Link[k] = v
	}
	for k, v := range s.Facts {
		o.Facts[k] = v
	}
	for k, v := range s.Ret {
		o.Ret[k] = v
	}
	for k, v := range s.Bad {
		o.Bad[k] = v
	}
	return o
}

// forgive cancels a debt on X.parent on paths where X is known to have no parent
// (the literal stored a nil parent there, so no reference moved).
func forgive(s *OState) *OState {
	var fix []string
	for k := range s.Bal {
		if !strings.HasSuffix(k, ".parent") || s.Bal[k]-s.Def[k] >= 0 {
			continue
		}
		base := strings.TrimSuffix(k, ".parent")
		if s.Facts[base+".hasParent()"] || s.Facts[k+" == nil"] {
			fix = append(fix, k)
		}
	}
	if len(fix) == 0 {
		return s
	}
	o := oCopy(s)
	for _, k := range fix {
		o.Bal[k] = o.Def[k]
	}
	return o
}

func oJoin(a, b *OState) *OState {
	a, b = forgive(a), forgive(b)
	o := newOState()
	keys := map[string]bool{}
	for k := range a.Bal {
		keys[k] = true
	}
	for k := range b.Bal {
		keys[k] = true
	}
	for k := range a.Def {
		keys[k] = true
	}
	for k := range b.Def {
		keys[k] = true
	}
	for k := range keys {
		na, nb := a.Bal[k]-a.Def[k], b.Bal[k]-b.Def[k]
		if na != nb {
			o.Bad[k] = fmt.Sprintf("reference balance of %s differs between joining paths (%+d vs %+d): one of them leaks or over-releases", k, na, nb)
		}
		if a.Bal[k] != 0 || b.Bal[k] != 0 {
			o.Bal[k] = a.Bal[k]
		}
		if a.Def[k] != 0 || b.Def[k] != 0 {
			o.Def[k] = a.Def[k]
		}
		if na != nb {
			// keep the larger net balance so that a leak is still seen at the exit
			if nb > na {
				o.Bal[k], o.Def[k] = b.Bal[k], b.Def[k]
			}
		}
	}
	for k, v := range a.Files {
		if w, ok := b.Files[k]; ok && w != v {
			// owned on one path and not on the other: keep "owned" so a leak is reported at exit,
			// unless the other state is "none" established through the error convention.
			if v == "owned" || w == "owned" {
				o.Files[k] = "owned?"
			} else {
				o.Files[k] = v
			}
		} else {
			o.Files[k] = v
			if _, inB := b.Files[k]; !inB && v == "owned" {
				o.Files[k] = "owned?" // obtained on one of the joining paths only
			}
		}
	}
	for k, v := range b.Files {
		if _, ok := a.Files[k]; !ok {
			o.Files[k] = v
			if v == "owned" {
				o.Files[k] = "owned?" // obtained on one of the joining paths only
			}
		}
	}
	// A link ("this File / reference is held only if that error is nil") made on one of the
	// joining paths still describes that path's value afterwards; it is dropped only when the
	// two paths disagree about the guard.
	for k, v := range a.Link {
		if w, ok := b.Link[k]; !ok || w == v {
			o.Link[k] = v
		}
	}
	for k, v := range b.Link {
		if _, ok := a.Link[k]; !ok {
			o.Link[k] = v
		}
	}
	for k, v := range a.Facts {
		if w, ok := b.Facts[k]; ok && w == v {
			o.Facts[k] = v
		}
	}
	for k, v := range a.Bad {
		o.Bad[k] = v
	}
	for k, v := range b.Bad {
		o.Bad[k] = v
	}
	for k, v := range a.Ret {
		o.Ret[k] = v
	}
	for k, v := range b.Ret {
		if w, ok := o.Ret[k]; ok && w != v {
			o.Ret[k] = "conflict"
		} else {
			o.Ret[k] = v
		}
	}
	return o
}

func oEqual(a, b *OState) bool {
	eqI := func(x, y map[string]int) bool {
		for k, v := range x {
			if y[k] != v {
				return false
			}
		}
		for k, v := range y {
			if x[k] != v {
				return false
			}
		}
		return true
	}
	eqS := func(x, y map[string]string) bool {
		if len(x) != len(y) {
			return false
		}
		for k, v := range x {
			if y[k] != v {
				return false
			}
		}
		return true
	}
	if !eqI(a.Bal, b.Bal) || !eqI(a.Def, b.Def) || !eqS(a.Files, b.Files) || !eqS(a.Bad, b.Bad) || len(a.Link) != len(b.Link) || len(a.Facts) != len(b.Facts) {
		return false
	}
	for k, v := range a.Link {
		if b.Link[k] != v {
			return false
		}
	}
	for k, v := range a.Facts {
		if w, ok := b.Facts[k]; !ok || w != v {
			return false
		}
	}
	if len(a.Ret) != len(b.Ret) {
		return false
	}
	for k, v := range a.Ret {
		if b.Ret[k] != v {
			return false
		}
	}
	return true
}

type ownReport struct {
	status string
	detail string
	pos    token.Pos
}

type ownChecker struct {
	r       *Run
	m       *ServerModel
	info    *types.Info
	fileT   types.Type
	refT    types.Type
	reports map[string]*ownReport // rule|construct -> worst
	nFiles  int
	nRefs   int
}

func (c *ownChecker) report(rule, construct string, pos token.Pos, ok bool, detail string) {
	k := rule + "|" + construct
	cur := c.reports[k]
	if ok {
		if cur == nil {
			c.reports[k] = &ownReport{"ok", detail, pos}
		}
		return
	}
	if cur == nil || cur.status == "ok" {
		c.reports[k] = &ownReport{"fail", detail, pos}
	}
}

func (c *ownChecker) flush() {
	var keys []string
	for k := range c.reports {
		keys = append(keys, k)
	}
	sort.Strings(keys)
	for _, k := range keys {
		rp := c.reports[k]
		i := strings.Index(k, "|")
		if rp.status == "ok" {
			c.r.ok(k[:i], k[i+1:], rp.pos, "%s", rp.detail)
		} else {
			c.r.fail(k[:i], k[i+1:], rp.pos, "%s", rp.detail)
		}
	}
}

func isSourceCall(info *types.Info, call *ast.CallExpr) (string, bool) {
	k := calleeKey(info, call)
	if strings.HasPrefix(k, "p9.File.") && sourceMethods[k[len("p9.File."):]] {
		return k, true
	}
	if k == "p9.Attacher.Attach" || k == "p9.walkOne" {
		return k, true
	}
	return k, false
}

func (c *ownChecker) isFileVar(e ast.Expr) (types.Object, bool) {
	obj := objOf(c.info, e)
	if v, ok := obj.(*types.Var); ok && !v.IsField() && types.Identical(v.Type(), c.fileT) {
		return obj, true
	}
	return nil, false
}

func (c *ownChecker) isRefExpr(e ast.Expr) bool {
	t := c.info.TypeOf(e)
	return t != nil && types.Identical(t, c.refT)
}

// analyse runs the ownership analysis on one function.
func (c *ownChecker) analyse(fi *FuncInfo, returnsRef bool) {
	info := c.info
	res := c.m.resolver(fi)
	// Frames of helpers analysed in place: the helper's parameters stand for the caller's keys,
	// its own locals carry the helper's name.
	type oframe struct {
		decl  *ast.FuncDecl
		subst map[types.Object]string
		uniq  map[types.Object]string
	}
	frames := map[*ast.CallExpr]*oframe{} // keyed by the call that enters the helper (contexts are copied by the engine)
	var curFC *FlowCtx[*OState]
	frameOf := func(fc *FlowCtx[*OState]) *oframe {
		for c := fc; c != nil; c = c.Parent {
			if c.Inl != nil {
				return frames[c.Call]
			}
		}
		return nil
	}
	name := func(obj types.Object) string {
		if fr := frameOf(curFC); fr != nil && obj.Pos() >= fr.decl.Pos() && obj.Pos() < fr.decl.End() {
			if s, ok := fr.subst[obj]; ok {
				return s
			}
			n := obj.Name()
			if u, ok := fr.uniq[obj]; ok {
				n = u
			}
			return n + "~" + fr.decl.Name.Name
		}
		if u, ok := res.uniq[obj]; ok {
			return u
		}
		return obj.Name()
	}
	var key func(e ast.Expr) string
	key = func(e ast.Expr) string {
		e = unparen(e)
		if id, ok := e.(*ast.Ident); ok {
			if obj := objOf(info, id); obj != nil {
				return name(obj)
			}
		}
		if sel, ok := e.(*ast.SelectorExpr); ok && frameOf(curFC) != nil {
			if fieldOf(info, sel) != nil {
				return key(sel.X) + "." + sel.Sel.Name
			}
		}
		return c.r.L.str(e)
	}
	fn := fi.Key
	a := &Analysis[*OState]{L: c.r.L, Info: info, Join: oJoin, Equal: oEqual, Copy: oCopy, Wrappers: c.m.DB.Wrappers, ExitPerClass: true}
	// New private helpers (judged in their callers' context, ServerModel.transparent) are
	// analysed in place: references and Files they hand out through their results are taken
	// over by the variables the caller assigns them to.
	pol := inlinePolicy[*OState](c.m.DB, fi)
	a.Inline = func(call *ast.CallExpr, fc *FlowCtx[*OState]) *ast.FuncDecl {
		decl := pol(call, fc)
		if decl == nil {
			return nil
		}
		if hf := c.r.L.FuncOf(info.Defs[decl.Name].(*types.Func)); hf == nil || !c.m.transparent(hf) {
			return nil
		}
		return decl
	}
	a.InlEnter = func(s *OState, call *ast.CallExpr, sub, fc *FlowCtx[*OState]) *OState {
		curFC = fc
		fr := &oframe{decl: sub.Inl, subst: map[types.Object]string{}, uniq: newResolver(c.r.L, info, sub.Inl).uniq}
		bind := func(nm *ast.Ident, arg ast.Expr) {
			obj := info.Defs[nm]
			if obj == nil {
				return
			}
			if c.isRefExpr(arg) {
				fr.subst[obj] = key(arg)
			} else if fo, ok := c.isFileVar(arg); ok {
				fr.subst[obj] = name(fo)
			}
		}
		if sub.Inl.Recv != nil && len(sub.Inl.Recv.List) == 1 && len(sub.Inl.Recv.List[0].Names) == 1 {
			if sel, ok := unparen(call.Fun).(*ast.SelectorExpr); ok {
				bind(sub.Inl.Recv.List[0].Names[0], sel.X)
			}
		}
		idx := 0
		for _, f := range sub.Inl.Type.Params.List {
			for _, nm := range f.Names {
				if idx < len(call.Args) {
					bind(nm, call.Args[idx])
				}
				idx++
			}
		}
		frames[sub.Call] = fr
		for k := range s.Ret {
			delete(s.Ret, k)
		}
		return s
	}
	a.InlExit = func(s *OState, call *ast.CallExpr, sub, fc *FlowCtx[*OState]) *OState {
		// what stays behind in the helper's own variables must be settled: a reference or a File
		// that is neither handed out nor released leaks
		mark := "~" + sub.Inl.Name.Name
		handed := map[string]bool{}
		for _, v := range s.Ret {
			if i := strings.Index(v, ":"); i >= 0 {
				handed[v[i+1:]] = true
			}
		}
		for k := range s.Bal {
			if !strings.Contains(k, mark) || handed[k] {
				continue
			}
			if net := s.Bal[k] - s.Def[k]; net > 0 {
				c.report("r3", fn+": reference "+k, call.Pos(), false, fmt.Sprintf("reference %s is still held (%+d) when the helper %s returns and is not handed to the caller: it is never released", k, net, sub.Inl.Name.Name))
			}
			delete(s.Bal, k)
			delete(s.Def, k)
		}
		for k, st := range s.Files {
			if !strings.Contains(k, mark) || handed[k] {
				continue
			}
			if st == "owned" || st == "owned?" {
				c.report("r1", fn+": File "+k, call.Pos(), false, fmt.Sprintf("File %s obtained in the helper %s is neither closed, moved into a reference nor handed to the caller: it leaks", k, sub.Inl.Name.Name))
			}
			delete(s.Files, k)
		}
		for g, l := range s.Link {
			if strings.Contains(g, mark) || strings.Contains(l.Key, mark) && !handed[l.Key] {
				delete(s.Link, g)
			}
		}
		for k := range s.Facts {
			if strings.Contains(k, mark) {
				delete(s.Facts, k)
			}
		}
		for k := range s.Bad {
			if strings.Contains(k, mark) && !handed[k] {
				delete(s.Bad, k)
			}
		}
		return s
	}

	releaseLinksFor := func(s *OState, obj types.Object) {
		for g, l := range s.Link {
			if l.Guard == obj {
				delete(s.Link, g)
			}
		}
	}
	applyCall := func(s *OState, call *ast.CallExpr, deferred bool, fc *FlowCtx[*OState]) {
		k := calleeKey(info, call)
		sel, _ := unparen(call.Fun).(*ast.SelectorExpr)
		switch k {
		case "p9.fidRef.IncRef":
			if sel != nil {
				s.Bal[key(sel.X)]++
			}
		case "p9.fidRef.DecRef":
			if sel != nil {
				kk := key(sel.X)
				if deferred {
					s.Def[kk]++
				} else {
					s.Bal[kk]--
				}
			}
		case "p9.File.Close":
			if sel != nil {
				if obj, ok := c.isFileVar(sel.X); ok {
					kk := name(obj)
					switch s.Files[kk] {
					case "owned", "owned?":
						s.Files[kk] = "closed"
						c.report("r1", fn+": File "+kk, call.Pos(), true, "closed on the path where it is not handed on")
					case "closed":
						c.report("r1", fn+": File "+kk, call.Pos(), false, "File "+kk+" is closed a second time on this path")
					case "moved":
						c.report("r1", fn+": File "+kk, call.Pos(), false, "File "+kk+" is closed after its ownership moved into a reference: the reference will close it again")
					default:
						c.report("r1", fn+": File "+kk, call.Pos(), false, "Close on "+kk+" which holds no File on this path (state "+s.Files[kk]+")")
					}
				}
			}
		}
	}
	a.Stmt = func(s *OState, n ast.Node, fc *FlowCtx[*OState]) *OState {
		curFC = fc
		inHelper := frameOf(fc) != nil
		deferred := false
		if _, ok := n.(*ast.DeferStmt); ok {
			deferred = true
		}
		// Assignments first decide what the calls on the right-hand side mean.
		switch v := n.(type) {
		case *ast.AssignStmt:
			if len(v.Rhs) == 1 {
				rhs := unparen(v.Rhs[0])
				if call, ok := rhs.(*ast.CallExpr); ok && isAppend(info, call) && len(call.Args) == 2 && c.isRefExpr(call.Args[1]) && c.deferredReleaseList(fi, call.Args[0]) {
					// release = append(release, ref): the reference moves into a list that a deferred
					// function ranges over, calling DecRef on every element.
					s.Bal[key(call.Args[1])]--
				} else if call, ok := rhs.(*ast.CallExpr); ok && len(s.Ret) > 0 && a.Inline(call, fc) != nil {
					// results of a helper analysed in place: the caller's variables take over what
					// the helper handed out
					var errObj types.Object
					if o := objOf(info, v.Lhs[len(v.Lhs)-1]); o != nil && isErrorType(o.Type()) && len(v.Lhs) > 1 {
						errObj = o
					}
					for _, lhs := range v.Lhs {
						if obj := objOf(info, lhs); obj != nil {
							releaseLinksFor(s, obj)
						}
					}
					for j, lhs := range v.Lhs {
						h, has := s.Ret[j]
						if !has || len(v.Lhs) == 1 && j > 0 {
							continue
						}
						kind, from, _ := strings.Cut(h, ":")
						switch kind {
						case "file":
							if fobj, ok := c.isFileVar(lhs); ok {
								kk := name(fobj)
								if st := s.Files[kk]; st == "owned" && kk != from {
									c.report("r1", fn+": File "+kk, v.Pos(), false, "File "+kk+" still owned when it is overwritten by the result of "+c.r.L.str(call.Fun)+": the previous File is never closed")
								}
								c.nFiles++
								st := s.Files[from]
								delete(s.Files, from)
								s.Files[kk] = st
								if errObj != nil {
									s.Link[name(errObj)] = olink{Key: kk, Kind: "file", Guard: errObj}
								}
							}
						case "ref":
							if c.isRefExpr(lhs) {
								kk := key(lhs)
								if kk != from {
									if _, isIdent := unparen(lhs).(*ast.Ident); isIdent && s.Bal[kk]-s.Def[kk] > 0 {
										c.report("r3", fn+": reference "+kk, v.Pos(), false, "reference "+kk+" is overwritten while still owned")
									}
									s.Bal[kk], s.Def[kk] = s.Bal[from], s.Def[from]
									delete(s.Bal, from)
									delete(s.Def, from)
									if msg, bad := s.Bad[from]; bad {
										s.Bad[kk] = msg
										delete(s.Bad, from)
									}
								}
								c.nRefs++
								if errObj != nil {
									s.Link[name(errObj)] = olink{Key: kk, Kind: "ref", Guard: errObj}
								}
							}
						}
					}
					for k := range s.Ret {
						delete(s.Ret, k)
					}
				} else if call, ok := rhs.(*ast.CallExpr); ok {
					k, isSrc := isSourceCall(info, call)
					var errObj types.Object
					if len(v.Lhs) > 0 {
						if o := objOf(info, v.Lhs[len(v.Lhs)-1]); o != nil && isErrorType(o.Type()) {
							errObj = o
						}
					}
					for _, lhs := range v.Lhs {
						if obj := objOf(info, lhs); obj != nil {
							releaseLinksFor(s, obj)
						}
					}
					for _, lhs := range v.Lhs {
						obj := objOf(info, lhs)
						if obj == nil {
							continue
						}
						if fobj, ok := c.isFileVar(lhs); ok && isSrc {
							kk := name(fobj)
							c.nFiles++
							if st := s.Files[kk]; st == "owned" {
								c.report("r1", fn+": File "+kk, v.Pos(), false, "File "+kk+" still owned when it is overwritten by the result of "+k+": the previous File is never closed")
							} else if st == "owned?" && !c.consultedGuard(s, kk, v) {
								// owned on some of the paths that reach here: fine when the statement is
								// conditioned on the error of the call that produced the File (the retry
								// idiom: the File is nil whenever that error is set), a leak otherwise
								c.report("r1", fn+": File "+kk, v.Pos(), false, "File "+kk+" may still be owned when it is overwritten by the result of "+k+", and the overwrite does not depend on the error of the call that produced it: the previous File is never closed on that path")
							}
							s.Files[kk] = "owned"
							if errObj != nil {
								s.Link[name(errObj)] = olink{Key: kk, Kind: "file", Guard: errObj}
							}
						}
						if c.isRefExpr(lhs) {
							kk := key(lhs)
							switch k {
							case "p9.connState.LookupFID":
								c.nRefs++
								if s.Bal[kk]-s.Def[kk] > 0 {
									c.report("r3", fn+": reference "+kk, v.Pos(), false, "reference "+kk+" is overwritten while still owned")
								}
								s.Bal[kk], s.Def[kk] = 1, 0
								if len(v.Lhs) == 2 {
									if okObj := objOf(info, v.Lhs[1]); okObj != nil {
										s.Link[name(okObj)] = olink{Key: kk, Kind: "ref", Guard: okObj, OkVar: true}
									}
								}
							case "p9.doWalk":
								c.nRefs++
								s.Bal[kk], s.Def[kk] = 1, 0
								if errObj != nil {
									s.Link[name(errObj)] = olink{Key: kk, Kind: "ref", Guard: errObj}
								}
							}
						}
					}
				} else if u, ok := rhs.(*ast.UnaryExpr); ok && u.Op == token.AND {
					// v := &fidRef{...}
					if cl, ok := u.X.(*ast.CompositeLit); ok && types.Identical(info.TypeOf(u), c.refT) && len(v.Lhs) == 1 {
						kk := key(v.Lhs[0])
						if s.Bal[kk]-s.Def[kk] > 0 {
							c.report("r3", fn+": reference "+kk, v.Pos(), false, "reference "+kk+" is overwritten by a new literal while still owned")
						}
						s.Bal[kk], s.Def[kk] = 0, 0
						c.literal(s, fi, cl, kk, key, name)
					}
				} else if len(v.Lhs) == 1 && c.isRefExpr(v.Lhs[0]) && c.isRefExpr(rhs) {
					// v = w : move between variables / re-pointing a field
					lk, rk := key(v.Lhs[0]), key(rhs)
					if _, isIdent := unparen(v.Lhs[0]).(*ast.Ident); isIdent {
						if s.Bal[lk]-s.Def[lk] > 0 {
							c.report("r3", fn+": reference "+lk, v.Pos(), false, "variable "+lk+" holds a reference that is overwritten by "+rk+" without being released")
						}
						if _, rIdent := rhs.(*ast.Ident); rIdent {
							s.Bal[lk], s.Def[lk] = s.Bal[rk], 0
							if s.Def[rk] == 0 {
								s.Bal[rk] = 0
							} else {
								// the source keeps its own (deferred) release; the alias owns nothing extra
								s.Bal[lk] = 0
							}
						} else {
							s.Bal[lk], s.Def[lk] = 0, 0
						}
					}
					// field re-pointing (ref.parent = target): the balance of the key is kept
				}
			}
			for _, lhs := range v.Lhs {
				if obj := objOf(info, lhs); obj != nil {
					for f := range s.Facts {
						if mentionsIdent(f, obj.Name()) {
							delete(s.Facts, f)
						}
					}
				}
			}
		case *ast.ReturnStmt:
			notHeld := map[string]bool{}
			if inHelper && fc.Inl != nil {
				// a helper analysed in place hands its results to the caller's variables
				results := v.Results
				if len(results) == 0 && fc.Inl.Type.Results != nil {
					for _, f := range fc.Inl.Type.Results.List {
						for _, nm := range f.Names {
							results = append(results, nm)
						}
					}
				}
				for j, e := range results {
					e = unparen(e)
					if isNilIdent(info, e) {
						continue
					}
					if fobj, ok := c.isFileVar(e); ok {
						if st := s.Files[name(fobj)]; st == "owned" || st == "owned?" {
							s.Ret[j] = "file:" + name(fobj)
						}
					} else if c.isRefExpr(e) {
						s.Ret[j] = "ref:" + key(e)
					}
				}
				break
			}
			// what a helper handed over together with an error that is known to be non-nil
			// here is not held (the engine presents such a return once per class of the error)
			for g, lk := range s.Link {
				if lk.OkVar || fc.Nil[lk.Guard] != nonNil {
					continue
				}
				if lk.Kind == "file" {
					if s.Files[lk.Key] == "owned" || s.Files[lk.Key] == "owned?" {
						s.Files[lk.Key] = "none"
					}
				} else {
					s.Bal[lk.Key], s.Def[lk.Key] = 0, 0
					notHeld[lk.Key] = true
				}
				delete(s.Link, g)
			}
			// A reference returned next to an error that is known to be non-nil is not taken
			// over by the caller (the convention every caller in the package follows, and the
			// one under which helpers are linked to their error result above).
			errKnown := false
			if len(v.Results) > 1 {
				last := unparen(v.Results[len(v.Results)-1])
				if t := info.TypeOf(last); t != nil && isErrorType(t) {
					if obj := objOf(info, last); obj != nil && fc.Nil[obj] == nonNil {
						errKnown = true
					}
				}
			}
			for _, e := range v.Results {
				e = unparen(e)
				if fobj, ok := c.isFileVar(e); ok {
					kk := name(fobj)
					if s.Files[kk] == "owned" || s.Files[kk] == "owned?" {
						s.Files[kk] = "moved"
						c.report("r1", fn+": File "+kk, v.Pos(), true, "returned to the caller")
					}
				}
				if returnsRef && c.isRefExpr(e) {
					if _, isIdent := e.(*ast.Ident); isIdent && !notHeld[key(e)] && !errKnown {
						s.Bal[key(e)]--
					}
				}
			}
		}
		inspectNoLit(n, func(m ast.Node) {
			if call, ok := m.(*ast.CallExpr); ok {
				applyCall(s, call, deferred, fc)
			}
		})
		return s
	}
	a.Cond = func(s *OState, cond ast.Expr, branch bool, fc *FlowCtx[*OState]) *OState {
		curFC = fc
		// conjunctive literals
		var lits []struct {
			e ast.Expr
			v bool
		}
		var walk func(e ast.Expr, b bool)
		walk = func(e ast.Expr, b bool) {
			e = unparen(e)
			if u, ok := e.(*ast.UnaryExpr); ok && u.Op == token.NOT {
				walk(u.X, !b)
				return
			}
			if be, ok := e.(*ast.BinaryExpr); ok && (be.Op == token.LAND || be.Op == token.LOR) {
				if (be.Op == token.LAND) == b {
					walk(be.X, b)
					walk(be.Y, b)
				}
				return
			}
			lits = append(lits, struct {
				e ast.Expr
				v bool
			}{e, b})
		}
		walk(cond, branch)
		for _, l := range lits {
			// ok variables
			if obj := objOf(info, l.e); obj != nil {
				if lk, ok := s.Link[name(obj)]; ok && lk.OkVar && lk.Guard == obj && !l.v {
					s.Bal[lk.Key], s.Def[lk.Key] = 0, 0
					delete(s.Link, name(obj))
				}
			}
			if call, ok := l.e.(*ast.CallExpr); ok {
				k := calleeKey(info, call)
				if sel, ok := unparen(call.Fun).(*ast.SelectorExpr); ok {
					switch k {
					case "p9.fidRef.TryIncRef":
						if l.v {
							s.Bal[key(sel.X)]++
						}
					case "p9.fidRef.hasParent":
						s.Facts[key(sel.X)+".hasParent()"] = l.v
					}
				}
			}
			if be, ok := l.e.(*ast.BinaryExpr); ok && (be.Op == token.EQL || be.Op == token.NEQ) && isNilIdent(info, unparen(be.Y)) {
				s.Facts[key(be.X)+" == nil"] = (be.Op == token.EQL) == l.v
			}
		}
		// error-variable links: the engine has already updated nil-ness.
		for g, lk := range s.Link {
			if lk.OkVar {
				continue
			}
			if fc.Nil[lk.Guard] == nonNil {
				if lk.Kind == "file" {
					if s.Files[lk.Key] == "owned" || s.Files[lk.Key] == "owned?" {
						s.Files[lk.Key] = "none"
					}
				} else {
					s.Bal[lk.Key], s.Def[lk.Key] = 0, 0
				}
				delete(s.Link, g)
			}
		}
		return s
	}
	a.Exit = func(s *OState, ret *ast.ReturnStmt, fc *FlowCtx[*OState]) {
		curFC = fc
		if fc.Parent != nil {
			return // exits of inlined literals flow into their caller
		}
		pos := fi.Decl.End()
		if ret != nil {
			pos = ret.Pos()
		}
		for k, st := range s.Files {
			if st == "owned" || st == "owned?" {
				c.report("r1", fn+": File "+k, pos, false, fmt.Sprintf("File %s obtained from the backend is neither closed, nor moved into a reference, nor returned on the path leaving at %s: it leaks (never closed)", k, c.r.L.relPos(pos)))
			}
		}
		keys := map[string]bool{}
		for k := range s.Bal {
			keys[k] = true
		}
		for k := range s.Def {
			keys[k] = true
		}
		for k := range keys {
			net := s.Bal[k] - s.Def[k]
			construct := fn + ": reference " + k
			if msg, bad := s.Bad[k]; bad {
				c.report("r3", construct, pos, false, msg)
				continue
			}
			if net == 0 {
				c.report("r3", construct, pos, true, "acquisitions and releases cancel on every exit")
				continue
			}
			if net < 0 {
				// a debt on X.parent is forgiven where the parent is known to be nil
				base := strings.TrimSuffix(k, ".parent")
				if strings.HasSuffix(k, ".parent") && (s.Facts[base+".hasParent()"] || s.Facts[k+" == nil"]) {
					c.report("r3", construct, pos, true, "no parent on this path")
					continue
				}
				c.report("r3", construct, pos, false, fmt.Sprintf("reference %s is released %d time(s) more than it was acquired on the path leaving at %s", k, -net, c.r.L.relPos(pos)))
			} else {
				c.report("r3", construct, pos, false, fmt.Sprintf("reference %s is still held (%+d) on the path leaving at %s: it is never released, so its File is never closed", k, net, c.r.L.relPos(pos)))
			}
		}
	}
	a.Run(fi.Decl, newOState())
}

// literal processes a &fidRef{...}: file ownership moves in; a non-nil parent moves a reference in.
func (c *ownChecker) literal(s *OState, fi *FuncInfo, cl *ast.CompositeLit, litKey string, key func(ast.Expr) string, name func(types.Object) string) {
	info := c.info
	fn := fi.Key
	for _, el := range cl.Elts {
		kv, ok := el.(*ast.KeyValueExpr)
		if !ok {
			continue
		}
		switch kv.Key.(*ast.Ident).Name {
		case "file":
			if fobj, ok := c.isFileVar(kv.Value); ok {
				kk := name(fobj)
				switch s.Files[kk] {
				case "owned", "owned?":
					s.Files[kk] = "moved"
					c.report("r1", fn+": File "+kk, kv.Pos(), true, "moved into a reference literal")
				case "moved":
					c.report("r1", fn+": File "+kk, kv.Pos(), false, "File "+kk+" is stored in a second reference: two reference counts would each close it")
				default:
					c.report("r1", fn+": File "+kk, kv.Pos(), false, "File variable "+kk+" stored into a reference holds no owned File on this path (state "+s.Files[kk]+")")
				}
			}
		case "parent":
			if !isNilIdent(info, unparen(kv.Value)) {
				s.Bal[key(kv.Value)]--
			}
		case "refs":
			if v, ok := constInt(info, kv.Value); ok && v > 0 {
				s.Bal[litKey] += int(v)
			}
		}
	}
}

func checkC05(r *Run) {
	m := buildServerModel(r.L)
	info := m.Info
	p9 := r.L.Pkg("p9")
	c := &ownChecker{r: r, m: m, info: info, reports: map[string]*ownReport{}}
	c.fileT = p9.Types.Scope().Lookup("File").Type()
	if nt := r.L.namedType("p9", "fidRef"); nt != nil {
		c.refT = types.NewPointer(nt)
	} else {
		r.undecided("r1", "fidRef", token.NoPos, "type p9.fidRef not found")
		return
	}
	// r1/r3: all handlers + helpers.
	nfun := 0
	for _, fi := range r.L.funcsOfPkg("p9") {
		if fi.Decl.Body == nil || isClientSide(fi) {
			continue
		}
		switch {
		case isHandlerFunc(fi), fi.Key == "p9.doWalk", fi.Key == "p9.walkOne", fi.Key == "p9.pathNode.removeWithName", fi.Key == "p9.fidRef.renameChildTo":
			nfun++
			c.analyse(fi, fi.Key == "p9.doWalk")
		}
	}
	c.flush()
	r.floor("r1", "functions analysed for ownership", nfun, 38)
	r.floor("r1", "File acquisitions tracked", c.nFiles, 5)
	r.floor("r3", "reference acquisitions tracked", c.nRefs, 30)

	// r2: single owner.
	fidRefT := r.L.namedType("p9", "fidRef")
	nlit := 0
	for _, fi := range r.L.funcsOfPkg("p9") {
		if fi.Decl.Body == nil {
			continue
		}
		idx := 0
		ast.Inspect(fi.Decl.Body, func(nd ast.Node) bool {
			cl, ok := nd.(*ast.CompositeLit)
			if !ok || !types.Identical(info.TypeOf(cl), fidRefT) {
				return true
			}
			idx++
			nlit++
			key := fmt.Sprintf("%s: fidRef literal #%d file", fi.Key, idx)
			var fv ast.Expr
			for _, el := range cl.Elts {
				if kv, ok := el.(*ast.KeyValueExpr); ok && kv.Key.(*ast.Ident).Name == "file" {
					fv = kv.Value
				}
			}
			if fv == nil {
				r.fail("r2", key, cl.Pos(), "reference literal without a file")
				return true
			}
			if v, ok := objOf(info, fv).(*types.Var); ok && !v.IsField() && m.isFreshLocal(fi, v) {
				r.ok("r2", key, fv.Pos(), "file: %s, a local bound only to backend source calls", v.Name())
			} else {
				r.fail("r2", key, fv.Pos(), "file: %s is not a fresh File from the backend: the new reference shares a File with another reference, each with its own count — the File is closed when either count reaches zero (use after close for the other, then a second Close)", r.L.str(fv))
			}
			return true
		})
	}
	r.floor("r2", "fidRef literals", nlit, 5)
	nw := 0
	for _, fa := range m.fields() {
		if fa.Key == "p9.fidRef.file" && fa.Write {
			nw++
			r.fail("r2", fa.Root.Key+": assignment to fidRef.file", fa.Sel.Pos(), "the File of a reference is replaced after construction")
		}
	}
	if nw == 0 {
		r.ok("r2", "fidRef.file is never assigned after construction", token.NoPos, "no write access to fidRef.file outside literals")
	}

	c05DecRef(r, m)
	c05TableAPI(r, m)
	c05Teardown(r, m)

	// r3 (continued): a rename hands the child's parent reference over - old parent released,
	// new parent acquired, on every path of the bookkeeping callback (the rule of C08.r3)
	if r.borrowed == nil {
		r.borrow(checkC08, map[string]string{"r3": "r3"})
	}
}

func c05DecRef(r *Run, m *ServerModel) {
	info := m.Info
	fi := r.mustFunc("r4", "p9", "fidRef.DecRef")
	if fi != nil {
		recv := fi.Decl.Recv.List[0].Names[0].Name
		zero := "atomic.AddInt64(&" + recv + ".refs, -1) == 0"
		nClose := 0
		// (the sites of DecRef itself and of private helpers it calls that are judged in its
		// context: f.dropParent())
		var sites []*Site
		for _, k := range []string{"p9.File.Close", "p9.fidRef.DecRef", "p9.pathNode.removeChild"} {
			sites = append(sites, m.callsDeep(fi, k)...)
		}
		for _, s := range sites {
			switch s.Callee {
			case "p9.File.Close":
				nClose++
				r.check(s.St.holds(zero, true), "r4", "DecRef: Close at zero only", s.Call.Pos(), "Close is on the == 0 side of the atomic decrement", "File.Close in DecRef is not confined to the path where the count reached exactly zero (facts: "+describePaths(s.St)+")")
			case "p9.fidRef.DecRef":
				r.check(s.St.holds(zero, true) && s.St.holds(recv+".parent == nil", false), "r4", "DecRef: parent released at zero only", s.Call.Pos(), "parent.DecRef() on the == 0 side, under parent != nil", "the parent reference is released outside the == 0 path or without the nil test")
			case "p9.pathNode.removeChild":
				r.check(s.St.holds(zero, true), "r4", "DecRef: unregister at zero only", s.Call.Pos(), "removeChild on the == 0 side", "the reference is unregistered from its parent's node outside the == 0 path")
			}
		}
		r.check(nClose == 1, "r4", "DecRef: exactly one Close site", fi.Decl.Pos(), "one File.Close call", fmt.Sprintf("%d File.Close calls in DecRef", nClose))
		// The parent release is there at all.
		hasParentRel := false
		for _, s := range sites {
			if s.Callee == "p9.fidRef.DecRef" {
				hasParentRel = true
			}
		}
		r.check(hasParentRel, "r4", "DecRef: releases the parent reference", fi.Decl.Pos(), "f.parent.DecRef()", "a dying reference does not release its parent: ancestors are never closed")
		// Errors of Close must not cut the parent release (every path after Close reaches it when parent != nil).
		for _, ex := range m.DB.Exits[fi] {
			if ex.St.Dead || !ex.St.holds(zero, true) || !ex.St.May["p9.File.Close"] {
				continue
			}
			// Every path must have gone through the parent test; paths on which the parent
			// is non-nil must have passed the release.
			pk := recv + ".parent == nil"
			untested := false
			for _, p := range ex.St.Paths {
				if _, ok := p[pk]; !ok {
					untested = true
				}
			}
			if untested || (ex.St.holds(pk, false) && !ex.St.Must["p9.fidRef.DecRef"]) {
				r.fail("r4", "DecRef: parent released on every path after Close", ex.Ret.Pos(), "an exit after Close (e.g. when Close returns an error) skips the parent release: the parent and its ancestors are never closed")
			}
		}
	}
	if ti := r.mustFunc("r4", "p9", "fidRef.TryIncRef"); ti != nil {
		// every `return true` is preceded by a successful CAS from a value known > 0.
		okAll, n := true, 0
		for _, ex := range m.DB.Exits[ti] {
			if ex.Ret == nil || len(ex.Ret.Results) != 1 || ex.St.Dead {
				continue
			}
			tv := constValue(info, ex.Ret.Results[0])
			if tv == nil || tv.String() != "true" {
				continue
			}
			n++
			pos := false
			cas := false
			// the count is known positive on every path: "x > C" holds with C >= 0, or
			// "C > x" is refuted with C >= 1 ("x <= 0" is canonicalised as "x > 0" with flipped
			// polarity; a refuted "0 > x" only gives x >= 0, which is not enough)
			pos = len(ex.St.Paths) > 0
			for _, p := range ex.St.Paths {
				pp := false
				for k, v := range p {
					if i := strings.Index(k, " > "); i > 0 {
						l, rr := k[:i], k[i+3:]
						if c, err := strconv.Atoi(rr); err == nil && c >= 0 && v {
							pp = true
						}
						if c, err := strconv.Atoi(l); err == nil && c >= 1 && !v {
							pp = true
						}
					}
					if strings.Contains(k, "CompareAndSwapInt64") && v {
						cas = true
					}
				}
				if !pp {
					pos = false
				}
			}
			if !pos || !cas {
				okAll = false
			}
		}
		r.check(okAll && n > 0, "r4", "TryIncRef cannot resurrect", ti.Decl.Pos(), "returns true only after CAS(r, r+1) with r > 0", "TryIncRef can return true for a count that is not known to be positive, or without a successful compare-and-swap: a closed File could be handed out again")
	}
	// File.Close call sites: only DecRef and fresh files.
	for _, b := range m.Backend {
		if b.Method != "Close" {
			continue
		}
		okSite := b.Fresh || b.Site.Root.Key == "p9.fidRef.DecRef"
		r.check(okSite, "r4", b.Key()+": who may close", b.Site.Call.Pos(), "fresh File or DecRef", "File.Close is called on a published File outside DecRef: the reference count no longer decides when a File is closed")
	}
}

func c05TableAPI(r *Run, m *ServerModel) {
	info := m.Info
	// LookupFID: IncRef before returning the hit, under fidMu.
	if fi := r.mustFunc("r3", "p9", "connState.LookupFID"); fi != nil {
		okHit := false
		for _, ex := range m.DB.Exits[fi] {
			if ex.Ret == nil || len(ex.Ret.Results) != 2 {
				continue
			}
			tv := constValue(info, ex.Ret.Results[1])
			if tv != nil && tv.String() == "true" {
				okHit = ex.St.Must["p9.fidRef.IncRef"]
			}
		}
		r.check(okHit, "r3", "LookupFID: a hit carries a new reference", fi.Decl.Pos(), "IncRef before returning (ref, true)", "LookupFID returns a hit without taking a reference: the deferred DecRef of every handler would over-release")
		locked := true
		for _, s := range m.DB.ByFunc[fi] {
			if s.Callee == "p9.fidRef.IncRef" && !hasClass(s.St.Locks, "p9.connState.fidMu") {
				locked = false
			}
		}
		r.check(locked, "r3", "LookupFID: reference taken under fidMu", fi.Decl.Pos(), "IncRef under fidMu", "the reference is taken outside fidMu: a concurrent clunk could free the entry between lookup and IncRef")
	}
	if fi := r.mustFunc("r3", "p9", "connState.InsertFID"); fi != nil {
		inc, dec := false, false
		for _, s := range m.DB.ByFunc[fi] {
			if s.Callee == "p9.fidRef.IncRef" {
				inc = true
			}
		}
		ast.Inspect(fi.Decl.Body, func(n ast.Node) bool {
			if c, ok := n.(*ast.CallExpr); ok && calleeKey(info, c) == "p9.fidRef.DecRef" {
				dec = true
			}
			return true
		})
		r.check(inc && dec, "r3", "InsertFID: table takes its own reference, releases the replaced one", fi.Decl.Pos(), "newRef.IncRef(); replaced.DecRef()", "InsertFID does not take a reference for the table and release the replaced binding")
		// ... and takes it before the entry becomes visible to other requests: no store into
		// the fid table may precede the IncRef (the store may be written in a private helper)
		stored := func(st *HState, must bool) bool {
			set := st.May
			if must {
				set = st.Must
			}
			for k := range set {
				if strings.HasPrefix(k, "mapstore:") && strings.HasSuffix(k, ".fids") {
					return true
				}
			}
			return false
		}
		for _, s := range m.callsIn(fi, "p9.fidRef.IncRef") {
			r.check(!stored(s.St, false), "r3", "InsertFID: the table's reference is taken before the entry is published", s.Call.Pos(), "IncRef precedes the store into cs.fids",
				"the new reference is stored in the fid table before the table's own reference has been taken: a concurrent request on that fid can take the count from 0 to 1 and back to 0, closing a File that is still bound")
		}
		okStore := len(m.DB.Exits[fi]) > 0
		for _, ex := range m.DB.Exits[fi] {
			if ex.Fn == ast.Node(fi.Decl) && !ex.St.Dead && !stored(ex.St, true) {
				okStore = false
			}
		}
		r.check(okStore, "r3", "InsertFID: stores into the fid table", fi.Decl.Pos(), "cs.fids[fid] = newRef on every path", "InsertFID does not store the new reference into cs.fids on every path")
	}
	if fi := r.mustFunc("r3", "p9", "connState.DeleteFID"); fi != nil {
		okDel := false
		for _, s := range m.DB.ByFunc[fi] {
			if s.Callee == "p9.fidRef.DecRef" {
				okDel = true
			}
		}
		// the entry is deleted on every path (the event "delete:<map>" of the site analysis;
		// the delete may be written in a private helper)
		del := len(m.DB.Exits[fi]) > 0
		for _, ex := range m.DB.Exits[fi] {
			if ex.Fn != ast.Node(fi.Decl) || ex.St.Dead {
				continue
			}
			has := false
			for k := range ex.St.Must {
				if strings.HasPrefix(k, "delete:") && strings.HasSuffix(k, ".fids") {
					has = true
				}
			}
			if !has {
				del = false
			}
		}
		r.check(okDel && del, "r3", "DeleteFID: removes the entry and releases the table's reference", fi.Decl.Pos(), "delete + DecRef", "DeleteFID does not both remove the entry and release the table's reference")
	}
}

func hasClass(locks map[string]bool, class string) bool {
	for t := range locks {
		if strings.HasPrefix(t, class+":") {
			return true
		}
	}
	return false
}

func c05Teardown(r *Run, m *ServerModel) {
	info := m.Info
	if fi := r.mustFunc("r5", "p9", "Server.Handle"); fi != nil {
		okDefer := len(m.DB.Exits[fi]) > 0
		for _, ex := range m.DB.Exits[fi] {
			if !ex.St.Must["defer:p9.connState.stop"] {
				okDefer = false
			}
		}
		r.check(okDefer, "r5", "Handle defers stop", fi.Decl.Pos(), "defer cs.stop() before serving", "Handle does not defer stop(): files of a dropped connection are never closed")
	}
	if fi := r.mustFunc("r5", "p9", "connState.stop"); fi != nil {
		n := 0
		for _, s := range m.DB.ByFunc[fi] {
			switch s.Callee {
			case "io.Closer.Close", "io.ReadCloser.Close", "io.WriteCloser.Close", "p9.fidRef.DecRef":
				n++
				r.check(s.St.Must["sync.WaitGroup.Wait"], "r5", "stop: "+s.Callee+" after pendingWg.Wait", s.Call.Pos(), "waits for running handlers first", "stop() does "+s.Callee+" before waiting for the in-flight handlers: a handler could use a File after it was closed")
			}
		}
		r.check(n >= 3, "r5", "stop: closes both transports and drops every table reference", fi.Decl.Pos(), fmt.Sprintf("%d teardown calls", n), "stop() no longer closes both transports and releases the table's references")
		// the DecRef is inside a range over cs.fids
		okRange := false
		ast.Inspect(fi.Decl.Body, func(nd ast.Node) bool {
			rs, ok := nd.(*ast.RangeStmt)
			if ok && strings.HasSuffix(r.L.str(rs.X), ".fids") {
				ast.Inspect(rs.Body, func(n2 ast.Node) bool {
					if c, ok := n2.(*ast.CallExpr); ok && calleeKey(info, c) == "p9.fidRef.DecRef" {
						okRange = true
					}
					return true
				})
			}
			return true
		})
		r.check(okRange, "r5", "stop: every remaining fid is released", fi.Decl.Pos(), "range cs.fids { DecRef }", "stop() does not release every entry of the fid table")
	}
	// go statements on the serving path.
	ngo := 0
	for _, key := range []string{"connState.handleRequest", "Server.ServeContext"} {
		fi := r.mustFunc("r5", "p9", key)
		if fi == nil {
			continue
		}
		// (go statements written in a helper that is judged in this function's context count)
		gos := m.blockingIn(fi, "go")
		addedAt := unconsumedAdd(m, fi)
		sort.Slice(gos, func(i, j int) bool { return gos[i].Node.Pos() < gos[j].Node.Pos() })
		for _, b := range gos {
			g, ok := b.Node.(*ast.GoStmt)
			if !ok {
				continue
			}
			ngo++
			body := m.spawnedBody(g.Call)
			// An Add that no earlier Done or go statement has used up must precede on every path.
			added := addedAt[g]
			done := false
			if body != nil {
				ast.Inspect(body, func(n2 ast.Node) bool {
					if c, ok := n2.(*ast.CallExpr); ok && calleeKey(info, c) == "sync.WaitGroup.Done" {
						done = true
					}
					return true
				})
			}
			skey := fmt.Sprintf("p9.%s: goroutine #%d is counted", key, ngo)
			// The context-watcher goroutine of ServeContext is counted by the same WaitGroup.
			r.check(added && done, "r5", skey, g.Pos(), "WaitGroup.Add before go, Done in the body", "a goroutine is started without WaitGroup.Add before it / Done inside it: Handle/Serve can return while it still runs")
		}
	}
	r.floor("r5", "go statements on the serving path", ngo, 3)
	if fi := r.L.Func("p9", "connState.handleRequest"); fi != nil {
		okPair := len(m.DB.Exits[fi]) > 0
		for _, ex := range m.DB.Exits[fi] {
			if ex.Fn != ast.Node(fi.Decl) {
				continue
			}
			if !ex.St.Must["sync.WaitGroup.Add"] || !ex.St.Must["defer:sync.WaitGroup.Done"] {
				okPair = false
			}
		}
		r.check(okPair, "r5", "handleRequest counts itself in pendingWg", fi.Decl.Pos(), "Add(1); defer Done()", "handleRequest is not bracketed by pendingWg.Add/Done on every path: stop() would not wait for it")
	}
	if fi := r.L.Func("p9", "Server.ServeContext"); fi != nil {
		okWait := len(m.DB.Exits[fi]) > 0
		for _, ex := range m.DB.Exits[fi] {
			if ex.Fn == ast.Node(fi.Decl) && !ex.St.Must["defer:sync.WaitGroup.Wait"] {
				okWait = false
			}
		}
		r.check(okWait, "r5", "ServeContext waits for its handlers", fi.Decl.Pos(), "defer wg.Wait()", "ServeContext can return without waiting for connection handlers")
	}
}

// sameBlockBefore: a is a statement-level call in the same block list as b and precedes it.
func sameBlockBefore(l *Loaded, a ast.Node, b ast.Node) bool {
	var sa ast.Node = a
	for {
		p := l.parent(sa)
		if p == nil {
			return false
		}
		if blk, ok := p.(*ast.BlockStmt); ok {
			ia, ib := -1, -1
			for i, s := range blk.List {
				if s == sa {
					ia = i
				}
				if s == b {
					ib = i
				}
			}
			return ia >= 0 && ib > ia
		}
		sa = p
	}
}

func isAppend(info *types.Info, call *ast.CallExpr) bool {
	id, ok := call.Fun.(*ast.Ident)
	if !ok || id.Name != "append" {
		return false
	}
	_, isB := info.Uses[id].(*types.Builtin)
	return isB
}

// deferredReleaseList: list is a local slice that a deferred function literal of fi ranges over,
// calling DecRef on the range value.
func (c *ownChecker) deferredReleaseList(fi *FuncInfo, list ast.Expr) bool {
	info := c.info
	obj := objOf(info, list)
	if obj == nil {
		return false
	}
	// releasesAll: the body ranges over the list variable and calls DecRef on every element,
	// or hands the list to a function that does (decRefAll(release)).
	var releasesAll func(body ast.Node, lst types.Object, depth int) bool
	releasesAll = func(body ast.Node, lst types.Object, depth int) bool {
		found := false
		ast.Inspect(body, func(m ast.Node) bool {
			switch v := m.(type) {
			case *ast.RangeStmt:
				rx := unparen(v.X)
				if st, isStar := rx.(*ast.StarExpr); isStar {
					rx = unparen(st.X) // the list is reached through a pointer (decRefAll(&release))
				}
				if objOf(info, rx) != lst || v.Value == nil {
					return true
				}
				ev := info.Defs[v.Value.(*ast.Ident)]
				ast.Inspect(v.Body, func(k ast.Node) bool {
					if call, ok := k.(*ast.CallExpr); ok && calleeKey(info, call) == "p9.fidRef.DecRef" {
						if sel, ok := unparen(call.Fun).(*ast.SelectorExpr); ok && objOf(info, sel.X) == ev {
							found = true
						}
					}
					return true
				})
			case *ast.CallExpr:
				if depth >= 2 {
					return true
				}
				tf := c.r.L.FuncOf(callee(info, v))
				if tf == nil || tf.Decl.Body == nil {
					return true
				}
				idx := 0
				for _, f := range tf.Decl.Type.Params.List {
					for _, nm := range f.Names {
						if idx < len(v.Args) {
							a := unparen(v.Args[idx])
							if u, isAddr := a.(*ast.UnaryExpr); isAddr && u.Op == token.AND {
								a = unparen(u.X)
							}
							if objOf(info, a) == lst && releasesAll(tf.Decl.Body, info.Defs[nm], depth+1) {
								found = true
							}
						}
						idx++
					}
				}
			}
			return true
		})
		return found
	}
	found := false
	ast.Inspect(fi.Decl.Body, func(n ast.Node) bool {
		d, ok := n.(*ast.DeferStmt)
		if !ok {
			return true
		}
		if lit, ok := unparen(d.Call.Fun).(*ast.FuncLit); ok {
			if releasesAll(lit.Body, obj, 0) {
				found = true
			}
		} else {
			// defer decRefAll(&release): the pointer is evaluated at the defer, the list when the
			// function runs.  defer decRefAll(release) would see the list as it is now (empty).
			byPointer := false
			for _, a := range d.Call.Args {
				if u, isAddr := unparen(a).(*ast.UnaryExpr); isAddr && u.Op == token.AND && objOf(info, u.X) == obj {
					byPointer = true
				}
			}
			if byPointer && releasesAll(d.Call, obj, 0) {
				found = true
			}
			// defer release.decRefAll(): a method of the list's type with a pointer receiver
			// (the address is taken at the defer, the list is read when the method runs)
			if sel, ok := unparen(d.Call.Fun).(*ast.SelectorExpr); ok && objOf(info, sel.X) == obj {
				if tf := c.r.L.FuncOf(callee(info, d.Call)); tf != nil && tf.Decl.Body != nil && tf.Decl.Recv != nil && len(tf.Decl.Recv.List) == 1 && len(tf.Decl.Recv.List[0].Names) == 1 {
					if _, isPtr := tf.Decl.Recv.List[0].Type.(*ast.StarExpr); isPtr && releasesAll(tf.Decl.Body, info.Defs[tf.Decl.Recv.List[0].Names[0]], 1) {
						found = true
					}
				}
			}
		}
		return true
	})
	return found
}

// consultedGuard: the statement st lies under a condition that mentions the error variable
// linked to the File key (the error returned together with it).
func (c *ownChecker) consultedGuard(s *OState, key string, st ast.Node) bool {
	// the error variables assigned together with this File by the calls that produce it
	var guards []types.Object
	if decl := c.r.L.declAt(st.Pos()); decl != nil {
		ast.Inspect(decl, func(n ast.Node) bool {
			as, ok := n.(*ast.AssignStmt)
			if !ok || len(as.Rhs) != 1 || len(as.Lhs) < 2 || as.Pos() >= st.Pos() {
				return true
			}
			call, ok := unparen(as.Rhs[0]).(*ast.CallExpr)
			if !ok {
				return true
			}
			if _, isSrc := isSourceCall(c.info, call); !isSrc {
				return true
			}
			for _, l := range as.Lhs {
				if fobj, isF := c.isFileVar(l); isF && fobj.Name() == strings.SplitN(key, "#", 2)[0] {
					if eo := objOf(c.info, as.Lhs[len(as.Lhs)-1]); eo != nil && isErrorType(eo.Type()) {
						guards = append(guards, eo)
					}
				}
			}
			return true
		})
	}
	if len(guards) == 0 {
		return false
	}
	mentions := func(e ast.Expr) bool {
		for _, o := range objsIn(c.info, e) {
			for _, g := range guards {
				if o == g {
					return true
				}
			}
		}
		return false
	}
	for p := c.r.L.parent(st); p != nil; p = c.r.L.parent(p) {
		switch v := p.(type) {
		case *ast.IfStmt:
			if mentions(v.Cond) {
				return true
			}
		case *ast.CaseClause:
			for _, e := range v.List {
				if mentions(e) {
					return true
				}
			}
		case *ast.FuncDecl, *ast.FuncLit:
			return false
		}
	}
	return false
}

// unconsumedAdd computes, for every go statement on the paths of fi (private helpers analysed
// in place), whether on every path to it a WaitGroup.Add has run that no later deferred or
// direct Done and no other go statement has accounted for: the Add that counts this goroutine.
func unconsumedAdd(m *ServerModel, fi *FuncInfo) map[*ast.GoStmt]bool {
	info := m.Info
	at := map[*ast.GoStmt]bool{}
	seen := map[*ast.GoStmt]bool{}
	a := &Analysis[bool]{L: m.L, Info: info, Wrappers: m.DB.Wrappers, Inline: inlinePolicy[bool](m.DB, fi),
		Join:  func(x, y bool) bool { return x && y },
		Equal: func(x, y bool) bool { return x == y },
		Copy:  func(x bool) bool { return x },
	}
	a.Stmt = func(s bool, n ast.Node, fc *FlowCtx[bool]) bool {
		switch v := n.(type) {
		case *ast.GoStmt:
			return false
		case *ast.DeferStmt:
			if calleeKey(info, v.Call) == "sync.WaitGroup.Done" {
				return false
			}
			return s
		}
		inspectNoLit(n, func(x ast.Node) {
			if c, ok := x.(*ast.CallExpr); ok {
				switch calleeKey(info, c) {
				case "sync.WaitGroup.Add":
					s = true
				case "sync.WaitGroup.Done":
					s = false
				}
			}
		})
		return s
	}
	a.Visit = func(s bool, n ast.Node, fc *FlowCtx[bool]) {
		if g, ok := n.(*ast.GoStmt); ok {
			if seen[g] {
				at[g] = at[g] && s
			} else {
				at[g], seen[g] = s, true
			}
		}
	}
	a.Run(fi.Decl, false)
	return at
}
