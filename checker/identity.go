package main

// Function identity across a change of form.
//
// The rules are anchored at functions of the tree they were confirmed on ("p9.tmknod.do",
// "p9.doWalk", "p9.notifyDelete", ...).  A maintainer may turn a method into a plain function
// that takes the former receiver as its first parameter (or the reverse), or rename an
// unexported function, without changing what the program does.  To judge such a tree the
// loader restores the anchored form before the rules run:
//
//  1. a function of the pinned tree (anchors_gen.go: name, form, flattened signature, static
//     callers, per build configuration) that no longer exists is matched against the
//     unexported functions that did not exist in the pinned tree: same flattened signature
//     (receiver type first, then the parameter types, then the result types), one candidate
//     only (ties are broken by an identical base name), and at least one static caller in
//     common (or none on both sides);
//  2. the candidate's declaration and every call of it are rewritten in the syntax tree to the
//     pinned form - f(x, a, b) <-> x.f(a, b), with the implicit & / * of method calls made
//     explicit - and the module's packages are type-checked again from the rewritten trees;
//  3. if anything does not fit (the function is used as a value, the call goes through an
//     embedded field, the rewritten program does not type-check) nothing is rewritten and
//     the rules report the missing anchor as before (fail closed).
//
// The rewrite changes the spelling of a call, never which function is called with which
// values; positions of the original tokens are kept, so reports still point into /repo.

import (
	"fmt"
	"go/ast"
	"go/parser"
	"go/token"
	"go/types"
	"os"
	"sort"
	"strings"

	"golang.org/x/tools/go/packages"
)

// pinnedFn describes one function of the pinned tree.
type pinnedFn struct {
	Method  bool
	Sig     string   // flattened signature
	Callers []string // keys of the functions that call it statically
	Configs string   // build configurations in which it exists, comma separated
	Params  []string // "name type" of every parameter (receiver excluded), in order
}

// paramList renders the parameters of f as "name type".
func paramList(f *types.Func) []string {
	sig, _ := f.Type().(*types.Signature)
	if sig == nil {
		return nil
	}
	q := func(p *types.Package) string { return p.Name() }
	var out []string
	for i := 0; i < sig.Params().Len(); i++ {
		v := sig.Params().At(i)
		t := types.TypeString(v.Type(), q)
		if sig.Variadic() && i == sig.Params().Len()-1 {
			t = "..." + strings.TrimPrefix(t, "[]")
		}
		out = append(out, v.Name()+" "+t)
	}
	return out
}

func isPinnedIn(key, config string) bool {
	p, ok := pinnedSigs[key]
	if !ok {
		return false
	}
	for _, c := range strings.Split(p.Configs, ",") {
		if c == config {
			return true
		}
	}
	return false
}

// flatSig renders receiver, parameter and result types of f in one list.
func flatSig(f *types.Func) string {
	sig, _ := f.Type().(*types.Signature)
	if sig == nil {
		return ""
	}
	q := func(p *types.Package) string { return p.Name() }
	var in, out []string
	if sig.Recv() != nil {
		in = append(in, types.TypeString(sig.Recv().Type(), q))
	}
	for i := 0; i < sig.Params().Len(); i++ {
		t := types.TypeString(sig.Params().At(i).Type(), q)
		if sig.Variadic() && i == sig.Params().Len()-1 {
			t = "..." + strings.TrimPrefix(t, "[]")
		}
		in = append(in, t)
	}
	for i := 0; i < sig.Results().Len(); i++ {
		out = append(out, types.TypeString(sig.Results().At(i).Type(), q))
	}
	return strings.Join(in, ",") + "->" + strings.Join(out, ",")
}

type declRec struct {
	pkg  *packages.Package
	decl *ast.FuncDecl
	obj  *types.Func
	key  string
}

// moduleDecls lists the function declarations (with bodies or not) of the module packages.
func moduleDecls(pkgs []*packages.Package) []*declRec {
	var out []*declRec
	for _, p := range pkgs {
		for _, f := range p.Syntax {
			for _, d := range f.Decls {
				fd, ok := d.(*ast.FuncDecl)
				if !ok {
					continue
				}
				obj, _ := p.TypesInfo.Defs[fd.Name].(*types.Func)
				if obj == nil {
					continue
				}
				out = append(out, &declRec{pkg: p, decl: fd, obj: obj, key: funcKey(obj)})
			}
		}
	}
	return out
}

// staticCallers maps every function object to the keys of the declared functions that
// mention it in call position (or as a value).
func staticCallers(decls []*declRec) map[*types.Func]map[string]bool {
	out := map[*types.Func]map[string]bool{}
	for _, d := range decls {
		if d.decl.Body == nil {
			continue
		}
		ast.Inspect(d.decl.Body, func(n ast.Node) bool {
			id, ok := n.(*ast.Ident)
			if !ok {
				return true
			}
			if f, ok := d.pkg.TypesInfo.Uses[id].(*types.Func); ok {
				f = f.Origin()
				if out[f] == nil {
					out[f] = map[string]bool{}
				}
				out[f][d.key] = true
			}
			return true
		})
	}
	return out
}

// genAnchors prints anchors_gen.go for the tree at repo (development: p9check -gen-anchors).
func genAnchors(repo string) error {
	type rec struct {
		pinnedFn
		configs map[string]bool
		callers map[string]bool
	}
	all := map[string]*rec{}
	for _, config := range thoroughConfigs {
		skipIdentity = true
		l, err := load(repo, config, "")
		skipIdentity = false
		if err != nil {
			return err
		}
		decls := moduleDecls(l.modulePkgs())
		callers := staticCallers(decls)
		for _, d := range decls {
			r := all[d.key]
			if r == nil {
				sig, _ := d.obj.Type().(*types.Signature)
				r = &rec{pinnedFn: pinnedFn{Method: sig != nil && sig.Recv() != nil, Sig: flatSig(d.obj), Params: paramList(d.obj)}, configs: map[string]bool{}, callers: map[string]bool{}}
				all[d.key] = r
			}
			r.configs[config] = true
			for c := range callers[d.obj] {
				r.callers[c] = true
			}
		}
	}
	var keys []string
	for k := range all {
		keys = append(keys, k)
	}
	sort.Strings(keys)
	var b strings.Builder
	b.WriteString(`package main

// Code generated from the pinned tree (p9check -gen-anchors -repo <tree>); DO NOT EDIT.
//
// pinnedSigs lists every function declared in the analysed packages of the pinned tree, in
// every analysed build configuration: its form (method or function), its flattened signature
// and its static callers.  The rules were written and confirmed by hand against these
// functions: each of them is judged on its own, under its own name.  A function that is NOT
// in this list is new; if it is the changed form of a listed function that has disappeared
// it is given back that function's form (identity.go), otherwise - if it is private, small and
// only called statically - it is judged in the context of its callers
// (ServerModel.transparent).
var pinnedSigs = map[string]pinnedFn{
`)
	for _, k := range keys {
		r := all[k]
		var cs, cf []string
		for c := range r.callers {
			cs = append(cs, c)
		}
		for c := range r.configs {
			cf = append(cf, c)
		}
		sort.Strings(cs)
		sort.Strings(cf)
		fmt.Fprintf(&b, "\t%q: {Method: %v, Sig: %q, Callers: %#v, Configs: %q, Params: %#v},\n", k, r.Method, r.Sig, cs, strings.Join(cf, ","), r.Params)
	}
	b.WriteString("}\n\n// pinnedFuncs: the keys of pinnedSigs.\nvar pinnedFuncs = func() map[string]bool {\n\tm := map[string]bool{}\n\tfor k := range pinnedSigs {\n\t\tm[k] = true\n\t}\n\treturn m\n}()\n")
	_, err := os.Stdout.WriteString(b.String())
	return err
}

var skipIdentity bool

// identityPlan is one function to be given back its pinned form.
type identityPlan struct {
	key    string // pinned key
	pinned pinnedFn
	cand   *declRec
	calls  []*ast.CallExpr // calls of the candidate
	idents []*ast.Ident    // every identifier that denotes the candidate (uses)
}

// restoreIdentities implements the scheme described at the top of this file.  It returns a
// note per restored function.
func (l *Loaded) restoreIdentities() []string {
	if skipIdentity || os.Getenv("P9_NO_IDENTITY") != "" {
		return nil
	}
	pkgs := l.modulePkgs()
	if notes := l.restoreParamOrder(pkgs); len(notes) > 0 {
		defer func() { l.orderNotes = notes }()
	}
	if notes := l.restoreDerivedParams(pkgs); len(notes) > 0 {
		prev := l.orderNotes
		defer func() { l.orderNotes = append(prev, append(notes, l.orderNotes[len(prev):]...)...) }()
	}
	if notes := l.restoreDerivedReceivers(pkgs); len(notes) > 0 {
		prev := l.orderNotes
		defer func() { l.orderNotes = append(prev, append(notes, l.orderNotes[len(prev):]...)...) }()
	}
	decls := moduleDecls(pkgs)
	have := map[string]bool{}
	for _, d := range decls {
		have[d.key] = true
	}
	callers := staticCallers(decls)
	// the package a pinned key belongs to
	pkgOfKey := func(key string) string {
		best := ""
		for _, p := range pkgs {
			sp := shortPkg(p.PkgPath)
			if strings.HasPrefix(key, sp+".") && len(sp) > len(best) {
				best = sp
			}
		}
		return best
	}
	var missing []string
	for k := range pinnedSigs {
		if !have[k] && isPinnedIn(k, l.Config) {
			missing = append(missing, k)
		}
	}
	sort.Strings(missing)
	// Pass A: candidates by signature (ties broken by an identical base name).
	tentative := map[string]*declRec{} // pinned key -> candidate
	claims := map[*declRec]int{}
	bySig := map[string][]*declRec{}
	var open []string
	for _, k := range missing {
		pin := pinnedSigs[k]
		sp := pkgOfKey(k)
		base := k[strings.LastIndexByte(k, '.')+1:]
		var cands []*declRec
		for _, d := range decls {
			if pinnedFuncs[d.key] || d.obj.Exported() || shortPkg(d.pkg.PkgPath) != sp || flatSig(d.obj) != pin.Sig {
				continue
			}
			cands = append(cands, d)
		}
		bySig[k] = cands
		if len(cands) > 1 {
			var same []*declRec
			for _, d := range cands {
				if d.decl.Name.Name == base {
					same = append(same, d)
				}
			}
			cands = same
		}
		if len(cands) == 1 {
			tentative[k] = cands[0]
			claims[cands[0]]++
		} else if len(cands) > 1 || len(bySig[k]) > 1 {
			open = append(open, k)
		}
	}
	// Several functions with one signature changed at once: the candidate that shares the
	// most static callers with the pinned function, if that is a single one.
	for progress := true; progress; {
		progress = false
		for _, k := range open {
			if tentative[k] != nil {
				continue
			}
			pin := pinnedSigs[k]
			pinned := map[string]bool{}
			for _, c := range pin.Callers {
				pinned[c] = true
			}
			var best *declRec
			bestN, bestX, tie := 0, 0, false
			for _, d := range bySig[k] {
				if claims[d] > 0 {
					continue
				}
				// callers in common, and callers the pinned function did not have
				n, x := 0, 0
				for cc := range callers[d.obj] {
					for pk, td := range tentative {
						if td.key == cc {
							cc = pk
						}
					}
					if pinned[cc] {
						n++
					} else {
						x++
					}
				}
				switch {
				case n > bestN || n == bestN && n > 0 && x < bestX:
					best, bestN, bestX, tie = d, n, x, false
				case n == bestN && x == bestX && n > 0:
					tie = true
				}
			}
			if best != nil && !tie {
				tentative[k] = best
				claims[best]++
				progress = true
			}
		}
	}
	// Pass B: at least one static caller in common (callers that are themselves candidates
	// count under the pinned name they stand for), or none on either side.
	standsFor := map[string]string{}
	for k, d := range tentative {
		if claims[d] == 1 {
			standsFor[d.key] = k
		}
	}
	var plans []*identityPlan
	for _, k := range missing {
		d := tentative[k]
		if d == nil || claims[d] != 1 {
			continue
		}
		pin := pinnedSigs[k]
		cur := map[string]bool{}
		for c := range callers[d.obj] {
			if p, ok := standsFor[c]; ok {
				c = p
			}
			cur[c] = true
		}
		common := len(pin.Callers) == 0 && len(cur) == 0
		for _, c := range pin.Callers {
			if cur[c] {
				common = true
			}
		}
		if common {
			plans = append(plans, &identityPlan{key: k, pinned: pin, cand: d})
		}
	}
	if len(plans) == 0 {
		return nil
	}
	// Collect the uses of every candidate; give up on a plan whose candidate is used in a way
	// the rewrite cannot express.
	var ok []*identityPlan
	for _, pl := range plans {
		if l.collectUses(pl, pkgs) && l.planFits(pl, decls) {
			ok = append(ok, pl)
		}
	}
	if len(ok) == 0 {
		return nil
	}
	affected := map[*packages.Package]bool{}
	var notes []string
	for _, pl := range ok {
		from := pl.cand.key
		l.applyPlan(pl)
		affected[pl.cand.pkg] = true
		notes = append(notes, fmt.Sprintf("%s is judged as %s (same signature and callers; form restored before the rules run)", from, pl.key))
	}
	if err := l.recheck(affected); err != nil {
		// The rewritten program must type-check; if it does not the analysis cannot go on
		// with half-rewritten trees.
		l.identityErr = fmt.Errorf("restoring the pinned form of %d function(s) failed: %v", len(ok), err)
		return nil
	}
	return notes
}

// collectUses finds the calls and other mentions of the candidate.
func (l *Loaded) collectUses(pl *identityPlan, pkgs []*packages.Package) bool {
	fits := true
	for _, p := range pkgs {
		for _, f := range p.Syntax {
			var stack []ast.Node
			ast.Inspect(f, func(n ast.Node) bool {
				if n == nil {
					stack = stack[:len(stack)-1]
					return true
				}
				stack = append(stack, n)
				id, isId := n.(*ast.Ident)
				if !isId {
					return true
				}
				fo, _ := p.TypesInfo.Uses[id].(*types.Func)
				if fo == nil || fo.Origin() != pl.cand.obj {
					return true
				}
				pl.idents = append(pl.idents, id)
				// the identifier must be the function of a call: f(...) or x.f(...)
				var call *ast.CallExpr
				if len(stack) >= 2 {
					switch par := stack[len(stack)-2].(type) {
					case *ast.CallExpr:
						if par.Fun == ast.Expr(id) {
							call = par
						}
					case *ast.SelectorExpr:
						if par.Sel == id && len(stack) >= 3 {
							if c, isCall := stack[len(stack)-3].(*ast.CallExpr); isCall && c.Fun == ast.Expr(par) {
								call = c
							}
						}
					}
				}
				if call == nil {
					fits = false // used as a value
					return true
				}
				if p != pl.cand.pkg {
					fits = false
				}
				pl.calls = append(pl.calls, call)
				return true
			})
		}
	}
	return fits
}

// planFits checks the conditions under which the rewrite is expressible.
func (l *Loaded) planFits(pl *identityPlan, decls []*declRec) bool {
	d := pl.cand
	sig := d.obj.Type().(*types.Signature)
	isMethod := sig.Recv() != nil
	base := pl.key[strings.LastIndexByte(pl.key, '.')+1:]
	info := d.pkg.TypesInfo
	switch {
	case pl.pinned.Method && !isMethod:
		// the first parameter becomes the receiver: its type must be T or *T for a type
		// declared in this package, and it must not be variadic
		if sig.Params().Len() == 0 || sig.Variadic() && sig.Params().Len() == 1 {
			return false
		}
		t := sig.Params().At(0).Type()
		if p, ok := t.(*types.Pointer); ok {
			t = p.Elem()
		}
		nt, ok := t.(*types.Named)
		if !ok || nt.Obj().Pkg() != d.obj.Pkg() {
			return false
		}
		if _, isIface := nt.Underlying().(*types.Interface); isIface {
			return false
		}
		// no method or field of that name yet
		if o, _, _ := types.LookupFieldOrMethod(sig.Params().At(0).Type(), true, d.obj.Pkg(), base); o != nil {
			return false
		}
		// parameter names: all named or all unnamed
		if d.decl.Type.Params == nil || len(d.decl.Type.Params.List) == 0 {
			return false
		}
	case !pl.pinned.Method && isMethod:
		if d.obj.Pkg().Scope().Lookup(base) != nil {
			return false
		}
		for _, c := range pl.calls {
			sel, ok := unparen(c.Fun).(*ast.SelectorExpr)
			if !ok {
				return false
			}
			s := info.Selections[sel]
			if s == nil || s.Kind() != types.MethodVal || len(s.Index()) != 1 {
				return false // method expression, or reached through an embedded field
			}
		}
	case pl.pinned.Method == isMethod:
		// a plain rename
		if isMethod {
			if o, _, _ := types.LookupFieldOrMethod(sig.Recv().Type(), true, d.obj.Pkg(), base); o != nil {
				return false
			}
			// the pinned key names the receiver type: it must be the same type
			recvName := ""
			t := sig.Recv().Type()
			if p, ok := t.(*types.Pointer); ok {
				t = p.Elem()
			}
			if nt, ok := t.(*types.Named); ok {
				recvName = nt.Obj().Name()
			}
			if !strings.HasSuffix(pl.key, "."+recvName+"."+base) {
				return false
			}
		} else if d.obj.Pkg().Scope().Lookup(base) != nil {
			return false
		}
	}
	if pl.pinned.Method && !isMethod {
		// the pinned key names the receiver type
		t := sig.Params().At(0).Type()
		if p, ok := t.(*types.Pointer); ok {
			t = p.Elem()
		}
		if nt, ok := t.(*types.Named); !ok || !strings.HasSuffix(pl.key, "."+nt.Obj().Name()+"."+base) {
			return false
		}
	}
	return true
}

func identAt(name string, pos token.Pos) *ast.Ident {
	return &ast.Ident{Name: name, NamePos: pos}
}

// applyPlan rewrites the declaration and the calls.
func (l *Loaded) applyPlan(pl *identityPlan) {
	d := pl.cand
	sig := d.obj.Type().(*types.Signature)
	isMethod := sig.Recv() != nil
	base := pl.key[strings.LastIndexByte(pl.key, '.')+1:]
	info := d.pkg.TypesInfo
	switch {
	case pl.pinned.Method && !isMethod:
		// declaration: func f(x T, rest...) -> func (x T) base(rest...)
		first := d.decl.Type.Params.List[0]
		recv := &ast.Field{Type: first.Type}
		if len(first.Names) > 0 {
			recv.Names = []*ast.Ident{first.Names[0]}
		}
		var rest []*ast.Field
		if len(first.Names) > 1 {
			rest = append(rest, &ast.Field{Names: first.Names[1:], Type: first.Type})
		}
		rest = append(rest, d.decl.Type.Params.List[1:]...)
		d.decl.Recv = &ast.FieldList{Opening: d.decl.Type.Params.Opening, List: []*ast.Field{recv}, Closing: d.decl.Type.Params.Opening}
		d.decl.Type.Params.List = rest
		d.decl.Name = identAt(base, d.decl.Name.Pos())
		for _, c := range pl.calls {
			x := c.Args[0]
			switch unparen(x).(type) {
			case *ast.Ident, *ast.SelectorExpr, *ast.CallExpr, *ast.IndexExpr:
			default:
				x = &ast.ParenExpr{Lparen: x.Pos(), X: x, Rparen: x.End()}
			}
			c.Fun = &ast.SelectorExpr{X: x, Sel: identAt(base, c.Fun.Pos())}
			c.Args = c.Args[1:]
		}
	case !pl.pinned.Method && isMethod:
		recv := d.decl.Recv.List[0]
		d.decl.Type.Params.List = append([]*ast.Field{recv}, d.decl.Type.Params.List...)
		if len(recv.Names) == 0 {
			// an unnamed receiver next to named parameters needs a name
			for _, f := range d.decl.Type.Params.List[1:] {
				if len(f.Names) > 0 {
					recv.Names = []*ast.Ident{identAt("_", recv.Type.Pos())}
					break
				}
			}
		}
		d.decl.Recv = nil
		d.decl.Name = identAt(base, d.decl.Name.Pos())
		_, recvPtr := sig.Recv().Type().(*types.Pointer)
		for _, c := range pl.calls {
			sel := unparen(c.Fun).(*ast.SelectorExpr)
			x := sel.X
			_, xPtr := info.TypeOf(x).(*types.Pointer)
			switch {
			case recvPtr && !xPtr:
				x = &ast.UnaryExpr{OpPos: x.Pos(), Op: token.AND, X: x}
			case !recvPtr && xPtr:
				x = &ast.StarExpr{Star: x.Pos(), X: x}
			}
			c.Fun = identAt(base, sel.Sel.Pos())
			c.Args = append([]ast.Expr{x}, c.Args...)
		}
	default:
		d.decl.Name = identAt(base, d.decl.Name.Pos())
		for _, id := range pl.idents {
			id.Name = base
		}
	}
}

// recheck type-checks the affected module packages, and the module packages that import
// them, again from their (rewritten) syntax trees, dependencies first.
func (l *Loaded) recheck(affected map[*packages.Package]bool) error {
	var order []*packages.Package
	packages.Visit(l.Roots, nil, func(p *packages.Package) {
		if strings.HasPrefix(p.PkgPath, modPath) {
			order = append(order, p) // post-order: dependencies first
		}
	})
	for _, p := range order {
		if !affected[p] {
			for _, ip := range p.Imports {
				if affected[ip] {
					affected[p] = true
				}
			}
		}
		if !affected[p] {
			continue
		}
		info := &types.Info{
			Types:        map[ast.Expr]types.TypeAndValue{},
			Defs:         map[*ast.Ident]types.Object{},
			Uses:         map[*ast.Ident]types.Object{},
			Implicits:    map[ast.Node]types.Object{},
			Instances:    map[*ast.Ident]types.Instance{},
			Scopes:       map[ast.Node]*types.Scope{},
			Selections:   map[*ast.SelectorExpr]*types.Selection{},
			FileVersions: map[*ast.File]string{},
		}
		var errs []string
		pp := p
		conf := types.Config{
			Importer: importerFunc(func(path string) (*types.Package, error) {
				if path == "unsafe" {
					return types.Unsafe, nil
				}
				ip := pp.Imports[path]
				if ip == nil || ip.Types == nil {
					return nil, fmt.Errorf("import %q not loaded", path)
				}
				return ip.Types, nil
			}),
			Sizes: p.TypesSizes,
			Error: func(err error) { errs = append(errs, err.Error()) },
		}
		if p.Module != nil && p.Module.GoVersion != "" {
			conf.GoVersion = "go" + p.Module.GoVersion
		}
		tp, _ := conf.Check(p.PkgPath, l.Fset, p.Syntax, info)
		if len(errs) > 0 {
			return fmt.Errorf("%s: %s", p.PkgPath, strings.Join(errs, "; "))
		}
		p.Types, p.TypesInfo = tp, info
	}
	return nil
}

type importerFunc func(path string) (*types.Package, error)

func (f importerFunc) Import(path string) (*types.Package, error) { return f(path) }

// restoreParamOrder: an unexported function of the pinned tree whose parameters were merely
// reordered (same names and types, another order; all call sites adapted) is given back the
// pinned order - in its declaration and in every call - so that rules which read "argument 0
// is the old name" keep reading the right argument.  Parameters are matched by name and type;
// nothing is done when a name or a type changed, when the function is used as a value, or
// when it is variadic.  The affected packages are type-checked again.
func (l *Loaded) restoreParamOrder(pkgs []*packages.Package) []string {
	decls := moduleDecls(pkgs)
	var notes []string
	affected := map[*packages.Package]bool{}
	for _, d := range decls {
		pin, ok := pinnedSigs[d.key]
		if !ok || d.obj.Exported() || !isPinnedIn(d.key, l.Config) || d.decl.Type.Params == nil {
			continue
		}
		cur := paramList(d.obj)
		if len(cur) != len(pin.Params) || len(cur) < 2 || strings.Join(cur, ",") == strings.Join(pin.Params, ",") {
			continue
		}
		sig := d.obj.Type().(*types.Signature)
		if sig.Variadic() {
			continue
		}
		// perm[i] = index in the current list of the parameter that is pinned at position i
		perm := make([]int, len(cur))
		used := map[int]bool{}
		okPerm := true
		for i, want := range pin.Params {
			found := -1
			for j, have := range cur {
				if have == want && !used[j] && !strings.HasPrefix(have, "_ ") && !strings.HasPrefix(have, " ") {
					found = j
					break
				}
			}
			if found < 0 {
				okPerm = false
				break
			}
			used[found] = true
			perm[i] = found
		}
		if !okPerm {
			continue
		}
		pl := &identityPlan{key: d.key, pinned: pin, cand: d}
		if !l.collectUses(pl, pkgs) {
			continue
		}
		bad := false
		for _, c := range pl.calls {
			if len(c.Args) != len(cur) || c.Ellipsis.IsValid() {
				bad = true // f(g()) with a multi-value g, or a spread
			}
		}
		if bad {
			continue
		}
		// declaration: one field per name, in the pinned order
		var flat []*ast.Field
		for _, f := range d.decl.Type.Params.List {
			for _, nm := range f.Names {
				flat = append(flat, &ast.Field{Names: []*ast.Ident{nm}, Type: f.Type})
			}
		}
		if len(flat) != len(cur) {
			continue
		}
		newList := make([]*ast.Field, len(flat))
		for i := range perm {
			newList[i] = flat[perm[i]]
		}
		d.decl.Type.Params.List = newList
		for _, c := range pl.calls {
			args := make([]ast.Expr, len(c.Args))
			for i := range perm {
				args[i] = c.Args[perm[i]]
			}
			c.Args = args
		}
		affected[d.pkg] = true
		notes = append(notes, fmt.Sprintf("%s is judged with its parameters in the pinned order (%s)", d.key, strings.Join(pin.Params, ", ")))
	}
	if len(affected) == 0 {
		return nil
	}
	if err := l.recheck(affected); err != nil {
		l.identityErr = fmt.Errorf("restoring the pinned parameter order failed: %v", err)
		return nil
	}
	return notes
}

// restoreDerivedReceivers: a method of the pinned tree whose receiver every caller computed
// from an argument (ref.parent.pathNode.nameFor(ref)) may have been turned into a function that
// computes it itself (func nameFor(ref) { p := ref.parent.pathNode; ... }).  Such a function -
// same base name, same parameters and results as the pinned method, not part of the pinned
// tree, first statement "x := E" with x of the pinned receiver type and E built from the
// parameters by field selection only - is given back the method form: the statement becomes
// the receiver, every call m(args) becomes E[args].m(args).
func (l *Loaded) restoreDerivedReceivers(pkgs []*packages.Package) []string {
	decls := moduleDecls(pkgs)
	have := map[string]*declRec{}
	for _, d := range decls {
		have[d.key] = d
	}
	var notes []string
	affected := map[*packages.Package]bool{}
	for key, pin := range pinnedSigs {
		if have[key] != nil || !pin.Method || !isPinnedIn(key, l.Config) {
			continue
		}
		parts := strings.Split(key, ".")
		if len(parts) < 3 {
			continue
		}
		base, recvT := parts[len(parts)-1], parts[len(parts)-2]
		pkgKey := strings.Join(parts[:len(parts)-2], ".")
		cand := have[pkgKey+"."+base]
		if cand == nil || pinnedFuncs[cand.key] || cand.obj.Exported() || cand.decl.Recv != nil || cand.decl.Body == nil || len(cand.decl.Body.List) < 2 {
			continue
		}
		// pinned "R,P1..Pn->res" against the candidate's "P1..Pn->res"
		i := strings.Index(pin.Sig, ",")
		arrow := strings.Index(pin.Sig, "->")
		if arrow < 0 {
			continue
		}
		rest := pin.Sig[arrow:]
		recvSig := pin.Sig[:arrow]
		if i >= 0 && i < arrow {
			recvSig, rest = pin.Sig[:i], pin.Sig[i+1:]
		}
		if flatSig(cand.obj) != rest {
			continue
		}
		info := cand.pkg.TypesInfo
		first, ok := cand.decl.Body.List[0].(*ast.AssignStmt)
		if !ok || first.Tok != token.DEFINE || len(first.Lhs) != 1 || len(first.Rhs) != 1 {
			continue
		}
		xid, ok := first.Lhs[0].(*ast.Ident)
		if !ok {
			continue
		}
		xobj := info.Defs[xid]
		q := func(p *types.Package) string { return p.Name() }
		if xobj == nil || types.TypeString(xobj.Type(), q) != recvSig || !strings.HasSuffix(strings.TrimPrefix(recvSig, "*"), "."+recvT) {
			continue
		}
		// E: parameters and field selections only
		params := map[types.Object]int{}
		idx := 0
		for _, f := range cand.decl.Type.Params.List {
			for _, nm := range f.Names {
				params[info.Defs[nm]] = idx
				idx++
			}
		}
		pure := true
		ast.Inspect(first.Rhs[0], func(n ast.Node) bool {
			switch v := n.(type) {
			case *ast.Ident:
				if o := info.Uses[v]; o != nil {
					if _, isParam := params[o]; !isParam {
						if _, isField := o.(*types.Var); !isField || !o.(*types.Var).IsField() {
							pure = false
						}
					}
				}
			case *ast.SelectorExpr, *ast.ParenExpr, *ast.StarExpr:
			case nil:
			default:
				pure = false
			}
			return true
		})
		// the receiver variable must not be reassigned in the body
		reassigned := false
		ast.Inspect(cand.decl.Body, func(n ast.Node) bool {
			if as, ok := n.(*ast.AssignStmt); ok && as != first {
				for _, lhs := range as.Lhs {
					if id, ok := lhs.(*ast.Ident); ok && info.Uses[id] == xobj {
						reassigned = true
					}
				}
			}
			return true
		})
		pl := &identityPlan{key: key, pinned: pin, cand: cand}
		if !pure || reassigned || !l.collectUses(pl, pkgs) {
			continue
		}
		okCalls := true
		for _, c := range pl.calls {
			if len(c.Args) != idx || c.Ellipsis.IsValid() {
				okCalls = false
			}
		}
		if !okCalls {
			continue
		}
		// receiver type expression
		var rtype ast.Expr = &ast.Ident{Name: recvT, NamePos: xid.Pos()}
		if strings.HasPrefix(recvSig, "*") {
			rtype = &ast.StarExpr{Star: xid.Pos(), X: rtype}
		}
		for _, c := range pl.calls {
			recvExpr := cloneNode(first.Rhs[0])
			// substitute the parameters by the arguments
			var subst func(e ast.Expr) ast.Expr
			subst = func(e ast.Expr) ast.Expr {
				switch v := e.(type) {
				case *ast.Ident:
					return e
				case *ast.SelectorExpr:
					v.X = subst(v.X)
				case *ast.ParenExpr:
					v.X = subst(v.X)
				case *ast.StarExpr:
					v.X = subst(v.X)
				}
				return e
			}
			// map cloned identifiers by name to parameters (names are unique in the list)
			byName := map[string]int{}
			for o, i := range params {
				byName[o.Name()] = i
			}
			var repl func(e ast.Expr) ast.Expr
			repl = func(e ast.Expr) ast.Expr {
				switch v := e.(type) {
				case *ast.Ident:
					if i, ok := byName[v.Name]; ok {
						return parenIfNeeded(cloneNode(c.Args[i]))
					}
				case *ast.SelectorExpr:
					v.X = repl(v.X)
				case *ast.ParenExpr:
					v.X = repl(v.X)
				case *ast.StarExpr:
					v.X = repl(v.X)
				}
				return e
			}
			_ = subst
			recvExpr = repl(recvExpr)
			c.Fun = &ast.SelectorExpr{X: recvExpr, Sel: identAt(base, c.Fun.Pos())}
		}
		cand.decl.Recv = &ast.FieldList{Opening: cand.decl.Name.Pos(), List: []*ast.Field{{Names: []*ast.Ident{xid}, Type: rtype}}, Closing: cand.decl.Name.Pos()}
		cand.decl.Body.List = cand.decl.Body.List[1:]
		affected[cand.pkg] = true
		notes = append(notes, fmt.Sprintf("%s is judged as the method %s (its first statement computes the former receiver from its arguments)", cand.key, key))
	}
	if len(affected) == 0 {
		return nil
	}
	if err := l.recheck(affected); err != nil {
		l.identityErr = fmt.Errorf("restoring a derived receiver failed: %v", err)
		return nil
	}
	return notes
}

// restoreDerivedParams is the mirror image of restoreDerivedReceivers: a plain function of the
// pinned tree (chunk(chunkSize, fn, p, offset)) whose callers all computed an argument from one
// object (c.client.payloadSize) may have become a method of that object which computes the
// value itself (func (c *clientFile) chunk(fn, p, offset) { chunkSize := c.client.payloadSize;
// ... }).  When the method has the pinned base name, its parameters are the pinned ones with
// some left out, its leading statements define exactly the left-out ones (same types, in
// order) from the receiver by field selection, and the receiver is not used otherwise, the
// pinned form is restored: the leading statements become parameters again and every call
// x.m(args) becomes m(E[x]..., args).
func (l *Loaded) restoreDerivedParams(pkgs []*packages.Package) []string {
	decls := moduleDecls(pkgs)
	have := map[string]bool{}
	for _, d := range decls {
		have[d.key] = true
	}
	var notes []string
	affected := map[*packages.Package]bool{}
	q := func(p *types.Package) string { return p.Name() }
	for key, pin := range pinnedSigs {
		if have[key] || pin.Method || !isPinnedIn(key, l.Config) {
			continue
		}
		base := key[strings.LastIndexByte(key, '.')+1:]
		pkgKey := key[:strings.LastIndexByte(key, '.')]
		for _, cand := range decls {
			if cand.decl.Recv == nil || cand.decl.Name.Name != base || pinnedFuncs[cand.key] || cand.obj.Exported() || cand.decl.Body == nil ||
				!strings.HasPrefix(cand.key, pkgKey+".") || len(cand.decl.Recv.List) != 1 || len(cand.decl.Recv.List[0].Names) != 1 {
				continue
			}
			info := cand.pkg.TypesInfo
			sig := cand.obj.Type().(*types.Signature)
			// results must agree
			arrow := strings.Index(pin.Sig, "->")
			cs := flatSig(cand.obj)
			if arrow < 0 || cs[strings.Index(cs, "->"):] != pin.Sig[arrow:] || sig.Variadic() {
				continue
			}
			// candidate parameters as a subsequence of the pinned ones
			var cur []string
			for i := 0; i < sig.Params().Len(); i++ {
				cur = append(cur, types.TypeString(sig.Params().At(i).Type(), q))
			}
			var pinT []string
			for _, pp := range pin.Params {
				pinT = append(pinT, pp[strings.Index(pp, " ")+1:])
			}
			var missing []int // pinned positions that the candidate lacks
			j := 0
			for i, t := range pinT {
				if j < len(cur) && cur[j] == t {
					j++
				} else {
					missing = append(missing, i)
				}
			}
			if j != len(cur) || len(missing) == 0 || len(missing) >= len(cand.decl.Body.List) {
				continue
			}
			recvObj := info.Defs[cand.decl.Recv.List[0].Names[0]]
			// leading statements x := E(receiver)
			var defs []*ast.AssignStmt
			okLead := true
			for k, mi := range missing {
				as, ok := cand.decl.Body.List[k].(*ast.AssignStmt)
				if !ok || as.Tok != token.DEFINE || len(as.Lhs) != 1 || len(as.Rhs) != 1 {
					okLead = false
					break
				}
				id, ok := as.Lhs[0].(*ast.Ident)
				if !ok || info.Defs[id] == nil || types.TypeString(info.Defs[id].Type(), q) != pinT[mi] {
					okLead = false
					break
				}
				pure := true
				ast.Inspect(as.Rhs[0], func(n ast.Node) bool {
					switch v := n.(type) {
					case *ast.Ident:
						if o := info.Uses[v]; o != nil && o != recvObj {
							if fv, isVar := o.(*types.Var); !isVar || !fv.IsField() {
								pure = false
							}
						}
					case *ast.SelectorExpr, *ast.ParenExpr:
					case nil:
					default:
						pure = false
					}
					return true
				})
				if !pure {
					okLead = false
					break
				}
				defs = append(defs, as)
			}
			if !okLead {
				continue
			}
			// the receiver is used nowhere else, the restored parameters are not reassigned
			usedElsewhere := false
			for _, st := range cand.decl.Body.List[len(defs):] {
				ast.Inspect(st, func(n ast.Node) bool {
					if id, ok := n.(*ast.Ident); ok && info.Uses[id] == recvObj {
						usedElsewhere = true
					}
					return true
				})
			}
			if usedElsewhere || cand.obj.Pkg().Scope().Lookup(base) != nil {
				continue
			}
			pl := &identityPlan{key: key, pinned: pin, cand: cand}
			if !l.collectUses(pl, pkgs) {
				continue
			}
			okCalls := true
			for _, c := range pl.calls {
				sel, isSel := unparen(c.Fun).(*ast.SelectorExpr)
				if !isSel || len(c.Args) != len(cur) || c.Ellipsis.IsValid() {
					okCalls = false
					continue
				}
				if s := info.Selections[sel]; s == nil || s.Kind() != types.MethodVal || len(s.Index()) != 1 {
					okCalls = false
				}
			}
			if !okCalls {
				continue
			}
			recvName := cand.decl.Recv.List[0].Names[0].Name
			// declaration
			var flat []*ast.Field
			for _, f := range cand.decl.Type.Params.List {
				for _, nm := range f.Names {
					flat = append(flat, &ast.Field{Names: []*ast.Ident{nm}, Type: f.Type})
				}
			}
			if len(flat) != len(cur) {
				continue
			}
			var newParams []*ast.Field
			fi, di := 0, 0
			for i := range pinT {
				if di < len(missing) && missing[di] == i {
					id := defs[di].Lhs[0].(*ast.Ident)
					texpr, err := parseTypeExpr(pinT[i], cand.obj.Pkg().Name())
					if err != nil {
						okCalls = false
						break
					}
					newParams = append(newParams, &ast.Field{Names: []*ast.Ident{id}, Type: texpr})
					di++
				} else {
					newParams = append(newParams, flat[fi])
					fi++
				}
			}
			if !okCalls {
				continue
			}
			for _, c := range pl.calls {
				sel := unparen(c.Fun).(*ast.SelectorExpr)
				var args []ast.Expr
				ai, di := 0, 0
				for i := range pinT {
					if di < len(missing) && missing[di] == i {
						e := cloneNode(defs[di].Rhs[0])
						var repl func(e ast.Expr) ast.Expr
						repl = func(e ast.Expr) ast.Expr {
							switch v := e.(type) {
							case *ast.Ident:
								if v.Name == recvName {
									return parenIfNeeded(cloneNode(sel.X))
								}
							case *ast.SelectorExpr:
								v.X = repl(v.X)
							case *ast.ParenExpr:
								v.X = repl(v.X)
							}
							return e
						}
						args = append(args, repl(e))
						di++
					} else {
						args = append(args, c.Args[ai])
						ai++
					}
				}
				c.Fun = identAt(base, sel.Sel.Pos())
				c.Args = args
			}
			cand.decl.Recv = nil
			cand.decl.Type.Params.List = newParams
			cand.decl.Body.List = cand.decl.Body.List[len(defs):]
			affected[cand.pkg] = true
			notes = append(notes, fmt.Sprintf("%s is judged as the function %s (its leading statements compute the former parameters from its receiver)", cand.key, key))
			break
		}
	}
	if len(affected) == 0 {
		return nil
	}
	if err := l.recheck(affected); err != nil {
		l.identityErr = fmt.Errorf("restoring derived parameters failed: %v", err)
		return nil
	}
	return notes
}

// parseTypeExpr turns a type string of the generated table ("uint32", "*p9.buffer",
// "func([]byte, int64) (int, error)") into a type expression usable inside package pkg.
func parseTypeExpr(t, pkg string) (ast.Expr, error) {
	t = strings.ReplaceAll(t, pkg+".", "")
	return parser.ParseExpr(t)
}

// parenIfNeeded wraps an expression that is substituted as the operand of a selection.
func parenIfNeeded(e ast.Expr) ast.Expr {
	switch unparen(e).(type) {
	case *ast.Ident, *ast.SelectorExpr, *ast.CallExpr, *ast.IndexExpr:
		return e
	}
	return &ast.ParenExpr{Lparen: e.Pos(), X: e, Rparen: e.End()}
}
