package main

// Callbacks that only build a value.
//
// A refactoring that folds a repeated sequence into a private helper sometimes hands the part
// that differs over as a function literal: c.sendRecvNewFID(func(newFID fid) message { return
// &twalk{fid: c.fid, newFID: newFID} }, &rwalk).  The helper is then neither a plain helper
// (the request is built by its caller) nor one of the repository's callback wrappers (those run
// a whole region under a lock), and the rules that read requests would not find them.
//
// When a function that the pinned tree does not have takes exactly one function-typed parameter,
// only ever calls it, and every one of its callers passes a literal whose body is a single
// "return <expression>" (or a single call statement), the helper is specialised per call site
// before the rules run: a copy of the helper in which the call of the parameter is replaced by
// the literal's expression (the literal's parameters replaced by the arguments of the call, the
// caller's variables it mentions handed over as additional parameters) takes the place of the
// call, and the generic helper is dropped.  The copies are ordinary first-order helpers.  The
// packages are type-checked again afterwards; if that fails nothing is specialised.

import (
	"fmt"
	"go/ast"
	"go/parser"
	"go/token"
	"go/types"
	"os"
	"sort"
	"strings"

	"golang.org/x/tools/go/ast/astutil"
	"golang.org/x/tools/go/packages"
)

var skipHOF bool

type hofSite struct {
	call   *ast.CallExpr
	lit    *ast.FuncLit
	result ast.Expr // the literal's expression
	info   *types.Info
}

// identsOf lists the identifiers of a tree in traversal order (the same order in a clone).
func identsOf(n ast.Node) []*ast.Ident {
	var out []*ast.Ident
	ast.Inspect(n, func(m ast.Node) bool {
		if id, ok := m.(*ast.Ident); ok {
			out = append(out, id)
		}
		return true
	})
	return out
}

func callsOf(n ast.Node) []*ast.CallExpr {
	var out []*ast.CallExpr
	ast.Inspect(n, func(m ast.Node) bool {
		if c, ok := m.(*ast.CallExpr); ok {
			out = append(out, c)
		}
		return true
	})
	return out
}

// replaceNodes replaces, inside root, the expression nodes listed in repl.
func replaceNodes(root ast.Node, repl map[ast.Node]ast.Expr) ast.Node {
	return astutil.Apply(root, func(c *astutil.Cursor) bool {
		if r, ok := repl[c.Node()]; ok && r != nil {
			c.Replace(r)
			return false
		}
		return true
	}, nil)
}

func (l *Loaded) specialiseCallbacks() ([]string, error) {
	if skipHOF || skipIdentity || os.Getenv("P9_NO_IDENTITY") != "" {
		return nil, nil
	}
	var notes []string
	affected := map[*packages.Package]bool{}
	for _, p := range l.modulePkgs() {
		info := p.TypesInfo
		if info == nil {
			continue
		}
		// uses of every function object of the package: call position or not
		type use struct {
			call *ast.CallExpr
			file *ast.File
		}
		calls := map[types.Object][]use{}
		other := map[types.Object]int{}
		for _, f := range p.Syntax {
			inCall := map[*ast.Ident]*ast.CallExpr{}
			ast.Inspect(f, func(n ast.Node) bool {
				if c, ok := n.(*ast.CallExpr); ok {
					switch fn := unparen(c.Fun).(type) {
					case *ast.Ident:
						inCall[fn] = c
					case *ast.SelectorExpr:
						inCall[fn.Sel] = c
					}
				}
				return true
			})
			ast.Inspect(f, func(n ast.Node) bool {
				id, ok := n.(*ast.Ident)
				if !ok {
					return true
				}
				obj, isFn := info.Uses[id].(*types.Func)
				if !isFn {
					return true
				}
				if c := inCall[id]; c != nil {
					calls[obj] = append(calls[obj], use{c, f})
				} else {
					other[obj]++
				}
				return true
			})
		}
		for _, f := range p.Syntax {
			var added []ast.Decl
			dropped := map[ast.Decl]bool{}
			for _, d := range f.Decls {
				fd, ok := d.(*ast.FuncDecl)
				if !ok || fd.Body == nil || fd.Type.TypeParams != nil {
					continue
				}
				fobj, _ := info.Defs[fd.Name].(*types.Func)
				if fobj == nil || fobj.Exported() || pinnedFuncs[funcKey(fobj)] || other[fobj] > 0 || len(calls[fobj]) == 0 {
					continue
				}
				// exactly one function-typed parameter
				var cbName *ast.Ident
				cbIdx, idx, nFunc := -1, 0, 0
				for _, fld := range fd.Type.Params.List {
					_, isFuncT := info.TypeOf(fld.Type).Underlying().(*types.Signature)
					if len(fld.Names) == 0 {
						if isFuncT {
							nFunc = 99
						}
						idx++
						continue
					}
					for _, nm := range fld.Names {
						if isFuncT {
							nFunc++
							cbName, cbIdx = nm, idx
						}
						idx++
					}
				}
				if nFunc != 1 || fd.Type.Params.List[len(fd.Type.Params.List)-1].Type == nil {
					continue
				}
				if _, variadic := fd.Type.Params.List[len(fd.Type.Params.List)-1].Type.(*ast.Ellipsis); variadic {
					continue
				}
				cbObj := info.Defs[cbName]
				cbSig := cbObj.Type().Underlying().(*types.Signature)
				// the parameter is only ever called (and, without a result, only as a statement)
				okUses := true
				nCalls := 0
				calledAt := map[*ast.Ident]bool{}
				for _, c := range callsOf(fd.Body) {
					if id, ok := unparen(c.Fun).(*ast.Ident); ok && info.Uses[id] == cbObj && !c.Ellipsis.IsValid() {
						calledAt[id] = true
						nCalls++
					}
				}
				for _, id := range identsOf(fd.Body) {
					if info.Uses[id] == cbObj && !calledAt[id] {
						okUses = false
					}
				}
				if !okUses || nCalls == 0 {
					continue
				}
				if cbSig.Results().Len() == 0 {
					ast.Inspect(fd.Body, func(n ast.Node) bool {
						switch v := n.(type) {
						case *ast.GoStmt:
							if id, ok := unparen(v.Call.Fun).(*ast.Ident); ok && calledAt[id] {
								okUses = false
							}
						case *ast.DeferStmt:
							if id, ok := unparen(v.Call.Fun).(*ast.Ident); ok && calledAt[id] {
								okUses = false
							}
						}
						return true
					})
					if !okUses {
						continue
					}
				}
				// every caller passes a literal that only yields an expression
				var sites []hofSite
				okSites := true
				for _, u := range calls[fobj] {
					if cbIdx >= len(u.call.Args) || u.call.Ellipsis.IsValid() || len(u.call.Args) != idx {
						okSites = false
						break
					}
					lit, ok := unparen(u.call.Args[cbIdx]).(*ast.FuncLit)
					if !ok || len(lit.Body.List) != 1 {
						okSites = false
						break
					}
					var res ast.Expr
					switch st := lit.Body.List[0].(type) {
					case *ast.ReturnStmt:
						// (several results: the one returned expression is a call that yields them all)
						if len(st.Results) == 1 && cbSig.Results().Len() >= 1 {
							res = st.Results[0]
						}
					case *ast.ExprStmt:
						if cbSig.Results().Len() == 0 {
							res = st.X
						}
					}
					nested := false
					if res != nil {
						ast.Inspect(res, func(n ast.Node) bool {
							if _, isLit := n.(*ast.FuncLit); isLit {
								nested = true
							}
							return true
						})
					}
					if res == nil || nested {
						okSites = false
						break
					}
					// the call must not sit inside the helper itself or inside another literal
					// handed to the same helper (one level is specialised)
					sites = append(sites, hofSite{call: u.call, lit: lit, result: res, info: info})
				}
				if !okSites || len(sites) == 0 || len(sites) > 16 {
					continue
				}
				inside := false
				for _, s := range sites {
					if s.call.Pos() >= fd.Pos() && s.call.End() <= fd.End() {
						inside = true
					}
					for _, s2 := range sites {
						if s2.call != s.call && s2.call.Pos() >= s.lit.Pos() && s2.call.End() <= s.lit.End() {
							inside = true
						}
					}
				}
				if inside {
					continue
				}
				// names in use inside the helper
				used := map[string]bool{}
				declared := map[string]bool{}
				for _, id := range identsOf(fd) {
					used[id.Name] = true
					if info.Defs[id] != nil {
						declared[id.Name] = true
					}
				}
				okAll := true
				var decls []ast.Decl
				type rewrite struct {
					call *ast.CallExpr
					name string
					args []ast.Expr
				}
				var rewrites []rewrite
				for k, s := range sites {
					name := fmt.Sprintf("%s__%d", fd.Name.Name, k+1)
					if p.Types.Scope().Lookup(name) != nil {
						okAll = false
						break
					}
					// variables of the caller that the literal mentions, and package-level names
					// that the helper would shadow
					litParams := map[types.Object]int{}
					pi := 0
					if s.lit.Type.Params != nil {
						for _, fld := range s.lit.Type.Params.List {
							if len(fld.Names) == 0 {
								pi++
							}
							for _, nm := range fld.Names {
								litParams[info.Defs[nm]] = pi
								pi++
							}
						}
					}
					var captured []*types.Var
					capName := map[types.Object]string{}
					taken := map[string]bool{}
					for _, id := range identsOf(s.result) {
						obj := info.Uses[id]
						if obj == nil {
							continue
						}
						if _, isParam := litParams[obj]; isParam {
							continue
						}
						v, isVar := obj.(*types.Var)
						if isVar && v.IsField() || obj.Parent() == nil && obj.Pkg() != nil {
							continue // fields and methods are selected, not looked up
						}
						if obj.Pkg() == nil || obj.Parent() == obj.Pkg().Scope() {
							if declared[id.Name] {
								okAll = false // the helper declares the same name
							}
							continue
						}
						if _, isPkg := obj.(*types.PkgName); isPkg {
							if declared[id.Name] {
								okAll = false
							}
							continue
						}
						if !isVar {
							okAll = false // a local type, constant or label of the caller
							continue
						}
						if _, seen := capName[obj]; seen {
							continue
						}
						n := v.Name()
						for used[n] || taken[n] {
							n += "_"
						}
						taken[n] = true
						capName[obj] = n
						captured = append(captured, v)
					}
					if !okAll {
						break
					}
					// the copy of the helper
					cp := cloneNode(fd)
					cp.Doc = nil
					cp.Name = &ast.Ident{NamePos: fd.Name.Pos(), Name: name}
					// parameters: the callback goes, the captured variables come
					var params []*ast.Field
					for _, fld := range cp.Type.Params.List {
						var keep []*ast.Ident
						for _, nm := range fld.Names {
							if nm.Name != cbName.Name {
								keep = append(keep, nm)
							}
						}
						if len(keep) == 0 {
							continue
						}
						fld.Names = keep
						params = append(params, fld)
					}
					var extra []ast.Expr
					qual := func(other *types.Package) string {
						if other == p.Types {
							return ""
						}
						for _, imp := range f.Imports {
							if strings.Trim(imp.Path.Value, `"`) == other.Path() {
								if imp.Name != nil {
									return imp.Name.Name
								}
								return other.Name()
							}
						}
						return other.Name()
					}
					for _, v := range captured {
						te, err := parseTypeExprPlain(types.TypeString(v.Type(), qual))
						if err != nil {
							okAll = false
							break
						}
						params = append(params, &ast.Field{Names: []*ast.Ident{{NamePos: cbName.Pos(), Name: capName[v]}}, Type: te})
						extra = append(extra, &ast.Ident{NamePos: s.lit.Pos(), Name: v.Name()})
					}
					if !okAll {
						break
					}
					cp.Type.Params.List = params
					// the calls of the callback, found in the copy by position in the traversal
					origCalls, cpCalls := callsOf(fd.Body), callsOf(cp.Body)
					if len(origCalls) != len(cpCalls) {
						okAll = false
						break
					}
					repl := map[ast.Node]ast.Expr{}
					for i, oc := range origCalls {
						id, ok := unparen(oc.Fun).(*ast.Ident)
						if !ok || !calledAt[id] {
							continue
						}
						if len(oc.Args) != len(litParams) {
							okAll = false
							break
						}
						// the literal's expression with parameters and captured variables replaced
						expr := cloneNode(s.result)
						oi, ci := identsOf(s.result), identsOf(expr)
						sub := map[ast.Node]ast.Expr{}
						for j, oid := range oi {
							obj := info.Uses[oid]
							if obj == nil {
								continue
							}
							if pj, isParam := litParams[obj]; isParam {
								sub[ci[j]] = parenIfNeeded(cloneNode(cpCalls[i].Args[pj]))
							} else if n, isCap := capName[obj]; isCap {
								sub[ci[j]] = &ast.Ident{NamePos: ci[j].Pos(), Name: n}
							}
						}
						if r, isExpr := replaceNodes(expr, sub).(ast.Expr); isExpr {
							repl[cpCalls[i]] = r
						} else {
							okAll = false
						}
					}
					if !okAll {
						break
					}
					replaceNodes(cp.Body, repl)
					decls = append(decls, cp)
					var args []ast.Expr
					for ai, a := range s.call.Args {
						if ai != cbIdx {
							args = append(args, a)
						}
					}
					rewrites = append(rewrites, rewrite{s.call, name, append(args, extra...)})
				}
				if !okAll {
					continue
				}
				for _, rw := range rewrites {
					switch fn := unparen(rw.call.Fun).(type) {
					case *ast.Ident:
						fn.Name = rw.name
					case *ast.SelectorExpr:
						fn.Sel = &ast.Ident{NamePos: fn.Sel.Pos(), Name: rw.name}
					}
					rw.call.Args = rw.args
				}
				added = append(added, decls...)
				dropped[d] = true
				affected[p] = true
				notes = append(notes, fmt.Sprintf("%s takes a callback that only builds a value: specialised for its %d call sites", funcKey(fobj), len(sites)))
			}
			if len(dropped) > 0 {
				var keep []ast.Decl
				for _, d := range f.Decls {
					if !dropped[d] {
						keep = append(keep, d)
					}
				}
				f.Decls = append(keep, added...)
			}
		}
	}
	if len(affected) == 0 {
		return nil, nil
	}
	if err := l.recheck(affected); err != nil {
		return nil, err
	}
	sort.Strings(notes)
	return notes, nil
}

// inlineSingleUseClosures: "f := func(...) {...}" immediately followed by the one statement
// that mentions f, as an argument of a call, is judged as the call with the literal written in
// place (the form the repository itself uses for its callbacks).  The literal is created one
// statement later than written, which nothing can observe: it captures variables, not values,
// and no declaration lies between the two statements.
func (l *Loaded) inlineSingleUseClosures() ([]string, error) {
	if skipHOF || skipIdentity || os.Getenv("P9_NO_IDENTITY") != "" {
		return nil, nil
	}
	var notes []string
	affected := map[*packages.Package]bool{}
	for _, p := range l.modulePkgs() {
		info := p.TypesInfo
		if info == nil {
			continue
		}
		for _, f := range p.Syntax {
			// uses per object
			uses := map[types.Object][]*ast.Ident{}
			ast.Inspect(f, func(n ast.Node) bool {
				if id, ok := n.(*ast.Ident); ok {
					if o := info.Uses[id]; o != nil {
						uses[o] = append(uses[o], id)
					}
				}
				return true
			})
			ast.Inspect(f, func(n ast.Node) bool {
				blk, ok := n.(*ast.BlockStmt)
				if !ok {
					return true
				}
				for i := 0; i+1 < len(blk.List); i++ {
					as, ok := blk.List[i].(*ast.AssignStmt)
					if !ok || as.Tok != token.DEFINE || len(as.Lhs) != 1 || len(as.Rhs) != 1 {
						continue
					}
					id, ok := as.Lhs[0].(*ast.Ident)
					lit, isLit := as.Rhs[0].(*ast.FuncLit)
					if !ok || !isLit || id.Name == "_" {
						continue
					}
					obj := info.Defs[id]
					if obj == nil || len(uses[obj]) != 1 {
						continue
					}
					use := uses[obj][0]
					next := blk.List[i+1]
					if use.Pos() < next.Pos() || use.End() > next.End() {
						continue
					}
					// the use is an argument of a call that is not inside a nested literal or a
					// go/defer statement
					replaced := false
					okCtx := true
					ast.Inspect(next, func(m ast.Node) bool {
						switch v := m.(type) {
						case *ast.FuncLit:
							return false
						case *ast.GoStmt, *ast.DeferStmt:
							if use.Pos() >= v.Pos() && use.End() <= v.End() {
								okCtx = false
							}
						case *ast.CallExpr:
							for ai, a := range v.Args {
								if a == ast.Expr(use) && okCtx && !replaced {
									v.Args[ai] = lit
									replaced = true
								}
							}
						}
						return true
					})
					if !replaced {
						continue
					}
					blk.List = append(blk.List[:i:i], blk.List[i+1:]...)
					affected[p] = true
					notes = append(notes, fmt.Sprintf("closure %s at %s is passed on by the next statement only: judged as written in place", id.Name, l.relPos(id.Pos())))
					i--
				}
				return true
			})
		}
	}
	if len(affected) == 0 {
		return nil, nil
	}
	if err := l.recheck(affected); err != nil {
		return nil, err
	}
	sort.Strings(notes)
	return notes, nil
}

// parseTypeExprPlain parses a type string whose package qualifiers are already import names.
func parseTypeExprPlain(t string) (ast.Expr, error) {
	if t == "" {
		return nil, fmt.Errorf("empty type")
	}
	return parser.ParseExpr(t)
}

var _ = token.NoPos
