package main

// Guard tables (analysis G): requirements of the form "no path reaches the
// site with all of these literals true, and the exits taken when they are true
// return this errno", evaluated on the path facts of the site analysis.

import (
	"fmt"
	"go/ast"
	"go/token"
	"go/types"
	"regexp"
	"sort"
	"strings"
)

type Lit struct {
	Keys []string // alternative atom keys (canonical form, see canonFacts)
	Pol  bool     // polarity that triggers the guard
}

type Guard struct {
	Name  string
	Lits  []Lit
	Errno int64 // 0: no errno requirement (pure precondition)
}

func L(pol bool, keys ...string) Lit { return Lit{Keys: keys, Pol: pol} }

// HandlerInfo describes the fid lookups of one handler function.
type HandlerInfo struct {
	Fi          *FuncInfo
	Recv        string            // receiver variable name
	Lookups     map[string]string // local variable -> request field ("fid", "Directory")
	LookupSites []*ast.CallExpr
}

// (name, name#2 for a shadowing declaration, name~helper for a local of a helper judged in place)
var identRe = regexp.MustCompile(`[A-Za-z_][A-Za-z_0-9]*(#[0-9]+)?(~[A-Za-z_][A-Za-z_0-9]*)?`)

// canonKey rewrites lookup variables to $<field> and the receiver to $t.
func (h *HandlerInfo) canonKey(k string) string {
	return identReplace(k, func(id string) string {
		if f, ok := h.Lookups[id]; ok {
			return "$" + f
		}
		if id == h.Recv && h.Recv != "" {
			return "$t"
		}
		return id
	})
}

// identReplace replaces identifiers that are not preceded by '.'.
func identReplace(s string, f func(string) string) string {
	var b strings.Builder
	i := 0
	for i < len(s) {
		loc := identRe.FindStringIndex(s[i:])
		if loc == nil {
			b.WriteString(s[i:])
			break
		}
		st, en := i+loc[0], i+loc[1]
		b.WriteString(s[i:st])
		id := s[st:en]
		if st > 0 && s[st-1] == '.' {
			b.WriteString(id)
		} else {
			b.WriteString(f(id))
		}
		i = en
	}
	return b.String()
}

func (h *HandlerInfo) canonFacts(p FactSet) FactSet {
	o := FactSet{}
	for k, v := range p {
		o[h.canonKey(k)] = v
	}
	return o
}

func (m *ServerModel) handlerInfo(fi *FuncInfo) *HandlerInfo {
	info := m.Info
	h := &HandlerInfo{Fi: fi, Lookups: map[string]string{}}
	if fi.Decl.Recv != nil && len(fi.Decl.Recv.List) == 1 && len(fi.Decl.Recv.List[0].Names) == 1 {
		h.Recv = fi.Decl.Recv.List[0].Names[0].Name
	}
	// Non-method helpers taking the request as a parameter (clunkHandleXattr(cs, t)).
	if h.Recv == "" {
		for _, fld := range fi.Decl.Type.Params.List {
			for _, nm := range fld.Names {
				if p, ok := info.Defs[nm].Type().(*types.Pointer); ok {
					if n, ok := p.Elem().(*types.Named); ok && strings.HasPrefix(n.Obj().Name(), "t") && n.Obj().Pkg().Name() == "p9" {
						if _, isStruct := n.Underlying().(*types.Struct); isStruct && n.Obj().Name() != "tag" {
							h.Recv = nm.Name
						}
					}
				}
			}
		}
	}
	res := m.resolver(fi)
	ast.Inspect(fi.Decl.Body, func(n ast.Node) bool {
		as, ok := n.(*ast.AssignStmt)
		if !ok || len(as.Rhs) != 1 || len(as.Lhs) != 2 {
			return true
		}
		call, ok := unparen(as.Rhs[0]).(*ast.CallExpr)
		if !ok || calleeKey(info, call) != "p9.connState.LookupFID" || len(call.Args) != 1 {
			return true
		}
		h.LookupSites = append(h.LookupSites, call)
		if id, ok := as.Lhs[0].(*ast.Ident); ok {
			field := res.str(call.Args[0])
			// a helper that is handed the fid instead of the message: the field is the one its
			// callers pass (clunkHandleXattr(cs, t.fid))
			if pobj, isParam := objOf(info, call.Args[0]).(*types.Var); isParam {
				if idx := paramIndex(fi, info, pobj); idx >= 0 {
					passed := ""
					for _, u := range m.usesOf(fi) {
						if u.Call == nil || idx >= len(u.Call.Args) {
							passed = ""
							break
						}
						a := m.L.str(u.Call.Args[idx])
						if passed != "" && passed != a {
							passed = ""
							break
						}
						passed = a
					}
					if passed != "" {
						field = passed
					}
				}
			}
			if i := strings.LastIndex(field, "."); i >= 0 {
				field = field[i+1:]
			}
			name := id.Name
			if obj := objOf(info, id); obj != nil {
				if u, ok := res.uniq[obj]; ok {
					name = u
				}
			}
			h.Lookups[name] = field
		}
		return true
	})
	// lookups made for the handler by private helpers that are judged in its context
	// (ref, ok := cs.LookupFID(dirFID) inside createInDir(cs, t.Directory, ...)): the variable
	// and the field as they render in the handler's frame
	seen := map[*ast.CallExpr]bool{}
	for _, s := range m.DB.Deep[fi] {
		if s.Callee != "p9.connState.LookupFID" || s.Call == nil || len(s.Call.Args) != 1 || len(s.Inl) == 0 || s.Res == nil {
			continue
		}
		key := s.Inl[0].Call
		_ = key
		as, ok := m.L.parent(s.Call).(*ast.AssignStmt)
		if !ok || len(as.Lhs) != 2 {
			continue
		}
		allTransparent := true
		for _, fr := range s.Inl {
			if f, isF := info.Defs[fr.Decl.Name].(*types.Func); !isF || !m.transparent(m.L.FuncOf(f)) {
				allTransparent = false
			}
		}
		if !allTransparent {
			continue
		}
		id, ok := as.Lhs[0].(*ast.Ident)
		if !ok {
			continue
		}
		field := s.Res.str(s.Call.Args[0])
		if i := strings.LastIndex(field, "."); i >= 0 {
			field = field[i+1:]
		}
		name := s.Res.str(id)
		if _, dup := h.Lookups[name]; dup {
			continue
		}
		h.Lookups[name] = field
		if !seen[s.Call] {
			seen[s.Call] = true
			h.LookupSites = append(h.LookupSites, s.Call)
		}
	}
	return h
}

// errnoOf extracts a constant errno from a return statement's results:
// linux.EINVAL, newErr(linux.EINVAL), (nil, linux.EINVAL).
func errnoOf(info *types.Info, ret *ast.ReturnStmt) (int64, bool) {
	if ret == nil {
		return 0, false
	}
	for i := len(ret.Results) - 1; i >= 0; i-- {
		e := unparen(ret.Results[i])
		if v, ok := errnoExpr(info, e); ok {
			return v, true
		}
	}
	return 0, false
}

func errnoExpr(info *types.Info, e ast.Expr) (int64, bool) {
	e = unparen(e)
	if call, ok := e.(*ast.CallExpr); ok {
		if calleeKey(info, call) == "p9.newErr" && len(call.Args) == 1 {
			return errnoExpr(info, call.Args[0])
		}
		return 0, false
	}
	if t := info.TypeOf(e); t != nil && strings.HasSuffix(t.String(), "linux.Errno") {
		return constInt(info, e)
	}
	return 0, false
}

var errnoNames = map[int64]string{1: "EPERM", 2: "ENOENT", 5: "EIO", 9: "EBADF", 13: "EACCES", 14: "EFAULT", 16: "EBUSY", 17: "EEXIST", 21: "EISDIR", 22: "EINVAL", 38: "ENOSYS", 105: "ENOBUFS", 11: "EAGAIN"}

func errnoName(v int64) string {
	if n, ok := errnoNames[v]; ok {
		return n
	}
	return fmt.Sprintf("errno %d", v)
}

// pathHasAll: the fact set contains every literal (with its triggering polarity).
func (m *ServerModel) pathHasAll(p FactSet, lits []Lit) bool {
	for _, l := range lits {
		found := false
		for _, k := range l.Keys {
			if v, ok := p[k]; ok && v == l.Pol {
				found = true
				break
			}
			if v, ok := m.tableDecides(p, k); ok && v == l.Pol {
				found = true
				break
			}
		}
		if !found {
			return false
		}
	}
	return true
}

// pathRefutesOne: the fact set contains the negation of at least one literal.
func (m *ServerModel) pathRefutesOne(p FactSet, lits []Lit) bool {
	for _, l := range lits {
		for _, k := range l.Keys {
			if v, ok := p[k]; ok && v != l.Pol {
				return true
			}
			if v, ok := m.tableDecides(p, k); ok && v != l.Pol {
				return true
			}
		}
	}
	return false
}

// checkGuard evaluates one guard for a site state and the exits of the function.
// Returns (ok, detail).
func (m *ServerModel) checkGuard(h *HandlerInfo, st *HState, g Guard, exits []*ExitRec) (bool, string) {
	if st.Dead {
		return true, "unreachable"
	}
	// 1. Every path to the site refutes the guard condition.
	for _, p := range st.Paths {
		cp := h.canonFacts(p)
		if !m.pathRefutesOne(cp, g.Lits) {
			return false, fmt.Sprintf("a path reaches the call without the guard %q having been evaluated to false (facts on that path: [%s])", g.Name, cp.key())
		}
	}
	if g.Errno == 0 {
		return true, "precondition holds on every path"
	}
	// 2. The exits taken when the condition is true return the errno.
	// Exits of helpers analysed in place are consulted only when the handler itself has no exit
	// for the guard (the test was moved into a helper): a helper called later with the guard's
	// facts still standing is not the guard's answer.
	found := false
	for pass := 0; pass < 2 && !found; pass++ {
		for _, ex := range exits {
			if ex.St.Dead || (len(ex.Inl) > 0) != (pass == 1) {
				continue
			}
			// among the exits of helpers, only those of helpers that are judged in this
			// function's context (new private helpers) can be the guard's answer - not, say,
			// DeleteFID's EBADF
			if len(ex.Inl) > 0 {
				inner := ex.Inl[len(ex.Inl)-1].Decl
				if hf := m.L.FuncOf(m.Info.Defs[inner.Name].(*types.Func)); !m.transparent(hf) {
					continue
				}
			}
			hit := false
			for _, p := range ex.St.Paths {
				if m.pathHasAll(h.canonFacts(p), g.Lits) {
					hit = true
					break
				}
			}
			if !hit {
				continue
			}
			v, ok := errnoOf(m.Info, ex.Ret)
			if !ok {
				// A later exit that merely inherited the facts (e.g. IsDir true and the
				// mode test passed) is not a guard exit: skip exits on which the condition
				// is refuted on some path.
				continue
			}
			found = true
			if v != g.Errno {
				return false, fmt.Sprintf("guard %q is answered with %s at %s, the property requires %s", g.Name, errnoName(v), m.L.relPos(ex.Ret.Pos()), errnoName(g.Errno))
			}
		}
	}
	if !found {
		return false, fmt.Sprintf("no exit returning a constant errno was found for guard %q", g.Name)
	}
	return true, fmt.Sprintf("refuted on every path to the call; violated → %s", errnoName(g.Errno))
}

func sortedKeys(m map[string]bool) []string {
	var ks []string
	for k := range m {
		ks = append(ks, k)
	}
	sort.Strings(ks)
	return ks
}

var _ = token.NoPos

// --- decisions taken through a fixed table --------------------------------------------------
//
// "if !openModeAccess[ref.openFlags&OpenFlagsModeMask].read { return EPERM }" decides the same
// as "if ref.openFlags&OpenFlagsModeMask == WriteOnly { return EPERM }" when WriteOnly is the
// only row of the (effectively constant) table whose field read is false.  For a guard atom
// "E == C" the facts of a path are consulted for a table read "T[E].f": the atom is refuted
// when row C holds another value than the path established, and established when C is the
// only row that holds it.

// tableRowBool evaluates T[row].field for a constant table of structs with boolean fields.
func (m *ServerModel) tableRowBool(cl *ast.CompositeLit, row int64, field string) (val, ok bool) {
	info := m.Info
	at, isArr := cl.Type.(*ast.ArrayType)
	if !isArr {
		return false, false
	}
	st, isStruct := info.TypeOf(at.Elt).Underlying().(*types.Struct)
	if !isStruct {
		return false, false
	}
	fidx := -1
	for i := 0; i < st.NumFields(); i++ {
		if st.Field(i).Name() == field {
			if b, isB := st.Field(i).Type().Underlying().(*types.Basic); isB && b.Kind() == types.Bool {
				fidx = i
			}
		}
	}
	if fidx < 0 {
		return false, false
	}
	pos := int64(0)
	for _, el := range cl.Elts {
		v := el
		if kv, isKV := el.(*ast.KeyValueExpr); isKV {
			k, okK := constInt(info, kv.Key)
			if !okK {
				return false, false
			}
			pos, v = k, kv.Value
		}
		if pos == row {
			rl, isRow := unparen(v).(*ast.CompositeLit)
			if !isRow {
				return false, false
			}
			for j, fe := range rl.Elts {
				if kv, isKV := fe.(*ast.KeyValueExpr); isKV {
					if id, isId := kv.Key.(*ast.Ident); isId && id.Name == field {
						c := constValue(info, kv.Value)
						return c != nil && c.String() == "true", c != nil
					}
				} else if j == fidx {
					c := constValue(info, fe)
					return c != nil && c.String() == "true", c != nil
				}
			}
			return false, true // left at its zero value
		}
		pos++
	}
	return false, true // a row the literal leaves at zero
}

// tableLen: the number of rows of the table (array length, or number of elements).
func (m *ServerModel) tableLen(cl *ast.CompositeLit) int64 {
	if t, ok := m.Info.TypeOf(cl).Underlying().(*types.Array); ok {
		return t.Len()
	}
	return int64(len(cl.Elts))
}

// tableDecides consults the table reads among the facts of p for the atom key "E == C":
// (value, true) when they settle it.
func (m *ServerModel) tableDecides(p FactSet, key string) (val, decided bool) {
	i := strings.Index(key, " == ")
	if i < 0 {
		return false, false
	}
	e, c := key[:i], key[i+4:]
	cv, ok := m.L.pkgConst("p9", c)
	if !ok {
		return false, false
	}
	for k, v := range p {
		// T[E].f
		lb := strings.Index(k, "[")
		rb := strings.LastIndex(k, "].")
		if lb <= 0 || rb < lb || k[lb+1:rb] != e {
			continue
		}
		tname, field := k[:lb], k[rb+2:]
		var cl *ast.CompositeLit
		for obj, lit := range m.L.constTables() {
			if obj.Name() == tname && obj.Pkg() != nil && obj.Pkg().Name() == "p9" {
				cl = lit
			}
		}
		if cl == nil {
			continue
		}
		at, okAt := m.tableRowBool(cl, cv, field)
		if !okAt {
			continue
		}
		if at != v {
			return false, true // row C holds the other value: E is not C on this path
		}
		// is C the only row with this value?
		only := true
		for r := int64(0); r < m.tableLen(cl); r++ {
			if r == cv {
				continue
			}
			rv, okR := m.tableRowBool(cl, r, field)
			if !okR || rv == v {
				only = false
			}
		}
		if only {
			return true, true
		}
	}
	return false, false
}
