package main

import (
	"fmt"
	"go/ast"
	"go/token"
	"go/types"
	"strings"
)

func init() {
	register(&propInfo{
		id: "C13", fn: checkC13, multiConfig: true,
		explanation: "(r1) in tread.handle the length of the slice handed to the backend ReadAt (and to the xattr copy) is a value clamped — or guarded — by a bound derived from the negotiated size (cs.messageSize, or the length of the msize-sized pool buffer) minus at least headerLength + FixedSize(rread); that constant (11) is computed from the codec by the layout extractor, not written in the checker; a bound against the 4 MiB constant alone does not discharge this; the reply's Data is the prefix [:n] of that buffer with n the count returned for that slice; (r2) the Count given to the backend Readdir and to the rreaddir reply (whose encoder enforces it as the payload limit, C01.r9) is bounded the same way; (r3) no other reply type carries an out-of-band payload; (r4) client sizing: every store to c.payloadSize is roundDown(c.messageSize − S, 512) with S statically evaluated (registry.largestFixedSize is computed from the 65 layouts: 153) to at least headerLength + FixedSize(twrite) = 23 and headerLength + FixedSize(rread) = 11, the first store comes after the options were applied, the store after negotiation uses the adopted msize, roundDown never returns more than its argument, and both WithMessageSize and the adoption path reject sizes ≤ largestFixedSize (no unsigned underflow); (r5) requests are chunked by that payload size (C11.r1–r2). (r2, continued) rreaddir.encode emits whole entries within Count only (the rule of C19.r1); (r5) the limit in force is the announced one: tversion.handle stores cs.messageSize and rebuilds the buffer pools on the accepting path only (the rule of C12.r2). (r5, continued) cs.messageSize holds the announced (clamped) msize, not the proposal (the rule of C12.r3); (r6) the client does not solicit replies above msize: the single-message read/write primitives are reached only through the chunking loop (the rule of C11.r1).",
		assumptions: []string{"a backend's ReadAt returns n ≤ len(p) (io.ReaderAt contract)", "frame sizes for concrete directory contents are runtime values; only the limit given to the encoder is decided"},
	})
}

// sizeEval evaluates size expressions statically.
type sizeEval struct {
	r       *Run
	x       *codecX
	info    *types.Info
	largest int64
	fi      *FuncInfo
}

func newSizeEval(r *Run, info *types.Info) *sizeEval {
	x, err := newCodecX(r.L)
	if err != nil {
		return nil
	}
	e := &sizeEval{r: r, x: x, info: info, largest: -1}
	entries, _ := x.registryEntries()
	for _, en := range entries {
		if fs, ok := x.fixedSizeOf(en.Type); ok {
			if fs > e.largest {
				e.largest = fs
			}
			continue
		}
		if lay, err := x.Layout(en.Type, "encode"); err == nil {
			if sz := int64(staticSize(lay)); sz > e.largest {
				e.largest = sz
			}
		}
	}
	return e
}

func (e *sizeEval) eval(fi *FuncInfo, ex ast.Expr, depth int) (int64, bool) {
	if depth > 6 {
		return 0, false
	}
	ex = unparen(ex)
	if v, ok := constInt(e.info, ex); ok {
		return v, true
	}
	switch v := ex.(type) {
	case *ast.SelectorExpr:
		if v.Sel.Name == "largestFixedSize" {
			if fld := fieldOf(e.info, v); fld != nil && e.r.L.fieldKey(fld) == "p9.registry.largestFixedSize" {
				return e.largest, e.largest > 0
			}
		}
	case *ast.CallExpr:
		if tv, ok := e.info.Types[v.Fun]; ok && tv.IsType() && len(v.Args) == 1 {
			return e.eval(fi, v.Args[0], depth+1)
		}
		if sel, ok := unparen(v.Fun).(*ast.SelectorExpr); ok && sel.Sel.Name == "FixedSize" && len(v.Args) == 0 {
			t := e.info.TypeOf(sel.X)
			if p, ok := t.(*types.Pointer); ok {
				t = p.Elem()
			}
			if nt, ok := t.(*types.Named); ok {
				return e.x.fixedSizeOf(nt)
			}
		}
	case *ast.BinaryExpr:
		a, ok1 := e.eval(fi, v.X, depth+1)
		b, ok2 := e.eval(fi, v.Y, depth+1)
		if ok1 && ok2 {
			switch v.Op {
			case token.ADD:
				return a + b, true
			case token.SUB:
				return a - b, true
			case token.MUL:
				return a * b, true
			}
		}
	case *ast.Ident:
		if fi != nil {
			if obj, ok := objOf(e.info, v).(*types.Var); ok && !obj.IsField() {
				var defs []ast.Expr
				ast.Inspect(fi.Decl, func(n ast.Node) bool {
					if as, ok := n.(*ast.AssignStmt); ok && len(as.Lhs) == len(as.Rhs) {
						for i, l := range as.Lhs {
							if objOf(e.info, l) == obj {
								defs = append(defs, as.Rhs[i])
							}
						}
					}
					return true
				})
				if len(defs) == 1 {
					return e.eval(fi, defs[0], depth+1)
				}
			}
		}
	}
	return 0, false
}

// defsOf returns the right-hand sides assigned to a local variable in fi, with the condition
// of the innermost enclosing if statement and whether the assignment is in its then-branch.
type varDef struct {
	Rhs  ast.Expr
	Cond ast.Expr
	Then bool
	Pos  token.Pos
}

func defsOf(l *Loaded, info *types.Info, fi *FuncInfo, obj types.Object) []varDef {
	var out []varDef
	ast.Inspect(fi.Decl, func(n ast.Node) bool {
		as, ok := n.(*ast.AssignStmt)
		if !ok || len(as.Lhs) != len(as.Rhs) {
			return true
		}
		for i, lhs := range as.Lhs {
			if objOf(info, lhs) != obj {
				continue
			}
			d := varDef{Rhs: as.Rhs[i], Pos: as.Pos()}
			for p := l.parent(as); p != nil; p = l.parent(p) {
				if ifs, ok := p.(*ast.IfStmt); ok {
					d.Cond = ifs.Cond
					d.Then = containsNode(ifs.Body, as)
					break
				}
				if _, ok := p.(*ast.FuncDecl); ok {
					break
				}
				if _, ok := p.(*ast.FuncLit); ok {
					break
				}
			}
			out = append(out, d)
		}
		return true
	})
	return out
}

// msizeBound decides whether expression b (in function fi) is derived from the negotiated
// message size minus at least need bytes.  Returns (ok, description).
func (e *sizeEval) msizeBound(m *ServerModel, fi *FuncInfo, b ast.Expr, need int64, depth int) (bool, string) {
	info := e.info
	b = unparen(b)
	if depth > 4 {
		return false, "bound too deep"
	}
	// local variable with a single definition
	if id, ok := b.(*ast.Ident); ok {
		if obj, ok := objOf(info, id).(*types.Var); ok && !obj.IsField() {
			ds := defsOf(e.r.L, info, fi, obj)
			if len(ds) == 1 {
				return e.msizeBound(m, fi, ds[0].Rhs, need, depth+1)
			}
			return false, fmt.Sprintf("%s has %d definitions", id.Name, len(ds))
		}
	}
	if c, ok := b.(*ast.CallExpr); ok {
		if tv, ok := info.Types[c.Fun]; ok && tv.IsType() && len(c.Args) == 1 {
			return e.msizeBound(m, fi, c.Args[0], need, depth+1)
		}
		// helper method: every return is 0 or V - K
		if tf := e.r.L.FuncOf(callee(info, c)); tf != nil && tf.Decl.Body != nil && len(c.Args) == 0 {
			nret, okAll := 0, true
			why := ""
			for _, ex := range m.DB.Exits[tf] {
				if ex.Ret == nil || len(ex.Ret.Results) != 1 || ex.St.Dead {
					continue
				}
				nret++
				res := unparen(ex.Ret.Results[0])
				if v, ok := constInt(info, res); ok && v == 0 {
					continue
				}
				ok, w := e.msizeDerived(m, tf, res, need, ex.St)
				if !ok {
					okAll = false
					why = w
				}
			}
			if nret > 0 && okAll {
				return true, "helper " + tf.Key + " returns 0 or (negotiated size − " + fmt.Sprint(need) + " or more)"
			}
			return false, "helper " + tf.Key + ": " + why
		}
	}
	return e.msizeDerived(m, fi, b, need, nil)
}

// msizeDerived: expr is V - K with K >= need and V the negotiated size (cs.messageSize, with the
// maximumLength default, or the length of a read-pool buffer); st (optional) must exclude underflow.
func (e *sizeEval) msizeDerived(m *ServerModel, fi *FuncInfo, ex ast.Expr, need int64, st *HState) (bool, string) {
	info := e.info
	be, ok := unparen(ex).(*ast.BinaryExpr)
	if !ok || be.Op != token.SUB {
		return false, e.r.L.str(ex) + " is not of the form (negotiated size − overhead)"
	}
	k, okK := e.eval(fi, be.Y, 0)
	if !okK {
		return false, "overhead " + e.r.L.str(be.Y) + " cannot be evaluated statically"
	}
	if k < need {
		return false, fmt.Sprintf("only %d bytes are deducted (%s) but the reply carries %d bytes of header and count", k, e.r.L.str(be.Y), need)
	}
	// V
	v := unparen(be.X)
	vs := e.r.L.str(v)
	okV := false
	var srcs []string
	check := func(x ast.Expr) bool {
		x = unparen(x)
		if c, ok := x.(*ast.CallExpr); ok {
			if tv, ok := info.Types[c.Fun]; ok && tv.IsType() && len(c.Args) == 1 {
				x = unparen(c.Args[0])
			}
		}
		s := strings.ReplaceAll(e.r.L.str(x), " ", "")
		srcs = append(srcs, s)
		if strings.HasPrefix(s, "atomic.LoadUint32(&") && strings.HasSuffix(s, ".messageSize)") || strings.HasSuffix(s, ".messageSize.Load()") {
			return true
		}
		if strings.HasSuffix(s, ".messageSize") {
			return true
		}
		if strings.HasPrefix(s, "len(") {
			return true // length of the pooled msize-sized buffer (checked by the caller context)
		}
		return false
	}
	// value: the negotiated size itself, a local whose definitions all are (with maximumLength
	// standing in while nothing has been negotiated), or what a private getter hands back
	var value func(fi *FuncInfo, v ast.Expr, depth int) bool
	value = func(fi *FuncInfo, v ast.Expr, depth int) bool {
		v = unparen(v)
		if id, ok := v.(*ast.Ident); ok {
			obj, ok := objOf(info, id).(*types.Var)
			if !ok || obj.IsField() {
				return false
			}
			ds := defsOf(e.r.L, info, fi, obj)
			if len(ds) == 0 {
				return false
			}
			for _, d := range ds {
				if check(d.Rhs) {
					continue
				}
				// the default for "not negotiated": maximumLength under V == 0
				if s := e.r.L.str(d.Rhs); s == "maximumLength" && d.Cond != nil && d.Then && strings.ReplaceAll(e.r.L.str(d.Cond), " ", "") == id.Name+"==0" {
					continue
				}
				if tf, rets := getterReturns(e.r.L, info, d.Rhs); tf != nil && tf.Pkg == fi.Pkg && depth < 3 {
					all := true
					for _, ret := range rets {
						all = all && value(tf, ret, depth+1)
					}
					if all {
						continue
					}
				}
				return false
			}
			return true
		}
		if tf, rets := getterReturns(e.r.L, info, v); tf != nil && tf.Pkg == fi.Pkg && depth < 3 {
			for _, ret := range rets {
				if !value(tf, ret, depth+1) {
					return false
				}
			}
			return true
		}
		return check(v)
	}
	okV = value(fi, v, 0)
	if !okV {
		return false, fmt.Sprintf("%s is not the negotiated message size (definitions: %v): a bound that does not follow the msize announced in Rversion cannot keep replies within it", vs, srcs)
	}
	// underflow excluded
	if st != nil {
		rs := m.resolver(fi)
		ks := e.r.L.str(be.Y)
		if !(st.holds(ks+" > "+vs, false) || st.holds(rs.str(be.Y)+" > "+rs.str(be.X), false)) {
			return false, fmt.Sprintf("%s − %s can underflow: no guard %s < %s precedes", vs, ks, vs, ks)
		}
	}
	return true, fmt.Sprintf("%s − %d", vs, k)
}

// boundedLength decides whether length expression x at a site in fi is bounded (clamped or guarded).
func (e *sizeEval) boundedLength(m *ServerModel, fi *FuncInfo, x ast.Expr, st *HState, need int64) (bool, string) {
	info := e.info
	x = unparen(x)
	// strip conversions
	for {
		c, ok := x.(*ast.CallExpr)
		if !ok {
			break
		}
		if tv, ok := info.Types[c.Fun]; ok && tv.IsType() && len(c.Args) == 1 {
			x = unparen(c.Args[0])
			continue
		}
		break
	}
	res := m.resolver(fi)
	// (a) clamped local
	if id, ok := x.(*ast.Ident); ok {
		if obj, ok := objOf(info, id).(*types.Var); ok && !obj.IsField() {
			ds := defsOf(e.r.L, info, fi, obj)
			var src, lim *varDef
			for i := range ds {
				d := &ds[i]
				s := e.r.L.str(d.Rhs)
				if strings.HasSuffix(s, ".Count") && d.Cond == nil || strings.HasSuffix(s, ".Count") && !strings.Contains(e.r.L.str(d.Cond), id.Name) {
					src = d
				} else {
					if lim != nil {
						return false, fmt.Sprintf("%s has several non-request definitions", id.Name)
					}
					lim = d
				}
			}
			// min(t.Count, B)
			if len(ds) == 1 {
				if c, ok := unparen(ds[0].Rhs).(*ast.CallExpr); ok {
					if fid, ok := c.Fun.(*ast.Ident); ok && fid.Name == "min" && len(c.Args) == 2 {
						for _, a := range c.Args {
							if ok, why := e.msizeBound(m, fi, a, need, 0); ok {
								return true, id.Name + " = min(requested, " + why + ")"
							}
						}
					}
				}
			}
			if src == nil || lim == nil {
				return false, fmt.Sprintf("%s is not clamped: it is the requested count without a bound derived from the negotiated msize", id.Name)
			}
			// limit assignment must be under "X > L" (or request > L)
			cs := strings.ReplaceAll(e.r.L.str(lim.Cond), " ", "")
			ls := strings.ReplaceAll(e.r.L.str(lim.Rhs), " ", "")
			if lim.Cond == nil || !lim.Then || !(cs == id.Name+">"+ls || cs == strings.ReplaceAll(e.r.L.str(src.Rhs), " ", "")+">"+ls || cs == ls+"<"+id.Name) {
				return false, fmt.Sprintf("%s = %s is not under the test %s > %s", id.Name, ls, id.Name, ls)
			}
			ok, why := e.msizeBound(m, fi, lim.Rhs, need, 0)
			if !ok {
				return false, "the clamp of " + id.Name + " is not derived from the negotiated msize: " + why
			}
			return true, id.Name + " = min(requested, " + why + ")"
		}
	}
	// (b) guarded request field
	xs := res.str(x)
	if st != nil {
		for _, p := range st.Paths {
			found := false
			for k, v := range p {
				if !v && strings.HasPrefix(k, xs+" > ") {
					// find the bound expression text
					found = true
				}
			}
			if !found {
				return false, fmt.Sprintf("%s reaches the call unclamped: neither a clamp nor a guard derived from the negotiated msize bounds it (a test against the 4 MiB constant does not)", xs)
			}
		}
	}
	return false, fmt.Sprintf("%s reaches the call unclamped: no bound derived from the negotiated msize", xs)
}

func checkC13(r *Run) {
	m := buildServerModel(r.L)
	info := m.Info
	db := m.DB
	ev := newSizeEval(r, info)
	if ev == nil {
		r.undecided("r1", "codec", token.NoPos, "codec extractor unavailable")
		return
	}
	hl, _ := r.L.pkgConst("p9", "headerLength")
	rreadT := r.L.namedType("p9", "rread")
	twriteT := r.L.namedType("p9", "twrite")
	rreaddirT := r.L.namedType("p9", "rreaddir")
	fsR, ok1 := ev.x.fixedSizeOf(rreadT)
	fsW, ok2 := ev.x.fixedSizeOf(twriteT)
	fsD, ok3 := ev.x.fixedSizeOf(rreaddirT)
	if !ok1 || !ok2 || !ok3 {
		r.undecided("r1", "FixedSize", token.NoPos, "FixedSize of rread/twrite/rreaddir not constant")
		return
	}
	needR := hl + fsR
	needD := hl + fsD
	needW := hl + fsW
	r.sample(map[string]any{"computed": map[string]int64{"headerLength": hl, "FixedSize(rread)": fsR, "FixedSize(rreaddir)": fsD, "FixedSize(twrite)": fsW, "largestFixedSize": ev.largest}})
	r.check(ev.largest >= needW && ev.largest >= needR, "r4", "largestFixedSize covers header + fixed parts", token.NoPos,
		fmt.Sprintf("largestFixedSize = %d (computed from the layouts) ≥ %d and ≥ %d", ev.largest, needW, needR),
		fmt.Sprintf("largestFixedSize = %d is smaller than header+fixed part of Twrite (%d) or Rread (%d)", ev.largest, needW, needR))
	c13Registry(r, ev)

	// ---- r1: tread ----
	if tr := r.mustFunc("r1", "p9", "tread.handle"); tr != nil {
		n := 0
		for _, b := range m.Backend {
			if b.Site.Root != tr || b.Method != "ReadAt" {
				continue
			}
			n++
			sl, ok := unparen(b.Args[0]).(*ast.SliceExpr)
			if !ok || sl.High == nil || sl.Low != nil {
				r.undecided("r1", "tread: ReadAt buffer", b.Site.Call.Pos(), "first argument is not buf[:n]")
				continue
			}
			ok2, why := ev.boundedLength(m, tr, sl.High, b.Site.St, needR)
			r.check(ok2, "r1", "tread: backend read length bounded by the negotiated msize", b.Site.Call.Pos(), why, why)
		}
		// xattr copy
		for _, s := range db.ByFunc[tr] {
			if s.Call == nil {
				continue
			}
			if id, ok := s.Call.Fun.(*ast.Ident); ok && id.Name == "copy" && len(s.Call.Args) == 2 {
				if sl, ok := unparen(s.Call.Args[0]).(*ast.SliceExpr); ok && sl.High != nil {
					n++
					ok2, why := ev.boundedLength(m, tr, sl.High, s.St, needR)
					r.check(ok2, "r1", "tread: xattr copy length bounded by the negotiated msize", s.Call.Pos(), why, why)
				}
			}
		}
		// (the copy may sit in a private helper judged in tread.handle's context: its length
		// operand then stands for what the handler passed)
		seenDeep := map[*ast.CallExpr]bool{}
		for _, s := range m.DB.Deep[tr] {
			if s.Call == nil || seenDeep[s.Call] {
				continue
			}
			if id, ok := s.Call.Fun.(*ast.Ident); ok && id.Name == "copy" && len(s.Call.Args) == 2 {
				if _, isB := info.Uses[id].(*types.Builtin); !isB {
					continue
				}
				if sl, ok := unparen(s.Call.Args[0]).(*ast.SliceExpr); ok && sl.High != nil {
					seenDeep[s.Call] = true
					n++
					ok2, why := ev.boundedLength(m, tr, s.mapExpr(info, sl.High), s.St, needR)
					r.check(ok2, "r1", "tread: xattr copy length bounded by the negotiated msize", s.Call.Pos(), why, why)
				}
			}
		}
		r.floor("r1", "read sites in tread.handle", n, 2)
		// reply Data = buf[:n], n from ReadAt/copy
		okData := false
		ast.Inspect(tr.Decl.Body, func(nd ast.Node) bool {
			kv, ok := nd.(*ast.KeyValueExpr)
			if !ok {
				return true
			}
			if id, ok := kv.Key.(*ast.Ident); ok && id.Name == "Data" {
				if sl, ok := unparen(kv.Value).(*ast.SliceExpr); ok && sl.Low == nil && sl.High != nil {
					if obj := objOf(info, sl.High); obj != nil {
						all := true
						cnt := 0
						ast.Inspect(tr.Decl.Body, func(n2 ast.Node) bool {
							as, ok := n2.(*ast.AssignStmt)
							if !ok {
								return true
							}
							for li, l := range as.Lhs {
								if objOf(info, l) == obj {
									cnt++
									rhs := ""
									if len(as.Rhs) == 1 {
										if c, ok := unparen(as.Rhs[0]).(*ast.CallExpr); ok {
											rhs = calleeKey(info, c)
											if id, ok := c.Fun.(*ast.Ident); ok && id.Name == "copy" {
												rhs = "copy"
											}
											// a private helper that hands back, in this position, 0 or what copy
											// returned
											if tf := r.L.FuncOf(callee(info, c)); tf != nil && tf.Decl.Body != nil && !tf.Obj.Exported() && !pinnedFuncs[tf.Key] {
												nret, allCopy := 0, true
												inspectNoLit(tf.Decl.Body, func(rn ast.Node) {
													ret, isRet := rn.(*ast.ReturnStmt)
													if !isRet {
														return
													}
													nret++
													if li >= len(ret.Results) {
														allCopy = false
														return
													}
													x := unparen(ret.Results[li])
													if v, isC := constInt(info, x); isC && v == 0 {
														return
													}
													if cc, isCall := x.(*ast.CallExpr); isCall {
														if cid, isId := cc.Fun.(*ast.Ident); isId && cid.Name == "copy" {
															if _, isB := info.Uses[cid].(*types.Builtin); isB {
																return
															}
														}
													}
													allCopy = false
												})
												if nret > 0 && allCopy {
													rhs = "copy"
												}
											}
										}
									}
									if rhs != "p9.File.ReadAt" && rhs != "copy" {
										all = false
									}
								}
							}
							return true
						})
						okData = all && cnt >= 1
					}
				}
			}
			return true
		})
		r.check(okData, "r1", "tread: reply data is the prefix the backend filled", tr.Decl.Pos(), "Data = buf[:n], n returned by ReadAt / copy", "the reply's Data is not buf[:n] with n the count returned for this request")
	}
	// ---- r2: treaddir ----
	if td := r.mustFunc("r2", "p9", "treaddir.handle"); td != nil {
		for _, b := range m.Backend {
			if b.Site.Root != td || b.Method != "Readdir" || len(b.Args) < 2 {
				continue
			}
			ok2, why := ev.boundedLength(m, td, b.Args[1], b.Site.St, needD)
			r.check(ok2, "r2", "treaddir: count given to the backend is bounded", b.Site.Call.Pos(), why, why)
		}
		found := false
		ast.Inspect(td.Decl.Body, func(nd ast.Node) bool {
			cl, ok := nd.(*ast.CompositeLit)
			if !ok || !strings.HasSuffix(types.TypeString(info.TypeOf(cl), nil), "p9.rreaddir") {
				return true
			}
			for _, el := range cl.Elts {
				if kv, ok := el.(*ast.KeyValueExpr); ok && kv.Key.(*ast.Ident).Name == "Count" {
					found = true
					ok2, why := ev.boundedLength(m, td, kv.Value, nil, needD)
					r.check(ok2, "r2", "treaddir: Count limit of the reply is bounded", kv.Pos(), why, why)
				}
			}
			return true
		})
		if !found {
			r.fail("r2", "treaddir: Count limit of the reply is bounded", td.Decl.Pos(), "the Rreaddir literal sets no Count: the encoder would truncate to 0 or not at all")
		}
	}
	// ---- r3: which replies carry payloads ----
	entries, _ := ev.x.registryEntries()
	var withPayload []string
	for _, en := range entries {
		if en.Num%2 == 1 {
			if _, ok := ev.x.fixedSizeOf(en.Type); ok {
				withPayload = append(withPayload, en.Type.Obj().Name())
			}
		}
	}
	r.check(strings.Join(withPayload, ",") == "rreaddir,rread", "r3", "replies with an out-of-band payload", token.NoPos, "only rread and rreaddir", "payload-carrying replies are "+strings.Join(withPayload, ",")+": each needs an msize bound")

	// ---- r4: client sizing ----
	c13Client(r, m, ev, needW, needR)

	if r.borrowed == nil {
		// r5: the limit the replies are clamped against is the one that was announced: a
		// refused Tversion does not change cs.messageSize (the rule of C12.r2)
		// ... and cs.messageSize holds the announced (clamped) value, not the proposal (C12.r3)
		r.borrow(checkC12, map[string]string{"r2": "r5", "r3": "r5"})
		// r6: the client does not solicit a reply above msize: the single-message read and write
		// primitives are reached only through the chunking loop (the rule of C11.r1)
		r.borrow(checkC11, map[string]string{"r1": "r6"})
		// r2 (continued): rreaddir.encode cuts the listing to whole entries within Count
		// (the rule of C19.r1) - Count is what the handler clamped
		r.borrow(checkC19, map[string]string{"r1": "r2"})
	}
}

// c13Registry checks that largestFixedSize is what the evaluator computes: register() keeps the
// maximum of calculateSize(fn()), calculateSize returns FixedSize() for payloaders and the
// encoded length of the zero message otherwise.
func c13Registry(r *Run, ev *sizeEval) {
	info := ev.info
	reg := r.mustFunc("r4", "p9", "registry.register")
	if reg == nil {
		return
	}
	// largestFixedSize after register = max(before, size of fn()), evaluated symbolically
	// (if / min-max builtins / early assignment are all fine).  The size is measured by a
	// private helper applied to fn() (calculateSize) or in register itself, into a local.
	res := newResolver(r.L, info, reg.Decl)
	recvName, fnName := "", ""
	if reg.Decl.Recv != nil && len(reg.Decl.Recv.List[0].Names) == 1 {
		recvName = reg.Decl.Recv.List[0].Names[0].Name
	}
	for _, f := range reg.Decl.Type.Params.List {
		for _, nm := range f.Names {
			if _, isSig := info.Defs[nm].Type().Underlying().(*types.Signature); isSig {
				fnName = nm.Name
			}
		}
	}
	type measure struct {
		expr string         // what the field is compared with
		body *ast.BlockStmt // where the measuring happens
		name string
		pos  token.Pos
	}
	var cands []measure
	ast.Inspect(reg.Decl.Body, func(n ast.Node) bool {
		switch v := n.(type) {
		case *ast.CallExpr:
			// h(fn())
			if len(v.Args) == 1 {
				if inner, ok := unparen(v.Args[0]).(*ast.CallExpr); ok && len(inner.Args) == 0 && r.L.str(inner.Fun) == fnName {
					if h := r.L.FuncOf(callee(info, v)); h != nil && h.Decl.Body != nil {
						cands = append(cands, measure{expr: res.str(v), body: h.Decl.Body, name: h.Decl.Name.Name, pos: h.Decl.Pos()})
					}
				}
			}
		case *ast.Ident:
			// a local of register that holds the size
			if o, ok := info.Defs[v].(*types.Var); ok && o != nil {
				if b, isB := o.Type().Underlying().(*types.Basic); isB && b.Info()&types.IsInteger != 0 && res.str(v) == res.nameOf(o) {
					cands = append(cands, measure{expr: res.nameOf(o), body: reg.Decl.Body, name: "register (local " + o.Name() + ")", pos: v.Pos()})
				}
			}
		}
		return true
	})
	okMax, whyMax := false, "no measured size of "+fnName+"() found in register"
	var used *measure
	for i := range cands {
		if ok, why := maxHoldsAtEnd(r.L, res, reg, recvName+".largestFixedSize", cands[i].expr); ok {
			okMax, whyMax, used = true, why, &cands[i]
			break
		} else if used == nil {
			whyMax = why
		}
	}
	r.check(okMax, "r4", "register keeps the maximum fixed size", reg.Decl.Pos(), whyMax, "register no longer maintains largestFixedSize as the maximum over all registered types: "+whyMax)
	if used == nil {
		return
	}
	hasFixed, hasEncode := false, false
	ast.Inspect(used.body, func(n ast.Node) bool {
		if c, ok := n.(*ast.CallExpr); ok {
			k := calleeKey(info, c)
			if strings.HasSuffix(k, ".FixedSize") {
				hasFixed = true
			}
			if strings.HasSuffix(k, ".encode") {
				hasEncode = true
			}
		}
		return true
	})
	r.check(hasFixed && hasEncode, "r4", "the size of a message type is measured", used.pos, "FixedSize() for payloaders, encoded length otherwise (in "+used.name+")", used.name+" no longer measures FixedSize()/encoded length")
}

func c13Client(r *Run, m *ServerModel, ev *sizeEval, needW, needR int64) {
	info := m.Info
	db := m.DB
	nc := r.mustFunc("r4", "p9", "NewClient")
	if nc == nil {
		return
	}
	// position of the options loop
	var optsLoopEnd token.Pos
	ast.Inspect(nc.Decl.Body, func(n ast.Node) bool {
		if rs, ok := n.(*ast.RangeStmt); ok && optsLoopEnd == 0 {
			if v, ok := objOf(info, rs.X).(*types.Var); ok && paramIndex(nc, info, v) >= 0 {
				optsLoopEnd = rs.End()
			}
		}
		return true
	})
	nStores := 0
	for _, fa := range m.fields() {
		if fa.Root != nc || !fa.Write || fa.Key != "p9.Client.payloadSize" {
			continue
		}
		as, ok := r.L.parent(fa.Sel).(*ast.AssignStmt)
		if !ok || len(as.Rhs) != 1 {
			continue
		}
		nStores++
		key := fmt.Sprintf("NewClient: payloadSize store #%d", nStores)
		c, ok := unparen(as.Rhs[0]).(*ast.CallExpr)
		// a helper that is a single expression (payloadSizeFor(c.messageSize)) stands for that expression
		bind := map[types.Object]ast.Expr{}
		if ok && calleeKey(info, c) != "p9.roundDown" {
			if tf := r.L.FuncOf(callee(info, c)); tf != nil {
				if body, isCall := unparen(exprFuncBody(tf.Decl)).(*ast.CallExpr); isCall {
					idx := 0
					for _, f := range tf.Decl.Type.Params.List {
						for _, nm := range f.Names {
							if idx < len(c.Args) {
								bind[info.Defs[nm]] = c.Args[idx]
							}
							idx++
						}
					}
					c = body
				}
			}
		}
		if !ok || calleeKey(info, c) != "p9.roundDown" || len(c.Args) != 2 {
			r.fail("r4", key, as.Pos(), "payloadSize = %s is not roundDown(messageSize − overhead, align)", r.L.str(as.Rhs[0]))
			continue
		}
		be, ok := unparen(c.Args[0]).(*ast.BinaryExpr)
		minuend := ""
		if ok {
			minuend = r.L.str(be.X)
			if a, bound := bind[objOf(info, be.X)]; bound {
				minuend = r.L.str(a)
			}
		}
		if !ok || be.Op != token.SUB || !strings.HasSuffix(minuend, ".messageSize") {
			r.fail("r4", key, as.Pos(), "payloadSize is derived from %s, not from (c.messageSize − overhead)", r.L.str(c.Args[0]))
			continue
		}
		k, okK := ev.eval(nc, be.Y, 0)
		switch {
		case !okK:
			r.undecided("r4", key, as.Pos(), "overhead %s cannot be evaluated statically", r.L.str(be.Y))
		case k < needW || k < needR:
			r.fail("r4", key, as.Pos(), "only %d bytes (%s) are reserved, but a Twrite frame needs header+fixed part = %d and an Rread %d: a full chunk plus its header exceeds msize", k, r.L.str(be.Y), needW, needR)
		default:
			r.ok("r4", key, as.Pos(), "roundDown(messageSize − %d, %s): Twrite (%d) and Rread (%d) overheads are covered", k, r.L.str(c.Args[1]), needW, needR)
		}
		if nStores == 1 {
			r.check(optsLoopEnd != 0 && as.Pos() > optsLoopEnd, "r4", "NewClient: payload size is computed after the options", as.Pos(), "after the ClientOpt loop", "c.payloadSize is computed before the options (WithMessageSize) are applied: it would reflect the default msize, not the one negotiated")
		}
	}
	r.check(nStores >= 2, "r4", "NewClient: payload size recomputed after negotiation", nc.Decl.Pos(), fmt.Sprintf("%d stores to c.payloadSize", nStores), fmt.Sprintf("%d store(s) to c.payloadSize: it is not recomputed from the adopted msize", nStores))
	// adoption store guarded against underflow
	for _, fa := range m.fields() {
		if fa.Root != nc || !fa.Write || fa.Key != "p9.Client.messageSize" {
			continue
		}
		as, ok := r.L.parent(fa.Sel).(*ast.AssignStmt)
		if !ok || len(as.Rhs) != 1 {
			continue
		}
		rhs := r.L.str(as.Rhs[0])
		if strings.HasSuffix(rhs, ".MSize") {
			okG := fa.St.holds(rhs+" > msgDotLRegistry.largestFixedSize", true)
			r.check(okG, "r4", "NewClient: adopted msize exceeds largestFixedSize", as.Pos(), "guarded: no unsigned underflow in messageSize − largestFixedSize", "the adopted msize is not checked to exceed largestFixedSize: messageSize − largestFixedSize can wrap around to a huge payload size")
		}
	}
	// WithMessageSize
	if wm := r.mustFunc("r4", "p9", "WithMessageSize"); wm != nil {
		okG := false
		for _, fa := range m.fields() {
			if fa.Root == wm && fa.Write && fa.Key == "p9.Client.messageSize" {
				for _, p := range fa.St.Paths {
					_ = p
				}
				pn := ""
				if ps := wm.Decl.Type.Params.List; len(ps) == 1 && len(ps[0].Names) == 1 {
					pn = ps[0].Names[0].Name
				}
				okG = pn != "" && fa.St.holds(pn+" > msgDotLRegistry.largestFixedSize", true)
			}
		}
		r.check(okG, "r4", "WithMessageSize rejects sizes without room for a payload", wm.Decl.Pos(), "m ≤ largestFixedSize is refused", "WithMessageSize accepts m ≤ largestFixedSize: messageSize − largestFixedSize underflows")
	}
	// roundDown never returns more than p
	if rd := r.mustFunc("r4", "p9", "roundDown"); rd != nil {
		p := rd.Decl.Type.Params.List[0].Names[0].Name
		okAll, n := true, 0
		for _, ex := range db.Exits[rd] {
			if ex.Ret == nil || len(ex.Ret.Results) != 1 {
				continue
			}
			n++
			s := strings.ReplaceAll(r.L.str(ex.Ret.Results[0]), " ", "")
			if s != p && !(strings.HasPrefix(s, p+"-"+p+"%")) {
				okAll = false
			}
		}
		r.check(okAll && n > 0, "r4", "roundDown never exceeds its argument", rd.Decl.Pos(), "returns p or p − p%align", "roundDown can return something other than p or p − p%align")
	}
}

// getterReturns: e is a call, without arguments, of a declared function of the module that
// has a body and one result; the operands of its own return statements are handed back (nil
// when a return does not name its value).
func getterReturns(l *Loaded, info *types.Info, e ast.Expr) (*FuncInfo, []ast.Expr) {
	call, ok := unparen(e).(*ast.CallExpr)
	if !ok || len(call.Args) != 0 {
		return nil, nil
	}
	tf := l.FuncOf(callee(info, call))
	if tf == nil || tf.Decl.Body == nil || tf.Decl.Type.Results == nil || tf.Obj.Type().(*types.Signature).Results().Len() != 1 {
		return nil, nil
	}
	var rets []ast.Expr
	bad := false
	inspectNoLit(tf.Decl.Body, func(n ast.Node) {
		if ret, ok := n.(*ast.ReturnStmt); ok {
			if len(ret.Results) != 1 {
				bad = true
			} else {
				rets = append(rets, ret.Results[0])
			}
		}
	})
	if bad || len(rets) == 0 {
		return nil, nil
	}
	return tf, rets
}
