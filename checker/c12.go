package main

import (
	"fmt"
	"go/ast"
	"go/constant"
	"go/token"
	"go/types"
	"strconv"
	"strings"
)

func init() {
	register(&propInfo{
		id: "C12", fn: checkC12, multiConfig: true,
		explanation: "(r1) every return of tversion.handle has static type *rversion (never an error reply); (r2) the reply on the msize==0, unparsable-version and non-.L base-version paths is the literal {MSize: 0, Version: \"unknown\"}, and the success reply is returned only when msize != 0, the version parsed and the base version is 9P2000.L; (r3) the msize of the success reply is the request's msize replaced by the 4 MiB constant exactly under request > 4 MiB, the version is the requested one replaced by highestSupportedVersion (7) exactly under requested > 7, and the same clamped values are stored in cs.messageSize/cs.version and size the read-buffer pool; (r4) writer/reader agreement: versionString returns string(baseVersion) for 0 and otherwise a format whose '.'-separated constant segments are exactly the literals parseVersion compares, followed by %d of a uint32 matching strconv.ParseUint(_, 10, 32); parseVersion demands exactly 4 segments and a non-empty number and maps \"9P2000.L\" to (L, 0); (r5) on NewClient's success path c.version is assigned the parsed reply version and the MSize field of the reply is read and flows into c.messageSize and c.payloadSize (a client that never reads the field cannot honour a lowered msize); (r6) the paths on which the reply does not parse or is not a 9P2000.L version return a non-nil error and no *Client. (r1, continued) a Tversion is never refused by size before it is read: the pre-negotiation receive limit is the 4 MiB ceiling (the rule of C02.r2). (r6) the client keeps to what it adopted: its payload size leaves room for the header and fixed part of the largest I/O frame (the rule of C13.r4).",
		assumptions: []string{"strconv.ParseUint and strings.Split behave as documented (no sign, no spaces, leading zeros accepted)"},
	})
}

func checkC12(r *Run) {
	m := buildServerModel(r.L)
	info := m.Info
	db := m.DB
	tv := r.mustFunc("r1", "p9", "tversion.handle")
	if tv == nil {
		return
	}
	res := m.resolver(tv)
	recv := tv.Decl.Recv.List[0].Names[0].Name
	// the variable that receives the requested version number (second result of parseVersion)
	reqVer := ""
	for _, s := range m.callsIn(tv, "p9.parseVersion") {
		if as, ok := r.L.parent(s.Call).(*ast.AssignStmt); ok && len(as.Lhs) == 3 {
			reqVer = res.str(as.Lhs[1])
		}
	}

	// unknown literal
	unknownVar := ""
	ast.Inspect(tv.Decl.Body, func(n ast.Node) bool {
		as, ok := n.(*ast.AssignStmt)
		if !ok || len(as.Lhs) != 1 || len(as.Rhs) != 1 {
			return true
		}
		if isRversionLit(info, as.Rhs[0], func(ms, v ast.Expr) bool {
			mv, ok1 := constInt(info, ms)
			sv := constValue(info, v)
			return ok1 && mv == 0 && sv != nil && sv.Kind() == constant.String && constant.StringVal(sv) == "unknown"
		}) {
			unknownVar = r.L.str(as.Lhs[0])
		}
		return true
	})
	isUnknown := func(e ast.Expr) bool {
		e = unparen(e)
		if unknownVar != "" && r.L.str(e) == unknownVar {
			return true
		}
		return isRversionLit(info, e, func(ms, v ast.Expr) bool {
			mv, ok1 := constInt(info, ms)
			sv := constValue(info, v)
			return ok1 && mv == 0 && sv != nil && sv.Kind() == constant.String && constant.StringVal(sv) == "unknown"
		})
	}
	pvOK := m.resultName(tv, -1, isCallTo(info, "p9.parseVersion"))
	nex := 0
	var successRet *ast.ReturnStmt
	for _, ex := range db.Exits[tv] {
		if ex.Fn != ast.Node(tv.Decl) || ex.St.Dead {
			continue
		}
		nex++
		key := fmt.Sprintf("tversion.handle exit #%d", nex)
		if ex.Ret == nil || len(ex.Ret.Results) != 1 {
			r.fail("r1", key, tv.Decl.End(), "exit without a reply")
			continue
		}
		t := info.TypeOf(ex.Ret.Results[0])
		okT := t != nil && strings.HasSuffix(t.String(), "p9.rversion") && strings.HasPrefix(t.String(), "*")
		r.check(okT, "r1", key+" is an Rversion", ex.Ret.Pos(), "static type *rversion", "Tversion is answered with "+fmt.Sprint(t)+": the protocol requires Rversion, never an error")
		// classification by facts
		zero := ex.St.holds(recv+".MSize == 0", true)
		notParsed := pvOK != "" && ex.St.holds(pvOK, false)
		otherBase := false
		for _, p := range ex.St.Paths {
			for k, v := range p {
				if v && (strings.HasSuffix(k, "== version9P2000") || strings.HasSuffix(k, "== version9P2000U")) {
					otherBase = true
				}
			}
		}
		if isUnknown(ex.Ret.Results[0]) {
			r.check(zero || notParsed || otherBase, "r2", key+" (unknown)", ex.Ret.Pos(), "returned under msize == 0 / version not parsed / other dialect", "the 'unknown' reply is returned on a path where msize != 0, the version parsed and the dialect is not known to differ: a valid request is refused")
		} else {
			successRet = ex.Ret
			okS := ex.St.holds(recv+".MSize == 0", false) && pvOK != "" && ex.St.holds(pvOK, true)
			okL := false
			for _, p := range ex.St.Paths {
				for k, v := range p {
					if v && strings.HasSuffix(k, "== version9P2000L") {
						okL = true
					}
				}
			}
			r.check(okS && okL, "r2", key+" (accept)", ex.Ret.Pos(), "accepted only with msize != 0, a parsed version and base 9P2000.L", "a version is accepted on a path where msize may be 0, the version string may not have parsed, or the dialect may not be 9P2000.L (facts: "+describePaths(ex.St)+")")
		}
	}
	// A refused Tversion leaves no trace: everything the handler stores in the connection
	// (message size, version, buffer pools) is stored on the accepting path only.
	accepting := func(st *HState) bool {
		if st.Dead {
			return true
		}
		if !(st.holds(recv+".MSize == 0", false) && pvOK != "" && st.holds(pvOK, true)) || len(st.Paths) == 0 {
			return false
		}
		// the dialect: as for the accepting exit (some path has established 9P2000.L, none
		// one of the other dialects)
		okL := false
		for _, p := range st.Paths {
			for k, v := range p {
				if v && strings.HasSuffix(k, "== version9P2000L") {
					okL = true
				}
				if v && (strings.HasSuffix(k, "== version9P2000") || strings.HasSuffix(k, "== version9P2000U")) {
					return false
				}
			}
		}
		return okL
	}
	nStores := 0
	for _, s := range db.ByFunc[tv] {
		if strings.HasPrefix(s.Callee, "sync/atomic.Store") && len(s.Call.Args) == 2 && strings.Contains(r.L.str(s.Call.Args[0]), ".") {
			nStores++
			r.check(accepting(s.St), "r2", "tversion.handle: "+r.L.str(s.Call.Args[0])+" stored on the accepting path only", s.Call.Pos(), "msize != 0, version parsed, base 9P2000.L",
				"connection state is updated on a path where the Tversion may still be refused (facts: "+describePaths(s.St)+"): a refused request would change the negotiated msize/version")
		}
	}
	for _, fa := range m.fields() {
		if fa.Root == tv && fa.Write && strings.HasPrefix(fa.Key, "p9.connState.") {
			nStores++
			r.check(accepting(fa.St), "r2", "tversion.handle: "+fa.Key+" written on the accepting path only", fa.Sel.Pos(), "msize != 0, version parsed, base 9P2000.L",
				"connection state is written on a path where the Tversion may still be refused: a refused request would change the connection")
		}
	}
	r.floor("r2", "stores of tversion.handle into the connection", nStores, 3)
	r.check(nex >= 4, "r1", "tversion.handle exits", tv.Decl.Pos(), fmt.Sprintf("%d exits", nex), fmt.Sprintf("only %d exits found", nex))
	r.check(unknownVar != "", "r2", "the 'unknown' reply", tv.Decl.Pos(), "literal {MSize: 0, Version: \"unknown\"}", "no literal rversion{MSize: 0, Version: \"unknown\"} found")
	// no panicking construct other than the clamped makes: index/slice expressions and type assertions
	var risky []string
	ast.Inspect(tv.Decl.Body, func(n ast.Node) bool {
		switch v := n.(type) {
		case *ast.IndexExpr, *ast.SliceExpr:
			risky = append(risky, r.L.str(v))
		case *ast.TypeAssertExpr:
			if _, ok := r.L.parent(v).(*ast.AssignStmt); !ok {
				risky = append(risky, r.L.str(v))
			}
		case *ast.CallExpr:
			if id, ok := v.Fun.(*ast.Ident); ok && id.Name == "panic" {
				risky = append(risky, "panic")
			}
		}
		return true
	})
	r.check(len(risky) == 0, "r1", "tversion.handle cannot panic on its input", tv.Decl.Pos(), "no index, slice, unchecked assertion or panic", "constructs that can panic: "+strings.Join(risky, ", "))

	// r3: clamps
	if successRet != nil {
		u, _ := unparen(successRet.Results[0]).(*ast.UnaryExpr)
		var msE, vE ast.Expr
		if u != nil {
			if cl, ok := u.X.(*ast.CompositeLit); ok {
				for _, el := range cl.Elts {
					if kv, ok := el.(*ast.KeyValueExpr); ok {
						switch kv.Key.(*ast.Ident).Name {
						case "MSize":
							msE = kv.Value
						case "Version":
							vE = kv.Value
						}
					}
				}
			}
		}
		if msE == nil || vE == nil {
			r.undecided("r3", "success reply", successRet.Pos(), "the success reply is not a &rversion{MSize:…, Version:…} literal")
		} else {
			okM, whyM := clampHolds(r.L, res, tv, msE, clampSpec{Src: recv + ".MSize", LimitVal: 4 << 20, Pkg: "p9"})
			r.check(okM, "r3", "reply msize = min(requested, 4 MiB)", msE.Pos(), res.str(msE)+" "+whyM, "the announced msize "+r.L.str(msE)+" "+whyM)
			// Version: versionString(baseVersion, version) with version clamped
			vc, _ := unparen(vE).(*ast.CallExpr)
			if vc == nil || calleeKey(info, vc) != "p9.versionString" || len(vc.Args) != 2 {
				r.fail("r3", "reply version is formatted by versionString", vE.Pos(), "the reply's version string is %s, not versionString(base, clamped version): it need not be in canonical spelling", r.L.str(vE))
			} else {
				r.ok("r3", "reply version is formatted by versionString", vE.Pos(), "canonical spelling through versionString")
				okV, whyV := clampHolds(r.L, res, tv, vc.Args[1], clampSpec{Src: reqVer, LimitVal: 7, Pkg: "p9"})
				r.check(okV && reqVer != "", "r3", "reply version = min(requested, 7)", vc.Args[1].Pos(), r.L.str(vc.Args[1])+" "+whyV, "the announced version "+r.L.str(vc.Args[1])+" "+whyV)
				// base version is the requested .L
				_ = res
			}
			// stores
			msName := r.L.str(msE)
			stored := map[string]bool{}
			for _, s := range db.ByFunc[tv] {
				if s.Callee == "sync/atomic.StoreUint32" && len(s.Call.Args) == 2 {
					stored[r.L.str(s.Call.Args[0])+"="+r.L.str(s.Call.Args[1])] = true
				}
				// the typed form: cs.messageSize.Store(msize)
				if strings.HasPrefix(s.Callee, "sync/atomic.") && strings.HasSuffix(s.Callee, ".Store") && len(s.Call.Args) == 1 {
					if sel, ok := unparen(s.Call.Fun).(*ast.SelectorExpr); ok {
						stored["&"+r.L.str(sel.X)+"="+r.L.str(s.Call.Args[0])] = true
					}
				}
			}
			csN := "cs"
			if ps := tv.Decl.Type.Params.List; len(ps) == 1 && len(ps[0].Names) == 1 {
				csN = ps[0].Names[0].Name
			}
			r.check(stored["&"+csN+".messageSize="+msName], "r3", "cs.messageSize stores the announced msize", tv.Decl.Pos(), "atomic store of "+msName, "cs.messageSize is not set to the announced (clamped) msize "+msName)
			if vc != nil && len(vc.Args) == 2 {
				r.check(stored["&"+csN+".version="+r.L.str(vc.Args[1])], "r3", "cs.version stores the announced version", tv.Decl.Pos(), "atomic store of the clamped version", "cs.version is not set to the announced (clamped) version")
			}
			// pool buffers sized by the announced msize
			nmk := 0
			okMk := true
			ast.Inspect(tv.Decl.Body, func(n ast.Node) bool {
				c, ok := n.(*ast.CallExpr)
				if !ok {
					return true
				}
				if id, ok := c.Fun.(*ast.Ident); ok && id.Name == "make" && len(c.Args) == 2 {
					nmk++
					if r.L.str(c.Args[1]) != msName {
						okMk = false
					}
					return true
				}
				// the buffers may be set up by a private helper that is handed the announced
				// msize (cs.initBuffers(msize)): its make calls count, sized by that parameter
				if tf := r.L.FuncOf(callee(info, c)); tf != nil && tf != tv && tf.Decl.Body != nil && !tf.Obj.Exported() && !pinnedFuncs[tf.Key] && tf.Pkg == tv.Pkg {
					param := map[string]int{}
					idx := 0
					for _, f := range tf.Decl.Type.Params.List {
						for _, nm := range f.Names {
							param[nm.Name] = idx
							idx++
						}
						if len(f.Names) == 0 {
							idx++
						}
					}
					ast.Inspect(tf.Decl.Body, func(n2 ast.Node) bool {
						c2, ok := n2.(*ast.CallExpr)
						if !ok {
							return true
						}
						if id, ok := c2.Fun.(*ast.Ident); ok && id.Name == "make" && len(c2.Args) == 2 {
							nmk++
							pi, isParam := param[r.L.str(c2.Args[1])]
							if !isParam || pi >= len(c.Args) || r.L.str(c.Args[pi]) != msName {
								okMk = false
							}
						}
						return true
					})
				}
				return true
			})
			r.check(nmk >= 2 && okMk, "r3", "read buffers are sized by the announced msize", tv.Decl.Pos(), fmt.Sprintf("%d make([]byte, %s)", nmk, msName), "the read-buffer pool / zero buffer is not sized by the announced msize")
		}
	} else {
		r.fail("r3", "success reply", tv.Decl.Pos(), "no accepting exit found in tversion.handle")
	}

	c12Spelling(r, m)
	c12Client(r, m)

	// r1 (continued): every well-formed Tversion is received at all: before negotiation the
	// receive limit is the 4 MiB ceiling, afterwards the negotiated size (the rule of C02.r2) -
	// a Tversion carrying a 65535-byte version string is 65548 bytes long
	if r.borrowed == nil {
		r.borrow(checkC02, map[string]string{"r2": "r1"})
		// r6: the client keeps to what it adopted: the payload size leaves room for the header
		// and the fixed part of the largest I/O frame (the rule of C13.r4), so that a full chunk
		// is a frame of at most msize bytes
		r.borrow(checkC13, map[string]string{"r4": "r6"})
	}
}

func isRversionLit(info *types.Info, e ast.Expr, pred func(msize, version ast.Expr) bool) bool {
	u, ok := unparen(e).(*ast.UnaryExpr)
	if !ok || u.Op != token.AND {
		return false
	}
	cl, ok := u.X.(*ast.CompositeLit)
	if !ok || !strings.HasSuffix(types.TypeString(info.TypeOf(cl), nil), "p9.rversion") {
		return false
	}
	var ms, v ast.Expr
	for _, el := range cl.Elts {
		if kv, ok := el.(*ast.KeyValueExpr); ok {
			switch kv.Key.(*ast.Ident).Name {
			case "MSize":
				ms = kv.Value
			case "Version":
				v = kv.Value
			}
		}
	}
	return ms != nil && v != nil && pred(ms, v)
}

func c12Spelling(r *Run, m *ServerModel) {
	info := m.Info
	db := m.DB
	vs := r.mustFunc("r4", "p9", "versionString")
	pv := r.mustFunc("r4", "p9", "parseVersion")
	if vs == nil || pv == nil {
		return
	}
	// versionString: classify its exits by the fact "version == 0".
	vres := newResolver(r.L, info, vs.Decl)
	format := ""
	zeroBase := false
	uint32Arg := false
	verParam, baseParam := "", ""
	if ps := vs.Decl.Type.Params.List; len(ps) > 0 {
		for _, f := range ps {
			for _, nm := range f.Names {
				if t := info.TypeOf(nm); t != nil && t.String() == "uint32" {
					verParam = nm.Name
				} else {
					baseParam = nm.Name
				}
			}
		}
	}
	for _, ex := range db.Exits[vs] {
		if ex.Fn != ast.Node(vs.Decl) || ex.St.Dead || ex.Ret == nil || len(ex.Ret.Results) != 1 {
			continue
		}
		res := unparen(ex.Ret.Results[0])
		if ex.St.holds(verParam+" == 0", true) {
			zeroBase = vres.str(res) == "string("+baseParam+")"
			continue
		}
		if !ex.St.holds(verParam+" == 0", false) {
			continue
		}
		// follow a single-assignment local to the call
		if id, ok := res.(*ast.Ident); ok {
			if d := vres.defs[objOf(info, id)]; d != nil {
				res = unparen(d)
			}
		}
		if call, ok := res.(*ast.CallExpr); ok && calleeKey(info, call) == "fmt.Sprintf" && len(call.Args) == 2 {
			if sv := constValue(info, call.Args[0]); sv != nil && sv.Kind() == constant.String {
				format = constant.StringVal(sv)
			}
			if t := info.TypeOf(call.Args[1]); t != nil && t.String() == "uint32" && vres.str(call.Args[1]) == verParam {
				uint32Arg = true
			}
		}
	}
	r.check(zeroBase, "r4", "versionString: version 0 is the plain base version", vs.Decl.Pos(), "version == 0 → string(baseVersion)", "version 0 is not spelled as the bare base version string (\"9P2000.L\")")
	segs := strings.Split(format, ".")
	r.check(len(segs) == 4 && segs[3] == "%d" && uint32Arg, "r4", "versionString: format", vs.Decl.Pos(), "format "+format+" with a uint32 argument", "format is "+fmt.Sprintf("%q", format)+": expected three constant segments and %d of the uint32 version")
	// base version constant
	bv, _ := r.L.pkgConstString("p9", "version9P2000L")
	if len(segs) == 4 {
		r.check(bv == segs[0]+"."+segs[1], "r4", "versionString: base of the format is version9P2000L", vs.Decl.Pos(), bv, "the format starts with "+segs[0]+"."+segs[1]+" but version9P2000L is "+bv)
	}

	// parseVersion: the facts that hold where a numbered version is accepted.
	pres := newResolver(r.L, info, pv.Decl)
	strParam := ""
	if ps := pv.Decl.Type.Params.List; len(ps) == 1 && len(ps[0].Names) == 1 {
		strParam = ps[0].Names[0].Name
	}
	split := ""
	var numObj, errObj types.Object
	parseArgs := ""
	ast.Inspect(pv.Decl.Body, func(n ast.Node) bool {
		switch v := n.(type) {
		case *ast.CallExpr:
			if calleeKey(info, v) == "strings.Split" && len(v.Args) == 2 && pres.str(v.Args[0]) == strParam {
				if sv := constValue(info, v.Args[1]); sv != nil && sv.Kind() == constant.String && constant.StringVal(sv) == "." {
					split = pres.str(v)
				}
			}
		case *ast.AssignStmt:
			if len(v.Rhs) == 1 && len(v.Lhs) == 2 {
				if call, ok := unparen(v.Rhs[0]).(*ast.CallExpr); ok && calleeKey(info, call) == "strconv.ParseUint" && len(call.Args) == 3 {
					numObj, errObj = objOf(info, v.Lhs[0]), objOf(info, v.Lhs[1])
					base, _ := constInt(info, call.Args[1])
					bits, _ := constInt(info, call.Args[2])
					parseArgs = fmt.Sprintf("%s,%d,%d", pres.str(call.Args[0]), base, bits)
				}
			}
		}
		return true
	})
	r.check(split != "", "r4", "parseVersion splits its argument at '.'", pv.Decl.Pos(), split, "no strings.Split("+strParam+", \".\") found")
	name := func(o types.Object) string {
		if o == nil {
			return "?"
		}
		if u, ok := pres.uniq[o]; ok {
			return u
		}
		return o.Name()
	}
	// eq reports the polarity of the fact "a == b" (either operand order) on every path.
	eq := func(st *HState, a, b string, pol bool) bool {
		return st.holds(a+" == "+b, pol) || st.holds(b+" == "+a, pol)
	}
	numbered, plainL := 0, false
	// every path to every exit with the values of the three results on it (early returns and
	// "named results, one return" read the same)
	for _, xp := range exitPaths(r.L, db, pv, pres) {
		if len(xp.Vals) != 3 || nospace(xp.Vals[2].s) != "true" {
			continue
		}
		ex := xp.Ex
		pos := pv.Decl.End()
		if ex.Ret != nil {
			pos = ex.Ret.Pos()
		}
		one := &HState{Paths: []FactSet{xp.Facts}}
		isL := nospace(xp.Vals[0].s) == "version9P2000L" || nospace(xp.Vals[0].s) == strconv.Quote(bv)
		second := nospace(xp.Vals[1].s)
		if second == "0" {
			// plain dialect names
			if eq(one, strParam, strconv.Quote(bv), true) || eq(one, strParam, "version9P2000L", true) || eq(one, strParam, "string(version9P2000L)", true) {
				plainL = isL
			}
			continue
		}
		numbered++
		key := fmt.Sprintf("parseVersion numbered accept #%d", numbered)
		r.check(isL, "r4", key+": base is 9P2000.L", pos, "returns version9P2000L", "a numbered version is accepted with base "+xp.Vals[0].s)
		if split == "" {
			continue
		}
		nseg := one.holds("len("+split+") == 4", true)
		r.check(nseg, "r4", "parseVersion requires exactly 4 segments", pos, "len("+split+") == 4 on the accepting path", "a numbered version is accepted without the segment count having been compared with 4 (facts: "+describePaths(one)+")")
		if len(segs) == 4 {
			var missing []string
			for i := 0; i < 3; i++ {
				if !eq(one, fmt.Sprintf("%s[%d]", split, i), strconv.Quote(segs[i]), true) {
					missing = append(missing, fmt.Sprintf("segment %d == %q", i, segs[i]))
				}
			}
			r.check(len(missing) == 0, "r4", "parseVersion compares the segments versionString writes", pos, fmt.Sprintf("%q.%q.%q", segs[0], segs[1], segs[2]),
				"versionString writes "+format+" but the accepting path of parseVersion does not establish "+strings.Join(missing, ", ")+" (facts: "+describePaths(one)+")")
		}
		last := split + "[3]"
		nonEmpty := one.holds("len("+last+") == 0", false) || eq(one, last, `""`, false) || one.holds("len("+last+") > 0", true)
		r.check(nonEmpty, "r4", "parseVersion rejects an empty number", pos, "len("+last+") != 0 on the accepting path", "an empty version number is not rejected")
		r.check(parseArgs == last+",10,32", "r4", "parseVersion parses a decimal uint32", pos, "ParseUint("+last+", 10, 32)", "the number is parsed with ParseUint("+parseArgs+"): must be the fourth segment, base 10, 32 bits to mirror %d of a uint32")
		r.check(eq(one, name(errObj), "nil", true), "r4", "parseVersion rejects a number that does not parse", pos, name(errObj)+" == nil on the accepting path", "a numbered version is accepted without ParseUint's error having been tested")
		r.check(second == "uint32("+name(numObj)+")", "r4", "parseVersion returns the parsed number", pos, second, "the accepted version number is "+second+", not the parsed value")
	}
	r.check(numbered >= 1, "r4", "parseVersion accepts numbered versions", pv.Decl.Pos(), fmt.Sprintf("%d accepting exit(s)", numbered), "no exit of parseVersion accepts a numbered version")
	r.check(plainL, "r4", "parseVersion: \"9P2000.L\" is version 0", pv.Decl.Pos(), "(version9P2000L, 0, true)", "the bare string \"9P2000.L\" does not parse to (version9P2000L, 0, true)")
}

func c12Client(r *Run, m *ServerModel) {
	info := m.Info
	db := m.DB
	nc := r.mustFunc("r5", "p9", "NewClient")
	if nc == nil {
		return
	}
	// the rversion variable
	// the reply variable: the local of type rversion whose address is handed to sendRecv
	rvName := ""
	for _, s := range m.callsIn(nc, "p9.Client.sendRecv") {
		if len(s.Call.Args) != 2 {
			continue
		}
		if u, ok := unparen(s.Call.Args[1]).(*ast.UnaryExpr); ok && u.Op == token.AND {
			if t := info.TypeOf(u.X); t != nil && strings.HasSuffix(types.TypeString(t, nil), "p9.rversion") {
				rvName = r.L.str(u.X)
			}
		}
	}
	if rvName == "" {
		r.undecided("r5", "NewClient: reply variable", nc.Decl.Pos(), "no rversion reply variable handed to sendRecv found")
		return
	}
	// success exit(s): return c, nil
	var pvCall *ast.CallExpr
	okName := "ok"
	for _, s := range m.callsIn(nc, "p9.parseVersion") {
		pvCall = s.Call
		if as, isAs := r.L.parent(s.Call).(*ast.AssignStmt); isAs && len(as.Lhs) == 3 {
			okName = m.resolver(nc).str(as.Lhs[2])
		}
	}
	nSucc := 0
	for _, ex := range db.Exits[nc] {
		if ex.Fn != ast.Node(nc.Decl) || ex.Ret == nil || ex.St.Dead || len(ex.Ret.Results) != 2 {
			continue
		}
		isSucc := isNilIdent(info, unparen(ex.Ret.Results[1])) && !isNilIdent(info, unparen(ex.Ret.Results[0]))
		if isSucc {
			nSucc++
			okP := ex.St.holds(okName, true) && ex.St.Must["p9.parseVersion"]
			okL := false
			for _, p := range ex.St.Paths {
				for k, v := range p {
					if strings.Contains(k, "== version9P2000L") && v {
						okL = true
					}
				}
			}
			r.check(okP && okL, "r6", "NewClient succeeds only with a parsed 9P2000.L reply", ex.Ret.Pos(), "ok && baseVersion == version9P2000L on every path to success", "NewClient can return a client although the reply's version did not parse or is not a 9P2000.L version (facts: "+describePaths(ex.St)+")")
		} else if ex.St.Must["p9.parseVersion"] {
			// failure exits after parsing: must return nil client and a non-nil error
			okF := isNilIdent(info, unparen(ex.Ret.Results[0])) && !isNilIdent(info, unparen(ex.Ret.Results[1]))
			r.check(okF, "r6", "NewClient: refusal returns no client", ex.Ret.Pos(), "(nil, err)", "a refusal path returns "+r.L.str(ex.Ret))
		}
	}
	r.check(nSucc >= 1, "r6", "NewClient has a success exit", nc.Decl.Pos(), fmt.Sprintf("%d", nSucc), "no success exit found")
	_ = pvCall
	// c.version = parsed version
	okVer := false
	for _, fa := range m.fields() {
		if fa.Root == nc && fa.Write && fa.Key == "p9.Client.version" {
			if as, ok := r.L.parent(fa.Sel).(*ast.AssignStmt); ok && len(as.Rhs) == 1 {
				if obj := objOf(info, as.Rhs[0]); obj != nil {
					if def, ok := fa.St.Defs[obj].(*ast.CallExpr); ok && calleeKey(info, def) == "p9.parseVersion" {
						okVer = true
					}
				}
			}
		}
	}
	r.check(okVer, "r5", "NewClient adopts the reply's version", nc.Decl.Pos(), "c.version = version parsed from the reply", "c.version is not assigned the version parsed from Rversion")
	// reply MSize is read and flows into messageSize and payloadSize
	readsMSize := false
	var msizeStore, payloadStore bool
	for _, fa := range m.fields() {
		if fa.Root != nc {
			continue
		}
		if fa.Key == "p9.rversion.MSize" && !fa.Write && r.L.str(fa.Sel.X) == rvName {
			readsMSize = true
		}
		if fa.Write && fa.Key == "p9.Client.messageSize" {
			if as, ok := r.L.parent(fa.Sel).(*ast.AssignStmt); ok && len(as.Rhs) == 1 && strings.Contains(r.L.str(as.Rhs[0]), rvName+".MSize") && fa.St.Must["p9.parseVersion"] {
				msizeStore = true
			}
		}
		if fa.Write && fa.Key == "p9.Client.payloadSize" && fa.St.Must["p9.parseVersion"] {
			payloadStore = true
		}
	}
	// ... and the payload size in force when NewClient returns was computed after the last
	// change of the message size (a forward must-analysis: a store to c.messageSize
	// invalidates, a store to c.payloadSize re-establishes)
	syncExits, _ := mustFlag(db, nc, func(n ast.Node, res *resolver) (bool, bool) {
		as, ok := n.(*ast.AssignStmt)
		if !ok {
			return false, false
		}
		val, ch := false, false
		for _, lhs := range as.Lhs {
			if sel, ok := unparen(lhs).(*ast.SelectorExpr); ok {
				switch r.L.fieldKey(fieldOf(info, sel)) {
				case "p9.Client.messageSize":
					val, ch = false, true
				case "p9.Client.payloadSize":
					val, ch = true, true
				}
			}
		}
		return val, ch
	}, nil)
	okSync, nS := true, 0
	for _, ex := range db.Exits[nc] {
		if ex.Fn != ast.Node(nc.Decl) || ex.Ret == nil || len(ex.Ret.Results) != 2 || ex.St.Dead || !isNilIdent(info, unparen(ex.Ret.Results[1])) {
			continue
		}
		nS++
		if !syncExits[ex.Ret] {
			okSync = false
		}
	}
	r.check(okSync && nS > 0, "r5", "NewClient: the payload size is derived from the final message size", nc.Decl.Pos(), "every store to c.messageSize is followed by a recomputation of c.payloadSize before NewClient returns",
		"c.messageSize is changed after c.payloadSize was last computed: ReadAt/WriteAt keep chunking by the size the client requested, not the one the server announced")
	r.check(readsMSize && msizeStore && payloadStore, "r5", "NewClient adopts the reply's msize", nc.Decl.Pos(),
		"Rversion.MSize is read, stored into c.messageSize and the payload size is recomputed after negotiation",
		fmt.Sprintf("the msize announced by the server is not adopted (Rversion.MSize read=%v, stored into c.messageSize=%v, c.payloadSize recomputed after negotiation=%v): when the server lowers msize the client keeps sending frames of its own requested size", readsMSize, msizeStore, payloadStore))
}
