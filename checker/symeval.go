package main

// A small symbolic evaluator for one variable of one function: "which expression does v hold
// at this use, assuming these comparisons come out this way?".  It walks the statement tree
// (not text), follows if / switch / loops, evaluates the builtins min and max under the
// assumed comparisons and joins branches; a branch that leaves the function contributes
// nothing.  It is what the clamp rules use: v is min(src, limit) iff v evaluates to limit
// under src > limit, to src under src < limit and to either under src == limit - whatever
// mixture of if/else, early assignment or min() the code uses to get there.

import (
	"go/ast"
	"go/token"
	"go/types"
	"strconv"
	"strings"
)

type symVal struct {
	s     string   // canonical rendering ("" = not assigned yet, "?" = unknown)
	e     ast.Expr // the expression, when the value is a single expression
	undef bool
}

var symUndef = symVal{undef: true}
var symUnknown = symVal{s: "?"}

func symJoin(a, b symVal) symVal {
	switch {
	case a.undef:
		return b
	case b.undef:
		return a
	case a.s == b.s:
		return a
	}
	return symUnknown
}

type symEval struct {
	l      *Loaded
	info   *types.Info
	res    *resolver
	fi     *FuncInfo
	obj    types.Object
	target string // alternatively: the location (field) whose value is followed, rendered canonically without spaces
	use    ast.Node
	assume func(key string) (truth, known bool)
	found  bool
	result symVal
}

func nospace(s string) string { return strings.ReplaceAll(s, " ", "") }

// isVar: the expression denotes the followed variable / location.
func (se *symEval) isVar(e ast.Expr) bool {
	if se.obj != nil {
		return objOf(se.info, e) == se.obj
	}
	return se.target != "" && nospace(se.res.str(e)) == se.target
}

// varName: how the followed variable appears in rendered expressions.
func (se *symEval) varName() string {
	if se.obj != nil {
		return se.res.nameOf(se.obj)
	}
	return se.target
}

func mentionsText(expr, name string, isIdentName bool) bool {
	if isIdentName {
		return mentionsIdent(expr, name)
	}
	return strings.Contains(nospace(expr), name)
}

func replaceText(expr, name, by string, isIdentName bool) string {
	if isIdentName {
		return replaceIdent(expr, name, by)
	}
	return strings.ReplaceAll(nospace(expr), name, by)
}

// evalExpr renders rhs with the current value of the variable substituted and min/max decided.
func (se *symEval) evalExpr(rhs ast.Expr, cur symVal) symVal {
	rhs = unparen(rhs)
	if se.isVar(rhs) {
		return cur
	}
	if call, ok := rhs.(*ast.CallExpr); ok && len(call.Args) == 2 {
		if id, ok := unparen(call.Fun).(*ast.Ident); ok && (id.Name == "min" || id.Name == "max") {
			if _, isB := se.info.Uses[id].(*types.Builtin); isB {
				a, b := se.evalExpr(call.Args[0], cur), se.evalExpr(call.Args[1], cur)
				if a.s == b.s {
					return a
				}
				// a > b ?
				gt, known := se.cmp(a.s, b.s)
				if known {
					if (id.Name == "min") == gt {
						return b
					}
					return a
				}
				return symUnknown
			}
		}
	}
	// conversions that keep the value: T(x) where x evaluates to a known value and T is the variable's type
	s := se.res.str(rhs)
	if (se.obj != nil || se.target != "") && mentionsText(s, se.varName(), se.obj != nil) && !cur.undef && cur.s != "?" {
		s = replaceText(s, se.varName(), cur.s, se.obj != nil)
	}
	return symVal{s: s, e: rhs}
}

// cmp decides "a > b" from the assumptions (also through the reverse comparison and equality).
func (se *symEval) cmp(a, b string) (gt, known bool) {
	if t, k := se.assume(a + " > " + b); k {
		return t, true
	}
	if t, k := se.assume(b + " > " + a); k && t {
		return false, true
	}
	if t, k := se.assume(a + " == " + b); k && t {
		return false, true
	}
	if t, k := se.assume(b + " == " + a); k && t {
		return false, true
	}
	return false, false
}

// evalCond decides a condition under the assumptions; the variable is replaced by its value.
func (se *symEval) evalCond(cond ast.Expr, cur symVal) (truth, known bool) {
	cond = unparen(cond)
	if u, ok := cond.(*ast.UnaryExpr); ok && u.Op == token.NOT {
		t, k := se.evalCond(u.X, cur)
		return !t, k
	}
	if be, ok := cond.(*ast.BinaryExpr); ok && (be.Op == token.LAND || be.Op == token.LOR) {
		xt, xk := se.evalCond(be.X, cur)
		yt, yk := se.evalCond(be.Y, cur)
		if be.Op == token.LAND {
			if xk && !xt || yk && !yt {
				return false, true
			}
			if xk && yk {
				return true, true
			}
		} else {
			if xk && xt || yk && yt {
				return true, true
			}
			if xk && yk {
				return false, true
			}
		}
		return false, false
	}
	key, pol := atomOf(se.res, se.info, se.l.parent, cond)
	if se.obj != nil || se.target != "" {
		name := se.varName()
		if mentionsText(key, name, se.obj != nil) {
			if cur.undef || cur.s == "?" {
				return false, false
			}
			replaced := false
			for _, op := range []string{" > ", " == "} {
				if i := strings.Index(key, op); i > 0 {
					key = replaceText(key[:i], name, cur.s, se.obj != nil) + op + replaceText(key[i+len(op):], name, cur.s, se.obj != nil)
					replaced = true
					break
				}
			}
			if !replaced {
				key = replaceText(key, name, cur.s, se.obj != nil)
			}
		}
	}
	if t, k := se.assume(key); k {
		return t == pol, true
	}
	// x > y may be known through y > x or equality
	if i := strings.Index(key, " > "); i > 0 {
		if gt, k := se.cmp(key[:i], key[i+3:]); k {
			return gt == pol, true
		}
	}
	return false, false
}

func replaceIdent(expr, name, by string) string {
	var b strings.Builder
	for i := 0; i < len(expr); {
		if strings.HasPrefix(expr[i:], name) {
			before := i == 0 || !isIdentChar(expr[i-1]) && expr[i-1] != '.'
			after := i+len(name) == len(expr) || !isIdentChar(expr[i+len(name)])
			if before && after {
				b.WriteString(by)
				i += len(name)
				continue
			}
		}
		b.WriteByte(expr[i])
		i++
	}
	return b.String()
}

// walk pushes the value through a statement list; alive=false when every path left the
// function (or the loop) before the end of the list.
func (se *symEval) walk(list []ast.Stmt, cur symVal) (symVal, bool) {
	for _, st := range list {
		if se.found {
			return cur, false
		}
		var alive bool
		cur, alive = se.stmt(st, cur)
		if !alive {
			return cur, false
		}
	}
	return cur, true
}

func (se *symEval) hit(n ast.Node, cur symVal) bool {
	if se.found {
		return true
	}
	if n != nil && se.use != nil && containsNode(n, se.use) {
		// simple statements (and conditions) that contain the use: the value before them
		switch n.(type) {
		case *ast.BlockStmt, *ast.IfStmt, *ast.ForStmt, *ast.RangeStmt, *ast.SwitchStmt, *ast.TypeSwitchStmt, *ast.SelectStmt, *ast.CaseClause, *ast.CommClause, *ast.LabeledStmt:
			return false
		}
		se.found = true
		se.result = cur
		return true
	}
	return false
}

func (se *symEval) assigns(n ast.Node) bool {
	out := false
	ast.Inspect(n, func(m ast.Node) bool {
		switch v := m.(type) {
		case *ast.AssignStmt:
			for _, l := range v.Lhs {
				if se.isVar(l) {
					out = true
				}
			}
		case *ast.IncDecStmt:
			if se.isVar(v.X) {
				out = true
			}
		case *ast.UnaryExpr:
			if v.Op == token.AND && se.isVar(v.X) {
				out = true
			}
		}
		return !out
	})
	return out
}

func (se *symEval) stmt(st ast.Stmt, cur symVal) (symVal, bool) {
	switch v := st.(type) {
	case *ast.BlockStmt:
		return se.walk(v.List, cur)
	case *ast.LabeledStmt:
		return se.stmt(v.Stmt, cur)
	case *ast.AssignStmt:
		if se.hit(v, cur) {
			return cur, false
		}
		for i, l := range v.Lhs {
			if !se.isVar(l) {
				continue
			}
			if len(v.Lhs) == len(v.Rhs) && (v.Tok == token.ASSIGN || v.Tok == token.DEFINE) {
				cur = se.evalExpr(v.Rhs[i], cur)
			} else {
				cur = symUnknown
			}
		}
		return cur, true
	case *ast.IncDecStmt:
		if se.hit(v, cur) {
			return cur, false
		}
		if se.isVar(v.X) {
			cur = symUnknown
		}
		return cur, true
	case *ast.DeclStmt:
		if se.hit(v, cur) {
			return cur, false
		}
		if gd, ok := v.Decl.(*ast.GenDecl); ok {
			for _, sp := range gd.Specs {
				if vs, ok := sp.(*ast.ValueSpec); ok {
					for i, nm := range vs.Names {
						if se.obj != nil && se.info.Defs[nm] == se.obj {
							if i < len(vs.Values) {
								cur = se.evalExpr(vs.Values[i], cur)
							} else {
								cur = symUndef
							}
						}
					}
				}
			}
		}
		return cur, true
	case *ast.ReturnStmt:
		if se.hit(v, cur) {
			return cur, false
		}
		return cur, false
	case *ast.BranchStmt:
		return cur, false // break / continue / goto: this path does not reach the end of the list
	case *ast.ExprStmt:
		if se.hit(v, cur) {
			return cur, false
		}
		if call, ok := v.X.(*ast.CallExpr); ok && !mayReturnFn(se.info)(call) {
			return cur, false
		}
		if se.assigns(v) {
			cur = symUnknown
		}
		return cur, true
	case *ast.IfStmt:
		if v.Init != nil {
			var alive bool
			if cur, alive = se.stmt(v.Init, cur); !alive {
				return cur, false
			}
		}
		if se.hit(v.Cond, cur) {
			return cur, false
		}
		truth, known := se.evalCond(v.Cond, cur)
		var thenV, elseV symVal
		thenA, elseA := false, false
		if !known || truth {
			thenV, thenA = se.walk(v.Body.List, cur)
			if se.found {
				return cur, false
			}
		}
		if !known || !truth {
			if v.Else != nil {
				elseV, elseA = se.stmt(v.Else, cur)
				if se.found {
					return cur, false
				}
			} else {
				elseV, elseA = cur, true
			}
		}
		switch {
		case thenA && elseA:
			return symJoin(thenV, elseV), true
		case thenA:
			return thenV, true
		case elseA:
			return elseV, true
		}
		return cur, false
	case *ast.SwitchStmt:
		if v.Init != nil {
			var alive bool
			if cur, alive = se.stmt(v.Init, cur); !alive {
				return cur, false
			}
		}
		out := symUndef
		anyAlive, hasDefault := false, false
		// which arm runs, as far as the assumptions decide it (first match wins; a case is
		// "tag == value" for a tagged switch, the condition itself otherwise)
		caseTruth := func(e ast.Expr) (bool, bool) {
			if v.Tag == nil {
				return se.evalCond(e, cur)
			}
			key := se.res.str(v.Tag) + " == " + se.res.str(e)
			if t, k := se.assume(key); k {
				return t, true
			}
			if t, k := se.assume(se.res.str(e) + " == " + se.res.str(v.Tag)); k {
				return t, true
			}
			return false, false
		}
		taken := -1      // index of the arm known to run
		allFalse := true // every case expression of every arm is known false
		for i, cc := range v.Body.List {
			clause := cc.(*ast.CaseClause)
			for _, e := range clause.List {
				t, k := caseTruth(e)
				if k && t && taken < 0 && allFalse {
					taken = i
				}
				if !k || t {
					allFalse = false
				}
			}
		}
		for i, cc := range v.Body.List {
			clause := cc.(*ast.CaseClause)
			if clause.List == nil {
				hasDefault = true
			}
			if taken >= 0 && i != taken {
				continue
			}
			if taken < 0 {
				// skip arms all of whose case expressions are known false
				known := len(clause.List) > 0
				for _, e := range clause.List {
					if t, k := caseTruth(e); !k || t {
						known = false
					}
				}
				if known {
					continue
				}
			}
			cv, alive := se.walk(clause.Body, cur)
			if se.found {
				return cur, false
			}
			if alive {
				out = symJoin(out, cv)
				anyAlive = true
			}
		}
		if !hasDefault && taken < 0 {
			// No case taken.  A variable that only the cases assign keeps its earlier value.
			out = symJoin(out, cur)
			anyAlive = true
		}
		return out, anyAlive
	case *ast.ForStmt, *ast.RangeStmt:
		var body *ast.BlockStmt
		if f, ok := v.(*ast.ForStmt); ok {
			body = f.Body
			if f.Init != nil {
				cur, _ = se.stmt(f.Init, cur)
			}
		} else {
			body = v.(*ast.RangeStmt).Body
		}
		if se.assigns(body) && !containsNodeOpt(body, se.use) {
			// assigned in a loop that is over before the use: unknown afterwards unless re-assigned
			se.walk(body.List, cur)
			return symUnknown, true
		}
		bv, _ := se.walk(body.List, cur)
		if se.found {
			return cur, false
		}
		_ = bv
		return cur, true
	default:
		if se.hit(st, cur) {
			return cur, false
		}
		if se.assigns(st) {
			cur = symUnknown
		}
		return cur, true
	}
}

func containsNodeOpt(n, target ast.Node) bool {
	return n != nil && target != nil && containsNode(n, target)
}

// valueAt evaluates the expression use (an occurrence inside fi) under the assumptions.
func valueAt(l *Loaded, res *resolver, fi *FuncInfo, use ast.Expr, assume func(string) (bool, bool)) symVal {
	info := fi.Pkg.TypesInfo
	use = unparen(use)
	se := &symEval{l: l, info: info, res: res, fi: fi, use: use, assume: assume}
	obj := objOf(info, use)
	if _, isVar := obj.(*types.Var); obj == nil || !isVar || obj.Parent() == obj.Pkg().Scope() {
		// not a local variable: evaluate the expression itself
		se.obj = nil
		return se.evalExpr(use, symUndef)
	}
	se.obj = obj
	start := symUndef
	// the function body the variable lives in: the declaration's, or that of the innermost
	// function literal that contains its declaration
	body := fi.Decl.Body
	bodyStart := fi.Decl.Body.Pos()
	ast.Inspect(fi.Decl.Body, func(n ast.Node) bool {
		if lit, ok := n.(*ast.FuncLit); ok && lit.Pos() <= obj.Pos() && obj.Pos() < lit.End() {
			body, bodyStart = lit.Body, lit.Body.Pos()
		}
		return true
	})
	// parameters and receivers hold their own name on entry
	if obj.Pos() < bodyStart {
		start = symVal{s: res.nameOf(obj)}
	}
	se.walk(body.List, start)
	if !se.found {
		return symUnknown
	}
	return se.result
}

// constOfText: numeric literal or package-level constant of the given package.
func constOfText(l *Loaded, pkg, text string) (int64, bool) {
	if v, err := strconv.ParseInt(text, 0, 64); err == nil {
		return v, true
	}
	if isPlainIdent(text) {
		return l.pkgConst(pkg, text)
	}
	return 0, false
}

func isPlainIdent(s string) bool {
	if s == "" {
		return false
	}
	for i := 0; i < len(s); i++ {
		c := s[i]
		if !(c == '_' || c >= 'a' && c <= 'z' || c >= 'A' && c <= 'Z' || i > 0 && c >= '0' && c <= '9') {
			return false
		}
	}
	return true
}

// clampSpec: the value must be min(src, limit); the limit is given as a canonical expression
// text or as a constant value (any constant expression of that value is accepted).
type clampSpec struct {
	Src      string
	LimitStr string
	LimitVal int64
	Pkg      string
}

func (c clampSpec) isLimit(l *Loaded, text string) bool {
	text = nospace(text)
	if c.LimitStr != "" {
		return text == nospace(c.LimitStr)
	}
	v, ok := constOfText(l, c.Pkg, text)
	return ok && v == c.LimitVal
}

func (c clampSpec) limitName() string {
	if c.LimitStr != "" {
		return c.LimitStr
	}
	return strconv.FormatInt(c.LimitVal, 10)
}

// clampHolds decides whether the expression use (inside fi) is min(src, limit).
func clampHolds(l *Loaded, res *resolver, fi *FuncInfo, use ast.Expr, c clampSpec) (bool, string) {
	src := nospace(c.Src)
	// scenario: 0 src > limit, 1 src < limit, 2 src == limit
	var vals [3]symVal
	for sc := 0; sc < 3; sc++ {
		scen := sc
		assume := func(key string) (bool, bool) {
			for _, op := range []string{" > ", " == "} {
				i := strings.Index(key, op)
				if i < 0 {
					continue
				}
				a, b := nospace(key[:i]), nospace(key[i+len(op):])
				var srcFirst bool
				switch {
				case a == src && c.isLimit(l, b):
					srcFirst = true
				case b == src && c.isLimit(l, a):
					srcFirst = false
				default:
					continue
				}
				if op == " == " {
					return scen == 2, true
				}
				if srcFirst {
					return scen == 0, true
				}
				return scen == 1, true
			}
			return false, false
		}
		vals[sc] = valueAt(l, res, fi, use, assume)
	}
	isSrc := func(v symVal) bool { return !v.undef && nospace(v.s) == src }
	isLim := func(v symVal) bool { return !v.undef && c.isLimit(l, v.s) }
	if isLim(vals[0]) && isSrc(vals[1]) && (isSrc(vals[2]) || isLim(vals[2])) {
		return true, "evaluates to " + c.limitName() + " when " + c.Src + " exceeds it and to " + c.Src + " otherwise"
	}
	show := func(v symVal) string {
		if v.undef {
			return "unassigned"
		}
		return v.s
	}
	return false, "is not min(" + c.Src + ", " + c.limitName() + "): it evaluates to " + show(vals[0]) + " when " + c.Src + " > limit, to " + show(vals[1]) + " when " + c.Src + " < limit and to " + show(vals[2]) + " when they are equal"
}

// valueAtEnd evaluates the location target (canonical rendering, e.g. "r.largestFixedSize") at
// the normal end of fi; its value on entry is its own name.
func valueAtEnd(l *Loaded, res *resolver, fi *FuncInfo, target string, assume func(string) (bool, bool)) symVal {
	se := &symEval{l: l, info: fi.Pkg.TypesInfo, res: res, fi: fi, target: nospace(target), assume: assume}
	v, alive := se.walk(fi.Decl.Body.List, symVal{s: nospace(target)})
	if !alive {
		return symUnknown
	}
	return v
}

// maxHoldsAtEnd: at the end of fi the location target holds max(its value on entry, src).
func maxHoldsAtEnd(l *Loaded, res *resolver, fi *FuncInfo, target, src string) (bool, string) {
	t, s := nospace(target), nospace(src)
	var vals [3]symVal
	for sc := 0; sc < 3; sc++ {
		scen := sc
		assume := func(key string) (bool, bool) {
			for _, op := range []string{" > ", " == "} {
				i := strings.Index(key, op)
				if i < 0 {
					continue
				}
				a, b := nospace(key[:i]), nospace(key[i+len(op):])
				var srcFirst bool
				switch {
				case a == s && b == t:
					srcFirst = true
				case a == t && b == s:
					srcFirst = false
				default:
					continue
				}
				if op == " == " {
					return scen == 2, true
				}
				if srcFirst {
					return scen == 0, true
				}
				return scen == 1, true
			}
			return false, false
		}
		vals[sc] = valueAtEnd(l, res, fi, target, assume)
	}
	is := func(v symVal, want string) bool { return !v.undef && nospace(v.s) == want }
	if is(vals[0], s) && is(vals[1], t) && (is(vals[2], s) || is(vals[2], t)) {
		return true, target + " = max(" + target + ", " + src + ")"
	}
	show := func(v symVal) string {
		if v.undef {
			return "unassigned"
		}
		return v.s
	}
	return false, target + " becomes " + show(vals[0]) + " when " + src + " is larger, " + show(vals[1]) + " when it is smaller and " + show(vals[2]) + " when equal"
}

// --- results per exit path ------------------------------------------------------------------

// exitPath is one path (one disjunct of the exit's facts) to one exit of a function, with the
// value of every result on that path: the returned expression, or - for a variable or a named
// result (also with a bare return) - what the variable holds at the return when the path's
// facts are assumed.  Rules that classify exits by what they return use this instead of the
// return statement's text, so that "named results and a single return at the end" and "early
// returns" read the same.
type exitPath struct {
	Ex    *ExitRec
	Facts FactSet
	Vals  []symVal
}

// holds: the fact key has polarity pol on this path.
func (xp exitPath) holds(key string, pol bool) bool {
	v, ok := xp.Facts[key]
	return ok && v == pol
}

func exitPaths(l *Loaded, db *SiteDB, fi *FuncInfo, res *resolver) []exitPath {
	info := fi.Pkg.TypesInfo
	var named []*ast.Ident
	if fi.Decl.Type.Results != nil {
		for _, f := range fi.Decl.Type.Results.List {
			named = append(named, f.Names...)
		}
	}
	var out []exitPath
	for _, ex := range db.Exits[fi] {
		if ex.Fn != ast.Node(fi.Decl) || ex.St.Dead {
			continue
		}
		var exprs []ast.Expr
		var at ast.Node
		if ex.Ret != nil {
			at = ex.Ret
			exprs = ex.Ret.Results
		}
		if len(exprs) == 0 {
			for _, nm := range named {
				exprs = append(exprs, nm)
			}
		}
		if len(exprs) == 0 {
			continue
		}
		for _, p := range ex.St.Paths {
			facts := p
			assume := func(key string) (bool, bool) {
				v, ok := facts[key]
				return v, ok
			}
			xp := exitPath{Ex: ex, Facts: facts}
			for _, e := range exprs {
				e = unparen(e)
				obj := objOf(info, e)
				if v, isVar := obj.(*types.Var); isVar && obj.Parent() != obj.Pkg().Scope() && !v.IsField() {
					xp.Vals = append(xp.Vals, valueOfObjAt(l, res, fi, obj, at, assume))
				} else {
					xp.Vals = append(xp.Vals, symVal{s: res.str(e), e: e})
				}
			}
			out = append(out, xp)
		}
	}
	return out
}

// valueOfObjAt: the value of a local variable (or named result) just before the statement at
// (nil: at the end of the function), under the assumptions.
func valueOfObjAt(l *Loaded, res *resolver, fi *FuncInfo, obj types.Object, at ast.Node, assume func(string) (bool, bool)) symVal {
	se := &symEval{l: l, info: fi.Pkg.TypesInfo, res: res, fi: fi, obj: obj, use: at, assume: assume}
	start := symUndef
	if obj.Pos() < fi.Decl.Body.Pos() {
		// parameters hold their own name; named results start at their zero value
		start = symVal{s: res.nameOf(obj)}
		if fi.Decl.Type.Results != nil {
			for _, f := range fi.Decl.Type.Results.List {
				for _, nm := range f.Names {
					if fi.Pkg.TypesInfo.Defs[nm] == obj {
						start = symVal{s: zeroText(obj.Type())}
					}
				}
			}
		}
	}
	v, alive := se.walk(fi.Decl.Body.List, start)
	if se.found {
		return se.result
	}
	if at == nil && alive {
		return v
	}
	return symUnknown
}

// zeroText renders the zero value of a type the way the rules compare it.
func zeroText(t types.Type) string {
	switch u := t.Underlying().(type) {
	case *types.Basic:
		switch {
		case u.Info()&types.IsBoolean != 0:
			return "false"
		case u.Info()&types.IsString != 0:
			return `""`
		case u.Info()&types.IsNumeric != 0:
			return "0"
		}
	case *types.Pointer, *types.Interface, *types.Slice, *types.Map, *types.Chan, *types.Signature:
		return "nil"
	}
	return "zero"
}

// --- folding through expression functions and fixed tables ------------------------------

// foldEnv binds parameters of expression functions to the expressions they were called with.
type foldEnv map[types.Object]ast.Expr

// foldInt evaluates an integer expression made of constants, parameters bound in env,
// conversions, and reads of effectively constant package-level tables at a constant index
// (unroll.go: constantTables).
func (l *Loaded) foldInt(info *types.Info, e ast.Expr, env foldEnv, depth int) (int64, bool) {
	e = unparen(e)
	if depth > 6 {
		return 0, false
	}
	if v, ok := constInt(info, e); ok {
		return v, true
	}
	switch v := e.(type) {
	case *ast.Ident:
		if b, ok := env[objOf(info, v)]; ok {
			return l.foldInt(info, b, nil, depth+1) // arguments are written in the caller's frame
		}
	case *ast.CallExpr:
		if tv, ok := info.Types[v.Fun]; ok && tv.IsType() && len(v.Args) == 1 {
			return l.foldInt(info, v.Args[0], env, depth+1)
		}
	case *ast.IndexExpr:
		idx, ok := l.foldInt(info, v.Index, env, depth+1)
		if !ok {
			return 0, false
		}
		id, isId := unparen(v.X).(*ast.Ident)
		if !isId {
			return 0, false
		}
		cl := l.constTables()[objOf(info, id)]
		if cl == nil {
			return 0, false
		}
		pos := int64(0)
		for _, el := range cl.Elts {
			val := el
			if kv, isKV := el.(*ast.KeyValueExpr); isKV {
				k, ok := constInt(info, kv.Key)
				if !ok {
					return 0, false
				}
				pos, val = k, kv.Value
			}
			if pos == idx {
				return l.foldInt(info, val, nil, depth+1)
			}
			pos++
		}
		return 0, true // an element the literal leaves at zero
	}
	return 0, false
}

var constTablesOf = map[*Loaded]map[types.Object]*ast.CompositeLit{}

func (l *Loaded) constTables() map[types.Object]*ast.CompositeLit {
	if t, ok := constTablesOf[l]; ok {
		return t
	}
	t := constantTables(l.modulePkgs())
	constTablesOf[l] = t
	return t
}

// thresholdOf: fi is, for its single integer parameter v, the predicate "v >= N" - written
// directly, or through expression functions and fixed tables
// (return versionSupports(v, extTucreation); return v >= extensionMinVersion[e]).
func (l *Loaded) thresholdOf(fi *FuncInfo) (int64, bool) {
	info := fi.Pkg.TypesInfo
	if fi.Decl.Type.Params == nil || len(fi.Decl.Type.Params.List) != 1 || len(fi.Decl.Type.Params.List[0].Names) != 1 {
		return 0, false
	}
	param := info.Defs[fi.Decl.Type.Params.List[0].Names[0]]
	var eval func(decl *ast.FuncDecl, env foldEnv, isParam func(ast.Expr) bool, depth int) (int64, bool)
	eval = func(decl *ast.FuncDecl, env foldEnv, isParam func(ast.Expr) bool, depth int) (int64, bool) {
		body := exprFuncBody(decl)
		if body == nil || depth > 3 {
			return 0, false
		}
		switch v := unparen(body).(type) {
		case *ast.BinaryExpr:
			switch v.Op {
			case token.GEQ:
				if isParam(v.X) {
					return l.foldInt(info, v.Y, env, 0)
				}
			case token.LEQ:
				if isParam(v.Y) {
					return l.foldInt(info, v.X, env, 0)
				}
			case token.GTR:
				if isParam(v.X) {
					n, ok := l.foldInt(info, v.Y, env, 0)
					return n + 1, ok
				}
			}
		case *ast.CallExpr:
			g := l.FuncOf(callee(info, v))
			if g == nil || g.Pkg != fi.Pkg || g.Decl.Type.Params == nil {
				return 0, false
			}
			// bind g's parameters; exactly one of them must be handed our parameter
			sub := foldEnv{}
			var inner types.Object
			idx := 0
			for _, f := range g.Decl.Type.Params.List {
				for _, nm := range f.Names {
					if idx < len(v.Args) {
						if isParam(v.Args[idx]) {
							inner = info.Defs[nm]
						} else if b, ok := env[objOf(info, unparen(v.Args[idx]))]; ok {
							sub[info.Defs[nm]] = b
						} else {
							sub[info.Defs[nm]] = v.Args[idx]
						}
					}
					idx++
				}
			}
			if inner == nil {
				return 0, false
			}
			return eval(g.Decl, sub, func(e ast.Expr) bool { return objOf(info, unparen(e)) == inner }, depth+1)
		}
		return 0, false
	}
	return eval(fi.Decl, foldEnv{}, func(e ast.Expr) bool { return objOf(info, unparen(e)) == param }, 0)
}
