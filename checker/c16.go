package main

import (
	"fmt"
	"go/ast"
	"go/token"
	"go/types"
	"sort"
	"strings"
)

func init() {
	register(&propInfo{
		id: "C16", fn: checkC16, multiConfig: true,
		explanation: "Deadlock- and race-freedom for every schedule are decided with a lock-order graph and a guarded-by lockset: (r1) for every explicit lock acquisition the set of locks that may be held there (interprocedural may-held sets, including through DecRef → removeChild/Close chains, wrapper callbacks and deferred calls) yields edges held-class → acquired-class; the graph must be acyclic and a sub-order of the documented hierarchy renameMu > opMu > {fidMu, openMu} > childMu with tagMu, sendMu, recvMu, pool.mu, pendingMu as leaves; (r2) acquiring a lock while one of the same class may be held is allowed only at the sites frozen in a table with one reason each (opMu: parent then pathNodeFor(child) of that parent; childMu: only under renameMu:W and either towards an ancestor, down to a child node, or guarded by the run-time identity test) — anything else is a potential self-deadlock; (r3) no acquisition of renameMu while renameMu may be held (RWMutex read recursion deadlocks behind a waiting writer), same for one node's opMu; (r4) channel operations, select, WaitGroup.Wait, recv and send happen with at most their own token lock held; (r5) every access to a field of the frozen guarded-by table happens with its lock held in the required mode (must-held sets; class granularity for childMu), fields documented as atomic are touched only through sync/atomic, objects not yet published are exempt; (r6) pendingXattr is mutated under a shared lock, safe exactly under the property's one-request-per-fid discipline (recorded). The isolation-of-results clause is decided only in its necessary-condition form: no cross-connection mutable state exists outside the path tree, renameMu and the process-wide pools. (r9) isolation of what sessions share: a reference that reached zero is never revived (the rule of C05.r4: a revived one is closed twice and releases its parent, possibly held by another session, twice), and a client registers its waiter before the request leaves (the rule of C10.r3: otherwise a fast reply is taken for an unexpected tag and fails every pending call).",
		assumptions: []string{"liveness under a real scheduler (fairness, wake-up order) is not decided", "clients keep at most one request outstanding per fid (the property's workload): pendingXattr and the open state rely on it", "lock instances are compared structurally; no pointer analysis"},
	})
}

var lockRank = map[string]int{
	"p9.Server.renameMu": 0, "p9.pathNode.opMu": 1, "p9.fidRef.openMu": 2, "p9.connState.fidMu": 2, "p9.pathNode.childMu": 3,
	"p9.connState.tagMu": 9, "p9.connState.sendMu": 9, "p9.connState.recvMu": 9, "p9.pool.mu": 9, "p9.Client.pendingMu": 9, "p9.Client.sendMu": 9,
}

// Same-class nesting sites that are legitimate, keyed by "function: acquired instance while held instance";
// one reason each.
type nestRule struct {
	Func   string
	Class  string
	Reason string
	Check  func(la *LockAcq, held string) bool
}

func checkC16(r *Run) {
	m := buildServerModel(r.L)
	db := m.DB
	info := m.Info
	eff := computeEffects(db)

	// ---- r1: lock-order graph -------------------------------------------------
	type edge struct{ from, to string }
	edges := map[edge][]string{}
	nAcq := 0
	for _, la := range db.LockAcqs {
		if la.Site.St.Dead {
			continue
		}
		nAcq++
		for h := range la.Site.St.MayL {
			hc, hm, hi := parseLockToken(h)
			if hc == la.Class && hi == la.Inst && hm != la.Mode && la.Mode == "R" {
				// the implied read token of a write hold on the same instance is not a second lock
			}
			if h == la.Token {
				continue
			}
			e := edge{hc, la.Class}
			edges[e] = append(edges[e], fmt.Sprintf("%s at %s (holding %s, acquiring %s)", la.Site.Root.Key, r.L.relPos(la.Site.Call.Pos()), h, la.Token))
		}
	}
	r.floor("r1", "explicit lock acquisitions", nAcq, 25)
	var es []edge
	for e := range edges {
		es = append(es, e)
	}
	sort.Slice(es, func(i, j int) bool {
		if es[i].from != es[j].from {
			return es[i].from < es[j].from
		}
		return es[i].to < es[j].to
	})
	var graphDesc []string
	for _, e := range es {
		graphDesc = append(graphDesc, fmt.Sprintf("%s → %s (%d sites)", e.from, e.to, len(edges[e])))
		if e.from == e.to {
			continue // r2
		}
		rf, okf := lockRank[e.from]
		rt, okt := lockRank[e.to]
		key := fmt.Sprintf("edge %s → %s", e.from, e.to)
		switch {
		case !okf || !okt:
			r.fail("r1", key, token.NoPos, "lock class not in the documented hierarchy: %s", edges[e][0])
		case rf == 9:
			r.fail("r1", key, token.NoPos, "%s is a leaf lock but %s is acquired while it may be held: %s", e.from, e.to, edges[e][0])
		case rf >= rt:
			r.fail("r1", key, token.NoPos, "acquired against the documented order (renameMu > opMu > fidMu/openMu > childMu > leaves): %s", edges[e][0])
		default:
			r.ok("r1", key, token.NoPos, "consistent with the hierarchy; e.g. %s", edges[e][0])
		}
	}
	r.sample(map[string]any{"lock_order_graph": graphDesc})
	// acyclicity (over distinct classes)
	adj := map[string][]string{}
	for _, e := range es {
		if e.from != e.to {
			adj[e.from] = append(adj[e.from], e.to)
		}
	}
	color := map[string]int{}
	var cycle []string
	var dfs func(n string, path []string) bool
	dfs = func(n string, path []string) bool {
		color[n] = 1
		for _, nx := range adj[n] {
			if color[nx] == 1 {
				cycle = append(append([]string{}, path...), n, nx)
				return true
			}
			if color[nx] == 0 && dfs(nx, append(path, n)) {
				return true
			}
		}
		color[n] = 2
		return false
	}
	found := false
	var nodes []string
	for n := range adj {
		nodes = append(nodes, n)
	}
	sort.Strings(nodes)
	for _, n := range nodes {
		if color[n] == 0 && dfs(n, nil) {
			found = true
			break
		}
	}
	r.check(!found, "r1", "lock-order graph is acyclic", token.NoPos, fmt.Sprintf("%d classes, %d edges, no cycle", len(nodes), len(es)), "cycle in the lock-order graph: "+strings.Join(cycle, " → "))

	// ---- r2 / r3: same-class nesting --------------------------------------------
	for _, la := range db.LockAcqs {
		if la.Site.St.Dead {
			continue
		}
		for h := range la.Site.St.MayL {
			hc, hm, hi := parseLockToken(h)
			if hc != la.Class || h == la.Token {
				continue
			}
			if hi == la.Inst && la.Site.St.MayL[lockToken(hc, "W", hi)] && hm == "R" && la.Site.St.May["acquired:"+lockToken(hc, "W", hi)] && !la.Site.St.May["acquired:"+h] {
				// implied read token of a write hold: judged through the W token
				continue
			}
			rule := "r2"
			if la.Class == "p9.Server.renameMu" {
				rule = "r3"
			}
			key := fmt.Sprintf("%s: %s acquired while %s may be held", la.Site.Root.Key, la.Token, h)
			ok, why := c16NestingAllowed(r, m, la, h, hi)
			if ok {
				r.ok(rule, key, la.Site.Call.Pos(), "%s", why)
			} else {
				r.fail(rule, key, la.Site.Call.Pos(), "%s", why)
			}
		}
	}
	// Calls made while a childMu is held that may acquire a childMu further down (through DecRef → removeChild).
	c16ChildMuReentry(r, m, eff)

	// ---- r4: nothing blocks under a lock ------------------------------------------
	nb := 0
	judgeBlock := func(where *FuncInfo, what string, pos token.Pos, mayL map[string]bool, own string) {
		nb++
		var held []string
		for t := range mayL {
			c, _, _ := parseLockToken(t)
			if c == own {
				continue
			}
			held = append(held, t)
		}
		sort.Strings(held)
		key := fmt.Sprintf("%s: %s", where.Key, what)
		r.check(len(held) == 0, "r4", key, pos, "blocks with nothing (but its own token) held", "a blocking "+what+" may run while "+strings.Join(held, ", ")+" is held")
	}
	// (server side; the client's multiplexer is C10's subject)
	for _, b := range db.Blocking {
		if b.Callee == "go" || b.St.Dead || isClientSide(b.Root) || b.NonBlocking {
			continue
		}
		own := ""
		judgeBlock(b.Root, b.Callee, b.Node.Pos(), b.St.MayL, own)
	}
	for _, s := range db.Calls["sync.WaitGroup.Wait"] {
		if !isClientSide(s.Root) {
			judgeBlock(s.Root, "WaitGroup.Wait", s.Call.Pos(), s.St.MayL, "")
		}
	}
	for _, s := range db.Calls["p9.recv"] {
		if !isClientSide(s.Root) {
			judgeBlock(s.Root, "recv", s.Call.Pos(), s.St.MayL, "p9.connState.recvMu")
		}
	}
	for _, s := range db.Calls["p9.send"] {
		if !isClientSide(s.Root) {
			judgeBlock(s.Root, "send", s.Call.Pos(), s.St.MayL, "p9.connState.sendMu")
		}
	}
	r.floor("r4", "blocking operations", nb, 6)

	// ---- r8: every lock taken is released on every exit (no lost release) ------------
	{
		var roots []*types.Func
		for _, fi := range r.L.funcsOfPkg("p9") {
			if isHandlerFunc(fi) {
				roots = append(roots, fi.Obj)
			}
		}
		reach := reachableFuncs(eff, roots)
		r.alias = map[string]string{"r2": "r8"}
		c15LockDiscipline(r, m, eff, reach)
		r.alias = nil
	}

	// ---- r5: guarded-by table -----------------------------------------------------
	c16GuardedBy(r, m)

	// ---- r6: recorded assumption -----------------------------------------------------
	npx := 0
	for _, fa := range m.fields() {
		if fa.Key == "p9.fidRef.pendingXattr" && fa.Write && !m.isUnpublished(fa, m.resolver(fa.Root).str(fa.Sel.X)) {
			npx++
		}
	}
	r.note("pendingXattr is written at %d sites under shared (read) path-node locks; race-free exactly because the property's workload keeps at most one request outstanding per fid", npx)

	// ---- isolation, necessary condition: no other shared mutable state -----------------
	p9 := r.L.Pkg("p9")
	var shared []string
	for _, nme := range p9.Types.Scope().Names() {
		v, ok := p9.Types.Scope().Lookup(nme).(*types.Var)
		if !ok {
			continue
		}
		shared = append(shared, nme)
		_ = v
	}
	sort.Strings(shared)
	allowed := map[string]string{
		"msgDotLRegistry": "message cache (C18)", "dataPool": "buffer pool (C18)", "responsePool": "client response pool (C10)", "order": "byte order, never written",
		"Debug": "debug hook", "ErrOutOfTags": "error value", "ErrOutOfFIDs": "error value", "ErrUnexpectedTag": "error value", "ErrVersionsExhausted": "error value",
		"ErrBadVersionString": "error value", "ErrNoValidMessage": "error value", "errAlreadyClosed": "error value", "AttrMaskAll": "constant-like value",
	}
	written := map[string]bool{}
	for _, f := range p9.Syntax {
		ast.Inspect(f, func(nd ast.Node) bool {
			var targets []ast.Expr
			switch v := nd.(type) {
			case *ast.AssignStmt:
				targets = v.Lhs
			case *ast.IncDecStmt:
				targets = []ast.Expr{v.X}
			case *ast.UnaryExpr:
				if v.Op == token.AND {
					targets = []ast.Expr{v.X}
				}
			}
			for _, l := range targets {
				base := unparen(l)
				for {
					switch v := base.(type) {
					case *ast.SelectorExpr:
						base = unparen(v.X)
						continue
					case *ast.IndexExpr:
						base = unparen(v.X)
						continue
					}
					break
				}
				if v, ok := objOf(info, base).(*types.Var); ok && v.Parent() == p9.Types.Scope() {
					if fd := r.L.enclosingDecl(nd); fd == nil || fd.Name.Name != "init" {
						written[v.Name()] = true
					}
				}
			}
			return true
		})
	}
	for _, nme := range shared {
		if why, ok := allowed[nme]; ok {
			r.ok("r7", "package variable "+nme, token.NoPos, "%s", why)
		} else if !written[nme] {
			r.ok("r7", "package variable "+nme, token.NoPos, "never assigned, indexed for writing or address-taken outside init")
		} else {
			r.fail("r7", "package variable "+nme, token.NoPos, "package-level variable %s is state shared by all connections and is not in the reviewed list: clients on disjoint subtrees could observe each other through it", nme)
		}
	}
	_ = info

	if r.borrowed == nil {
		// r9: one session cannot pull a reference out from under another: a reference whose
		// count reached zero is never revived (C05.r4) - a revived one is closed twice and its
		// parent, which another session may hold, is released twice
		r.borrow(checkC05, map[string]string{"r4": "r9"})
		// ... and a client's calls do not fail each other: the waiter is registered before the
		// request leaves (C10.r3), so a fast reply cannot be taken for an unexpected tag, which
		// fails every pending call of the client
		r.borrow(checkC10, map[string]string{"r3": "r9"})
		// ... and requests do not read each other's data: a pooled read buffer is handed back
		// only after its reply was written (C18.r4)
		r.borrow(checkC18, map[string]string{"r4": "r9"})
	}
}

// c16NestingAllowed judges one same-class nesting.
func c16NestingAllowed(r *Run, m *ServerModel, la *LockAcq, held, heldInst string) (bool, string) {
	st := la.Site.St
	switch la.Class {
	case "p9.Server.renameMu":
		return false, "renameMu is acquired while renameMu may already be held: sync.RWMutex read-lock recursion deadlocks as soon as a writer (a rename) waits in between"
	case "p9.pathNode.opMu":
		// parent then pathNodeFor(child) of that same parent (deeper in the hierarchy)
		if strings.HasPrefix(la.Inst, heldInst+".pathNodeFor(") {
			return true, "child node of the held node (always deeper: documented in tunlinkat)"
		}
		if strings.TrimSuffix(heldInst, "#stale") == la.Inst || heldInst == la.Inst {
			return false, "opMu of " + la.Inst + " is acquired while it may already be held: self-deadlock (RWMutex is not reentrant)"
		}
		return false, "two path nodes are locked (" + heldInst + " then " + la.Inst + ") outside renameMu:W and not in parent→child order"
	case "p9.pathNode.childMu":
		if !st.Locks[tokRenameW] {
			// allowed only for the read-read descent of forEachChildNode (parent→child, tree order) and when
			// the held one is an anonymous caller's instance reached through DecRef chains (r2b).
		}
		// identity test
		for _, p := range st.Paths {
			_ = p
		}
		hinst := strings.TrimPrefix(strings.TrimSuffix(heldInst, "#stale"), "^")
		if st.holds(hinst+" == "+la.Inst, false) || st.holds(la.Inst+" == "+hinst, false) {
			return true, "guarded by the run-time identity test " + hinst + " != " + la.Inst
		}
		switch la.Site.Root.Key {
		case "p9.pathNode.forEachChildNode", "p9.pathNode.forEachChildRef":
			_, hm, _ := parseLockToken(held)
			if la.Mode == "R" && hm == "R" {
				return true, "recursive descent parent → child node (tree order, read locks of distinct nodes)"
			}
		}
		// anonymous instances coming from callers are judged at the call sites (r2, childMu re-entry)
		if strings.HasPrefix(heldInst, "^") || heldInst == "?" {
			return true, "held by a caller on another expression: judged at the calling site (childMu re-entry rule)"
		}
		return false, "childMu of " + la.Inst + " is acquired while childMu of " + heldInst + " may be held, without an identity test and outside the tree-order descent"
	}
	if heldInst == la.Inst {
		return false, la.Class + " acquired twice on " + la.Inst
	}
	return false, "same-class nesting of " + la.Class + " is not in the reviewed table"
}

// c16ChildMuReentry: every call made while a childMu is held (directly, or in a callback of
// removeWithName / forEachChild*) that may take a childMu again must be in the reviewed table.
func c16ChildMuReentry(r *Run, m *ServerModel, eff map[*types.Func]*Effects) {
	db := m.DB
	info := m.Info
	type rev struct{ reason string }
	n := 0
	seen := map[string]bool{}
	for fi, direct := range db.ByFunc {
		if isClientSide(fi) {
			continue
		}
		res := m.resolver(fi)
		// calls a wrapper makes to a declared function handed to it as callback count as well
		sites := append(append([]*Site{}, direct...), db.Virtual[fi]...)
		for _, s := range sites {
			if s.Call == nil || s.St.Dead {
				continue
			}
			// a childMu held here, acquired in this function or by a wrapper entered here (not merely inherited)
			var held []string
			for t := range s.St.MayL {
				c, _, inst := parseLockToken(t)
				if c == "p9.pathNode.childMu" && !strings.HasPrefix(inst, "^") && inst != "?" {
					held = append(held, t)
				}
			}
			if len(held) == 0 {
				continue
			}
			tf := r.L.FuncOf(callee(info, s.Call))
			if tf == nil {
				continue
			}
			e := eff[tf.Obj]
			if e == nil || !(e.Locks["p9.pathNode.childMu:W"] || e.Locks["p9.pathNode.childMu:R"]) {
				continue
			}
			// direct lock calls are handled by r2 proper
			if op, _ := mutexOp(s.Callee); op != "" {
				continue
			}
			sort.Strings(held)
			recv := recvStr(res, s.Call)
			key := fmt.Sprintf("%s: %s on %s while %s", fi.Key, strings.TrimPrefix(s.Callee, "p9."), recv, strings.Join(held, ","))
			if seen[key] {
				continue
			}
			seen[key] = true
			n++
			ok, why := false, ""
			hinst := ""
			_, _, hinst = parseLockToken(held[0])
			switch {
			case s.Callee == "p9.fidRef.DecRef" && strings.HasSuffix(recv, ".parent") && s.St.Locks[tokRenameW] && fi.Key == "p9.fidRef.renameChildTo":
				ok, why = true, "releases the OLD parent of a child of the locked node: DecRef can only lock nodes of ancestors of the locked node, which are distinct from it (documented in the source; renameMu:W excludes everything else)"
			case (s.Callee == "p9.pathNode.addChild") && (s.St.holds(hinst+" == "+recv, false) || s.St.holds(recv+" == "+hinst, false)):
				ok, why = true, "guarded by the run-time identity test: the target node is not the locked node"
			case s.Callee == "p9.notifyNameChange" || s.Callee == "p9.notifyDelete":
				ok, why = true, "recursive descent into a child node (tree order, distinct nodes)"
			case s.Callee == "p9.fidRef.DecRef" && fi.Key == "p9.pathNode.removeWithName":
				ok = false
				why = "removeWithName drops the callback's reference with " + recv + ".DecRef() while it still holds this node's childMu for write. If a concurrent Tclunk released the fid's other references in the meantime, this is the last reference: DecRef → parent.pathNode.removeChild locks the childMu of the reference's (new) parent — for a rename within one directory that is the very mutex held here: self-deadlock with renameMu held for write, i.e. the whole server stops"
			default:
				why = "a call that can lock a childMu is made while " + strings.Join(held, ",") + " is held and is not in the reviewed table"
			}
			if ok {
				r.ok("r2", key, s.Call.Pos(), "%s", why)
			} else {
				r.fail("r2", key, s.Call.Pos(), "%s", why)
			}
		}
	}
	r.floor("r2", "calls under childMu that may lock a childMu", n, 3)
}

// guarded-by table: field key -> lock class ("atomic" for atomic-only fields).
var c16Guards = map[string]string{
	"p9.connState.fids":         "p9.connState.fidMu",
	"p9.connState.tags":         "p9.connState.tagMu",
	"p9.connState.recvShutdown": "p9.connState.recvMu",
	"p9.pathNode.childNodes":    "p9.pathNode.childMu",
	"p9.pathNode.childRefs":     "p9.pathNode.childMu",
	"p9.pathNode.childRefNames": "p9.pathNode.childMu",
	"p9.pool.cache":             "p9.pool.mu",
	"p9.pool.start":             "p9.pool.mu",
	"p9.Client.pending":         "p9.Client.pendingMu",
	"p9.pathNode.deleted":       "atomic",
	"p9.fidRef.refs":            "atomic",
	"p9.connState.messageSize":  "atomic",
	"p9.connState.version":      "atomic",
	"p9.connState.recvIdle":     "atomic",
}

func c16GuardedBy(r *Run, m *ServerModel) {
	info := m.Info
	type agg struct {
		status, detail string
		pos            token.Pos
	}
	res := map[string]*agg{}
	counts := map[string]int{}
	for _, fa := range m.fields() {
		g, ok := c16Guards[fa.Key]
		if !ok || fa.St.Dead {
			continue
		}
		counts[fa.Key]++
		rs := m.resolver(fa.Root)
		base := rs.str(fa.Sel.X)
		mode := "read"
		if fa.Write || isMapWrite(r.L, fa.Sel) {
			mode = "write"
		}
		key := fmt.Sprintf("%s: %s of %s", fa.Root.Key, mode, fa.Key)
		set := func(ok bool, detail string) {
			cur := res[key]
			if ok {
				if cur == nil {
					res[key] = &agg{"ok", detail, fa.Sel.Pos()}
				}
			} else if cur == nil || cur.status == "ok" {
				res[key] = &agg{"fail", detail, fa.Sel.Pos()}
			}
		}
		// constructors: the object is not yet shared
		if isConstructorContext(r.L, fa) {
			set(true, "object under construction (not yet shared)")
			continue
		}
		if g == "atomic" {
			// must be &x.f as an argument of a sync/atomic call
			okAt := false
			if u, ok := r.L.parent(fa.Sel).(*ast.UnaryExpr); ok && u.Op == token.AND {
				if c, ok := r.L.parent(u).(*ast.CallExpr); ok && strings.HasPrefix(calleeKey(info, c), "sync/atomic.") {
					okAt = true
				}
			}
			// ... or the field is of a typed atomic (atomic.Int32, atomic.Bool, ...): every
			// access the type allows is atomic (copying the value is what go vet's copylocks
			// forbids; a method call on it is the only use that type-checks as a read or write)
			if ft := info.TypeOf(fa.Sel); ft != nil {
				if nt, isNamed := ft.(*types.Named); isNamed && nt.Obj().Pkg() != nil && nt.Obj().Pkg().Path() == "sync/atomic" {
					if sel, isSel := r.L.parent(fa.Sel).(*ast.SelectorExpr); isSel && sel.X == ast.Expr(fa.Sel) {
						if _, isCall := r.L.parent(sel).(*ast.CallExpr); isCall {
							okAt = true
						}
					}
				}
			}
			set(okAt, map[bool]string{true: "accessed through sync/atomic", false: "field " + fa.Key + " is documented as atomic but is accessed directly at " + r.L.relPos(fa.Sel.Pos()) + ": a data race with its atomic users"}[okAt])
			continue
		}
		// stop(): after pendingWg.Wait no handler runs
		if fa.Root.Key == "p9.connState.stop" && fa.St.Must["sync.WaitGroup.Wait"] {
			set(true, "after pendingWg.Wait(): no request goroutine is left")
			continue
		}
		need := "R"
		if mode == "write" {
			need = "W"
		}
		held := false
		for t := range fa.St.Locks {
			c, mm, inst := parseLockToken(t)
			if c != g {
				continue
			}
			if need == "W" && mm != "W" {
				continue
			}
			// instance: same base, or class granularity for childMu (identity established at run time)
			if inst == base || g == "p9.pathNode.childMu" || inst == "?" || strings.HasPrefix(inst, "^") {
				held = true
			}
		}
		if !held && strings.HasSuffix(g, ".mu") || !held && !strings.Contains(g, "childMu") {
			// plain Mutex classes: any mode token counts as exclusive
			for t := range fa.St.Locks {
				c, _, inst := parseLockToken(t)
				if c == g && (inst == base || inst == "?" || strings.HasPrefix(inst, "^")) {
					held = true
				}
			}
		}
		set(held, map[bool]string{true: "under " + g, false: fmt.Sprintf("%s of %s.%s in %s with %s held: the field is guarded by %s (%s access needs it %s) — concurrent requests race on it (for the maps: 'fatal error: concurrent map writes')", mode, base, fa.Field.Name(), fa.Root.Key, describeSet(fa.St.Locks), g, mode, map[string]string{"R": "at least for read", "W": "for write"}[need])}[held])
	}
	var keys []string
	for k := range res {
		keys = append(keys, k)
	}
	sort.Strings(keys)
	for _, k := range keys {
		a := res[k]
		if a.status == "ok" {
			r.ok("r5", k, a.pos, "%s", a.detail)
		} else {
			r.fail("r5", k, a.pos, "%s", a.detail)
		}
	}
	total := 0
	for _, c := range counts {
		total += c
	}
	r.floor("r5", "accesses to guarded fields", total, 60)
	for f := range c16Guards {
		if counts[f] == 0 {
			r.undecided("r5", "guarded field "+f, token.NoPos, "no access found: the field was renamed or removed, the guarded-by table is stale")
		}
	}
}

// isMapWrite: sel is the map operand of an index assignment or of delete().
func isMapWrite(l *Loaded, sel *ast.SelectorExpr) bool {
	p := l.parent(sel)
	if ix, ok := p.(*ast.IndexExpr); ok && ix.X == ast.Expr(sel) {
		if as, ok := l.parent(ix).(*ast.AssignStmt); ok {
			for _, lhs := range as.Lhs {
				if lhs == ast.Expr(ix) {
					return true
				}
			}
		}
		// inner map: p.childRefs[name][ref] = ... / delete(p.childRefs[name], ref)
		if ix2, ok := l.parent(ix).(*ast.IndexExpr); ok && ix2.X == ast.Expr(ix) {
			if as, ok := l.parent(ix2).(*ast.AssignStmt); ok {
				for _, lhs := range as.Lhs {
					if lhs == ast.Expr(ix2) {
						return true
					}
				}
			}
		}
	}
	if c, ok := p.(*ast.CallExpr); ok {
		if id, ok := c.Fun.(*ast.Ident); ok && id.Name == "delete" && len(c.Args) > 0 && c.Args[0] == ast.Expr(sel) {
			return true
		}
	}
	return false
}

// isConstructorContext: the access is a key of / inside a composite literal being built, or in a
// function that creates the object (newPathNode, Handle's connState literal, NewClient).
func isConstructorContext(l *Loaded, fa *FieldAccess) bool {
	switch fa.Root.Key {
	case "p9.newPathNode", "p9.NewClient", "p9.NewServer":
		return true
	}
	return false
}
