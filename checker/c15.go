package main

import (
	"fmt"
	"go/ast"
	"go/constant"
	"go/token"
	"go/types"
	"sort"
	"strings"
)

func init() {
	register(&propInfo{
		id: "C15", fn: checkC15, multiConfig: true,
		explanation: "(r1) connState.handle is a panic barrier (first statement defers a recover that substitutes EFAULT) and handlers are dispatched only from it, so handleRequest's bookkeeping (ClearTag, send, pendingWg.Done) is reached on the panic path too; (r2) lock discipline under unwinding: in every function reachable from a handler, every explicitly acquired lock is released on every exit of the function (or literal) that took it — by defer, or by an explicit unlock on every path — and any region that can reach an opaque backend call or a function-typed value releases by defer, so a recovered panic cannot leave a lock held; regions with manual unlock contain only map/field operations and the package's own panic calls preceded by the unlock; (r3) Files and references obtained during a failed request are closed/released on its error exits (the ownership typestate and reference balance of C05, which cover exactly the error paths) and lookups are released by defer, i.e. also when unwinding; (r4) the fid table is untouched on error: InsertFID only on success paths, Tclunk/Tremove unbind regardless (rules of C04); (r5) the backend's error is the reply: on every exit where the error result of a backend call is known non-nil, that very value is what is returned/given to newErr (no masking), except the documented EOF suppression of read/readdir and the ENOSYS fallback of walkOne; newErr maps through linux.ExtractErrno; (r6) error paths write no server-wide state: Server fields are assigned only in NewServer and its options, package-level variables only in init/declarations.",
		assumptions: []string{"what a backend that corrupts its own state does next is outside the property"},
	})
}

func checkC15(r *Run) {
	m := buildServerModel(r.L)
	db := m.DB
	info := m.Info
	// r1
	c06Recover(r, m, "r1")
	var hcallers []string
	for _, s := range db.Calls["p9.handler.handle"] {
		hcallers = append(hcallers, s.Root.Key)
	}
	hcallers = dedupe(hcallers)
	r.check(len(hcallers) == 1 && hcallers[0] == "p9.connState.handle", "r1", "handlers are dispatched only behind the panic barrier", token.NoPos, "only connState.handle calls handler.handle", "handler.handle is invoked from "+strings.Join(hcallers, ", ")+": a backend panic there is not recovered")
	if hr := r.L.Func("p9", "connState.handleRequest"); hr != nil {
		for _, s := range m.callsIn(hr, "p9.connState.handle") {
			r.check(deferredAt(s.St, "sync.WaitGroup.Done"), "r1", "handleRequest: Done is deferred before the handler runs", s.Call.Pos(), "defer pendingWg.Done()", "pendingWg.Done is not deferred before cs.handle: teardown could wait for ever after a panic")
		}
	}

	// r2: lock discipline.
	eff := computeEffects(db)
	var roots []*types.Func
	for _, fi := range r.L.funcsOfPkg("p9") {
		if isHandlerFunc(fi) {
			roots = append(roots, fi.Obj)
		}
	}
	reach := reachableFuncs(eff, roots)
	c15LockDiscipline(r, m, eff, reach)

	// r3: ownership on error paths (shared with C05).
	if r.borrowed == nil {
		// DecRef completes its bookkeeping whatever Close returns (C05.r4): a failing Close
		// must not leave the reference registered or its parent pinned
		r.borrow(checkC05, map[string]string{"r4": "r3"})
	}
	r.alias = map[string]string{"r1": "r3", "r2": "r3", "r3": "r3", "r4": "r3", "r5": "r3"}
	c15Ownership(r, m)
	r.alias = nil
	// lookups are released by defer (panic-safe).
	n := 0
	for _, fi := range r.L.funcsOfPkg("p9") {
		if !isHandlerFunc(fi) || fi.Decl.Body == nil {
			continue
		}
		h := m.handlerInfo(fi)
		for _, call := range h.LookupSites {
			n++
			as, _ := r.L.parent(call).(*ast.AssignStmt)
			refName := ""
			if as != nil {
				refName = r.L.str(as.Lhs[0])
			}
			// within the next two statements: defer ref.DecRef()
			okDefer := false
			var cur ast.Stmt = as
			for i := 0; i < 2 && cur != nil; i++ {
				cur = nextStmt(r.L, cur)
				if d, ok := cur.(*ast.DeferStmt); ok && calleeKey(info, d.Call) == "p9.fidRef.DecRef" && recvStr(m.resolver(fi), d.Call) == refName {
					okDefer = true
				}
			}
			r.check(okDefer, "r3", fmt.Sprintf("%s: %s released by defer", fi.Key, refName), call.Pos(), "defer "+refName+".DecRef() right after the lookup", "the looked-up reference "+refName+" is not released by an immediate defer: a backend panic or an early return would leak it (its File is then never closed)")
		}
	}
	r.floor("r3", "lookups released by defer", n, 27)

	// r4: fid table untouched on error (rules shared with C04).
	r.alias = map[string]string{"r3": "r4", "r2": "r4"}
	hinfo := map[*FuncInfo]*HandlerInfo{}
	for _, fi := range r.L.funcsOfPkg("p9") {
		if isHandlerFunc(fi) && fi.Decl.Body != nil {
			hinfo[fi] = m.handlerInfo(fi)
		}
	}
	c04Insert(r, m, hinfo)
	c04Unbind(r, m)
	r.alias = nil

	// r5: no masking.
	c15NoMasking(r, m)
	// newErr goes through ExtractErrno.
	if ne := r.mustFunc("r5", "p9", "newErr"); ne != nil {
		okX := false
		for _, s := range db.ByFunc[ne] {
			if s.Callee == "linux.ExtractErrno" {
				okX = true
			}
		}
		r.check(okX, "r5", "newErr maps through linux.ExtractErrno", ne.Decl.Pos(), "Rlerror.Error = ExtractErrno(err)", "newErr does not derive the errno with linux.ExtractErrno")
	}

	// An error that is wrapped on its way to newErr keeps its chain: ExtractErrno finds the
	// errno with errors.As, so formatting a backend error with anything but %w turns its
	// errno into EIO.
	nWrap := 0
	for _, fi := range r.L.funcsOfPkg("p9") {
		if fi.Decl.Body == nil || isClientSide(fi) {
			continue
		}
		ast.Inspect(fi.Decl.Body, func(n ast.Node) bool {
			c, ok := n.(*ast.CallExpr)
			if !ok || calleeKey(info, c) != "fmt.Errorf" || len(c.Args) < 2 {
				return true
			}
			format := constValue(info, c.Args[0])
			if format == nil || format.Kind() != constant.String {
				return true
			}
			verbs := formatVerbs(constant.StringVal(format))
			for i, a := range c.Args[1:] {
				t := info.TypeOf(a)
				if t == nil || !isErrorType(t) {
					continue
				}
				nWrap++
				verb := byte('?')
				if i < len(verbs) {
					verb = verbs[i]
				}
				r.check(verb == 'w', "r5", fi.Key+": "+r.L.str(c)+" keeps the error chain", c.Pos(), "%w",
					fmt.Sprintf("the error %s is formatted with %%%c: errors.As no longer reaches the backend's errno and the reply becomes EIO", r.L.str(a), verb))
			}
			return true
		})
	}
	r.floor("r5", "errors wrapped on the server side", nWrap, 2)

	// r6: server-wide state.
	for _, fa := range m.fields() {
		if !fa.Write || !strings.HasPrefix(fa.Key, "p9.Server.") {
			continue
		}
		okW := fa.Root.Key == "p9.NewServer" || fa.Root.Key == "p9.WithServerLogger"
		r.check(okW, "r6", fa.Root.Key+": write of "+fa.Key, fa.Sel.Pos(), "construction only", "server-wide field "+fa.Key+" is written while serving: an error on one connection could affect the others")
	}
	p9 := r.L.Pkg("p9")
	nvar := 0
	for _, f := range p9.Syntax {
		ast.Inspect(f, func(nd ast.Node) bool {
			as, ok := nd.(*ast.AssignStmt)
			if !ok {
				return true
			}
			for _, l := range as.Lhs {
				base := unparen(l)
				for {
					switch v := base.(type) {
					case *ast.SelectorExpr:
						base = unparen(v.X)
						continue
					case *ast.IndexExpr:
						base = unparen(v.X)
						continue
					}
					break
				}
				if v, ok := objOf(info, base).(*types.Var); ok && v.Parent() == p9.Types.Scope() {
					fd := r.L.enclosingDecl(as)
					fname := ""
					if fd != nil {
						fname = fd.Name.Name
					}
					nvar++
					okW := fname == "init" || fname == "register"
					r.check(okW, "r6", "package variable "+v.Name()+" written in "+fname, as.Pos(), "initialisation only", "package-level variable "+v.Name()+" is written at run time by "+fname+": state shared by all connections")
				}
			}
			return true
		})
	}
	r.stat("r6:package variable writes", nvar)
}

// c04Unbind is C04.r2, callable under an alias.
func c04Unbind(r *Run, m *ServerModel) {
	info := m.Info
	for _, nm := range []string{"tclunk.handle", "tremove.handle"} {
		fi := r.mustFunc("r2", "p9", nm)
		if fi == nil {
			continue
		}
		n := 0
		for _, ex := range m.DB.Exits[fi] {
			if ex.Fn != ast.Node(fi.Decl) || ex.St.Dead {
				continue
			}
			n++
			key := fmt.Sprintf("p9.%s exit #%d unbinds", nm, n)
			pos := fi.Decl.End()
			if ex.Ret != nil {
				pos = ex.Ret.Pos()
			}
			if ex.St.Must["p9.connState.DeleteFID"] {
				r.ok("r2", key, pos, "DeleteFID on every path to this exit")
				continue
			}
			if v, ok := errnoOf(info, ex.Ret); ok && v == 9 && !ex.St.May["p9.connState.DeleteFID"] && nm == "tremove.handle" && ex.St.holds(m.resultName(fi, -1, isCallTo(info, "p9.connState.LookupFID")), false) {
				r.ok("r2", key, pos, "fid was not bound")
				continue
			}
			r.fail("r2", key, pos, "this exit can be reached without DeleteFID: after a backend error the fid would stay bound although Tclunk/Tremove must unbind regardless")
		}
	}
}

func c15Ownership(r *Run, m *ServerModel) {
	p9 := r.L.Pkg("p9")
	c := &ownChecker{r: r, m: m, info: m.Info, reports: map[string]*ownReport{}}
	c.fileT = p9.Types.Scope().Lookup("File").Type()
	nt := r.L.namedType("p9", "fidRef")
	if nt == nil {
		r.undecided("r3", "fidRef", token.NoPos, "type not found")
		return
	}
	c.refT = types.NewPointer(nt)
	for _, fi := range r.L.funcsOfPkg("p9") {
		if fi.Decl.Body == nil || isClientSide(fi) {
			continue
		}
		switch {
		case isHandlerFunc(fi), fi.Key == "p9.doWalk", fi.Key == "p9.walkOne", fi.Key == "p9.pathNode.removeWithName", fi.Key == "p9.fidRef.renameChildTo":
			c.analyse(fi, fi.Key == "p9.doWalk")
		}
	}
	c.flush()
}

// c15LockDiscipline (r2).
func c15LockDiscipline(r *Run, m *ServerModel, eff map[*types.Func]*Effects, reach map[*types.Func]bool) {
	db := m.DB
	info := m.Info
	n := 0
	// (a) pairing: at every exit of the function/literal that acquired a lock, it is released or its release is deferred.
	type key struct {
		root *FuncInfo
		tok  string
	}
	leaks := map[key]token.Pos{}
	seen := map[key]bool{}
	for fi, exits := range db.Exits {
		if !reach[fi.Obj] && fi.Key != "p9.connState.handleRequest" {
			continue
		}
		// tokens acquired explicitly in this function
		acquired := map[string]ast.Node{}
		for _, la := range db.LockAcqs {
			if la.Site.Root == fi {
				acquired[la.Token] = la.Site.Fn
			}
		}
		for _, ex := range exits {
			if ex.St.Dead {
				continue
			}
			for tok, fn := range acquired {
				k := key{fi, tok}
				seen[k] = true
				// only exits of the function/literal that took the lock, or of an enclosing one
				if ex.Fn != fn && !containsNode(ex.Fn, fn) {
					continue
				}
				stale := tok + "#stale"
				if (ex.St.MayL[tok] || ex.St.MayL[stale]) && !ex.St.Must["deferunlock:"+tok] {
					pos := fi.Decl.End()
					if ex.Ret != nil {
						pos = ex.Ret.Pos()
					}
					leaks[k] = pos
				}
			}
		}
	}
	var ks []key
	for k := range seen {
		ks = append(ks, k)
	}
	sort.Slice(ks, func(i, j int) bool {
		if ks[i].root.Key != ks[j].root.Key {
			return ks[i].root.Key < ks[j].root.Key
		}
		return ks[i].tok < ks[j].tok
	})
	for _, k := range ks {
		n++
		c := fmt.Sprintf("%s: %s released on every exit", k.root.Key, k.tok)
		if pos, bad := leaks[k]; bad {
			r.fail("r2", c, pos, "the lock %s taken in %s may still be held when the function returns at %s (no unlock on that path and none deferred): after an error or a recovered panic on that path every later request needing the lock blocks", k.tok, k.root.Key, r.L.relPos(pos))
		} else {
			r.ok("r2", c, k.root.Decl.Pos(), "released or deferred on every exit")
		}
	}
	// (b) regions that can reach a backend call or a callback release by defer.
	for _, la := range db.LockAcqs {
		fi := la.Site.Root
		if !reach[fi.Obj] {
			continue
		}
		// Is the unlock deferred right after the lock?
		st, _ := la.Site.Node.(ast.Stmt)
		deferred := false
		if es, ok := st.(*ast.ExprStmt); ok {
			if d, ok := nextStmt(r.L, es).(*ast.DeferStmt); ok {
				if op, _ := mutexOp(calleeKey(info, d.Call)); op == "unlock" && sameMutex(r.L, la.Site.Call, d.Call) {
					deferred = true
				}
			}
		}
		c := fmt.Sprintf("%s: region of %s", fi.Key, la.Token)
		if deferred {
			r.ok("r2", c, la.Site.Call.Pos(), "released by defer (safe under unwinding)")
			continue
		}
		// Manual unlock: inspect the calls between the lock and the end of the enclosing block
		// (or the matching unlock) for anything that can reach the backend or a callback.
		var risky []string
		blk, _ := r.L.parent(st).(*ast.BlockStmt)
		if blk == nil {
			r.undecided("r2", c, la.Site.Call.Pos(), "lock is not a statement of a block")
			continue
		}
		started := false
		done := false
		for _, s := range blk.List {
			if s == st {
				started = true
				continue
			}
			if !started || done {
				continue
			}
			ast.Inspect(s, func(nd ast.Node) bool {
				if done {
					return false
				}
				call, ok := nd.(*ast.CallExpr)
				if !ok {
					return true
				}
				k := calleeKey(info, call)
				if op, _ := mutexOp(k); op == "unlock" && sameMutex(r.L, la.Site.Call, call) {
					// first unlock at top level of the region ends it (nested early unlocks do not)
					if es, ok := s.(*ast.ExprStmt); ok && es.X == ast.Expr(call) {
						done = true
					}
					return true
				}
				if strings.HasPrefix(k, "p9.File.") || k == "p9.Attacher.Attach" {
					risky = append(risky, "backend "+k)
				}
				if tf := r.L.FuncOf(callee(info, call)); tf != nil {
					if e := eff[tf.Obj]; e != nil && (len(e.Backend) > 0 || e.FuncValue) {
						risky = append(risky, tf.Key+" (may reach the backend or a callback)")
					}
				}
				if k == "" {
					if id, ok := unparen(call.Fun).(*ast.Ident); ok {
						if _, isB := info.Uses[id].(*types.Builtin); isB {
							return true
						}
					}
					if tv, ok := info.Types[call.Fun]; ok && !tv.IsType() {
						if _, isSig := tv.Type.Underlying().(*types.Signature); isSig {
							risky = append(risky, "function value "+r.L.str(call.Fun))
						}
					}
				}
				return true
			})
		}
		if len(risky) > 0 {
			r.fail("r2", c, la.Site.Call.Pos(), "%s is released by an explicit unlock, but the region can reach %s: a panic there (recovered in connState.handle) leaves the lock held for ever", la.Token, strings.Join(dedupe(risky), ", "))
		} else {
			r.ok("r2", c, la.Site.Call.Pos(), "manual unlock; the region contains only map/field operations and the package's own panics")
		}
	}
	r.floor("r2", "locks acquired in code reachable from handlers", n, 10)
}

func sameMutex(l *Loaded, a, b *ast.CallExpr) bool {
	sa, ok1 := unparen(a.Fun).(*ast.SelectorExpr)
	sb, ok2 := unparen(b.Fun).(*ast.SelectorExpr)
	return ok1 && ok2 && l.str(sa.X) == l.str(sb.X)
}

// c15NoMasking (r5).
func c15NoMasking(r *Run, m *ServerModel) {
	info := m.Info
	n := 0
	for _, b := range m.Backend {
		if b.Outer != nil || b.Fresh && b.Method == "Close" {
			continue
		}
		root := b.Site.Root
		if !isHandlerFunc(root) && root.Key != "p9.doWalk" && root.Key != "p9.walkOne" {
			continue
		}
		// error variable of this call
		as, _ := r.L.parent(b.Site.Call).(*ast.AssignStmt)
		var errObj types.Object
		if as != nil && len(as.Lhs) > 0 {
			if o := objOf(info, as.Lhs[len(as.Lhs)-1]); o != nil && isErrorType(o.Type()) {
				errObj = o
			}
		}
		res := m.resolver(root)
		callStr := res.str(b.Site.Call)
		var names []string
		if errObj != nil {
			nm := errObj.Name()
			if u, ok := res.uniq[errObj]; ok {
				nm = u
			}
			names = append(names, nm)
		}
		names = append(names, callStr)
		// direct "return ref.file.M(...)" is trivially unmasked
		if _, isRet := r.L.parent(b.Site.Call).(*ast.ReturnStmt); isRet {
			n++
			r.ok("r5", b.Key()+": error is the reply", b.Site.Call.Pos(), "the call's result is returned directly")
			continue
		}
		if errObj == nil {
			// error discarded? (Close on fresh files, Renamed has no result)
			sig, _ := info.TypeOf(b.Site.Call.Fun).(*types.Signature)
			if sig != nil && sig.Results().Len() > 0 && isErrorType(sig.Results().At(sig.Results().Len()-1).Type()) {
				if _, isStmt := r.L.parent(b.Site.Call).(*ast.ExprStmt); isStmt && b.Method != "Close" {
					r.fail("r5", b.Key()+": error is the reply", b.Site.Call.Pos(), "the error result of File.%s is discarded", b.Method)
				}
			}
			continue
		}
		n++
		bad := ""
		for _, ex := range m.DB.Exits[root] {
			if ex.St.Dead || ex.Ret == nil || len(ex.Ret.Results) == 0 {
				continue
			}
			nonNil := false
			for _, nm := range names {
				if ex.St.holds(nm+" == nil", false) {
					nonNil = true
				}
			}
			if !nonNil || ex.St.Defs[errObj] != ast.Node(b.Site.Call) && !ex.St.holds(callStr+" == nil", false) {
				continue
			}
			last := unparen(ex.Ret.Results[len(ex.Ret.Results)-1])
			if c, ok := last.(*ast.CallExpr); ok && calleeKey(info, c) == "p9.newErr" && len(c.Args) == 1 {
				last = unparen(c.Args[0])
			}
			if objOf(info, last) == errObj {
				continue
			}
			bad = fmt.Sprintf("on the exit at %s the backend error %s is known non-nil but %s is returned instead", r.L.relPos(ex.Ret.Pos()), errObj.Name(), r.L.str(last))
		}
		r.check(bad == "", "r5", b.Key()+": error is the reply", b.Site.Call.Pos(), "every exit on which the error is known non-nil returns that error", "backend error is masked: "+bad)
	}
	r.floor("r5", "backend calls whose error reaches the reply", n, 20)
	// The outer layer: every newErr(x) in a handler passes an error variable or an errno constant.
	for _, s := range m.DB.Calls["p9.newErr"] {
		if !isHandlerFunc(s.Root) && s.Root.Key != "p9.connState.handleRequest" {
			continue
		}
		arg := unparen(s.Call.Args[0])
		_, isConst := errnoExpr(info, arg)
		isVar := false
		if o := objOf(info, arg); o != nil && isErrorType(o.Type()) {
			isVar = true
		}
		r.check(isConst || isVar, "r5", s.Root.Key+": newErr argument", s.Call.Pos(), "errno constant or the error variable", "newErr is given "+r.L.str(arg))
	}
}

// formatVerbs lists the verbs of a format string in argument order (%% skipped; flags, width
// and precision ignored; explicit argument indexes are not used in this code base).
func formatVerbs(f string) []byte {
	var out []byte
	for i := 0; i < len(f); i++ {
		if f[i] != '%' {
			continue
		}
		i++
		for i < len(f) && strings.IndexByte("+-# 0123456789.*[]", f[i]) >= 0 {
			i++
		}
		if i < len(f) && f[i] != '%' {
			out = append(out, f[i])
		}
	}
	return out
}
