package main

import (
	"fmt"
	"go/ast"
	"go/token"
	"go/types"
	"sort"
	"strings"
)

func init() {
	register(&propInfo{
		id: "C08", fn: checkC08, multiConfig: true,
		explanation: "Path coherence decided on the bookkeeping code itself: (r1) renameChildTo is called exactly on the success side of the backend RenameAt with the same directory, names and target, markChildDeleted exactly on the success side of UnlinkAt with the same directory and name, and every successful exit after such a backend call has passed the bookkeeping call; (r2) Trename/Tremove take the entry's name from nameFor on the current parent while holding renameMu for write; (r3) renameChildTo, notifyNameChange, notifyDelete and markChildDeleted have the required shape — overwritten target fenced first, each moved reference's parent released / re-pointed / re-acquired, re-registered under the new name in the target's node, told Renamed(target.file, newName), the detached subtree re-attached under the target's node and notified recursively through both child references and child nodes, deletion marks propagated recursively; (r4) the fencing table: deleted → EINVAL dominates the backend call (or state change) of every path-dependent handler, deleted → ENOENT every walk step, and read/write/fsync/getattr are deliberately not fenced; (r5) childRefs and childRefNames are updated together and under childMu:W in every path_tree function, removeWithName also detaches the child node, a clone of a deleted reference is not registered; (r6) every reference literal with a parent is registered in the parent's node under the name it was walked/created with. (r7) removal and fencing are one step for the fids bound to the entry: UnlinkAt and markChildDeleted run under the write lock of the entry's path node (the rule of C07.r3). (r8) references stay registered as long as their fid is held: the reference balance of C05.r3 (a directory reference released once too often is unregistered from the path tree and misses later renames). (r9) fencing reaches every fid of an entry because all references on one path share one path node: a new reference is given the parent's pathNodeFor(name), the node of the reference it clones, or the root (the rule of C07.r7).",
		assumptions: []string{"which object a name denotes after k renames is runtime state; only the per-step bookkeeping discipline is decided"},
	})
}

func checkC08(r *Run) {
	m := buildServerModel(r.L)
	c08Bookkeeping(r, m)
	c08CurrentName(r, m)
	c08Shapes(r, m)
	c08Fencing(r, m)
	c08Maps(r, m)
	c08Registration(r, m)

	// r7: fencing is atomic with the backend's removal: Tunlinkat holds the write lock of the
	// removed entry's path node across UnlinkAt and markChildDeleted (the rule of C07.r3), so no
	// request bound to the entry runs between the two.
	if r.borrowed == nil {
		// r9: fencing reaches every fid of an entry because all references to one path share
		// one path node: a new reference takes the parent's pathNodeFor(name), an existing
		// reference's node or the root (the rule of C07.r7)
		r.borrow(checkC07, map[string]string{"r3": "r7", "r7": "r9"})
		// r8: a fid keeps denoting its object only while its reference - and the parent
		// references below it - stay alive: acquisitions and releases cancel on every path
		// (the balance rule of C05.r3); a parent released once too often is closed and
		// unregistered under a fid the client still holds, and is no longer told of renames
		r.borrow(checkC05, map[string]string{"r3": "r8"})
	}
}

// callsIn returns the de-duplicated call sites of key within root (weakest state per call).
func (m *ServerModel) callsIn(root *FuncInfo, key string) []*Site {
	byCall := map[*ast.CallExpr]*Site{}
	var order []*ast.CallExpr
	for _, s := range m.DB.Calls[key] {
		if s.Root != root {
			continue
		}
		if prev, ok := byCall[s.Call]; ok {
			cp := *prev
			cp.St = hJoin(prev.St, s.St)
			byCall[s.Call] = &cp
			continue
		}
		byCall[s.Call] = s
		order = append(order, s.Call)
	}
	var out []*Site
	for _, c := range order {
		out = append(out, byCall[c])
	}
	// calls made for root by private helpers that are judged in their callers' context
	// (Site.Inl non-empty: render through Site.arg / Site.recvStr / Site.argExpr)
	for _, s := range m.contextSites(key) {
		if s.Root == root && len(s.Inl) > 0 {
			out = append(out, s)
		}
	}
	return out
}

func recvStr(res *resolver, call *ast.CallExpr) string {
	if sel, ok := unparen(call.Fun).(*ast.SelectorExpr); ok {
		return res.str(sel.X)
	}
	return ""
}

func c08Bookkeeping(r *Run, m *ServerModel) {
	type pair struct {
		method, book string
	}
	n := 0
	for _, pr := range []pair{{"RenameAt", "p9.fidRef.renameChildTo"}, {"UnlinkAt", "p9.fidRef.markChildDeleted"}} {
		for _, b := range m.Backend {
			if b.Method != pr.method || b.Outer != nil {
				continue
			}
			n++
			root := b.Site.Root
			key := b.Key()
			sites := m.callsIn(root, pr.book)
			if len(sites) == 0 {
				r.fail("r1", key+" → bookkeeping", b.Site.Call.Pos(), "the handler calls File.%s but never %s: fids at or below the entry are not updated", pr.method, pr.book)
				continue
			}
			for _, s := range sites {
				bkey := fmt.Sprintf("%s → %s", key, strings.TrimPrefix(pr.book, "p9.fidRef."))
				// (i) success side
				if !m.succeededAt(s.St, b.Site) {
					r.fail("r1", bkey+": on success only", s.Call.Pos(), "%s is not dominated by a successful File.%s: the path tree would be changed although the backend refused (or before it was asked)", strings.TrimPrefix(pr.book, "p9.fidRef."), pr.method)
				} else {
					r.ok("r1", bkey+": on success only", s.Call.Pos(), "dominated by File.%s == nil", pr.method)
				}
				// (ii) same values
				var diffs []string
				if got := s.recvStr(); got != b.Base {
					diffs = append(diffs, fmt.Sprintf("bookkeeping on %s, backend call on %s", got, b.Base))
				}
				if pr.method == "RenameAt" && len(s.Call.Args) == 3 && len(b.ArgStrs) == 3 {
					if a := s.arg(0); a != b.ArgStrs[0] {
						diffs = append(diffs, fmt.Sprintf("old name %s vs %s", a, b.ArgStrs[0]))
					}
					if a := s.arg(1) + ".file"; a != b.ArgStrs[1] {
						diffs = append(diffs, fmt.Sprintf("target %s vs %s", a, b.ArgStrs[1]))
					}
					if a := s.arg(2); a != b.ArgStrs[2] {
						diffs = append(diffs, fmt.Sprintf("new name %s vs %s", a, b.ArgStrs[2]))
					}
				}
				if pr.method == "UnlinkAt" && len(s.Call.Args) == 1 {
					if a := s.arg(0); a != b.ArgStrs[0] {
						diffs = append(diffs, fmt.Sprintf("name %s vs %s", a, b.ArgStrs[0]))
					}
				}
				r.check(len(diffs) == 0, "r1", bkey+": same values", s.Call.Pos(), "same directory and names as the backend call", "bookkeeping does not mirror the backend call: "+strings.Join(diffs, "; "))
			}
			// (iii) no successful exit after the backend call without the bookkeeping call
			for _, ex := range m.DB.Exits[root] {
				if ex.St.Dead || ex.Ret == nil || !m.succeededAt(ex.St, b.Site) {
					continue
				}
				if !ex.St.Must[pr.book] {
					r.fail("r1", key+" → bookkeeping on every successful exit", ex.Ret.Pos(), "an exit after a successful File.%s skips %s", pr.method, pr.book)
				}
			}
		}
	}
	r.floor("r1", "RenameAt/UnlinkAt call sites", n, 4)
	// Who may call: the bookkeeping functions have no other callers than these handlers (and each other).
	for _, k := range []string{"p9.fidRef.renameChildTo", "p9.fidRef.markChildDeleted"} {
		for _, s := range m.contextSites(k) {
			okCaller := strings.HasSuffix(s.Root.Key, ".handle") || s.Root.Key == "p9.fidRef.renameChildTo"
			r.check(okCaller, "r1", s.Root.Key+" may call "+strings.TrimPrefix(k, "p9.fidRef."), s.Call.Pos(), "called from a rename/unlink handler", "path-tree bookkeeping is invoked from an unexpected place")
		}
	}
}

func c08CurrentName(r *Run, m *ServerModel) {
	n := 0
	for _, hk := range []string{"tremove.handle", "trename.handle"} {
		fi := r.mustFunc("r2", "p9", hk)
		if fi == nil {
			continue
		}
		_ = m.resolver(fi)
		h := m.handlerInfo(fi)
		sites := m.callsIn(fi, "p9.pathNode.nameFor")
		if len(sites) == 0 {
			r.fail("r2", "p9."+hk+": current name", fi.Decl.Pos(), "the handler does not obtain the entry's current name with nameFor")
			continue
		}
		for _, s := range sites {
			n++
			// rendered in the frame the call runs in (the callback may be a method handed over
			// by value: its receiver is the handler's reference)
			recv := h.canonKey(s.recvStr())
			arg := h.canonKey(s.arg(0))
			okShape := recv == "$fid.parent.pathNode" && arg == "$fid"
			okLock := s.St.Locks[tokRenameW]
			r.check(okShape && okLock, "r2", "p9."+hk+": current name", s.Call.Pos(), "name = "+recv+".nameFor("+arg+") under renameMu:W",
				fmt.Sprintf("name is %s.nameFor(%s) evaluated under %s; it must be the current parent's name for the fid, read while renames are excluded", recv, arg, describeSet(s.St.Locks)))
		}
	}
	r.floor("r2", "nameFor sites in Trename/Tremove", n, 2)
}

// eventOrder returns the positions of the first call of each key inside fi (lexical order).
func firstCall(m *ServerModel, fi *FuncInfo, key string) *Site {
	var best *Site
	for _, s := range m.DB.Calls[key] {
		if s.Root == fi && (best == nil || s.Call.Pos() < best.Call.Pos()) {
			best = s
		}
	}
	return best
}

func c08Shapes(r *Run, m *ServerModel) {
	info := m.Info
	// --- renameChildTo ---
	if fi := r.mustFunc("r3", "p9", "fidRef.renameChildTo"); fi != nil {
		res := m.resolver(fi)
		recv := fi.Decl.Recv.List[0].Names[0].Name
		params := []string{}
		for _, f := range fi.Decl.Type.Params.List {
			for _, nm := range f.Names {
				params = append(params, nm.Name)
			}
		}
		if len(params) != 3 {
			r.undecided("r3", "renameChildTo", fi.Decl.Pos(), "unexpected signature")
		} else {
			oldName, target, newName := params[0], params[1], params[2]
			want := func(cond bool, what, okD, badD string, pos token.Pos) {
				r.check(cond, "r3", "renameChildTo: "+what, pos, okD, badD)
			}
			// fence the overwritten target first
			mcd := firstCall(m, fi, "p9.fidRef.markChildDeleted")
			rwn := firstCall(m, fi, "p9.pathNode.removeWithName")
			want(mcd != nil && rwn != nil && mcd.Call.Pos() < rwn.Call.Pos() && recvStr(res, mcd.Call) == target && res.str(mcd.Call.Args[0]) == newName,
				"overwritten target fenced first", target+".markChildDeleted("+newName+") precedes the move", "the entry overwritten by the rename is not fenced (target.markChildDeleted(newName)) before references are moved", fi.Decl.Pos())
			want(rwn != nil && recvStr(res, rwn.Call) == recv+".pathNode" && res.str(rwn.Call.Args[0]) == oldName,
				"detach under the old name", recv+".pathNode.removeWithName("+oldName+", …)", "references are not detached from the source directory's node under the old name", fi.Decl.Pos())
			// callback contents
			var lit *ast.FuncLit
			if rwn != nil && len(rwn.Call.Args) == 2 {
				lit, _ = unparen(rwn.Call.Args[1]).(*ast.FuncLit)
			}
			if lit == nil {
				r.undecided("r3", "renameChildTo: callback", fi.Decl.Pos(), "removeWithName is not given a function literal")
			} else {
				cbRef := ""
				if len(lit.Type.Params.List) == 1 && len(lit.Type.Params.List[0].Names) == 1 {
					cbRef = lit.Type.Params.List[0].Names[0].Name
				}
				var decPos, incPos, setPos, addPos, renPos token.Pos
				addOK, renOK, setOK := false, false, false
				ast.Inspect(lit.Body, func(n ast.Node) bool {
					switch v := n.(type) {
					case *ast.AssignStmt:
						if len(v.Lhs) == 1 && res.str(v.Lhs[0]) == cbRef+".parent" && res.str(v.Rhs[0]) == target {
							setPos, setOK = v.Pos(), true
						}
					case *ast.CallExpr:
						k := calleeKey(info, v)
						switch k {
						case "p9.fidRef.DecRef":
							if recvStr(res, v) == cbRef+".parent" && decPos == 0 {
								decPos = v.Pos()
							}
						case "p9.fidRef.IncRef":
							if rs := recvStr(res, v); rs == cbRef+".parent" || rs == target {
								incPos = v.Pos()
							}
						case "p9.pathNode.addChild", "p9.pathNode.addChildLocked":
							if recvStr(res, v) == target+".pathNode" && res.str(v.Args[0]) == cbRef && res.str(v.Args[1]) == newName {
								addOK = true
							} else {
								addOK = false
								addPos = v.Pos()
							}
						case "p9.File.Renamed":
							renPos = v.Pos()
							renOK = recvStr(res, v) == cbRef+".file" && res.str(v.Args[0]) == target+".file" && res.str(v.Args[1]) == newName
						}
					}
					return true
				})
				// ... on every path through the callback (a fast path that only re-points parent
				// leaves the child without a reference on its new parent)
				onEvery := false
				for _, ex := range m.DB.Exits[fi] {
					if ex.Fn != ast.Node(lit) || ex.St.Dead {
						continue
					}
					onEvery = true
					if !ex.St.Must["p9.fidRef.DecRef"] || !ex.St.Must["p9.fidRef.IncRef"] {
						onEvery = false
						break
					}
				}
				want(decPos != 0 && setOK && incPos != 0 && decPos < setPos && setPos < incPos && onEvery, "parent reference handed over",
					"old parent released, parent = target, new parent acquired (in this order)", "a moved reference does not release its old parent, point to the target and acquire it (in this order): parent reference counts go wrong", lit.Pos())
				want(addOK && addPos == 0, "re-registered under the new name", target+".pathNode.addChild[Locked]("+cbRef+", "+newName+")", "a moved reference is not registered in the target directory's node under the new name", lit.Pos())
				want(renOK, "backend told", cbRef+".file.Renamed("+target+".file, "+newName+")", "the moved File is not told its new parent and name with Renamed(target.file, newName)", func() token.Pos {
					if renPos != 0 {
						return renPos
					}
					return lit.Pos()
				}())
			}
			// subtree
			apn := firstCall(m, fi, "p9.pathNode.addPathNodeFor")
			nnc := firstCall(m, fi, "p9.notifyNameChange")
			origVar := ""
			if rwn != nil {
				if as, ok := r.L.parent(rwn.Call).(*ast.AssignStmt); ok && len(as.Lhs) == 1 {
					origVar = r.L.str(as.Lhs[0])
				}
			}
			okAttach := apn != nil && recvStr(res, apn.Call) == target+".pathNode" && r.L.str(apn.Call.Args[0]) == newName && r.L.str(apn.Call.Args[1]) == origVar && apn.St.holds(origVar+" == nil", false)
			if apn == nil {
				// the same store written in place: target.pathNode.childNodes[newName] = orig,
				// when a subtree existed, under the target node's childMu
				ast.Inspect(fi.Decl.Body, func(n ast.Node) bool {
					as, ok := n.(*ast.AssignStmt)
					if !ok || len(as.Lhs) != 1 || len(as.Rhs) != 1 || as.Tok != token.ASSIGN {
						return true
					}
					ix, ok := unparen(as.Lhs[0]).(*ast.IndexExpr)
					if !ok || res.str(ix.X) != target+".pathNode.childNodes" || res.str(ix.Index) != newName || res.str(as.Rhs[0]) != origVar {
						return true
					}
					st := m.DB.Exprs[ix]
					if st != nil && st.holds(origVar+" == nil", false) && st.Locks[lockToken("p9.pathNode.childMu", "W", target+".pathNode")] {
						okAttach = true
					}
					return true
				})
			}
			want(okAttach,
				"subtree re-attached at the target", target+".pathNode.addPathNodeFor("+newName+", "+origVar+") when a subtree existed", "the detached path node (with its deletion fence and children) is not re-attached under the target directory's node with the new name", func() token.Pos {
					if apn != nil {
						return apn.Call.Pos()
					}
					return fi.Decl.Pos()
				}())
			want(nnc != nil && r.L.str(nnc.Call.Args[0]) == origVar, "subtree notified", "notifyNameChange("+origVar+")", "files below the renamed entry are not notified (notifyNameChange on the moved node)", fi.Decl.Pos())
		}
	}
	// --- a rename of an entry onto itself never reaches the bookkeeping (renameChildTo would
	// fence the entry as "overwritten" and unregister every reference below it) ---
	nSelf := 0
	for _, s := range m.contextSites("p9.fidRef.renameChildTo") {
		if s.St.Dead || len(s.Call.Args) != 3 {
			continue
		}
		nSelf++
		src := recvStr(s.Res, s.Call)
		oldN, tgt, newN := s.arg(0), s.arg(1), s.arg(2)
		sameDir := [2]string{src + ".pathNode == " + tgt + ".pathNode", tgt + ".pathNode == " + src + ".pathNode"}
		sameName := [2]string{oldN + " == " + newN, newN + " == " + oldN}
		okAll := len(s.St.Paths) > 0
		for _, p := range s.St.Paths {
			ref := false
			for _, k := range append(sameDir[:], sameName[:]...) {
				if v, ok := p[k]; ok && !v {
					ref = true
				}
			}
			if !ref {
				okAll = false
			}
		}
		r.check(okAll, "r3", s.Root.Key+": a rename onto itself is short-circuited", s.Call.Pos(), "on every path to renameChildTo the directories' path nodes differ or the names differ",
			"renameChildTo("+oldN+", "+tgt+", "+newN+") is reachable when "+src+" and "+tgt+" are the same directory node and the names are equal (the test must compare path nodes, not fid numbers): the entry itself would be fenced as deleted and all references below it unregistered although nothing was removed")
	}
	r.floor("r3", "callers of renameChildTo", nSelf, 2)

	// --- notifyNameChange / notifyDelete: recursion through both iterators ---
	if fi := r.mustFunc("r3", "p9", "notifyNameChange"); fi != nil {
		res := m.resolver(fi)
		pn := fi.Decl.Type.Params.List[0].Names[0].Name
		refs := firstCall(m, fi, "p9.pathNode.forEachChildRef")
		nodes := firstCall(m, fi, "p9.pathNode.forEachChildNode")
		okRefs := refs != nil && recvStr(res, refs.Call) == pn
		okRen := false
		if okRefs {
			if lit, ok := unparen(refs.Call.Args[0]).(*ast.FuncLit); ok && len(lit.Type.Params.List) >= 1 {
				var names []string
				for _, f := range lit.Type.Params.List {
					for _, nm := range f.Names {
						names = append(names, nm.Name)
					}
				}
				ast.Inspect(lit.Body, func(n ast.Node) bool {
					if c, ok := n.(*ast.CallExpr); ok && calleeKey(info, c) == "p9.File.Renamed" && len(names) == 2 {
						okRen = recvStr(res, c) == names[0]+".file" && res.str(c.Args[0]) == names[0]+".parent.file" && res.str(c.Args[1]) == names[1]
					}
					return true
				})
			}
		}
		r.check(okRefs && okRen, "r3", "notifyNameChange: every child reference told", fi.Decl.Pos(), "forEachChildRef → ref.file.Renamed(ref.parent.file, name)", "child references are not each told Renamed(parent file, their name)")
		// parents before children: a File derives its new path from its parent's at the moment
		// it is told (localfs: path = Join(parent.path, name)), so the references of a node are
		// told before the notification descends
		okOrder := refs != nil && nodes != nil && nodes.St.Must["p9.pathNode.forEachChildRef"]
		r.check(okOrder, "r3", "notifyNameChange: a node's references are told before its subtrees", fi.Decl.Pos(), "forEachChildRef precedes forEachChildNode",
			"the notification descends into child nodes before the references of the node itself are told: Files two or more levels below the renamed entry compute their new path from a parent that still has its old one")
		r.check(nodes != nil && recvStr(res, nodes.Call) == pn && recursesOnCallbackArg(info, nodes.Call, fi.Obj), "r3", "notifyNameChange: recursion into child nodes", fi.Decl.Pos(), "forEachChildNode → notifyNameChange(child)", "the notification does not recurse into every child node: deeper descendants keep stale paths")
	}
	if fi := r.mustFunc("r3", "p9", "notifyDelete"); fi != nil {
		res := m.resolver(fi)
		pn := fi.Decl.Type.Params.List[0].Names[0].Name
		marks := false
		ast.Inspect(fi.Decl.Body, func(n ast.Node) bool {
			if c, ok := n.(*ast.CallExpr); ok {
				if x, isOp := deletedFlagOp(r.L, info, res, c, true, 0); isOp && x == pn {
					marks = true
				}
			}
			return true
		})
		nodes := firstCall(m, fi, "p9.pathNode.forEachChildNode")
		r.check(marks, "r3", "notifyDelete: marks the node", fi.Decl.Pos(), "atomic store deleted = 1", "the node is not marked deleted")
		r.check(nodes != nil && recvStr(res, nodes.Call) == pn && recursesOnCallbackArg(info, nodes.Call, fi.Obj), "r3", "notifyDelete: recursion into child nodes", fi.Decl.Pos(), "forEachChildNode → notifyDelete(child)", "deletion is not propagated to every child node: fids below an unlinked directory stay unfenced")
	}
	if fi := r.mustFunc("r3", "p9", "fidRef.markChildDeleted"); fi != nil {
		res := m.resolver(fi)
		recv := fi.Decl.Recv.List[0].Names[0].Name
		name := fi.Decl.Type.Params.List[0].Names[0].Name
		rwn := firstCall(m, fi, "p9.pathNode.removeWithName")
		nd := firstCall(m, fi, "p9.notifyDelete")
		okR := rwn != nil && recvStr(res, rwn.Call) == recv+".pathNode" && res.str(rwn.Call.Args[0]) == name
		okN := false
		if nd != nil && rwn != nil {
			// notifyDelete(origPathNode) where origPathNode is removeWithName's result and != nil
			arg := r.L.str(nd.Call.Args[0])
			okN = nd.St.holds(arg+" == nil", false) || nd.St.holds(res.str(nd.Call.Args[0])+" == nil", false)
		}
		r.check(okR && okN, "r3", "markChildDeleted", fi.Decl.Pos(), "detaches the name from this node and marks the detached subtree deleted", "markChildDeleted does not detach the name from the directory's node and mark the detached subtree deleted")
	}
	// isDeleted reads the flag of the reference's own node atomically.
	if fi := r.mustFunc("r3", "p9", "fidRef.isDeleted"); fi != nil {
		okRead := false
		res := m.resolver(fi)
		recv := fi.Decl.Recv.List[0].Names[0].Name
		ast.Inspect(fi.Decl.Body, func(n ast.Node) bool {
			if c, ok := n.(*ast.CallExpr); ok {
				if x, isOp := deletedFlagOp(r.L, info, res, c, false, 0); isOp && x == recv+".pathNode" {
					okRead = true
				}
			}
			return true
		})
		r.check(okRead, "r3", "isDeleted reads the shared node's flag", fi.Decl.Pos(), "atomic load of pathNode.deleted", "isDeleted does not read pathNode.deleted of the reference's own node")
	}
}

// recursesOnCallbackArg: call's literal argument calls fn with the literal's own parameter.
func recursesOnCallbackArg(info *types.Info, call *ast.CallExpr, fn *types.Func) bool {
	if len(call.Args) != 1 {
		return false
	}
	if callee(info, &ast.CallExpr{Fun: call.Args[0]}) == fn {
		return true // the function itself is the callback
	}
	lit, ok := unparen(call.Args[0]).(*ast.FuncLit)
	if !ok || len(lit.Type.Params.List) != 1 || len(lit.Type.Params.List[0].Names) != 1 {
		return false
	}
	param := info.Defs[lit.Type.Params.List[0].Names[0]]
	found := false
	ast.Inspect(lit.Body, func(n ast.Node) bool {
		if c, ok := n.(*ast.CallExpr); ok && callee(info, c) == fn && len(c.Args) == 1 && objOf(info, c.Args[0]) == param {
			found = true
		}
		return true
	})
	return found
}

// Fencing table: handler -> backend method -> fid fields that must be checked with isDeleted → EINVAL.
var c08Fenced = map[string]map[string][]string{
	"p9.tlopen.handle":     {"Open": {"fid"}},
	"p9.tlcreate.do":       {"Create": {"fid"}},
	"p9.tsymlink.do":       {"Symlink": {"Directory"}},
	"p9.tlink.handle":      {"Link": {"Directory"}},
	"p9.tmknod.do":         {"Mknod": {"Directory"}},
	"p9.tmkdir.do":         {"Mkdir": {"Directory"}},
	"p9.tunlinkat.handle":  {"UnlinkAt": {"Directory"}},
	"p9.trenameat.handle":  {"RenameAt": {"OldDirectory", "NewDirectory"}},
	"p9.trename.handle":    {"RenameAt": {"fid", "Directory"}},
	"p9.tremove.handle":    {"UnlinkAt": {"fid"}},
	"p9.treadlink.handle":  {"Readlink": {"fid"}},
	"p9.treaddir.handle":   {"Readdir": {"Directory"}},
	"p9.tsetattr.handle":   {"SetAttr": {"fid"}},
	"p9.txattrwalk.handle": {"GetXattr": {"fid"}, "ListXattrs": {"fid"}},
}

// Handlers that must NOT fence (I/O on open fids and getattr continue after unlink).
var c08Unfenced = map[string]string{
	"p9.tread.handle": "ReadAt", "p9.twrite.handle": "WriteAt", "p9.tfsync.handle": "FSync", "p9.tgetattr.handle": "GetAttr",
}

func c08Fencing(r *Run, m *ServerModel) {
	n := 0
	for _, b := range m.Backend {
		// (a call made for the handler by a helper that is handed the File is judged by what
		// the handler has established when it calls the helper)
		root, st, pos := b.Site.Root, b.Site.St, b.Site.Call.Pos()
		if b.Outer != nil {
			root, st, pos = b.Outer.Root, b.Outer.St, b.Outer.Call.Pos()
			if _, tabled := c08Fenced[root.Key][b.Method]; !tabled {
				continue
			}
		}
		h := m.handlerInfo(root)
		if fields, ok := c08Fenced[root.Key][b.Method]; ok {
			for _, f := range fields {
				n++
				g := Guard{"deleted " + f, []Lit{L(true, "$"+f+".isDeleted()")}, 22}
				ok, detail := m.checkGuard(h, st, g, m.exitsDeep(root))
				key := fmt.Sprintf("%s: fenced on %s", b.Key(), f)
				if ok {
					r.ok("r4", key, pos, "%s", detail)
				} else {
					r.fail("r4", key, pos, "%s", detail)
				}
			}
		}
		if b.Outer != nil {
			continue
		}
		if meth, ok := c08Unfenced[root.Key]; ok && meth == b.Method {
			n++
			fenced := false
			for _, p := range b.Site.St.Paths {
				for k := range p {
					if strings.Contains(k, ".isDeleted()") {
						fenced = true
					}
				}
			}
			r.check(!fenced, "r4", b.Key()+": not fenced", b.Site.Call.Pos(), "I/O and getattr on a fid continue after its path was unlinked", "the call is now conditioned on isDeleted: I/O on already-open fids and getattr must continue after unlink")
		}
	}
	// Missing sites.
	for hk, byM := range c08Fenced {
		fi := r.L.decls[hk]
		for meth := range byM {
			found := false
			for _, b := range m.Backend {
				if fi != nil && b.Method == meth && (b.Outer == nil && b.Site.Root == fi || b.Outer != nil && b.Outer.Root == fi) {
					found = true
				}
			}
			if !found {
				r.undecided("r4", hk+" → File."+meth, token.NoPos, "call site not found: the fencing table cannot be evaluated")
			}
		}
	}
	// txattrcreate: the state change (pendingXattr store) is fenced.
	if fi := r.mustFunc("r4", "p9", "txattrcreate.handle"); fi != nil {
		h := m.handlerInfo(fi)
		found := false
		for _, fa := range m.fields() {
			if fa.Root != fi || !fa.Write || fa.Key != "p9.fidRef.pendingXattr" {
				continue
			}
			found = true
			n++
			g := Guard{"deleted fid", []Lit{L(true, "$fid.isDeleted()")}, 22}
			ok, detail := m.checkGuard(h, fa.St, g, m.exitsDeep(fi))
			if ok {
				r.ok("r4", "p9.txattrcreate.handle: fenced", fa.Sel.Pos(), "%s", detail)
			} else {
				r.fail("r4", "p9.txattrcreate.handle: fenced", fa.Sel.Pos(), "%s", detail)
			}
		}
		if !found {
			r.undecided("r4", "p9.txattrcreate.handle: fenced", fi.Decl.Pos(), "store to pendingXattr not found")
		}
	}
	// walk steps: deleted → ENOENT inside the same lock region as the backend walk.
	dw := r.L.Func("p9", "doWalk")
	if dw != nil {
		h := &HandlerInfo{Fi: dw, Lookups: map[string]string{}}
		for _, b := range m.Backend {
			if b.Outer == nil || b.Outer.Root != dw || isNilIdent(m.Info, unparen(b.Args[0])) {
				continue
			}
			n++
			g := Guard{"walk from a deleted directory", []Lit{L(true, b.Base+".isDeleted()")}, 2}
			ok, detail := m.checkGuard(h, b.Outer.St, g, m.exitsDeep(dw))
			// same region: the isDeleted call and the walk are in the same literal
			same := false
			for _, s := range m.contextSites("p9.fidRef.isDeleted") {
				if _, isLit := s.Fn.(*ast.FuncLit); s.Root == dw && s.Fn == b.Outer.Fn && isLit {
					same = true
				}
			}
			key := b.Key() + ": fenced with ENOENT"
			if ok && same {
				r.ok("r4", key, b.Outer.Call.Pos(), "%s; test and walk share one lock region", detail)
			} else if ok {
				r.fail("r4", key, b.Outer.Call.Pos(), "the deletion test is not in the same lock region as the backend walk: an unlink could slip in between")
			} else {
				r.fail("r4", key, b.Outer.Call.Pos(), "%s", detail)
			}
		}
	}
	r.floor("r4", "fencing obligations", n, 22)
}

func c08Maps(r *Run, m *ServerModel) {
	info := m.Info
	n := 0
	// A pathNode method that only other pathNode methods call (a private helper doing part of
	// an update) is judged as part of its callers: their updates include the helper's.
	isNodeMethod := func(fi *FuncInfo) bool {
		return fi.Decl.Body != nil && fi.Decl.Recv != nil && strings.HasPrefix(fi.Key, "p9.pathNode.")
	}
	partOfCallers := func(fi *FuncInfo) bool {
		sites := m.DB.Calls[fi.Key]
		if len(sites) == 0 || fi.Obj.Exported() || m.valueUses(fi) > 0 {
			return false
		}
		for _, s := range sites {
			if !isNodeMethod(s.Root) || s.Root == fi {
				return false
			}
		}
		return true
	}
	var calleesOf func(fi *FuncInfo, depth int) []*FuncInfo
	calleesOf = func(fi *FuncInfo, depth int) []*FuncInfo {
		var out []*FuncInfo
		if depth > 3 {
			return out
		}
		for _, s := range m.DB.ByFunc[fi] {
			if tf := r.L.FuncOf(callee(info, s.Call)); tf != nil && tf != fi && isNodeMethod(tf) && partOfCallers(tf) {
				out = append(out, tf)
				out = append(out, calleesOf(tf, depth+1)...)
			}
		}
		return out
	}
	for _, fi := range r.L.funcsOfPkg("p9") {
		if !isNodeMethod(fi) || partOfCallers(fi) {
			continue
		}
		res := m.resolver(fi)
		ops := map[string]map[string]bool{} // map name -> {insert, delete}
		var pos token.Pos
		record := func(target ast.Expr, op string, p token.Pos) {
			s := res.str(target)
			for _, mp := range []string{"childRefs", "childRefNames", "childNodes"} {
				if strings.Contains(s, "."+mp) {
					// childRefs[name] (inner map) counts as childRefs
					if ops[mp] == nil {
						ops[mp] = map[string]bool{}
					}
					ops[mp][op] = true
					if pos == 0 {
						pos = p
					}
				}
			}
		}
		parts := append([]*FuncInfo{fi}, calleesOf(fi, 0)...)
		isPart := map[*FuncInfo]bool{}
		for _, part := range parts {
			isPart[part] = true
		}
		for _, part := range parts {
			res = m.resolver(part)
			ast.Inspect(part.Decl.Body, func(nd ast.Node) bool {
				switch v := nd.(type) {
				case *ast.AssignStmt:
					for _, l := range v.Lhs {
						if ix, ok := unparen(l).(*ast.IndexExpr); ok {
							record(ix.X, "insert", v.Pos())
						}
					}
				case *ast.CallExpr:
					if id, ok := v.Fun.(*ast.Ident); ok && id.Name == "delete" && len(v.Args) == 2 {
						if _, isB := info.Uses[id].(*types.Builtin); isB {
							record(v.Args[0], "delete", v.Pos())
						}
					}
				}
				return true
			})
		}
		if len(ops["childRefs"]) == 0 && len(ops["childRefNames"]) == 0 {
			continue
		}
		n++
		var diffs []string
		for _, op := range []string{"insert", "delete"} {
			if ops["childRefs"][op] != ops["childRefNames"][op] {
				diffs = append(diffs, fmt.Sprintf("%s on childRefs=%v but on childRefNames=%v", op, ops["childRefs"][op], ops["childRefNames"][op]))
			}
		}
		r.check(len(diffs) == 0, "r5", fi.Key+": maps updated together", pos, "childRefs and childRefNames receive the same kind of update", "the two reference maps go out of step: "+strings.Join(diffs, "; "))
		// under childMu:W — at the sites (via field accesses with Write or delete calls): use lock state of any site in fi
		okLock := true
		seen := false
		for _, fa := range m.fields() {
			if !isPart[fa.Root] || (fa.Key != "p9.pathNode.childRefs" && fa.Key != "p9.pathNode.childRefNames") {
				continue
			}
			seen = true
			held := false
			for t := range fa.St.Locks {
				if strings.HasPrefix(t, "p9.pathNode.childMu:W@") {
					held = true
				}
			}
			if !held {
				okLock = false
			}
		}
		if seen {
			r.check(okLock, "r5", fi.Key+": under childMu:W", pos, "every access in this mutator holds childMu for write (directly or through all callers)", "a mutator of the reference maps touches them without childMu:W")
		}
	}
	r.floor("r5", "path_tree functions mutating the reference maps", n, 3)
	// removeWithName also detaches the child node.
	if fi := r.mustFunc("r5", "p9", "pathNode.removeWithName"); fi != nil {
		det := false
		res := m.resolver(fi)
		ast.Inspect(fi.Decl.Body, func(nd ast.Node) bool {
			if c, ok := nd.(*ast.CallExpr); ok {
				if id, ok := c.Fun.(*ast.Ident); ok && id.Name == "delete" && len(c.Args) == 2 && strings.HasSuffix(res.str(c.Args[0]), ".childNodes") {
					det = true
				}
				// ... or a private method of the node that the pinned tree does not have does it
				// for the same name (p.removePathNodeLocked(name))
				if tf := r.L.FuncOf(callee(info, c)); tf != nil && tf != fi && tf.Decl.Body != nil && tf.Decl.Recv != nil && !tf.Obj.Exported() && !pinnedFuncs[tf.Key] && len(c.Args) == 1 && len(tf.Decl.Type.Params.List) == 1 && len(tf.Decl.Type.Params.List[0].Names) == 1 {
					if sel, isSel := unparen(c.Fun).(*ast.SelectorExpr); isSel && res.str(sel.X) == fi.Decl.Recv.List[0].Names[0].Name && res.str(c.Args[0]) == fi.Decl.Type.Params.List[0].Names[0].Name {
						tres := newResolver(r.L, info, tf.Decl)
						pn := tf.Decl.Type.Params.List[0].Names[0].Name
						ast.Inspect(tf.Decl.Body, func(n2 ast.Node) bool {
							if c2, ok := n2.(*ast.CallExpr); ok {
								if id, ok := c2.Fun.(*ast.Ident); ok && id.Name == "delete" && len(c2.Args) == 2 && strings.HasSuffix(tres.str(c2.Args[0]), ".childNodes") && tres.str(c2.Args[1]) == pn {
									det = true
								}
							}
							return true
						})
					}
				}
			}
			return true
		})
		r.check(det, "r5", "removeWithName detaches the child node", fi.Decl.Pos(), "delete(p.childNodes, name)", "the child node stays attached under the old name: a new file of the same name would share the deleted node")
	}
	// clone of a deleted reference is not registered.
	if dw := r.L.Func("p9", "doWalk"); dw != nil {
		for _, s := range m.callsIn(dw, "p9.pathNode.addChild") {
			recv := s.recvStr()
			if !strings.HasSuffix(recv, ".parent.pathNode") {
				continue
			}
			arg := s.arg(0)
			ok := s.St.holds(arg+".isDeleted()", false)
			r.check(ok, "r5", "doWalk: clone of a deleted reference is not registered", s.Call.Pos(), "addChild is guarded by !"+arg+".isDeleted()", "a clone of a deleted reference is registered in its parent's node: it would be treated as a live entry of that name")
		}
	}
}

func c08Registration(r *Run, m *ServerModel) {
	info := m.Info
	fidRefT := r.L.namedType("p9", "fidRef")
	n := 0
	for _, fi := range r.L.funcsOfPkg("p9") {
		if fi.Decl.Body == nil {
			continue
		}
		res := m.resolver(fi)
		idx := 0
		ast.Inspect(fi.Decl.Body, func(nd ast.Node) bool {
			cl, ok := nd.(*ast.CompositeLit)
			if !ok || !types.Identical(info.TypeOf(cl), fidRefT) {
				return true
			}
			idx++
			fields := map[string]ast.Expr{}
			for _, el := range cl.Elts {
				if kv, ok := el.(*ast.KeyValueExpr); ok {
					fields[kv.Key.(*ast.Ident).Name] = kv.Value
				}
			}
			p, has := fields["parent"]
			if !has || isNilIdent(info, unparen(p)) {
				return true
			}
			n++
			parent := res.str(p)
			key := fmt.Sprintf("%s: fidRef literal #%d registered", fi.Key, idx)
			// variable the literal is assigned to
			litVar := ""
			var litObj types.Object
			if u, ok := r.L.parent(cl).(*ast.UnaryExpr); ok {
				if as, ok := r.L.parent(u).(*ast.AssignStmt); ok && len(as.Lhs) == 1 {
					litVar = r.L.str(as.Lhs[0])
					litObj = objOf(info, as.Lhs[0])
				}
			}
			name := ""
			if pn, ok := fields["pathNode"]; ok {
				s := res.str(pn)
				if i := strings.Index(s, ".pathNodeFor("); i >= 0 {
					name = strings.TrimSuffix(s[i+len(".pathNodeFor("):], ")")
				}
			}
			found := false
			for _, s := range m.callsIn(fi, "p9.pathNode.addChild") {
				if litObj == nil || objOf(info, s.Call.Args[0]) != litObj {
					continue
				}
				found = true
				recv := recvStr(res, s.Call)
				gotName := res.str(s.Call.Args[1])
				okRecv := recv == parent+".pathNode"
				okName := name == "" || gotName == name
				r.check(okRecv && okName, "r6", key, s.Call.Pos(), fmt.Sprintf("%s.addChild(%s, %s)", recv, litVar, gotName),
					fmt.Sprintf("literal with parent %s and node name %q is registered as %s.addChild(%s, %s)", parent, name, recv, litVar, gotName))
			}
			if !found {
				r.fail("r6", key, cl.Pos(), "a reference with parent %s is never registered with addChild: renames and unlinks of its path would not reach it", parent)
			}
			return true
		})
	}
	r.floor("r6", "reference literals with a parent", n, 3)
	_ = sort.Strings
}

// deletedFlagOp: call stores a non-zero value into (store) or loads (otherwise) the deleted
// flag of a path node, atomically: atomic.StoreUint32(&X.deleted, 1) / atomic.LoadUint32(
// &X.deleted), the typed form X.deleted.Store(...) / X.deleted.Load(), or a private method of
// the node that the pinned tree does not have and that does exactly that on its receiver
// (pn.markDeleted(), f.pathNode.isDeleted()).  X is returned as rendered by res.
func deletedFlagOp(l *Loaded, info *types.Info, res *resolver, c *ast.CallExpr, store bool, depth int) (string, bool) {
	k := calleeKey(info, c)
	switch {
	case store && k == "sync/atomic.StoreUint32" && len(c.Args) == 2:
		if v, ok := constInt(info, c.Args[1]); ok && v != 0 {
			if t := res.str(c.Args[0]); strings.HasPrefix(t, "&") && strings.HasSuffix(t, ".deleted") {
				return strings.TrimSuffix(strings.TrimPrefix(t, "&"), ".deleted"), true
			}
		}
		return "", false
	case !store && k == "sync/atomic.LoadUint32" && len(c.Args) == 1:
		if t := res.str(c.Args[0]); strings.HasPrefix(t, "&") && strings.HasSuffix(t, ".deleted") {
			return strings.TrimSuffix(strings.TrimPrefix(t, "&"), ".deleted"), true
		}
		return "", false
	}
	sel, ok := unparen(c.Fun).(*ast.SelectorExpr)
	if !ok {
		return "", false
	}
	// typed atomic field
	if strings.HasPrefix(k, "sync/atomic.") && (store && sel.Sel.Name == "Store" || !store && sel.Sel.Name == "Load") {
		if t := res.str(sel.X); strings.HasSuffix(t, ".deleted") {
			if store && len(c.Args) == 1 {
				if v, isC := constInt(info, c.Args[0]); isC && v == 0 {
					return "", false
				}
				if tv := constValue(info, c.Args[0]); tv != nil && tv.String() == "false" {
					return "", false
				}
			}
			return strings.TrimSuffix(t, ".deleted"), true
		}
		return "", false
	}
	// a new private method of the node
	tf := l.FuncOf(callee(info, c))
	if depth > 0 || tf == nil || tf.Decl.Body == nil || tf.Decl.Recv == nil || len(tf.Decl.Recv.List[0].Names) != 1 || tf.Obj.Exported() || pinnedFuncs[tf.Key] || len(c.Args) != 0 {
		return "", false
	}
	rn := tf.Decl.Recv.List[0].Names[0].Name
	tres := newResolver(l, info, tf.Decl)
	found, other := false, 0
	ast.Inspect(tf.Decl.Body, func(n ast.Node) bool {
		if cc, isCall := n.(*ast.CallExpr); isCall {
			if x, isOp := deletedFlagOp(l, info, tres, cc, store, depth+1); isOp && x == rn {
				found = true
			} else if store {
				other++ // a marking helper does nothing else
			}
		}
		return true
	})
	if !found || store && other > 0 {
		return "", false
	}
	return res.str(sel.X), true
}
