package main

// Generic forward dataflow over go/cfg graphs with closure inlining for the
// repository's wrapper functions (safelyRead/Write/Global, forEachChildRef/Node,
// removeWithName): a function literal passed to a wrapper is analysed at the
// call, starting from the state at the call (plus whatever the wrapper adds,
// e.g. the locks it takes), and the states at its exits are classified by the
// nil-ness of the error they return so that the caller's "if err != nil" test
// selects the matching continuation.

import (
	"fmt"
	"go/ast"
	"go/token"
	"go/types"
	"sort"
	"strings"

	"golang.org/x/tools/go/cfg"
)

// Wrapper describes a function that calls its function-typed parameter.
type Wrapper struct {
	Fn        *types.Func
	Key       string
	ParamIdx  int  // index of the function-typed parameter
	Once      bool // called exactly once on every path (else: 0..n times)
	PassesErr bool // the wrapper returns the callback's result
}

// Analysis is the client side of the engine.
type Analysis[S any] struct {
	L     *Loaded
	Info  *types.Info
	Join  func(a, b S) S
	Equal func(a, b S) bool
	Copy  func(a S) S
	// Stmt is the transfer function of one CFG node (a statement or a condition expression).
	Stmt func(s S, n ast.Node, fc *FlowCtx[S]) S
	// Cond refines the state along a conditional edge (optional).
	Cond func(s S, cond ast.Expr, branch bool, fc *FlowCtx[S]) S
	// WrapEnter / WrapExit bracket an inlined closure (optional).
	WrapEnter func(s S, call *ast.CallExpr, w *Wrapper, fc *FlowCtx[S]) S
	WrapExit  func(s S, call *ast.CallExpr, w *Wrapper, fc *FlowCtx[S]) S
	// Exit is called for every function exit (return statement or fall-off) in the final pass.
	Exit func(s S, ret *ast.ReturnStmt, fc *FlowCtx[S])
	// Visit is called for every node in the final pass with the state before it.
	Visit func(s S, n ast.Node, fc *FlowCtx[S])
	// Wrappers known to the analysis.
	Wrappers map[*types.Func]*Wrapper
	// Inline (optional) decides whether a call to a declared function is analysed in place:
	// it returns the declaration to descend into, or nil.  InlEnter / InlExit bracket the
	// inlined body (sub is the context of the callee's body, fc the caller's).
	// Key (optional) renders a state canonically; with it the non-final analyses of inlined
	// callees are memoised per (call chain, entry state).
	Key    func(s S) string
	memo   map[string][]exitInfo[S]
	Inline func(call *ast.CallExpr, fc *FlowCtx[S]) *ast.FuncDecl
	// ExitPerClass: see runBlock (Exit is called once per result class of a returned callee).
	ExitPerClass bool
	InlEnter     func(s S, call *ast.CallExpr, sub, fc *FlowCtx[S]) S
	InlExit      func(s S, call *ast.CallExpr, sub, fc *FlowCtx[S]) S
	// InlDone (optional) post-processes the joined state after an inlined call (all exits,
	// and the nil / non-nil error continuations).
	InlDone func(s S, call *ast.CallExpr, sub, fc *FlowCtx[S]) S
}

// FlowCtx identifies the function (declaration or literal) being analysed.
type FlowCtx[S any] struct {
	A      *Analysis[S]
	Fn     ast.Node // *ast.FuncDecl or *ast.FuncLit
	Parent *FlowCtx[S]
	Call   *ast.CallExpr // wrapper call through which a literal is entered
	W      *Wrapper
	Inl    *ast.FuncDecl // non-nil: this context is the body of a declared function inlined at Call
	final  bool
	Nil    nilMap // nil-ness facts at the current point (read-only for clients)
}

// Depth-first name of the context for reports.
func (fc *FlowCtx[S]) Root() ast.Node {
	for fc.Parent != nil {
		fc = fc.Parent
	}
	return fc.Fn
}

type nilState int8

const (
	nilUnknown nilState = iota
	isNil
	nonNil
)

type nilMap map[types.Object]nilState

func (m nilMap) copy() nilMap {
	o := make(nilMap, len(m))
	for k, v := range m {
		o[k] = v
	}
	return o
}

func nilsKey(m nilMap) string {
	var ks []string
	for o, v := range m {
		ks = append(ks, fmt.Sprintf("%p=%d", o, v))
	}
	sort.Strings(ks)
	return strings.Join(ks, ",")
}

type split[S any] struct {
	nilS, nonNilS *S            // continuation states; nil pointer = unreachable
	base          *S            // state right after the binding statement; the split applies only while the state is unchanged
	boolean       bool          // the callee returns a bool: nilS is the "true" continuation, nonNilS the "false" one
	call          *ast.CallExpr // the call, for conditions that test it directly (if !helper() {...})
}

type fstate[S any] struct {
	s      S
	nils   nilMap
	splits map[types.Object]*split[S]
	cond   *split[S] // split of a boolean helper called inside the condition being processed
	ok     bool      // reachable
}

func (e *Analysis[S]) copyState(st fstate[S]) fstate[S] {
	out := fstate[S]{s: e.Copy(st.s), nils: st.nils.copy(), ok: st.ok, cond: st.cond}
	if len(st.splits) > 0 {
		out.splits = map[types.Object]*split[S]{}
		for k, v := range st.splits {
			out.splits[k] = v
		}
	}
	return out
}

func (e *Analysis[S]) joinState(a, b fstate[S]) fstate[S] {
	if !a.ok {
		return e.copyState(b)
	}
	if !b.ok {
		return e.copyState(a)
	}
	out := fstate[S]{s: e.Join(a.s, b.s), nils: nilMap{}, ok: true}
	for k, v := range a.nils {
		if b.nils[k] == v {
			out.nils[k] = v
		}
	}
	for k, v := range a.splits {
		if b.splits[k] == v {
			if out.splits == nil {
				out.splits = map[types.Object]*split[S]{}
			}
			out.splits[k] = v
		}
	}
	return out
}

func (e *Analysis[S]) equalState(a, b fstate[S]) bool {
	if a.ok != b.ok {
		return false
	}
	if !a.ok {
		return true
	}
	if !e.Equal(a.s, b.s) || len(a.nils) != len(b.nils) || len(a.splits) != len(b.splits) {
		return false
	}
	for k, v := range a.nils {
		if b.nils[k] != v {
			return false
		}
	}
	for k, v := range a.splits {
		if b.splits[k] != v {
			return false
		}
	}
	return true
}

type exitInfo[S any] struct {
	st  fstate[S]
	ret *ast.ReturnStmt
	cls nilState // nil-ness of the returned error (last result), nilUnknown if not applicable
}

func funcBody(fn ast.Node) (*ast.BlockStmt, *ast.FuncType) {
	switch f := fn.(type) {
	case *ast.FuncDecl:
		return f.Body, f.Type
	case *ast.FuncLit:
		return f.Body, f.Type
	}
	return nil, nil
}

// mayReturn: calls to panic and friends do not return.
func mayReturnFn(info *types.Info) func(*ast.CallExpr) bool {
	return func(call *ast.CallExpr) bool {
		if id, ok := unparen(call.Fun).(*ast.Ident); ok {
			if b, ok := info.Uses[id].(*types.Builtin); ok && b.Name() == "panic" {
				return false
			}
		}
		switch calleeKey(info, call) {
		case "os.Exit", "log.Fatal", "log.Fatalf", "log.Fatalln", "log.Panic", "log.Panicf":
			return false
		}
		return true
	}
}

// Run analyses a function declaration (final pass included) starting from init.
func (e *Analysis[S]) Run(fn ast.Node, init S) {
	fc := &FlowCtx[S]{A: e, Fn: fn}
	st := fstate[S]{s: init, nils: nilMap{}, ok: true}
	e.solve(fc, st, true)
}

// solve computes the fixpoint for fc.Fn from entry state and returns its exits.
func (e *Analysis[S]) solve(fc *FlowCtx[S], entry fstate[S], final bool) []exitInfo[S] {
	body, ftype := funcBody(fc.Fn)
	if body == nil {
		return nil
	}
	g := cfg.New(body, mayReturnFn(e.Info))
	n := len(g.Blocks)
	in := make([]fstate[S], n)
	in[0] = entry
	work := []int{0}
	inWork := make([]bool, n)
	inWork[0] = true
	iter := 0
	fcQuiet := *fc
	fcQuiet.final = false
	for len(work) > 0 && iter < 20000 {
		iter++
		bi := work[0]
		work = work[1:]
		inWork[bi] = false
		b := g.Blocks[bi]
		if !in[bi].ok {
			continue
		}
		out, _ := e.runBlock(&fcQuiet, b, e.copyState(in[bi]), ftype, nil)
		for si, succ := range b.Succs {
			ns := e.edge(&fcQuiet, b, si, out)
			j := int(succ.Index)
			merged := e.joinState(in[j], ns)
			if !e.equalState(merged, in[j]) {
				in[j] = merged
				if !inWork[j] {
					inWork[j] = true
					work = append(work, j)
				}
			}
		}
	}
	// Final pass: visit nodes and collect exits.
	var exits []exitInfo[S]
	fcF := *fc
	fcF.final = final
	for bi, b := range g.Blocks {
		if !in[bi].ok {
			continue
		}
		out, rets := e.runBlock(&fcF, b, e.copyState(in[bi]), ftype, &exits)
		_ = rets
		if len(b.Succs) == 0 && out.ok {
			// Fell off the end of the function (no return statement) or unreachable tail.
			if !endsWithReturnOrPanic(b, e.Info) {
				exits = append(exits, exitInfo[S]{st: out, ret: nil, cls: e.classifyBare(ftype, out)})
				if final && e.Exit != nil {
					fcF.Nil = out.nils
					e.Exit(out.s, nil, &fcF)
				}
			}
		}
	}
	return exits
}

func endsWithReturnOrPanic(b *cfg.Block, info *types.Info) bool {
	if len(b.Nodes) == 0 {
		return b.Kind == cfg.KindUnreachable
	}
	switch last := b.Nodes[len(b.Nodes)-1].(type) {
	case *ast.ReturnStmt:
		return true
	case *ast.ExprStmt:
		if call, ok := last.X.(*ast.CallExpr); ok && !mayReturnFn(info)(call) {
			return true
		}
	}
	return false
}

// edge applies the conditional refinement for successor si of block b.
func (e *Analysis[S]) edge(fc *FlowCtx[S], b *cfg.Block, si int, out fstate[S]) fstate[S] {
	if !out.ok {
		return out
	}
	cond := blockCond(b)
	if cond == nil {
		return out
	}
	ns := e.copyState(out)
	branch := si == 0
	e.refine(fc, &ns, cond, branch)
	return ns
}

// blockCond returns the condition expression controlling a two-way block.
func blockCond(b *cfg.Block) ast.Expr {
	if len(b.Succs) != 2 || len(b.Nodes) == 0 || b.Kind == cfg.KindRangeLoop {
		return nil
	}
	c, _ := b.Nodes[len(b.Nodes)-1].(ast.Expr)
	return c
}

func (e *Analysis[S]) refine(fc *FlowCtx[S], st *fstate[S], cond ast.Expr, branch bool) {
	e.refineNil(st, cond, branch)
	if st.ok && e.Cond != nil {
		fc.Nil = st.nils
		st.s = e.Cond(st.s, cond, branch, fc)
	}
}

// refineNil tracks nil-ness of variables and selects wrapper continuations; it
// follows '!' and the conjunctive halves of && / ||.
func (e *Analysis[S]) refineNil(st *fstate[S], cond ast.Expr, branch bool) {
	cond = unparen(cond)
	if u, ok := cond.(*ast.UnaryExpr); ok && u.Op == token.NOT {
		e.refineNil(st, u.X, !branch)
		return
	}
	if be, ok := cond.(*ast.BinaryExpr); ok && (be.Op == token.LAND || be.Op == token.LOR) {
		if (be.Op == token.LAND) == branch {
			e.refineNil(st, be.X, branch)
			if st.ok {
				e.refineNil(st, be.Y, branch)
			}
		}
		return
	}
	// A predicate helper analysed in place, tested directly or through the variable it was
	// assigned to: select the continuation of the exits that returned this truth value.
	pickBool := func(sp *split[S]) {
		if sp.base == nil || !e.Equal(st.s, *sp.base) {
			return
		}
		pick := sp.nonNilS
		if branch {
			pick = sp.nilS
		}
		if pick == nil {
			st.ok = false
			return
		}
		st.s = e.Copy(*pick)
	}
	if call, ok := cond.(*ast.CallExpr); ok && st.cond != nil && st.cond.boolean && st.cond.call == call {
		pickBool(st.cond)
		return
	}
	if id, ok := cond.(*ast.Ident); ok {
		if obj := objOf(e.Info, id); obj != nil {
			if sp := st.splits[obj]; sp != nil && sp.boolean {
				pickBool(sp)
				return
			}
		}
	}
	// errors.Is(err, X) / errors.As(err, &x) being true implies err != nil.
	if call, ok := cond.(*ast.CallExpr); ok && branch && len(call.Args) == 2 {
		if k := calleeKey(e.Info, call); k == "errors.Is" || k == "errors.As" {
			if obj := objOf(e.Info, call.Args[0]); obj != nil {
				st.nils[obj] = nonNil
			}
		}
	}
	if be, ok := cond.(*ast.BinaryExpr); ok && (be.Op == token.NEQ || be.Op == token.EQL) {
		x, y := unparen(be.X), unparen(be.Y)
		if isNilIdent(e.Info, x) {
			x, y = y, x
		}
		if isNilIdent(e.Info, y) {
			if obj := objOf(e.Info, x); obj != nil {
				isNonNil := (be.Op == token.NEQ) == branch
				// what is already known about the variable decides the test
				if prev := st.nils[obj]; prev != nilUnknown && (prev == nonNil) != isNonNil {
					st.ok = false
					return
				}
				// Select the continuation of a wrapper call bound to this variable.
				if sp := st.splits[obj]; sp != nil && !sp.boolean && sp.base != nil && e.Equal(st.s, *sp.base) {
					var pick *S
					if isNonNil {
						pick = sp.nonNilS
					} else {
						pick = sp.nilS
					}
					if pick == nil {
						st.ok = false
						return
					}
					st.s = e.Copy(*pick)
				}
				if isNonNil {
					st.nils[obj] = nonNil
				} else {
					st.nils[obj] = isNil
				}
			}
		}
	}
}

func isNilIdent(info *types.Info, e ast.Expr) bool {
	id, ok := e.(*ast.Ident)
	if !ok {
		return false
	}
	_, isNil := info.Uses[id].(*types.Nil)
	return isNil
}

// runBlock pushes a state through the nodes of a block.
func (e *Analysis[S]) runBlock(fc *FlowCtx[S], b *cfg.Block, st fstate[S], ftype *ast.FuncType, exits *[]exitInfo[S]) (fstate[S], int) {
	nret := 0
	for _, n := range b.Nodes {
		if !st.ok {
			break
		}
		// 1. Wrapper calls with literal arguments contained in this node.
		var boundCall *ast.CallExpr
		var boundSplit *split[S]
		_, isDefer := n.(*ast.DeferStmt)
		_, isGo := n.(*ast.GoStmt)
		for _, call := range wrapperCallsIn(n) {
			if !st.ok {
				break
			}
			w := e.wrapperOf(call)
			if w == nil {
				continue
			}
			lit, _ := unparen(call.Args[w.ParamIdx]).(*ast.FuncLit)
			if lit == nil {
				// A declared function or method value handed over as the callback
				// (ref.safelyGlobal(ref.removeFromParent)) is analysed like a literal.
				if e.Inline != nil {
					arg := unparen(call.Args[w.ParamIdx])
					syn := &ast.CallExpr{Fun: arg, Lparen: arg.End(), Rparen: arg.End()}
					if decl := e.Inline(syn, fc); decl != nil {
						if sp := e.inlineBody(fc, &st, call, w, decl, decl, syn); sp != nil {
							boundCall, boundSplit = call, sp
						}
					}
				}
				continue
			}
			sp := e.inline(fc, &st, call, w, lit)
			if sp != nil {
				boundCall, boundSplit = call, sp
			}
		}
		if !st.ok {
			break
		}
		// 2. The node itself.
		if fc.final && e.Visit != nil {
			fc.Nil = st.nils
			e.Visit(st.s, n, fc)
		}
		// 2b. Calls to declared functions that the client wants analysed in place (the site
		// records of the node carry the state before the callee ran).
		if e.Inline != nil && !isDefer && !isGo {
			calls := wrapperCallsIn(n)
			for i := len(calls) - 1; i >= 0; i-- { // arguments before the call that takes them
				call := calls[i]
				if !st.ok {
					break
				}
				if e.wrapperOf(call) != nil {
					continue
				}
				if decl := e.Inline(call, fc); decl != nil {
					if sp := e.inlineFunc(fc, &st, call, decl); sp != nil {
						boundCall, boundSplit = call, sp
					}
				}
			}
			if !st.ok {
				break
			}
		}
		fc.Nil = st.nils
		var stBefore S
		if _, isRet := n.(*ast.ReturnStmt); isRet && e.ExitPerClass {
			stBefore = e.Copy(st.s)
		}
		st.s = e.Stmt(st.s, n, fc)
		if boundSplit != nil {
			// The continuations go through the binding statement as well.
			if boundSplit.nilS != nil {
				v := e.Stmt(e.Copy(*boundSplit.nilS), n, fc)
				boundSplit.nilS = &v
			}
			if boundSplit.nonNilS != nil {
				v := e.Stmt(e.Copy(*boundSplit.nonNilS), n, fc)
				boundSplit.nonNilS = &v
			}
			b := e.Copy(st.s)
			boundSplit.base = &b
		}
		// 3. Engine bookkeeping: kills, bindings, nil-ness of fresh definitions.
		e.bookkeep(&st, n, boundCall, boundSplit)
		st.cond = nil
		if _, isExpr := n.(ast.Expr); isExpr && boundSplit != nil && boundSplit.boolean {
			st.cond = boundSplit // the condition calls a predicate helper: see refineNil
		}
		if ret, ok := n.(*ast.ReturnStmt); ok {
			nret++
			cls := e.classifyReturn(ret, ftype, st)
			if exits != nil {
				if boundSplit != nil && len(ret.Results) > 0 && unparen(ret.Results[len(ret.Results)-1]) == ast.Expr(boundCall) {
					// "return wrapper(func() error {...})" / "return helper(...)": the exits of the
					// callee, classified by the error they return, are the exits of this function.
					if boundSplit.nilS != nil {
						x := e.copyState(st)
						x.s = e.Copy(*boundSplit.nilS)
						*exits = append(*exits, exitInfo[S]{st: x, ret: ret, cls: isNil})
					}
					if boundSplit.nonNilS != nil {
						x := e.copyState(st)
						x.s = e.Copy(*boundSplit.nonNilS)
						*exits = append(*exits, exitInfo[S]{st: x, ret: ret, cls: nonNil})
					}
				} else if sp := e.returnedSplit(ret, st); sp != nil {
					// "x, err = helper(...); return err": the variable still stands for the
					// callee's result, so this function's exits are the callee's, class by class.
					robj := objOf(e.Info, unparen(ret.Results[len(ret.Results)-1]))
					if sp.nilS != nil {
						x := e.copyState(st)
						x.s = e.Copy(*sp.nilS)
						if !sp.boolean {
							x.nils[robj] = isNil
						}
						*exits = append(*exits, exitInfo[S]{st: x, ret: ret, cls: isNil})
					}
					if sp.nonNilS != nil {
						x := e.copyState(st)
						x.s = e.Copy(*sp.nonNilS)
						if !sp.boolean {
							x.nils[robj] = nonNil
						}
						*exits = append(*exits, exitInfo[S]{st: x, ret: ret, cls: nonNil})
					}
				} else {
					*exits = append(*exits, exitInfo[S]{st: e.copyState(st), ret: ret, cls: cls})
				}
			}
			if fc.final && e.Exit != nil {
				// (ExitPerClass) "return helper(...)" / "x, err = helper(...); return x, err":
				// the client sees the exit once per class of the callee's result, each with the
				// callee's state of that class taken through this return statement, instead of
				// once with their join.
				var sp *split[S]
				if e.ExitPerClass && len(ret.Results) > 0 {
					if boundSplit != nil && unparen(ret.Results[len(ret.Results)-1]) == ast.Expr(boundCall) {
						sp = boundSplit
					} else {
						sp = e.returnedSplit(ret, fstate[S]{s: stBefore, nils: st.nils, splits: st.splits, ok: true})
					}
				}
				if sp != nil && !sp.boolean && (sp.nilS != nil || sp.nonNilS != nil) {
					robj := objOf(e.Info, unparen(ret.Results[len(ret.Results)-1]))
					for _, cl := range []struct {
						s   *S
						cls nilState
					}{{sp.nilS, isNil}, {sp.nonNilS, nonNil}} {
						if cl.s == nil {
							continue
						}
						nils := st.nils.copy()
						if robj != nil {
							nils[robj] = cl.cls
						}
						fc.Nil = nils
						v := e.Stmt(e.Copy(*cl.s), n, fc)
						e.Exit(v, ret, fc)
					}
					fc.Nil = st.nils
				} else {
					fc.Nil = st.nils
					e.Exit(st.s, ret, fc)
				}
			}
		}
	}
	return st, nret
}

// returnedSplit: the last result of ret is a variable that was bound to the classified exits
// of a call (wrapper or helper analysed in place) and nothing has changed the state since.
func (e *Analysis[S]) returnedSplit(ret *ast.ReturnStmt, st fstate[S]) *split[S] {
	if len(ret.Results) == 0 || st.splits == nil {
		return nil
	}
	obj := objOf(e.Info, unparen(ret.Results[len(ret.Results)-1]))
	if obj == nil {
		return nil
	}
	sp := st.splits[obj]
	if sp == nil || sp.base == nil || !e.Equal(st.s, *sp.base) || sp.nilS == nil && sp.nonNilS == nil {
		return nil
	}
	if !sp.boolean && st.nils[obj] != nilUnknown {
		return nil // a test has already selected the class
	}
	return sp
}

func (e *Analysis[S]) wrapperOf(call *ast.CallExpr) *Wrapper {
	f := callee(e.Info, call)
	if f == nil {
		return nil
	}
	w := e.Wrappers[f]
	if w == nil || w.ParamIdx >= len(call.Args) {
		return nil
	}
	return w
}

// wrapperCallsIn lists call expressions inside n, not descending into function literals,
// innermost first in source order.
func wrapperCallsIn(n ast.Node) []*ast.CallExpr {
	var out []*ast.CallExpr
	ast.Inspect(n, func(m ast.Node) bool {
		switch v := m.(type) {
		case *ast.FuncLit:
			return false
		case *ast.CallExpr:
			out = append(out, v)
		}
		return true
	})
	return out
}

// inline analyses a literal passed to a wrapper; st becomes the state after the call.
func (e *Analysis[S]) inline(fc *FlowCtx[S], st *fstate[S], call *ast.CallExpr, w *Wrapper, lit *ast.FuncLit) *split[S] {
	return e.inlineBody(fc, st, call, w, lit, nil, nil)
}

// inlineBody analyses the callback of a wrapper call at the call: a function literal, or (inl
// non-nil) the body of a declared function that was handed over by name; syn is then the
// synthetic call "callback()" through which the client binds the callee's receiver.
func (e *Analysis[S]) inlineBody(fc *FlowCtx[S], st *fstate[S], call *ast.CallExpr, w *Wrapper, fn ast.Node, inl *ast.FuncDecl, syn *ast.CallExpr) *split[S] {
	sub := &FlowCtx[S]{A: e, Fn: fn, Parent: fc, Call: call, W: w}
	if inl != nil {
		sub.Inl, sub.Call = inl, syn
	}
	runOnce := func(from fstate[S]) (nilOut, nonNilOut, anyOut fstate[S]) {
		entry := e.copyState(from)
		entry.splits = nil
		if e.WrapEnter != nil {
			fc.Nil = entry.nils
			entry.s = e.WrapEnter(entry.s, call, w, fc)
		}
		if inl != nil && e.InlEnter != nil {
			entry.s = e.InlEnter(entry.s, syn, sub, fc)
		}
		exits := e.solve(sub, entry, fc.final)
		for _, ex := range exits {
			x := e.copyState(ex.st)
			if inl != nil && e.InlExit != nil {
				x.s = e.InlExit(x.s, syn, sub, fc)
			}
			// Facts about the literal's own locals do not survive; nil-ness of captured
			// variables does (conservatively: keep the map, objects are distinct anyway).
			if e.WrapExit != nil {
				x.s = e.WrapExit(x.s, call, w, fc)
			}
			x.splits = nil
			anyOut = e.joinState(anyOut, x)
			switch ex.cls {
			case isNil:
				nilOut = e.joinState(nilOut, x)
			case nonNil:
				nonNilOut = e.joinState(nonNilOut, x)
			default:
				nilOut = e.joinState(nilOut, x)
				nonNilOut = e.joinState(nonNilOut, x)
			}
		}
		return
	}
	if w.Once {
		nilOut, nonNilOut, anyOut := runOnce(*st)
		if !anyOut.ok {
			st.ok = false
			return nil
		}
		keepSplits := st.splits
		*st = anyOut
		st.splits = keepSplits
		if w.PassesErr {
			sp := &split[S]{}
			if nilOut.ok {
				s := nilOut.s
				sp.nilS = &s
			}
			if nonNilOut.ok {
				s := nonNilOut.s
				sp.nonNilS = &s
			}
			return sp
		}
		return nil
	}
	// 0..n calls: iterate to a fixpoint (bounded).
	cur := e.copyState(*st)
	for i := 0; i < 6; i++ {
		_, _, anyOut := runOnce(cur)
		next := e.joinState(cur, anyOut)
		if e.equalState(next, cur) {
			break
		}
		cur = next
	}
	keep := st.splits
	*st = cur
	st.splits = keep
	return nil
}

// inlineFunc analyses the body of a declared function at a call; st becomes the state after
// the call.  When the callee's last result is an error the exits are classified by its
// nil-ness, so that the caller's "if err != nil" selects the matching continuation.
func (e *Analysis[S]) inlineFunc(fc *FlowCtx[S], st *fstate[S], call *ast.CallExpr, decl *ast.FuncDecl) *split[S] {
	sub := &FlowCtx[S]{A: e, Fn: decl, Parent: fc, Call: call, Inl: decl}
	entry := e.copyState(*st)
	entry.splits = nil
	// what is known about the arguments is known about the parameters (swapFID(fid, nil))
	{
		idx := 0
		for _, fld := range decl.Type.Params.List {
			for _, nm := range fld.Names {
				if idx < len(call.Args) {
					if pobj := e.Info.Defs[nm]; pobj != nil && isNillable(pobj.Type()) {
						arg := unparen(call.Args[idx])
						switch {
						case isNilIdent(e.Info, arg):
							entry.nils[pobj] = isNil
						case isNonNilExpr(e.Info, arg):
							entry.nils[pobj] = nonNil
						default:
							if aobj := objOf(e.Info, arg); aobj != nil && st.nils[aobj] != nilUnknown {
								entry.nils[pobj] = st.nils[aobj]
							}
						}
					}
				}
				idx++
			}
			if len(fld.Names) == 0 {
				idx++
			}
		}
	}
	if e.InlEnter != nil {
		fc.Nil = entry.nils
		entry.s = e.InlEnter(entry.s, call, sub, fc)
	}
	var exits []exitInfo[S]
	mkey := ""
	if !fc.final && e.Key != nil {
		mkey = fmt.Sprintf("%p", call)
		for c := fc; c != nil; c = c.Parent {
			if c.Call != nil {
				mkey += fmt.Sprintf("<%p", c.Call)
			}
		}
		mkey += "|" + e.Key(entry.s) + "|" + nilsKey(entry.nils)
		if cached, ok := e.memo[mkey]; ok {
			exits = cached
		}
	}
	if exits == nil {
		exits = e.solve(sub, entry, fc.final)
		if mkey != "" {
			if e.memo == nil {
				e.memo = map[string][]exitInfo[S]{}
			}
			if exits == nil {
				exits = []exitInfo[S]{}
			}
			e.memo[mkey] = exits
		}
	}
	var nilOut, nonNilOut, anyOut fstate[S]
	for _, ex := range exits {
		x := e.copyState(ex.st)
		if e.InlExit != nil {
			x.s = e.InlExit(x.s, call, sub, fc)
		}
		x.splits = nil
		anyOut = e.joinState(anyOut, x)
		switch ex.cls {
		case isNil:
			nilOut = e.joinState(nilOut, x)
		case nonNil:
			nonNilOut = e.joinState(nonNilOut, x)
		default:
			nilOut = e.joinState(nilOut, x)
			nonNilOut = e.joinState(nonNilOut, x)
		}
	}
	if !anyOut.ok {
		st.ok = false // the callee never returns
		return nil
	}
	if e.InlDone != nil {
		anyOut.s = e.InlDone(anyOut.s, call, sub, fc)
		if nilOut.ok {
			nilOut.s = e.InlDone(nilOut.s, call, sub, fc)
		}
		if nonNilOut.ok {
			nonNilOut.s = e.InlDone(nonNilOut.s, call, sub, fc)
		}
	}
	keep := st.splits
	*st = anyOut
	st.splits = keep
	if res := decl.Type.Results; res != nil && len(res.List) > 0 {
		if t := e.Info.TypeOf(res.List[len(res.List)-1].Type); t != nil && (t.String() == "error" || t.String() == "bool") {
			sp := &split[S]{boolean: t.String() == "bool", call: call}
			if nilOut.ok {
				s := nilOut.s
				sp.nilS = &s
			}
			if nonNilOut.ok {
				s := nonNilOut.s
				sp.nonNilS = &s
			}
			return sp
		}
	}
	return nil
}

// bookkeep maintains nil-ness facts and wrapper-result bindings across a node.
func (e *Analysis[S]) bookkeep(st *fstate[S], n ast.Node, boundCall *ast.CallExpr, sp *split[S]) {
	kill := func(obj types.Object) {
		if obj == nil {
			return
		}
		delete(st.nils, obj)
		delete(st.splits, obj)
	}
	switch v := n.(type) {
	case *ast.AssignStmt:
		for _, l := range v.Lhs {
			kill(objOf(e.Info, l))
		}
		if len(v.Lhs) > 1 && len(v.Rhs) == 1 && sp != nil && unparen(v.Rhs[0]) == ast.Expr(boundCall) {
			// x, err := helper(...): the split is keyed by the error (last) result.
			if obj := objOf(e.Info, v.Lhs[len(v.Lhs)-1]); obj != nil {
				if st.splits == nil {
					st.splits = map[types.Object]*split[S]{}
				}
				st.splits[obj] = sp
			}
		}
		if len(v.Lhs) == 1 && len(v.Rhs) == 1 {
			obj := objOf(e.Info, v.Lhs[0])
			rhs := unparen(v.Rhs[0])
			if obj != nil {
				if sp != nil && rhs == ast.Expr(boundCall) {
					if st.splits == nil {
						st.splits = map[types.Object]*split[S]{}
					}
					st.splits[obj] = sp
				}
				if isNilIdent(e.Info, rhs) {
					st.nils[obj] = isNil
				} else if isNonNilExpr(e.Info, rhs) {
					st.nils[obj] = nonNil
				}
			}
		}
	case *ast.ExprStmt:
		// x.M() where M starts by reading or addressing a field of its pointer receiver: had x
		// been nil the call would have panicked, so x is not nil on the continuing path
		if call, ok := v.X.(*ast.CallExpr); ok && e.L != nil {
			if sel, ok := unparen(call.Fun).(*ast.SelectorExpr); ok {
				if xobj := objOf(e.Info, sel.X); xobj != nil {
					if _, isPtr := xobj.Type().(*types.Pointer); isPtr {
						if tf := e.L.FuncOf(callee(e.Info, call)); tf != nil && derefsReceiverFirst(tf) {
							st.nils[xobj] = nonNil
						}
					}
				}
			}
		}
	case *ast.IncDecStmt:
		kill(objOf(e.Info, v.X))
	case *ast.RangeStmt:
		kill(objOf(e.Info, v.Key))
		kill(objOf(e.Info, v.Value))
	case *ast.ValueSpec:
		for i, nm := range v.Names {
			obj := e.Info.Defs[nm]
			kill(obj)
			if len(v.Values) == 0 && obj != nil {
				if isNillable(obj.Type()) {
					st.nils[obj] = isNil
				}
			} else if i < len(v.Values) && obj != nil {
				if isNilIdent(e.Info, unparen(v.Values[i])) {
					st.nils[obj] = isNil
				}
			}
		}
	case *ast.DeclStmt:
		if gd, ok := v.Decl.(*ast.GenDecl); ok {
			for _, s := range gd.Specs {
				if vs, ok := s.(*ast.ValueSpec); ok {
					e.bookkeep(st, vs, nil, nil)
				}
			}
		}
	}
	// Assignments inside inlined literals to captured variables are seen when the
	// literal's own nodes are processed (same object identities).
}

func isNillable(t types.Type) bool {
	switch t.Underlying().(type) {
	case *types.Pointer, *types.Interface, *types.Slice, *types.Map, *types.Chan, *types.Signature:
		return true
	}
	return false
}

// isNonNilExpr: &T{}, composite literals, errno constants, calls to error constructors.
func isNonNilExpr(info *types.Info, e ast.Expr) bool {
	switch v := e.(type) {
	case *ast.UnaryExpr:
		return v.Op == token.AND
	case *ast.CompositeLit:
		return true
	case *ast.SelectorExpr, *ast.Ident:
		if tv, ok := info.Types[e]; ok && tv.Value != nil {
			// Constant of an error type (linux.EINVAL): non-nil when stored in an interface.
			return true
		}
	case *ast.CallExpr:
		switch calleeKey(info, v) {
		case "errors.New", "fmt.Errorf":
			return true
		}
	}
	return false
}

func (e *Analysis[S]) classifyReturn(ret *ast.ReturnStmt, ftype *ast.FuncType, st fstate[S]) nilState {
	if ftype == nil || ftype.Results == nil {
		return nilUnknown
	}
	if len(ret.Results) == 0 {
		return e.classifyBare(ftype, st)
	}
	last := unparen(ret.Results[len(ret.Results)-1])
	if t := e.Info.TypeOf(last); t == nil {
		return nilUnknown
	}
	if isNilIdent(e.Info, last) {
		return isNil
	}
	// A predicate helper: "return true" is classified like a nil error (the success
	// continuation), "return false" like a non-nil one, so that "if !helper() { return }"
	// in the caller selects the matching exits.
	if t := e.Info.TypeOf(last); t != nil {
		if b, ok := t.Underlying().(*types.Basic); ok && b.Info()&types.IsBoolean != 0 {
			if tv, ok := e.Info.Types[last]; ok && tv.Value != nil {
				if tv.Value.String() == "true" {
					return isNil
				}
				return nonNil
			}
			return nilUnknown
		}
	}
	if isNonNilExpr(e.Info, last) {
		return nonNil
	}
	if obj := objOf(e.Info, last); obj != nil {
		return st.nils[obj]
	}
	return nilUnknown
}

func (e *Analysis[S]) classifyBare(ftype *ast.FuncType, st fstate[S]) nilState {
	if ftype == nil || ftype.Results == nil || len(ftype.Results.List) == 0 {
		return nilUnknown
	}
	lastField := ftype.Results.List[len(ftype.Results.List)-1]
	if len(lastField.Names) == 0 {
		return nilUnknown
	}
	obj := e.Info.Defs[lastField.Names[len(lastField.Names)-1]]
	if obj == nil {
		return nilUnknown
	}
	return st.nils[obj]
}

// --- wrapper discovery -------------------------------------------------------

// findWrappers derives wrapper summaries from function bodies: a function with a
// function-typed parameter that it calls directly.  Once = the call is the
// operand of the function's only return statement or an unconditional
// top-level statement; otherwise the call sits in a loop or branch.
func findWrappers(l *Loaded, pkgs ...string) map[*types.Func]*Wrapper {
	out := map[*types.Func]*Wrapper{}
	for _, pk := range pkgs {
		p := l.Pkg(pk)
		if p == nil {
			continue
		}
		for _, fi := range l.funcsOfPkg(pk) {
			if fi.Decl.Body == nil {
				continue
			}
			idx := 0
			for _, fld := range fi.Decl.Type.Params.List {
				names := fld.Names
				if len(names) == 0 {
					idx++
					continue
				}
				for _, nm := range names {
					obj := p.TypesInfo.Defs[nm]
					if _, isFn := obj.Type().Underlying().(*types.Signature); isFn {
						if w := wrapperShape(p.TypesInfo, fi, obj, idx); w != nil {
							out[fi.Obj] = w
						}
					}
					idx++
				}
			}
		}
	}
	return out
}

func wrapperShape(info *types.Info, fi *FuncInfo, param types.Object, idx int) *Wrapper {
	var calls []*ast.CallExpr
	escapes := false
	ast.Inspect(fi.Decl.Body, func(n ast.Node) bool {
		switch v := n.(type) {
		case *ast.CallExpr:
			if objOf(info, v.Fun) == param {
				calls = append(calls, v)
				for _, a := range v.Args {
					ast.Inspect(a, func(m ast.Node) bool { return true })
				}
				return true
			}
		case *ast.Ident:
			if info.Uses[v] == param {
				// Any use that is not the callee of a direct call or a nil comparison is an escape.
				escapes = true
			}
		}
		return true
	})
	if len(calls) == 0 {
		return nil
	}
	// Recount escapes precisely: uses other than call.Fun and "fn == nil"/"fn != nil".
	uses, allowed := 0, 0
	ast.Inspect(fi.Decl.Body, func(n ast.Node) bool {
		switch v := n.(type) {
		case *ast.Ident:
			if info.Uses[v] == param {
				uses++
			}
		case *ast.CallExpr:
			if objOf(info, v.Fun) == param {
				allowed++
			}
		case *ast.BinaryExpr:
			if (v.Op == token.EQL || v.Op == token.NEQ) && (objOf(info, v.X) == param || objOf(info, v.Y) == param) {
				allowed++
			}
		}
		return true
	})
	_ = escapes
	if uses != allowed {
		return nil // stored or passed on: not a synchronous wrapper
	}
	w := &Wrapper{Fn: fi.Obj, Key: fi.Key, ParamIdx: idx}
	if len(calls) == 1 {
		// Once: "return fn()" as a top-level statement of the body, no loops around it.
		for _, s := range fi.Decl.Body.List {
			switch v := s.(type) {
			case *ast.ReturnStmt:
				if len(v.Results) == 1 && unparen(v.Results[0]) == ast.Expr(calls[0]) {
					w.Once, w.PassesErr = true, true
				}
			case *ast.ExprStmt:
				if v.X == ast.Expr(calls[0]) {
					w.Once = true
				}
			}
		}
	}
	return w
}

// findNode reports whether target lies within n.
func containsNode(n, target ast.Node) bool {
	return n.Pos() <= target.Pos() && target.End() <= n.End()
}

// --- a reusable boolean must-analysis -----------------------------------------------------

// mustFlag runs a forward "has X been established on every path" analysis over fi, with
// private helpers analysed in place.  The flag starts false; set(n, res) may set or clear it
// at a node (change=false leaves it alone); onCond(key, truth) may set it along the edge on
// which the canonical atom key has the given truth value (conjunctions and negations are
// decomposed; for a disjunction both alternatives must establish it).  Flags are and-ed at
// joins.  The result maps every return statement of fi itself (nil key: falling off the end)
// and every visited node to the flag before it.
func mustFlag(db *SiteDB, fi *FuncInfo, set func(n ast.Node, res *resolver) (val, change bool), onCond func(key string, truth bool) bool) (exits map[*ast.ReturnStmt]bool, at map[ast.Node]bool) {
	l := db.L
	info := fi.Pkg.TypesInfo
	exits = map[*ast.ReturnStmt]bool{}
	at = map[ast.Node]bool{}
	seenExit := map[*ast.ReturnStmt]bool{}
	seenAt := map[ast.Node]bool{}
	resOf := frameResolvers[bool](l, info, newResolver(l, info, fi.Decl))
	a := &Analysis[bool]{L: l, Info: info, Wrappers: db.Wrappers, Inline: inlinePolicy[bool](db, fi),
		Join:  func(x, y bool) bool { return x && y },
		Equal: func(x, y bool) bool { return x == y },
		Copy:  func(x bool) bool { return x },
	}
	a.Stmt = func(s bool, n ast.Node, fc *FlowCtx[bool]) bool {
		if _, isDefer := n.(*ast.DeferStmt); isDefer {
			return s
		}
		if v, ch := set(n, resOf(fc)); ch {
			return v
		}
		return s
	}
	var implied func(res *resolver, cond ast.Expr, branch bool) bool
	implied = func(res *resolver, cond ast.Expr, branch bool) bool {
		cond = unparen(cond)
		if u, ok := cond.(*ast.UnaryExpr); ok && u.Op == token.NOT {
			return implied(res, u.X, !branch)
		}
		if be, ok := cond.(*ast.BinaryExpr); ok && (be.Op == token.LAND || be.Op == token.LOR) {
			if (be.Op == token.LAND) == branch {
				return implied(res, be.X, branch) || implied(res, be.Y, branch)
			}
			return implied(res, be.X, branch) && implied(res, be.Y, branch)
		}
		key, pol := atomOf(res, info, l.parent, cond)
		return onCond(key, pol == branch)
	}
	a.Cond = func(s bool, cond ast.Expr, branch bool, fc *FlowCtx[bool]) bool {
		if onCond != nil && implied(resOf(fc), cond, branch) {
			return true
		}
		return s
	}
	a.Visit = func(s bool, n ast.Node, fc *FlowCtx[bool]) {
		if seenAt[n] {
			at[n] = at[n] && s
		} else {
			at[n], seenAt[n] = s, true
		}
	}
	a.Exit = func(s bool, ret *ast.ReturnStmt, fc *FlowCtx[bool]) {
		if fc.Parent != nil {
			return
		}
		if seenExit[ret] {
			exits[ret] = exits[ret] && s
		} else {
			exits[ret], seenExit[ret] = s, true
		}
	}
	a.Run(fi.Decl, false)
	return
}

// derefsReceiverFirst: the first statement of the method selects a field of its (pointer)
// receiver - unconditionally, so a nil receiver panics before anything else happens.
func derefsReceiverFirst(fi *FuncInfo) bool {
	d := fi.Decl
	if d.Recv == nil || len(d.Recv.List) != 1 || len(d.Recv.List[0].Names) != 1 || d.Body == nil || len(d.Body.List) == 0 {
		return false
	}
	if _, isPtr := d.Recv.List[0].Type.(*ast.StarExpr); !isPtr {
		return false
	}
	info := fi.Pkg.TypesInfo
	recv := info.Defs[d.Recv.List[0].Names[0]]
	first := d.Body.List[0]
	switch first.(type) {
	case *ast.ExprStmt, *ast.AssignStmt, *ast.IncDecStmt, *ast.ReturnStmt:
	default:
		return false // an if / loop / defer first: the selection may be conditional or late
	}
	found := false
	ast.Inspect(first, func(n ast.Node) bool {
		switch v := n.(type) {
		case *ast.FuncLit:
			return false
		case *ast.SelectorExpr:
			if id, ok := v.X.(*ast.Ident); ok && info.Uses[id] == recv && recv != nil {
				if fld := fieldOf(info, v); fld != nil {
					found = true
				}
			}
		}
		return true
	})
	return found
}
