package main

import (
	"fmt"
	"go/ast"
	"go/token"
	"go/types"
	"sort"
	"strings"
)

// Reference wire layouts, transcribed from the 9P2000.L protocol description
// (Linux include/net/9p/9p.h, net/9p/client.c format strings, diod protocol.md)
// and the gVisor .Google.N extension messages — not from p9's source.
//
// Token grammar: kind[:Field]; kinds: fid u8 u16 u32 u64 s perm count32 tail
// bits32 bits64 dirents, macros qid attr setattr fsstat, lists n*( ... ).
// Field is the p9 struct field the spec field corresponds to (matched as a
// case-insensitive path suffix).
type refMsg struct {
	Num  int
	Name string
	Body string
}

const refQID = "u8:Type u32:Version u64:Path"
const refAttr = "u32:Mode u32:UID u32:GID u64:NLink u64:RDev u64:Size u64:BlockSize u64:Blocks " +
	"u64:ATimeSeconds u64:ATimeNanoSeconds u64:MTimeSeconds u64:MTimeNanoSeconds u64:CTimeSeconds u64:CTimeNanoSeconds " +
	"u64:BTimeSeconds u64:BTimeNanoSeconds u64:Gen u64:DataVersion"
const refSetAttr = "perm:Permissions u32:UID u32:GID u64:Size u64:ATimeSeconds u64:ATimeNanoSeconds u64:MTimeSeconds u64:MTimeNanoSeconds"
const refFSStat = "u32:Type u32:BlockSize u64:Blocks u64:BlocksFree u64:BlocksAvailable u64:Files u64:FilesFree u64:FSID u32:NameLength"
const refDirent = "qid:QID u64:Offset u8:Type s:Name"

const refTlcreate = "fid:fid s:Name u32:OpenFlags perm:Permissions u32:GID"
const refTsymlink = "fid:Directory s:Name s:Target u32:GID"
const refTmknod = "fid:Directory s:Name u32:Mode u32:Major u32:Minor u32:GID"
const refTmkdir = "fid:Directory s:Name perm:Permissions u32:GID"
const refTauth = "fid:Authenticationfid s:UserName s:AttachName u32:UID"

var refMsgs = []refMsg{
	{7, "Rlerror", "u32:Error"},
	{8, "Tstatfs", "fid:fid"},
	{9, "Rstatfs", "fsstat:FSStat"},
	{12, "Tlopen", "fid:fid u32:Flags"},
	{13, "Rlopen", "qid:QID u32:IoUnit"},
	{14, "Tlcreate", refTlcreate},
	{15, "Rlcreate", "qid:QID u32:IoUnit"},
	{16, "Tsymlink", refTsymlink},
	{17, "Rsymlink", "qid:QID"},
	{18, "Tmknod", refTmknod},
	{19, "Rmknod", "qid:QID"},
	{20, "Trename", "fid:fid fid:Directory s:Name"},
	{21, "Rrename", ""},
	{22, "Treadlink", "fid:fid"},
	{23, "Rreadlink", "s:Target"},
	{24, "Tgetattr", "fid:fid bits64:AttrMask"},
	{25, "Rgetattr", "bits64:Valid qid:QID attr:Attr"},
	{26, "Tsetattr", "fid:fid bits32:Valid setattr:SetAttr"},
	{27, "Rsetattr", ""},
	{30, "Txattrwalk", "fid:fid fid:newFID s:Name"},
	{31, "Rxattrwalk", "u64:Size"},
	{32, "Txattrcreate", "fid:fid s:Name u64:AttrSize u32:Flags"},
	{33, "Rxattrcreate", ""},
	{40, "Treaddir", "fid:Directory u64:Offset u32:Count"},
	{41, "Rreaddir", "count32:payload dirents:Entries"},
	{50, "Tfsync", "fid:fid"},
	{51, "Rfsync", ""},
	{52, "Tlock", "fid:fid u8:Type u32:Flags u64:Start u64:Length u32:PID s:Client"},
	{53, "Rlock", "u8:Status"},
	{70, "Tlink", "fid:Directory fid:Target s:Name"},
	{71, "Rlink", ""},
	{72, "Tmkdir", refTmkdir},
	{73, "Rmkdir", "qid:QID"},
	{74, "Trenameat", "fid:OldDirectory s:OldName fid:NewDirectory s:NewName"},
	{75, "Rrenameat", ""},
	{76, "Tunlinkat", "fid:Directory s:Name u32:Flags"},
	{77, "Runlinkat", ""},
	{100, "Tversion", "u32:MSize s:Version"},
	{101, "Rversion", "u32:MSize s:Version"},
	{102, "Tauth", refTauth},
	{103, "Rauth", "qid:QID"},
	{104, "Tattach", "fid:fid fid:Auth.Authenticationfid s:Auth.UserName s:Auth.AttachName u32:Auth.UID"},
	{105, "Rattach", "qid:QID"},
	{108, "Tflush", "u16:OldTag"},
	{109, "Rflush", ""},
	{110, "Twalk", "fid:fid fid:newFID n*(s:Names[])"},
	{111, "Rwalk", "n*(qid:QIDs[])"},
	{116, "Tread", "fid:fid u64:Offset u32:Count"},
	{117, "Rread", "count32:Data tail"},
	{118, "Twrite", "fid:fid u64:Offset count32:Data tail"},
	{119, "Rwrite", "u32:Count"},
	{120, "Tclunk", "fid:fid"},
	{121, "Rclunk", ""},
	{122, "Tremove", "fid:fid"},
	{123, "Rremove", ""},
	{126, "Twalkgetattr", "fid:fid fid:newFID n*(s:Names[])"},
	{127, "Rwalkgetattr", "bits64:Valid attr:Attr n*(qid:QIDs[])"},
	{128, "Tucreate", refTlcreate + " u32:UID"},
	{129, "Rucreate", "qid:QID u32:IoUnit"},
	{130, "Tumkdir", refTmkdir + " u32:UID"},
	{131, "Rumkdir", "qid:QID"},
	{132, "Tumknod", refTmknod + " u32:UID"},
	{133, "Rumknod", "qid:QID"},
	{134, "Tusymlink", refTsymlink + " u32:UID"},
	{135, "Rusymlink", "qid:QID"},
}

// P9_GETATTR_* and P9_SETATTR_* (Linux include/net/9p/9p.h).
var refGetattrBits = map[string]uint64{
	"mode": 0x1, "nlink": 0x2, "uid": 0x4, "gid": 0x8, "rdev": 0x10, "atime": 0x20, "mtime": 0x40, "ctime": 0x80,
	"ino": 0x100, "size": 0x200, "blocks": 0x400, "btime": 0x800, "gen": 0x1000, "dataversion": 0x2000,
}
var refSetattrBits = map[string]uint64{
	"permissions": 0x1, "uid": 0x2, "gid": 0x4, "size": 0x8, "atime": 0x10, "mtime": 0x20, "ctime": 0x40,
	"atimenotsystemtime": 0x80, "mtimenotsystemtime": 0x100,
}

type refTok struct {
	Kind  string
	Field string
	Elem  []refTok
}

func parseRef(body string) []refTok {
	var out []refTok
	s := strings.TrimSpace(body)
	for s != "" {
		s = strings.TrimSpace(s)
		if strings.HasPrefix(s, "n*(") {
			depth, end := 0, -1
			for i, c := range s {
				if c == '(' {
					depth++
				} else if c == ')' {
					depth--
					if depth == 0 {
						end = i
						break
					}
				}
			}
			inner := parseRef(s[3:end])
			out = append(out, refTok{Kind: "list16", Elem: inner})
			s = s[end+1:]
			continue
		}
		i := strings.IndexByte(s, ' ')
		tok := s
		if i >= 0 {
			tok, s = s[:i], s[i+1:]
		} else {
			s = ""
		}
		kind, field := tok, ""
		if j := strings.IndexByte(tok, ':'); j >= 0 {
			kind, field = tok[:j], tok[j+1:]
		}
		prefix := func(sub string) {
			for _, t := range parseRef(sub) {
				t.Field = field + "." + t.Field
				out = append(out, t)
			}
		}
		switch kind {
		case "qid":
			prefix(refQID)
		case "attr":
			prefix(refAttr)
		case "setattr":
			prefix(refSetAttr)
		case "fsstat":
			prefix(refFSStat)
		case "s":
			out = append(out, refTok{Kind: "str", Field: field})
		case "perm":
			out = append(out, refTok{Kind: "perm32", Field: field})
		case "dirents":
			out = append(out, refTok{Kind: "dirents", Field: field, Elem: parseRef(refDirent)})
		default:
			out = append(out, refTok{Kind: kind, Field: field})
		}
	}
	return out
}

func fieldMatches(extracted, ref string) bool {
	e := strings.ToLower(extracted)
	r := strings.ToLower(ref)
	return e == r || strings.HasSuffix(e, "."+r)
}

// compareRef compares an extracted layout with reference tokens; returns a list of differences.
func compareRef(items []LItem, ref []refTok, where string) []string {
	var diffs []string
	// "tail" tokens in the reference have no extracted item (payload is out of band).
	var r2 []refTok
	for _, t := range ref {
		if t.Kind != "tail" {
			r2 = append(r2, t)
		}
	}
	if len(items) != len(r2) {
		diffs = append(diffs, fmt.Sprintf("%s: %d wire items, the protocol prescribes %d (have: %s | want: %s)", where, len(items), len(r2), shapeWithFid(items), refShape(r2)))
		return diffs
	}
	for i, it := range items {
		rt := r2[i]
		kind := it.Kind
		if kind == "u32" && strings.HasSuffix(it.FType, "p9.fid") {
			kind = "fid"
		}
		if kind != rt.Kind {
			diffs = append(diffs, fmt.Sprintf("%s item %d (%s): encoded as %s, the protocol prescribes %s", where, i, it.Field, kind, rt.Kind))
			continue
		}
		if rt.Field != "" && !fieldMatches(it.Field, rt.Field) {
			diffs = append(diffs, fmt.Sprintf("%s item %d: carries field %s where the protocol places %s", where, i, it.Field, rt.Field))
		}
		if it.Kind == "list16" || it.Kind == "dirents" {
			diffs = append(diffs, compareRef(it.Elem, rt.Elem, where+"/"+it.Field)...)
		}
	}
	return diffs
}

func shapeWithFid(items []LItem) string {
	var s []string
	for _, it := range items {
		k := it.Kind
		if k == "u32" && strings.HasSuffix(it.FType, "p9.fid") {
			k = "fid"
		}
		if it.Kind == "list16" || it.Kind == "dirents" {
			k = it.Kind + "(" + shapeWithFid(it.Elem) + ")"
		}
		s = append(s, k)
	}
	return strings.Join(s, " ")
}

func refShape(ref []refTok) string {
	var s []string
	for _, t := range ref {
		k := t.Kind
		if t.Elem != nil {
			k += "(" + refShape(t.Elem) + ")"
		}
		s = append(s, k)
	}
	return strings.Join(s, " ")
}

func init() {
	register(&propInfo{
		id: "C01", fn: checkC01, multiConfig: true,
		explanation: "Static conformance of the wire codec: the layout of every registered message type is extracted from its encode and decode methods by abstract interpretation of the syntax tree (the codecs are straight-line code over ~20 buffer primitives, so the layout does not depend on field values) and compared (r1) with the reference message numbering, (r2) field by field with an independent table of 9P2000.L/.Google.N layouts kept inside the checker, (r3) encode against decode including the struct field each wire item is written from / read into and coverage of every struct field, (r4) for value-preserving conversions, (r5) for permission masking exactly where the protocol has permission fields, (r6) for the AttrMask/SetAttrMask bit tables against P9_GETATTR_*/P9_SETATTR_*, (r7) for the 7-byte header built in send() and parsed in recv(), (r8) for payloader FixedSize/count agreement, (r9) for whole-entry truncation in rreaddir.encode. Decides layout and symmetry for all field values at once; does not execute the codec. (r10) the frame that leaves is the frame that was encoded: send hands its pooled buffer back only after the write returned (the rule of C18.r3). (r10, continued) received bytes land at their offsets: the vectored read of fixed part and payload advances by exactly what was delivered (the rules of C17.r2/r3).",
		assumptions: []string{"encoding/binary.LittleEndian implements little-endian byte order", "strings and lists are at most 65535 long (the property's stated range; u16 length prefixes)", "fid values fit in 32 bits (allocator limit, checked under C10.r1)"},
		trusted:     []string{"reference layout table in checker/c01.go (transcribed from the protocol documents)"},
	})
}

func checkC01(r *Run) {
	x, err := newCodecX(r.L)
	if err != nil {
		r.undecided("r1", "codec", token.NoPos, "%v", err)
		return
	}
	// --- r1: registry ---------------------------------------------------------
	entries, errs := x.registryEntries()
	for _, e := range errs {
		ce, _ := e.(*codecErr)
		p := token.NoPos
		if ce != nil {
			p = ce.pos
		}
		r.undecided("r1", "registry", p, "%v", e)
	}
	r.floor("r1", "registered message types", len(entries), 65)
	refByNum := map[int]refMsg{}
	for _, m := range refMsgs {
		refByNum[m.Num] = m
	}
	seen := map[int64]bool{}
	byNum := map[int64]regEntry{}
	for _, e := range entries {
		construct := fmt.Sprintf("register(%d) %s", e.Num, e.Type.Obj().Name())
		ref, known := refByNum[int(e.Num)]
		if seen[e.Num] {
			r.fail("r1", construct, e.Pos, "message type %d registered twice", e.Num)
			continue
		}
		seen[e.Num] = true
		byNum[e.Num] = e
		if !known {
			r.fail("r1", construct, e.Pos, "message type %d is not a 9P2000.L/.Google.N message in the reference numbering", e.Num)
			continue
		}
		if !strings.EqualFold(ref.Name, e.Type.Obj().Name()) {
			r.fail("r1", construct, e.Pos, "type %d is %s in the protocol but constructs %s", e.Num, ref.Name, e.Type.Obj().Name())
			continue
		}
		tv, ok := x.typOf(e.Type)
		if !ok {
			r.undecided("r1", construct, e.Pos, "typ() of %s does not return a constant", e.Type.Obj().Name())
			continue
		}
		if tv != e.Num {
			r.fail("r1", construct, e.Pos, "%s is registered as %d but typ() returns %d", e.Type.Obj().Name(), e.Num, tv)
			continue
		}
		r.ok("r1", construct, e.Pos, "type %d = %s, typ() agrees", e.Num, ref.Name)
	}
	for _, m := range refMsgs {
		if !seen[int64(m.Num)] {
			r.fail("r1", fmt.Sprintf("register(%d) %s", m.Num, m.Name), token.NoPos, "protocol message %d %s is not registered", m.Num, m.Name)
		}
	}
	// T/R pairing.
	for _, e := range entries {
		if e.Num%2 == 0 {
			if _, ok := byNum[e.Num+1]; !ok {
				r.fail("r1", fmt.Sprintf("pair(%d)", e.Num), e.Pos, "request type %d has no registered reply type %d", e.Num, e.Num+1)
			}
		}
	}

	// --- r2..r4: per-type layouts -----------------------------------------------
	layouts := map[string][2][]LItem{}
	nLay := 0
	for _, e := range entries {
		name := e.Type.Obj().Name()
		enc, err1 := x.Layout(e.Type, "encode")
		dec, err2 := x.Layout(e.Type, "decode")
		if err1 != nil {
			r.undecided("r2", name+".encode", errPos(err1), "cannot extract layout: %v", err1)
		}
		if err2 != nil {
			r.undecided("r3", name+".decode", errPos(err2), "cannot extract layout: %v", err2)
		}
		if err1 != nil || err2 != nil {
			continue
		}
		nLay++
		layouts[name] = [2][]LItem{enc, dec}
		ref, known := refByNum[int(e.Num)]
		if known {
			rt := parseRef(ref.Body)
			if diffs := compareRef(enc, rt, name+".encode"); len(diffs) > 0 {
				r.fail("r2", name+".encode", e.Pos, "%s", strings.Join(diffs, "\n"))
			} else {
				r.ok("r2", name+".encode", e.Pos, "layout [%s] matches the protocol", shapeWithFid(enc))
			}
			if diffs := compareRef(dec, rt, name+".decode"); len(diffs) > 0 {
				r.fail("r2", name+".decode", e.Pos, "%s", strings.Join(diffs, "\n"))
			} else {
				r.ok("r2", name+".decode", e.Pos, "layout matches the protocol")
			}
		}
		// r3: symmetry of shape and fields.
		if es, ds := shapeOf(enc), shapeOf(dec); es != ds {
			r.fail("r3", name, e.Pos, "encode writes [%s] but decode reads [%s]", es, ds)
		} else if ef, df := fieldsOf(enc), fieldsOf(dec); ef != df {
			r.fail("r3", name, e.Pos, "encode writes fields [%s] but decode assigns [%s]: the receiver does not reconstruct what was sent", ef, df)
		} else {
			r.ok("r3", name, e.Pos, "encode and decode agree item by item on %d items and their fields", countLeaves(enc))
		}
		// r3: every field is carried exactly once.
		c01FieldCoverage(r, x, e, enc, "encode")
		c01FieldCoverage(r, x, e, dec, "decode")
		// r4: conversions.
		c01Conversions(r, name, enc, dec, e.Pos)
		if len(r.Samples) < 6 && len(enc) > 2 {
			r.sample(map[string]any{"message": name, "number": e.Num, "extracted_layout": shapeWithFid(enc), "fields": fieldsOf(enc), "reference": refShape(parseRef(refByNum[int(e.Num)].Body))})
		}
	}
	r.floor("r2", "message types with extracted encode+decode layouts", nLay, 65)

	// --- r5: permissions -----------------------------------------------------
	c01Permissions(r, x)
	// --- r6: mask tables ---------------------------------------------------------
	c01Masks(r, x, layouts)
	// --- r7: header ------------------------------------------------------------
	c01Header(r, x)
	// --- r8: payloaders ----------------------------------------------------------
	c01Payloaders(r, x, entries, layouts)
	// --- r9: whole entries: verified inside the extractor (rreaddirEncode) -------
	if l, ok := layouts["rreaddir"]; ok && len(l[0]) == 2 && l[0][1].Kind == "dirents" {
		fi := r.L.Func("p9", "rreaddir.encode")
		r.ok("r9", "rreaddir.encode", fi.Decl.Pos(), "payload = prefix of whole Dirent encodings cut where the running size first exceeds Count; Count on the wire = that prefix length (idiom verified statement by statement)")
		fd := r.L.Func("p9", "rreaddir.decode")
		r.ok("r9", "rreaddir.decode", fd.Decl.Pos(), "entries are decoded from the payload until the inner buffer overruns; an incomplete trailing entry is discarded; Entries reset first")
	} else if _, ok := layouts["rreaddir"]; !ok {
		r.undecided("r9", "rreaddir.encode", token.NoPos, "rreaddir layout could not be extracted (see r2/r3)")
	} else {
		r.fail("r9", "rreaddir.encode", token.NoPos, "rreaddir layout is not count32 + dirents")
	}
	// The base primitives themselves.
	c01Primitives(r, x)

	// r10: the bytes on the wire are the encoded message: the pooled buffer the frame was
	// encoded into is handed back to the pool only after the vectored write has returned
	// (the rule of C18.r3) - otherwise a concurrent send or recv overwrites a frame in flight.
	if r.borrowed == nil {
		r.borrow(checkC18, map[string]string{"r3": "r10"})
		// ... and the bytes that arrive are put where they belong: the vectored read advances by
		// exactly what each read delivered (the rules of C17.r2/r3), or a payload is reconstructed
		// with a hole or a shift
		r.borrow(checkC17, map[string]string{"r2": "r10", "r3": "r10"})
	}
}

func errPos(err error) token.Pos {
	if ce, ok := err.(*codecErr); ok {
		return ce.pos
	}
	return token.NoPos
}

func countLeaves(items []LItem) int {
	n := 0
	for _, it := range items {
		n++
		n += countLeaves(it.Elem)
	}
	return n
}

// wireFields lists all leaf field paths of a struct type (recursively through
// nested structs that have their own codec), excluding frozen exceptions.
func wireFields(t types.Type, prefix string, out *[]string, depth int) {
	if depth > 5 {
		return
	}
	st, ok := t.Underlying().(*types.Struct)
	if !ok {
		return
	}
	for i := 0; i < st.NumFields(); i++ {
		f := st.Field(i)
		p := f.Name()
		if prefix != "" {
			p = prefix + "." + f.Name()
		}
		ft := f.Type()
		switch u := ft.Underlying().(type) {
		case *types.Struct:
			wireFields(ft, p, out, depth+1)
		case *types.Slice:
			if _, ok := u.Elem().Underlying().(*types.Struct); ok {
				wireFields(u.Elem(), p+"[]", out, depth+1)
			} else if b, ok := u.Elem().Underlying().(*types.Basic); ok && b.Kind() == types.Uint8 {
				*out = append(*out, p) // []byte payload
			} else {
				*out = append(*out, p+"[]")
			}
		default:
			*out = append(*out, p)
		}
	}
}

// Fields that are deliberately not on the wire (one reason each).
var c01NotOnWire = map[string]string{
	"rreaddir.payload":                "derived: the encoded entries (checked by r9)",
	"rreaddir.Count":                  "carried as the payload length (count32:payload); rewritten by encode (r9)",
	"rreadServerPayloader.fullBuffer": "server-side bookkeeping of the pooled read buffer",
	"rreadServerPayloader.cs":         "server-side back pointer",
}

func c01FieldCoverage(r *Run, x *codecX, e regEntry, items []LItem, dir string) {
	name := e.Type.Obj().Name()
	var want []string
	wireFields(e.Type, "", &want, 0)
	have := map[string]int{}
	var walk func(items []LItem)
	walk = func(items []LItem) {
		for _, it := range items {
			switch it.Kind {
			case "bits32", "bits64":
				for f := range it.Bits {
					have[f]++
				}
			case "list16", "dirents":
				walk(it.Elem)
			default:
				have[it.Field]++
			}
		}
	}
	walk(items)
	var missing, dup []string
	for _, w := range want {
		if _, skip := c01NotOnWire[name+"."+w]; skip {
			continue
		}
		// A promoted path may be reported with its embedded prefix in both lists identically.
		switch have[w] {
		case 0:
			missing = append(missing, w)
		case 1:
		default:
			dup = append(dup, w)
		}
		delete(have, w)
	}
	var extra []string
	for h := range have {
		if _, skip := c01NotOnWire[name+"."+h]; !skip {
			extra = append(extra, h)
		}
	}
	sort.Strings(extra)
	construct := name + "." + dir + " field coverage"
	if len(missing)+len(dup)+len(extra) > 0 {
		r.fail("r3", construct, e.Pos, "fields never carried: %v; carried twice: %v; not struct fields: %v", missing, dup, extra)
	} else {
		r.ok("r3", construct, e.Pos, "every one of the %d wire fields appears exactly once", len(want))
	}
}

var wireBits = map[string]int{"u8": 8, "u16": 16, "u32": 32, "perm32": 32, "u64": 64}

func c01Conversions(r *Run, name string, enc, dec []LItem, pos token.Pos) {
	var walk func(items []LItem)
	var bad []string
	n := 0
	walk = func(items []LItem) {
		for _, it := range items {
			if it.Elem != nil {
				walk(it.Elem)
			}
			wb, ok := wireBits[it.Kind]
			if !ok || it.FBits == 0 {
				continue
			}
			n++
			if it.FBits > wb {
				if strings.HasSuffix(it.FType, "p9.fid") && wb == 32 {
					continue // frozen: fid is uint64 but allocated below 2^32-1 (C10.r1)
				}
				bad = append(bad, fmt.Sprintf("%s (%s, %d bits) is carried in %d wire bits", it.Field, it.FType, it.FBits, wb))
			}
		}
	}
	walk(enc)
	walk(dec)
	if len(bad) > 0 {
		r.fail("r4", name, pos, "lossy conversion: %s", strings.Join(bad, "; "))
	} else {
		r.ok("r4", name, pos, "%d integer leaves: every field's value width fits its wire width (fid: frozen exception)", n)
	}
}

func c01Permissions(r *Run, x *codecX) {
	// WritePermissions / ReadPermissions must mask with permissionsMask = 07777.
	v, ok := r.L.pkgConst("p9", "permissionsMask")
	r.check(ok && v == 0o7777, "r5", "permissionsMask", token.NoPos, "permissionsMask = 07777", fmt.Sprintf("permissionsMask = %#o, want 07777 (low 12 bits)", v))
	for _, nm := range []string{"WritePermissions", "ReadPermissions"} {
		fi := r.mustFunc("r5", "p9", "buffer."+nm)
		if fi == nil {
			continue
		}
		var p bufPrim
		var err error
		if strings.HasPrefix(nm, "Write") {
			p, err = x.writePrim(fi.Obj)
		} else {
			p, err = x.readPrim(fi.Obj)
		}
		if err != nil {
			r.undecided("r5", "buffer."+nm, fi.Decl.Pos(), "%v", err)
			continue
		}
		r.check(p.Kind == "u32" && p.Mask, "r5", "buffer."+nm, fi.Decl.Pos(), "u32 with & permissionsMask", fmt.Sprintf("summary is %+v, want a 32-bit value masked with permissionsMask", p))
	}
	// Which leaves are perm32 is compared with the reference table by r2 (kinds perm vs u32).
}

func c01Masks(r *Run, x *codecX, layouts map[string][2][]LItem) {
	type want struct {
		typ  string
		kind string
		ref  map[string]uint64
	}
	for _, w := range []want{{"AttrMask", "bits64", refGetattrBits}, {"SetAttrMask", "bits32", refSetattrBits}} {
		nt := r.L.namedType("p9", w.typ)
		if nt == nil {
			r.undecided("r6", w.typ, token.NoPos, "type not found")
			continue
		}
		enc, err1 := x.Layout(nt, "encode")
		dec, err2 := x.Layout(nt, "decode")
		if err1 != nil || err2 != nil {
			r.undecided("r6", w.typ, nt.Obj().Pos(), "cannot extract mask tables: %v %v", err1, err2)
			continue
		}
		if len(enc) != 1 || len(dec) != 1 || enc[0].Kind != w.kind || dec[0].Kind != w.kind {
			r.fail("r6", w.typ, nt.Obj().Pos(), "mask is encoded as [%s] / decoded as [%s], want one %s item", shapeOf(enc), shapeOf(dec), w.kind)
			continue
		}
		var diffs []string
		st := nt.Underlying().(*types.Struct)
		for i := 0; i < st.NumFields(); i++ {
			f := st.Field(i).Name()
			eb, eok := enc[0].Bits[f]
			db, dok := dec[0].Bits[f]
			rb, rok := w.ref[strings.ToLower(f)]
			switch {
			case !eok || !dok:
				diffs = append(diffs, fmt.Sprintf("flag %s is not carried (encode:%v decode:%v)", f, eok, dok))
			case eb != db:
				diffs = append(diffs, fmt.Sprintf("flag %s: encode uses bit %#x, decode tests %#x", f, eb, db))
			case !rok:
				diffs = append(diffs, fmt.Sprintf("flag %s has no counterpart in the protocol's mask", f))
			case eb != rb:
				diffs = append(diffs, fmt.Sprintf("flag %s uses bit %#x, the protocol assigns %#x", f, eb, rb))
			}
		}
		if len(enc[0].Bits) != st.NumFields() || len(dec[0].Bits) != st.NumFields() {
			diffs = append(diffs, fmt.Sprintf("%d struct flags but %d encoded / %d decoded", st.NumFields(), len(enc[0].Bits), len(dec[0].Bits)))
		}
		if len(diffs) > 0 {
			r.fail("r6", w.typ, nt.Obj().Pos(), "%s", strings.Join(diffs, "; "))
		} else {
			r.ok("r6", w.typ, nt.Obj().Pos(), "%d flags: encode table = decode table = protocol bit assignment (%s)", st.NumFields(), w.kind)
		}
	}
}

// c01Header checks the 7-byte header in send and recv.
func c01Header(r *Run, x *codecX) {
	info := x.info
	hl, ok := r.L.pkgConst("p9", "headerLength")
	r.check(ok && hl == 7, "r7", "headerLength", token.NoPos, "headerLength = 7", fmt.Sprintf("headerLength = %d, want 7", hl))
	send := r.mustFunc("r7", "p9", "send")
	if send != nil {
		c01SendHeader(r, x, send)
	}
	recv := r.mustFunc("r7", "p9", "recv")
	if recv != nil {
		var order []string
		var hdrBufObj types.Object
		// (the reads may sit in a private helper of recv that the pinned tree does not have:
		// size, t, tag := decodeHeader(&hdr))
		var scan func(fi *FuncInfo, depth int)
		scan = func(fi *FuncInfo, depth int) {
			ast.Inspect(fi.Decl.Body, func(n ast.Node) bool {
				call, ok := n.(*ast.CallExpr)
				if !ok {
					return true
				}
				k := calleeKey(info, call)
				switch k {
				case "p9.buffer.Read32", "p9.buffer.ReadMsgType", "p9.buffer.ReadTag":
					base := objOfSelBase(info, call.Fun)
					if hdrBufObj == nil {
						hdrBufObj = base
					}
					if base == hdrBufObj {
						order = append(order, strings.TrimPrefix(k, "p9.buffer."))
					}
				default:
					if tf := r.L.FuncOf(callee(info, call)); tf != nil && depth == 0 && tf != fi && tf.Decl.Body != nil && !tf.Obj.Exported() && !pinnedFuncs[tf.Key] && tf.Pkg == fi.Pkg && hdrBufObj == nil {
						scan(tf, depth+1)
					}
				}
				return true
			})
		}
		scan(recv, 0)
		got := strings.Join(order, " ")
		r.check(got == "Read32 ReadMsgType ReadTag", "r7", "recv header order", recv.Decl.Pos(), "size[4] type[1] tag[2] parsed in that order", "header reads are ["+got+"], want Read32 ReadMsgType ReadTag")
		// The header is read with io.ReadAtLeast(r, hdr[:], headerLength).
		found := false
		ast.Inspect(recv.Decl.Body, func(n ast.Node) bool {
			call, ok := n.(*ast.CallExpr)
			if ok && calleeKey(info, call) == "io.ReadAtLeast" && len(call.Args) == 3 {
				if v, ok := constInt(info, call.Args[2]); ok && v == 7 {
					found = true
				}
			}
			if ok && fullHeaderRead(info, call) {
				found = true
			}
			return true
		})
		r.check(found, "r7", "recv header read", recv.Decl.Pos(), "io.ReadAtLeast(r, hdr[:], 7)", "the header is not read with io.ReadAtLeast(..., headerLength) or io.ReadFull into the 7-byte array")
	}
}

// c01SendHeader: the 7-byte header send() writes.  The writes are followed into private helpers
// (putHeader(&hdr, size, typ, tag)): what counts is which buffer they go to (one whose data
// aliases the 7-byte array that is the first vector), their order and the values they carry,
// traced back to send's own expressions.
func c01SendHeader(r *Run, x *codecX, send *FuncInfo) {
	info := x.info
	m := buildServerModel(r.L)
	res := m.resolver(send)
	isHdrArray := func(t types.Type) bool {
		if p, ok := t.Underlying().(*types.Pointer); ok {
			t = p.Elem()
		}
		a, ok := t.Underlying().(*types.Array)
		return ok && a.Len() == 7
	}
	// the array a header buffer aliases: buffer{data: E[:0]} with E the 7-byte array (or a pointer to it)
	aliased := func(obj types.Object) ast.Expr {
		var out ast.Expr
		decl := r.L.declOf(obj)
		if decl == nil {
			return nil
		}
		ast.Inspect(decl, func(n ast.Node) bool {
			var lhs []ast.Expr
			var rhs []ast.Expr
			switch v := n.(type) {
			case *ast.AssignStmt:
				lhs, rhs = v.Lhs, v.Rhs
			case *ast.ValueSpec:
				for _, nm := range v.Names {
					lhs = append(lhs, nm)
				}
				rhs = v.Values
			}
			for i, l := range lhs {
				if objOf(info, l) != obj || i >= len(rhs) {
					continue
				}
				cl, ok := unparen(rhs[i]).(*ast.CompositeLit)
				if !ok {
					continue
				}
				for _, el := range cl.Elts {
					kv, ok := el.(*ast.KeyValueExpr)
					if !ok || r.L.str(kv.Key) != "data" {
						continue
					}
					if sl, ok := unparen(kv.Value).(*ast.SliceExpr); ok && sl.Low == nil && sl.High != nil {
						if hi, isC := constInt(info, sl.High); isC && hi == 0 {
							if t := info.TypeOf(sl.X); t != nil && isHdrArray(t) {
								out = sl.X
							}
						}
					}
				}
			}
			return true
		})
		return out
	}
	type hw struct {
		site *Site
		prim string
	}
	var writes []hw
	var hdrArr types.Object
	okAlias := true
	for _, s := range m.sitesInOrder(send) {
		if !strings.HasPrefix(s.Callee, "p9.buffer.Write") {
			continue
		}
		base := objOfSelBase(info, s.Call.Fun)
		if base == nil {
			continue
		}
		arr := aliased(base)
		if arr == nil {
			continue // not a header buffer
		}
		// the array, in send's frame
		e := s.mapExpr(info, arr)
		if u, ok := e.(*ast.UnaryExpr); ok && u.Op == token.AND {
			e = unparen(u.X)
		}
		o := objOf(info, e)
		if o == nil || o.Pos() < send.Decl.Pos() || o.Pos() > send.Decl.End() {
			okAlias = false
			continue
		}
		if hdrArr == nil {
			hdrArr = o
		} else if hdrArr != o {
			okAlias = false
		}
		writes = append(writes, hw{s, strings.TrimPrefix(s.Callee, "p9.buffer.")})
	}
	var order []string
	for _, w := range writes {
		order = append(order, w.prim)
	}
	got := strings.Join(order, " ")
	r.check(got == "Write32 WriteMsgType WriteTag" && okAlias, "r7", "send header order", send.Decl.Pos(), "size[4] type[1] tag[2] written in that order into the 7-byte header array", "header writes are ["+got+"], want Write32 WriteMsgType WriteTag into one buffer over the header array")
	if len(writes) != 3 || got != "Write32 WriteMsgType WriteTag" {
		return
	}
	sizeArg := writes[0].site.argExpr(info, 0)
	typArg := writes[1].site.argExpr(info, 0)
	tagArg := writes[2].site.argExpr(info, 0)
	// parameters of send
	var msgParam, tagParam types.Object
	for _, f := range send.Decl.Type.Params.List {
		for _, nm := range f.Names {
			o := info.Defs[nm]
			switch {
			case strings.HasSuffix(o.Type().String(), "p9.message"):
				msgParam = o
			case strings.HasSuffix(o.Type().String(), "p9.tag"):
				tagParam = o
			}
		}
	}
	okTyp := false
	if c, ok := unparen(typArg).(*ast.CallExpr); ok && strings.HasSuffix(calleeKey(info, c), ".typ") {
		okTyp = objOfSelBase(info, c.Fun) == msgParam && msgParam != nil
	}
	r.check(okTyp, "r7", "send header type", send.Decl.Pos(), "type byte is m.typ()", "type byte is "+r.L.str(typArg)+", not the typ() of the message being sent")
	r.check(tagParam != nil && objOf(info, tagArg) == tagParam, "r7", "send header tag", send.Decl.Pos(), "tag field is the tag parameter", "tag field is "+r.L.str(tagArg)+", not the tag parameter of send")

	// the buffer the message was encoded into, and the payload
	encBuf := ""
	for _, s := range m.sitesInOrder(send) {
		if strings.HasSuffix(s.Callee, ".encode") && len(s.Call.Args) == 1 && len(s.Inl) == 0 {
			encBuf = strings.TrimPrefix(res.str(s.Call.Args[0]), "&")
		}
	}
	isPayload := func(e ast.Expr) bool {
		e = unparen(e)
		isCall := func(x ast.Expr) bool {
			c, ok := unparen(x).(*ast.CallExpr)
			return ok && strings.HasSuffix(calleeKey(info, c), ".Payload")
		}
		// through locals that stand for it (seg := payload), down to a variable that only
		// ever holds the result of Payload() (or its zero value: var payload []byte)
		for i := 0; i < 4; i++ {
			id, ok := e.(*ast.Ident)
			if !ok {
				break
			}
			if d := res.defs[objOf(info, id)]; d != nil {
				e = unparen(d)
				continue
			}
			return allDefsAre(info, send, id, isCall)
		}
		return isCall(e)
	}
	// size field = 7 + len(fixed part) + len(payload): all definitions of the size variable
	obj := objOf(info, sizeArg)
	if obj == nil {
		r.undecided("r7", "send total length", send.Decl.Pos(), "size argument %s is not a local variable", r.L.str(sizeArg))
	} else {
		var kinds []string
		okShape := true
		// The terms that make up the variable, followed through private helpers that compute
		// part of it (vecs, total := sendVectors(hdr[:], buf.data); vecs, total =
		// appendPayloadVector(vecs, total, p)): sub maps a helper's parameters to the caller's
		// argument expressions.
		type subst map[types.Object]ast.Expr
		through := func(e ast.Expr, sub subst) ast.Expr {
			e = unparen(e)
			for i := 0; i < 4; i++ {
				m, ok := sub[objOf(info, e)]
				if !ok || objOf(info, e) == nil {
					break
				}
				e = unparen(m)
			}
			return e
		}
		classify := func(t ast.Expr, sub subst) string {
			t = unparen(t)
			kind := "?" + r.L.str(t)
			if c, isC := constInt(info, t); isC && c == 7 {
				kind = "header"
			}
			// uint32(len(X))
			if conv, ok := t.(*ast.CallExpr); ok && len(conv.Args) == 1 && info.Types[conv.Fun].IsType() {
				if ln, ok := unparen(conv.Args[0]).(*ast.CallExpr); ok && len(ln.Args) == 1 {
					if id, ok := ln.Fun.(*ast.Ident); ok && id.Name == "len" {
						x := through(ln.Args[0], sub)
						switch {
						case encBuf != "" && res.str(x) == encBuf+".data":
							kind = "fixed"
						case isPayload(x):
							kind = "payload"
						}
					}
				}
			}
			return kind
		}
		var collect func(fn *ast.FuncDecl, v types.Object, sub subst, depth int)
		collect = func(fn *ast.FuncDecl, v types.Object, sub subst, depth int) {
			if depth > 3 {
				okShape = false
				return
			}
			ast.Inspect(fn.Body, func(n ast.Node) bool {
				as, ok := n.(*ast.AssignStmt)
				if !ok {
					return true
				}
				for li, lhs := range as.Lhs {
					if objOf(info, lhs) != v {
						continue
					}
					if as.Tok != token.DEFINE && as.Tok != token.ASSIGN && as.Tok != token.ADD_ASSIGN {
						okShape = false
						continue
					}
					if len(as.Lhs) == len(as.Rhs) {
						for _, t := range flattenSum(as.Rhs[li]) {
							t = unparen(t)
							if as.Tok == token.ASSIGN && objOf(info, t) == v {
								continue // x = x + ...
							}
							kinds = append(kinds, classify(t, sub))
						}
						continue
					}
					// a, v := helper(...): result #li of the helper
					call, isCall := unparen(as.Rhs[0]).(*ast.CallExpr)
					tf := r.L.FuncOf(callee(info, call))
					if !isCall || len(as.Rhs) != 1 || tf == nil || tf.Decl.Body == nil {
						okShape = false
						continue
					}
					hsub := subst{}
					idx := 0
					for _, f := range tf.Decl.Type.Params.List {
						for _, nm := range f.Names {
							if idx < len(call.Args) {
								hsub[info.Defs[nm]] = through(call.Args[idx], sub)
							}
							idx++
						}
					}
					ast.Inspect(tf.Decl.Body, func(m ast.Node) bool {
						ret, isRet := m.(*ast.ReturnStmt)
						if !isRet || li >= len(ret.Results) {
							return true
						}
						e := unparen(ret.Results[li])
						if ro, isVar := objOf(info, e).(*types.Var); isVar && ro.Parent() != ro.Pkg().Scope() {
							// a variable of the helper: its own assignments, plus - for a parameter -
							// the value it came in with (unless that is the variable itself)
							collect(tf.Decl, ro, hsub, depth+1)
							if in, isParam := hsub[ro]; isParam && objOf(info, in) != v {
								for _, t := range flattenSum(in) {
									kinds = append(kinds, classify(t, sub))
								}
							}
							return true
						}
						for _, t := range flattenSum(e) {
							kinds = append(kinds, classify(t, hsub))
						}
						return true
					})
				}
				return true
			})
		}
		collect(send.Decl, obj, subst{}, 0)
		sort.Strings(kinds)
		got := strings.Join(kinds, " + ")
		r.check(okShape && got == "fixed + header + payload", "r7", "send total length", send.Decl.Pos(),
			"size field = 7 + len(fixed part) + len(payload)", "size field is computed as ["+got+"], want headerLength + len(fixed part) + len(payload)")
	}
	// vectors: header array, fixed part, payload appended in this order; a single WriteTo
	var appended []string
	writeTo := 0
	for _, s := range m.sitesInOrder(send) {
		if s.Callee == "net.Buffers.WriteTo" {
			writeTo++
		}
		id, ok := s.Call.Fun.(*ast.Ident)
		if !ok || id.Name != "append" || len(s.Call.Args) < 2 {
			continue
		}
		if t := info.TypeOf(s.Call.Args[0]); t == nil || !strings.HasSuffix(t.String(), "net.Buffers") {
			continue
		}
		for ai := range s.Call.Args[1:] {
			a := unparen(s.argExpr(info, ai+1)) // a helper's parameter stands for what it was called with
			kind := "?" + r.L.str(a)
			if sl, ok := a.(*ast.SliceExpr); ok && sl.Low == nil && sl.High == nil && objOf(info, sl.X) == hdrArr && hdrArr != nil {
				kind = "header"
			} else if encBuf != "" && res.str(a) == encBuf+".data" {
				kind = "fixed"
			} else if isPayload(a) {
				kind = "payload"
			}
			appended = append(appended, kind)
		}
	}
	gotV := strings.Join(appended, ", ")
	r.check(gotV == "header, fixed, payload", "r7", "send vectors", send.Decl.Pos(), "vectors appended in order: "+gotV, "vectors are ["+gotV+"], want header, fixed part, payload")
	r.check(writeTo == 1, "r7", "send single write", send.Decl.Pos(), "one vecs.WriteTo call", fmt.Sprintf("%d WriteTo calls, want exactly 1 (C06.r3)", writeTo))
}

func flattenSum(e ast.Expr) []ast.Expr {
	e = unparen(e)
	if be, ok := e.(*ast.BinaryExpr); ok && be.Op == token.ADD {
		return append(flattenSum(be.X), flattenSum(be.Y)...)
	}
	return []ast.Expr{e}
}

func c01Payloaders(r *Run, x *codecX, entries []regEntry, layouts map[string][2][]LItem) {
	n := 0
	check := func(t *types.Named, pos token.Pos) {
		fs, ok := x.fixedSizeOf(t)
		if !ok {
			return
		}
		name := t.Obj().Name()
		n++
		enc, err := x.Layout(t, "encode")
		if err != nil {
			r.undecided("r8", name, pos, "%v", err)
			return
		}
		sz := staticSize(enc)
		last := ""
		if len(enc) > 0 {
			for _, it := range enc {
				if it.Kind == "count32" {
					last = it.Kind
				}
			}
		}
		if int64(sz) != fs {
			r.fail("r8", name, pos, "FixedSize() returns %d but the fixed part encodes to %d bytes", fs, sz)
		} else if last != "count32" {
			r.fail("r8", name, pos, "payloader has no count32 item tied to its payload")
		} else {
			r.ok("r8", name, pos, "FixedSize() = %d = size of the fixed layout [%s]; count tied to the payload on both sides", fs, shapeOf(enc))
		}
	}
	for _, e := range entries {
		check(e.Type, e.Pos)
	}
	if nt := r.L.namedType("p9", "rreadServerPayloader"); nt != nil {
		check(nt, nt.Obj().Pos())
	}
	r.floor("r8", "payloader types", n, 4)
}

func c01Primitives(r *Run, x *codecX) {
	p9 := r.L.Pkg("p9")
	// order is binary.LittleEndian and is never reassigned.
	orderObj, _ := p9.Types.Scope().Lookup("order").(*types.Var)
	if orderObj == nil {
		r.undecided("r2", "var order", token.NoPos, "package variable 'order' not found")
	} else {
		init := ""
		writes := 0
		for _, f := range p9.Syntax {
			ast.Inspect(f, func(n ast.Node) bool {
				switch v := n.(type) {
				case *ast.ValueSpec:
					for i, nm := range v.Names {
						if p9.TypesInfo.Defs[nm] == orderObj && i < len(v.Values) {
							init = r.L.str(v.Values[i])
						}
					}
				case *ast.AssignStmt:
					for _, l := range v.Lhs {
						if objOf(p9.TypesInfo, l) == orderObj {
							writes++
						}
					}
				case *ast.UnaryExpr:
					if v.Op == token.AND && objOf(p9.TypesInfo, v.X) == orderObj {
						writes++
					}
				}
				return true
			})
		}
		r.check(init == "binary.LittleEndian" && writes == 0, "r2", "var order", orderObj.Pos(), "order = binary.LittleEndian, never reassigned",
			fmt.Sprintf("order is initialised to %q and written %d times; the wire format is little-endian", init, writes))
	}
	// Every buffer Read*/Write* method is a recognised primitive.
	n := 0
	for _, fi := range r.L.funcsOfPkg("p9") {
		if !x.isBufMethod(fi.Obj) {
			continue
		}
		nm := fi.Decl.Name.Name
		var err error
		var p bufPrim
		switch {
		case strings.HasPrefix(nm, "Write"):
			p, err = x.writePrim(fi.Obj)
		case strings.HasPrefix(nm, "Read"):
			p, err = x.readPrim(fi.Obj)
		default:
			continue
		}
		n++
		if err != nil {
			r.undecided("r2", "buffer."+nm, errPos(err), "%v", err)
			continue
		}
		want := ""
		switch {
		case strings.HasSuffix(nm, "8"), strings.HasSuffix(nm, "QIDType"), strings.HasSuffix(nm, "MsgType"):
			want = "u8"
		case strings.HasSuffix(nm, "16"), strings.HasSuffix(nm, "Tag"):
			want = "u16"
		case strings.HasSuffix(nm, "32"), strings.HasSuffix(nm, "FID"), strings.HasSuffix(nm, "UID"), strings.HasSuffix(nm, "GID"),
			strings.HasSuffix(nm, "FileMode"), strings.HasSuffix(nm, "OpenFlags"), strings.HasSuffix(nm, "Permissions"):
			want = "u32"
		case strings.HasSuffix(nm, "64"):
			want = "u64"
		case strings.HasSuffix(nm, "String"):
			want = "str"
		}
		if want != "" && p.Kind != want {
			r.fail("r2", "buffer."+nm, fi.Decl.Pos(), "primitive moves %s, the protocol width for it is %s", p.Kind, want)
		} else {
			r.ok("r2", "buffer."+nm, fi.Decl.Pos(), "primitive = %s mask=%v", p.Kind, p.Mask)
		}
	}
	r.floor("r2", "buffer primitives", n, 28)
}

// fullHeaderRead: io.ReadAtLeast(r, hdr[:], 7) or io.ReadFull(r, hdr[:]) with hdr a 7-byte
// array: the call returns without error only when all seven bytes have arrived.
func fullHeaderRead(info *types.Info, call *ast.CallExpr) bool {
	k := calleeKey(info, call)
	switch {
	case k == "io.ReadAtLeast" && len(call.Args) == 3:
		if v, ok := constInt(info, call.Args[2]); !ok || v != 7 {
			return false
		}
	case k == "io.ReadFull" && len(call.Args) == 2:
	default:
		return false
	}
	if sl, isSl := unparen(call.Args[1]).(*ast.SliceExpr); isSl && sl.Low == nil && sl.High == nil {
		if at, isArr := info.TypeOf(sl.X).Underlying().(*types.Array); isArr && at.Len() == 7 {
			return true
		}
	}
	return false
}
