package main

// Analysis A: codec layout extractor.
//
// The encode/decode methods of p9 are straight-line code over ~20 buffer
// primitives.  This file interprets their syntax trees abstractly and yields a
// layout term per type and direction: the sequence of wire items together with
// the struct field each item is written from / read into.

import (
	"fmt"
	"go/ast"
	"go/token"
	"go/types"
	"sort"
	"strings"
)

// LItem is one item of a wire layout.
type LItem struct {
	Kind   string            // u8 u16 u32 u64 str perm32 bits32 bits64 list16 count32 dirents
	Field  string            // field path from the message root ("Auth.AttachName", "QIDs[].Path")
	FType  string            // Go type of the field
	FBits  int               // bit width of the field's basic type (0: string/struct/slice)
	Signed bool              // field type is a signed integer
	Conv   string            // conversion chain as written
	Elem   []LItem           // list16: element layout
	Bits   map[string]uint64 // bitsN: flag field -> mask bit
	Reset  bool              // decode of list16: slice is reset before the loop
	Pos    token.Pos
}

func (it LItem) shape() string {
	switch it.Kind {
	case "list16":
		return "n*(" + shapeOf(it.Elem) + ")"
	}
	return it.Kind
}

func shapeOf(items []LItem) string {
	var s []string
	for _, it := range items {
		s = append(s, it.shape())
	}
	return strings.Join(s, " ")
}

func fieldsOf(items []LItem) string {
	var s []string
	for _, it := range items {
		if it.Kind == "list16" {
			s = append(s, it.Field+"{"+fieldsOf(it.Elem)+"}")
		} else {
			s = append(s, it.Field)
		}
	}
	return strings.Join(s, " ")
}

// staticSize is the encoded size with all strings, lists and payloads empty.
func staticSize(items []LItem) int {
	n := 0
	for _, it := range items {
		switch it.Kind {
		case "u8":
			n++
		case "u16", "str", "list16":
			n += 2
		case "u32", "perm32", "bits32", "count32":
			n += 4
		case "u64", "bits64":
			n += 8
		}
	}
	return n
}

// bufPrim is the summary of a *buffer read or write method.
type bufPrim struct {
	Kind string // u8 u16 u32 u64 str
	Mask bool   // & permissionsMask applied
}

type codecX struct {
	l        *Loaded
	info     *types.Info
	bufType  *types.Named
	writes   map[*types.Func]bufPrim
	reads    map[*types.Func]bufPrim
	problems []string // problems found while summarising buffer primitives
}

type codecErr struct {
	pos token.Pos
	msg string
}

func (e *codecErr) Error() string { return e.msg }

func cerr(pos token.Pos, format string, a ...any) error {
	return &codecErr{pos, fmt.Sprintf(format, a...)}
}

func newCodecX(l *Loaded) (*codecX, error) {
	p9 := l.Pkg("p9")
	if p9 == nil {
		return nil, fmt.Errorf("package p9 not loaded")
	}
	primLoaded = l
	x := &codecX{l: l, info: p9.TypesInfo, bufType: l.namedType("p9", "buffer"),
		writes: map[*types.Func]bufPrim{}, reads: map[*types.Func]bufPrim{}}
	if x.bufType == nil {
		return nil, fmt.Errorf("type p9.buffer not found")
	}
	return x, nil
}

func (x *codecX) isBufMethod(f *types.Func) bool {
	if f == nil {
		return false
	}
	sig := f.Type().(*types.Signature)
	if sig.Recv() == nil {
		return false
	}
	t := sig.Recv().Type()
	if p, ok := t.(*types.Pointer); ok {
		t = p.Elem()
	}
	return types.Identical(t, x.bufType)
}

var baseWidth = map[int]string{1: "u8", 2: "u16", 4: "u32", 8: "u64"}

// writePrim summarises a buffer write method by reading its body.
func (x *codecX) writePrim(f *types.Func) (bufPrim, error) {
	if p, ok := x.writes[f]; ok {
		return p, nil
	}
	fi := x.l.FuncOf(f)
	if fi == nil || fi.Decl.Body == nil {
		return bufPrim{}, fmt.Errorf("no body for %s", funcKey(f))
	}
	body := fi.Decl.Body.List
	params := fi.Decl.Type.Params.List
	if len(params) != 1 || len(params[0].Names) != 1 {
		return bufPrim{}, cerr(fi.Decl.Pos(), "%s: expected one parameter", fi.Key)
	}
	param := x.info.Defs[params[0].Names[0]]
	// Base forms.
	//   order.PutUintN(b.append(k), v)
	//   b.append(1)[0] = byte(v)
	if len(body) == 1 {
		if es, ok := body[0].(*ast.ExprStmt); ok {
			if call, ok := es.X.(*ast.CallExpr); ok {
				ck := calleeKey(x.info, call)
				if strings.HasPrefix(ck, "encoding/binary.littleEndian.PutUint") || strings.HasPrefix(ck, "encoding/binary.ByteOrder.PutUint") {
					if !x.isOrderVar(call.Fun) {
						return bufPrim{}, cerr(call.Pos(), "%s: byte order is not the package variable 'order'", fi.Key)
					}
					bits := strings.TrimPrefix(ck[strings.LastIndex(ck, "PutUint"):], "PutUint")
					w := map[string]int{"16": 2, "32": 4, "64": 8}[bits]
					if w == 0 || len(call.Args) != 2 {
						return bufPrim{}, cerr(call.Pos(), "%s: unexpected %s", fi.Key, ck)
					}
					k, ok := x.appendWidth(call.Args[0])
					if !ok || k != w {
						return bufPrim{}, cerr(call.Pos(), "%s: appends %d bytes but stores %d", fi.Key, k, w)
					}
					if objOf(x.info, call.Args[1]) != param {
						return bufPrim{}, cerr(call.Pos(), "%s: stored value is not the parameter", fi.Key)
					}
					p := bufPrim{Kind: baseWidth[w]}
					x.writes[f] = p
					return p, nil
				}
				// Delegation to another buffer write method.
				cf := callee(x.info, call)
				if x.isBufMethod(cf) && len(call.Args) == 1 {
					inner, err := x.writePrim(cf)
					if err != nil {
						return bufPrim{}, err
					}
					arg, masked, err := x.stripConvMask(call.Args[0])
					if err != nil {
						return bufPrim{}, err
					}
					if objOf(x.info, arg) != param {
						return bufPrim{}, cerr(call.Pos(), "%s: delegated value is not the parameter", fi.Key)
					}
					p := bufPrim{Kind: inner.Kind, Mask: inner.Mask || masked}
					x.writes[f] = p
					return p, nil
				}
			}
		}
		if as, ok := body[0].(*ast.AssignStmt); ok && len(as.Lhs) == 1 && len(as.Rhs) == 1 && as.Tok == token.ASSIGN {
			// b.append(1)[0] = byte(v)
			if ix, ok := as.Lhs[0].(*ast.IndexExpr); ok {
				if k, ok := x.appendWidth(ix.X); ok && k == 1 {
					if i, ok := constInt(x.info, ix.Index); ok && i == 0 {
						arg, masked, err := x.stripConvMask(as.Rhs[0])
						if err == nil && !masked && objOf(x.info, arg) == param {
							p := bufPrim{Kind: "u8"}
							x.writes[f] = p
							return p, nil
						}
					}
				}
			}
		}
	}
	// WriteString: u16 length, then exactly the bytes (byte loop or copy into append(len(s))).
	if x.writeStringPrim(fi, param) {
		p := bufPrim{Kind: "str"}
		x.writes[f] = p
		return p, nil
	}
	return bufPrim{}, cerr(fi.Decl.Pos(), "%s: body is not a recognised write primitive", fi.Key)
}

func (x *codecX) isOrderVar(fun ast.Expr) bool {
	sel, ok := fun.(*ast.SelectorExpr)
	if !ok {
		return false
	}
	v, _ := objOf(x.info, sel.X).(*types.Var)
	return v != nil && v.Name() == "order" && v.Parent() == v.Pkg().Scope()
}

// appendWidth recognises b.append(k) and returns k.
func (x *codecX) appendWidth(e ast.Expr) (int, bool) {
	call, ok := unparen(e).(*ast.CallExpr)
	if !ok || calleeKey(x.info, call) != "p9.buffer.append" || len(call.Args) != 1 {
		return 0, false
	}
	k, ok := constInt(x.info, call.Args[0])
	return int(k), ok
}

// stripConvMask removes type conversions and an optional "& permissionsMask".
func (x *codecX) stripConvMask(e ast.Expr) (ast.Expr, bool, error) {
	masked := false
	for {
		e = unparen(e)
		switch v := e.(type) {
		case *ast.CallExpr:
			if tv, ok := x.info.Types[v.Fun]; ok && tv.IsType() && len(v.Args) == 1 {
				e = v.Args[0]
				continue
			}
			return e, masked, nil
		case *ast.BinaryExpr:
			if v.Op == token.AND {
				if c, ok := constInt(x.info, v.Y); ok {
					if c != 0o7777 {
						return nil, false, cerr(v.Pos(), "mask constant is %#o, not 07777", c)
					}
					if !x.isPermMaskConst(v.Y) {
						return nil, false, cerr(v.Pos(), "mask is not permissionsMask")
					}
					masked = true
					e = v.X
					continue
				}
			}
			return e, masked, nil
		default:
			return e, masked, nil
		}
	}
}

func (x *codecX) isPermMaskConst(e ast.Expr) bool {
	c, _ := objOf(x.info, e).(*types.Const)
	return c != nil && c.Name() == "permissionsMask"
}

func (x *codecX) isWriteStringBody(body []ast.Stmt, param types.Object) bool {
	es, ok := body[0].(*ast.ExprStmt)
	if !ok {
		return false
	}
	call, ok := es.X.(*ast.CallExpr)
	if !ok || len(call.Args) != 1 {
		return false
	}
	cf := callee(x.info, call)
	if !x.isBufMethod(cf) {
		return false
	}
	if p, err := x.writePrim(cf); err != nil || p.Kind != "u16" || p.Mask {
		return false
	}
	arg, _, _ := x.stripConvMask(call.Args[0])
	if !x.isLenOf(arg, param) {
		return false
	}
	fs, ok := body[1].(*ast.ForStmt)
	if !ok || fs.Cond == nil || len(fs.Body.List) != 1 {
		return false
	}
	// i := 0; i < len(s); i++
	ivar, ok := x.simpleCounter(fs)
	if !ok {
		return false
	}
	be, ok := fs.Cond.(*ast.BinaryExpr)
	if !ok || be.Op != token.LSS || objOf(x.info, be.X) != ivar || !x.isLenOf(be.Y, param) {
		return false
	}
	es2, ok := fs.Body.List[0].(*ast.ExprStmt)
	if !ok {
		return false
	}
	c2, ok := es2.X.(*ast.CallExpr)
	if !ok || len(c2.Args) != 1 {
		return false
	}
	if p, err := x.writePrim(callee(x.info, c2)); err != nil || p.Kind != "u8" {
		return false
	}
	a2, _, _ := x.stripConvMask(c2.Args[0])
	ix, ok := unparen(a2).(*ast.IndexExpr)
	return ok && objOf(x.info, ix.X) == param && objOf(x.info, ix.Index) == ivar
}

func (x *codecX) isLenOf(e ast.Expr, obj types.Object) bool {
	call, ok := unparen(e).(*ast.CallExpr)
	if !ok || len(call.Args) != 1 {
		return false
	}
	if id, ok := call.Fun.(*ast.Ident); !ok || id.Name != "len" {
		return false
	} else if _, isB := x.info.Uses[id].(*types.Builtin); !isB {
		return false
	}
	return objOf(x.info, call.Args[0]) == obj
}

// simpleCounter recognises "for i := 0; ...; i++" and returns i.
func (x *codecX) simpleCounter(fs *ast.ForStmt) (types.Object, bool) {
	as, ok := fs.Init.(*ast.AssignStmt)
	if !ok || as.Tok != token.DEFINE || len(as.Lhs) != 1 || len(as.Rhs) != 1 {
		return nil, false
	}
	if v, ok := constInt(x.info, as.Rhs[0]); !ok || v != 0 {
		return nil, false
	}
	id, ok := as.Lhs[0].(*ast.Ident)
	if !ok {
		return nil, false
	}
	obj := x.info.Defs[id]
	inc, ok := fs.Post.(*ast.IncDecStmt)
	if !ok || inc.Tok != token.INC || objOf(x.info, inc.X) != obj {
		return nil, false
	}
	return obj, true
}

// readPrim summarises a buffer read method.
func (x *codecX) readPrim(f *types.Func) (bufPrim, error) {
	if p, ok := x.reads[f]; ok {
		return p, nil
	}
	fi := x.l.FuncOf(f)
	if fi == nil || fi.Decl.Body == nil {
		return bufPrim{}, fmt.Errorf("no body for %s", funcKey(f))
	}
	body := fi.Decl.Body.List
	// Base: the path summary "consume(K) ok → decode of those K bytes, failed → 0".
	if p, applies, err := x.readBasePrim(fi); applies {
		if err != nil {
			return bufPrim{}, err
		}
		x.reads[f] = p
		return p, nil
	}
	// Delegation: return T(b.ReadX()) [& permissionsMask]
	if len(body) == 1 {
		if ret, ok := body[0].(*ast.ReturnStmt); ok && len(ret.Results) == 1 {
			e, masked, err := x.stripConvMask(ret.Results[0])
			if err != nil {
				return bufPrim{}, err
			}
			if call, ok := unparen(e).(*ast.CallExpr); ok && len(call.Args) == 0 {
				cf := callee(x.info, call)
				if x.isBufMethod(cf) {
					inner, err := x.readPrim(cf)
					if err != nil {
						return bufPrim{}, err
					}
					p := bufPrim{Kind: inner.Kind, Mask: inner.Mask || masked}
					x.reads[f] = p
					return p, nil
				}
			}
		}
	}
	// ReadString.
	if isStr, err := x.readStringPrim(fi); err != nil {
		return bufPrim{}, err
	} else if isStr {
		p := bufPrim{Kind: "str"}
		x.reads[f] = p
		return p, nil
	}
	return bufPrim{}, cerr(fi.Decl.Pos(), "%s: body is not a recognised read primitive", fi.Key)
}

func endsInReturn(b *ast.BlockStmt) bool {
	if b == nil || len(b.List) == 0 {
		return false
	}
	_, ok := b.List[len(b.List)-1].(*ast.ReturnStmt)
	return ok
}

// ---------------------------------------------------------------------------

// methodOf finds encode/decode (possibly promoted) for a named type and returns
// the function plus the embedded-field path through which it is promoted.
func (x *codecX) methodOf(t *types.Named, name string) (*types.Func, string) {
	obj, index, _ := types.LookupFieldOrMethod(types.NewPointer(t), true, t.Obj().Pkg(), name)
	f, _ := obj.(*types.Func)
	if f == nil {
		return nil, ""
	}
	prefix := ""
	cur := t.Underlying()
	for _, i := range index[:len(index)-1] {
		st, ok := cur.(*types.Struct)
		if !ok {
			break
		}
		fld := st.Field(i)
		prefix += fld.Name() + "."
		ft := fld.Type()
		if p, ok := ft.(*types.Pointer); ok {
			ft = p.Elem()
		}
		cur = ft.Underlying()
	}
	return f, prefix
}

type extractCtx struct {
	x      *codecX
	fi     *FuncInfo
	recv   types.Object
	buf    types.Object
	prefix string
	dir    string                  // encode | decode
	locals map[types.Object]string // range / element variables -> field path
	depth  int
	// helper contexts (a private function that is handed the buffer)
	retPath  string // decode helpers: the field whose storage must be returned
	returned bool
	// values read into locals of a decode helper and handed out through its results
	pending    map[types.Object]int // local -> index of the item (in this context's output) it holds
	retTargets []retTarget          // what the caller does with each result
	countIn    types.Object         // parameter that carries the caller's element count
	countArg   types.Object         // the caller's local that was passed for it
	countOut   int                  // index of the result that hands the element count to the caller (-1: none)
}

// retTarget says where result #i of a decode helper goes in the caller: into a field of the
// message, or into a local that the caller uses as an element count.
type retTarget struct {
	path  string
	field bool
	ftype types.Type
	local types.Object
}

// helperCtx recognises a call of a declared function (not a buffer method, not a nested
// encode/decode) that is handed this codec's buffer, and prepares the context in which its
// body is read as part of the message: the buffer parameter is the buffer, every other
// parameter must be bound to a field of the message (or be the receiver of the helper).
func (c *extractCtx) helperCtx(call *ast.CallExpr) (*extractCtx, bool, error) {
	cf := callee(c.x.info, call)
	if cf == nil || c.x.isBufMethod(cf) {
		return nil, false, nil
	}
	hf := c.x.l.FuncOf(cf)
	if hf == nil || hf.Decl.Body == nil || hf.Pkg.TypesInfo != c.x.info {
		return nil, false, nil
	}
	bufIdx := -1
	for i, a := range call.Args {
		if objOf(c.x.info, a) == c.buf && c.buf != nil {
			bufIdx = i
		}
	}
	if bufIdx < 0 {
		return nil, false, nil
	}
	if c.depth > 6 {
		return nil, false, cerr(call.Pos(), "%s: helper nesting too deep", c.fi.Key)
	}
	hc := &extractCtx{x: c.x, fi: hf, prefix: c.prefix, dir: c.dir, locals: map[types.Object]string{}, depth: c.depth + 1}
	// receiver of a helper method: a field path of the message
	if hf.Decl.Recv != nil && len(hf.Decl.Recv.List) == 1 && len(hf.Decl.Recv.List[0].Names) == 1 {
		sel, ok := call.Fun.(*ast.SelectorExpr)
		if !ok {
			return nil, false, nil
		}
		p, _, ok := c.fieldPath(sel.X)
		if !ok {
			return nil, false, cerr(call.Pos(), "%s: helper %s is called on %s, which is not part of the message", c.fi.Key, hf.Key, c.x.l.str(sel.X))
		}
		hc.locals[c.x.info.Defs[hf.Decl.Recv.List[0].Names[0]]] = p
	}
	idx := 0
	for _, fld := range hf.Decl.Type.Params.List {
		for _, nm := range fld.Names {
			if idx >= len(call.Args) {
				return nil, false, cerr(call.Pos(), "%s: helper %s: argument count", c.fi.Key, hf.Key)
			}
			obj := c.x.info.Defs[nm]
			if idx == bufIdx {
				hc.buf = obj
			} else {
				p, _, ok := c.fieldPath(call.Args[idx])
				if !ok {
					// a local of the caller: the element count it read before (checked by the caller)
					if lo, isVar := objOf(c.x.info, call.Args[idx]).(*types.Var); isVar && !lo.IsField() && hc.countArg == nil && c.dir == "decode" {
						hc.countIn, hc.countArg = obj, lo
						idx++
						continue
					}
					return nil, false, cerr(call.Pos(), "%s: helper %s is given %s, which is not a field of the message", c.fi.Key, hf.Key, c.x.l.str(call.Args[idx]))
				}
				hc.locals[obj] = p
			}
			idx++
		}
		if len(fld.Names) == 0 {
			idx++
		}
	}
	if hc.buf == nil {
		return nil, false, nil
	}
	return hc, true, nil
}

// decodeLiteral reads "*r = T{F: [conv](b.ReadX()), ...}" as the field reads it performs, in
// the (lexical = evaluation) order of the elements.
func (c *extractCtx) decodeLiteral(lhs ast.Expr, cl *ast.CompositeLit) ([]LItem, error) {
	base, bt, ok := c.fieldPath(lhs)
	if !ok {
		return nil, cerr(lhs.Pos(), "%s: literal assigned to %s, which is not part of the message", c.fi.Key, c.x.l.str(lhs))
	}
	if p, isPtr := bt.(*types.Pointer); isPtr {
		bt = p.Elem()
	}
	stt, isStruct := bt.Underlying().(*types.Struct)
	if !isStruct || !types.Identical(c.x.info.TypeOf(cl), bt) {
		return nil, cerr(cl.Pos(), "%s: unsupported literal assignment", c.fi.Key)
	}
	var out []LItem
	seen := map[string]bool{}
	for i, el := range cl.Elts {
		var name string
		var val ast.Expr
		if kv, isKV := el.(*ast.KeyValueExpr); isKV {
			name, val = c.x.l.str(kv.Key), kv.Value
		} else if i < stt.NumFields() {
			name, val = stt.Field(i).Name(), el
		}
		var fld *types.Var
		for j := 0; j < stt.NumFields(); j++ {
			if stt.Field(j).Name() == name {
				fld = stt.Field(j)
			}
		}
		if fld == nil || seen[name] {
			return nil, cerr(el.Pos(), "%s: unsupported literal element", c.fi.Key)
		}
		seen[name] = true
		inner, _, err := c.x.stripConvMask(val)
		if err != nil {
			return nil, err
		}
		call, isCall := unparen(inner).(*ast.CallExpr)
		if !isCall {
			return nil, cerr(el.Pos(), "%s: field %s of the literal is not read from the buffer", c.fi.Key, name)
		}
		cf := callee(c.x.info, call)
		if !c.x.isBufMethod(cf) || objOfSelBase(c.x.info, call.Fun) != c.buf {
			return nil, cerr(el.Pos(), "%s: field %s of the literal is not read from the buffer", c.fi.Key, name)
		}
		prim, err := c.x.readPrim(cf)
		if err != nil {
			return nil, err
		}
		bits, signed := typeBits(fld.Type())
		out = append(out, LItem{Kind: primKind(prim), Field: joinPath(base, name), FType: types.TypeString(fld.Type(), func(p *types.Package) string { return p.Name() }), FBits: bits, Signed: signed, Conv: c.x.l.str(val), Pos: el.Pos()})
	}
	// fields the literal leaves out are zeroed: fine for "no carry-over", but the layout must
	// still name every field the encoder writes (checked by the encode/decode comparison).
	return out, nil
}

// Layout extracts the layout of t's encode or decode method.
func (x *codecX) Layout(t *types.Named, dir string) ([]LItem, error) {
	return x.layout(t, dir, "", 0)
}

func (x *codecX) layout(t *types.Named, dir, prefix string, depth int) ([]LItem, error) {
	if depth > 6 {
		return nil, fmt.Errorf("codec nesting too deep at %s", t.Obj().Name())
	}
	f, promoted := x.methodOf(t, dir)
	if f == nil {
		return nil, fmt.Errorf("type %s has no %s method", t.Obj().Name(), dir)
	}
	fi := x.l.FuncOf(f)
	if fi == nil || fi.Decl.Body == nil || fi.Decl.Recv == nil {
		return nil, fmt.Errorf("no syntax for %s", funcKey(f))
	}
	c := &extractCtx{x: x, fi: fi, prefix: prefix + promoted, dir: dir, locals: map[types.Object]string{}, depth: depth}
	if names := fi.Decl.Recv.List[0].Names; len(names) == 1 {
		c.recv = x.info.Defs[names[0]]
	}
	if ps := fi.Decl.Type.Params.List; len(ps) == 1 && len(ps[0].Names) == 1 {
		c.buf = x.info.Defs[ps[0].Names[0]]
	} else if len(ps) == 1 && len(ps[0].Names) == 0 {
		// an unnamed buffer parameter: the body cannot touch the buffer (the codec of a
		// message without fields)
		c.buf = nil
	} else {
		return nil, cerr(fi.Decl.Pos(), "%s: expected exactly one buffer parameter", fi.Key)
	}
	// Special-cased bodies.
	switch fi.Key {
	case "p9.rreaddir.encode":
		return c.rreaddirEncode()
	case "p9.rreaddir.decode":
		return c.rreaddirDecode()
	}
	if dir == "encode" {
		return c.encodeStmts(fi.Decl.Body.List)
	}
	return c.decodeStmts(fi.Decl.Body.List)
}

// fieldPath resolves an expression to a field path of the message ("" if it is not one).
func (c *extractCtx) fieldPath(e ast.Expr) (string, types.Type, bool) {
	e = unparen(e)
	switch v := e.(type) {
	case *ast.Ident:
		obj := objOf(c.x.info, v)
		if obj == nil {
			return "", nil, false
		}
		if obj == c.recv {
			return strings.TrimSuffix(c.prefix, "."), obj.Type(), true
		}
		if p, ok := c.locals[obj]; ok {
			return p, obj.Type(), true
		}
	case *ast.SelectorExpr:
		if fld := fieldOf(c.x.info, v); fld != nil {
			base, _, ok := c.fieldPath(v.X)
			if !ok {
				return "", nil, false
			}
			// Account for promotion through embedded fields.
			sel := c.x.info.Selections[v]
			path := base
			if sel != nil && len(sel.Index()) > 1 {
				cur := sel.Recv()
				if p, ok := cur.(*types.Pointer); ok {
					cur = p.Elem()
				}
				for _, i := range sel.Index()[:len(sel.Index())-1] {
					st, ok := cur.Underlying().(*types.Struct)
					if !ok {
						break
					}
					path = joinPath(path, st.Field(i).Name())
					cur = st.Field(i).Type()
					if p, ok := cur.(*types.Pointer); ok {
						cur = p.Elem()
					}
				}
			}
			return joinPath(path, fld.Name()), fld.Type(), true
		}
	case *ast.StarExpr:
		return c.fieldPath(v.X)
	case *ast.UnaryExpr:
		if v.Op == token.AND {
			return c.fieldPath(v.X)
		}
	}
	return "", nil, false
}

func joinPath(a, b string) string {
	if a == "" {
		return b
	}
	if strings.HasSuffix(a, "[]") || true {
		return a + "." + b
	}
	return a + "." + b
}

func typeBits(t types.Type) (int, bool) {
	b, ok := t.Underlying().(*types.Basic)
	if !ok {
		return 0, false
	}
	switch b.Kind() {
	case types.Int8:
		return 8, true
	case types.Uint8:
		return 8, false
	case types.Int16:
		return 16, true
	case types.Uint16:
		return 16, false
	case types.Int32:
		return 32, true
	case types.Uint32:
		return 32, false
	case types.Int64, types.Int:
		return 64, true
	case types.Uint64, types.Uint, types.Uintptr:
		return 64, false
	case types.Bool:
		return 1, false
	}
	return 0, false
}

func (c *extractCtx) leaf(kind string, fieldExpr ast.Expr, conv string, pos token.Pos) (LItem, error) {
	path, t, ok := c.fieldPath(fieldExpr)
	if !ok {
		return LItem{}, cerr(pos, "%s: %s is not a field of the message", c.fi.Key, c.x.l.str(fieldExpr))
	}
	bits, signed := typeBits(t)
	return LItem{Kind: kind, Field: path, FType: types.TypeString(t, func(p *types.Package) string { return p.Name() }), FBits: bits, Signed: signed, Conv: conv, Pos: pos}, nil
}

func primKind(p bufPrim) string {
	if p.Mask {
		if p.Kind == "u32" {
			return "perm32"
		}
		return p.Kind + "+mask"
	}
	return p.Kind
}

// nestedCall recognises X.encode(b) / X.decode(b) where X is a field path or element variable.
func (c *extractCtx) nestedCall(call *ast.CallExpr) ([]LItem, bool, error) {
	sel, ok := call.Fun.(*ast.SelectorExpr)
	if !ok || sel.Sel.Name != c.dir || len(call.Args) != 1 || objOf(c.x.info, call.Args[0]) != c.buf {
		return nil, false, nil
	}
	path, t, ok := c.fieldPath(sel.X)
	if !ok {
		return nil, false, cerr(call.Pos(), "%s: nested %s on %s which is not a field of the message", c.fi.Key, c.dir, c.x.l.str(sel.X))
	}
	// The selection may itself be promoted (t.tlcreate.encode vs promoted through embedding).
	if p, ok := t.(*types.Pointer); ok {
		t = p.Elem()
	}
	nt, ok := t.(*types.Named)
	if !ok {
		return nil, false, cerr(call.Pos(), "%s: nested %s on non-named type %s", c.fi.Key, c.dir, t)
	}
	pfx := path
	if pfx != "" {
		pfx += "."
	}
	items, err := c.x.layout(nt, c.dir, pfx, c.depth+1)
	return items, true, err
}

func (c *extractCtx) encodeStmts(stmts []ast.Stmt) ([]LItem, error) {
	stmts = flattenBlocks(stmts) // loops over fixed tables arrive written out, one block per row
	var out []LItem
	// State for the bit-mask idiom.
	var maskVar types.Object
	maskBits := map[string]uint64{}
	var maskPos token.Pos
	var pendingListCount *LItem // "b.Write16(uint16(len(F)))" seen, loop expected next
	pendingField := ""
	for _, s := range stmts {
		switch st := s.(type) {
		case *ast.DeclStmt:
			// var mask uint64
			gd, ok := st.Decl.(*ast.GenDecl)
			if !ok || gd.Tok != token.VAR || len(gd.Specs) != 1 {
				return nil, cerr(s.Pos(), "%s: unsupported declaration", c.fi.Key)
			}
			vs := gd.Specs[0].(*ast.ValueSpec)
			if len(vs.Names) != 1 || len(vs.Values) != 0 {
				return nil, cerr(s.Pos(), "%s: unsupported declaration", c.fi.Key)
			}
			maskVar = c.x.info.Defs[vs.Names[0]]
			maskPos = s.Pos()
		case *ast.IfStmt:
			// if a.F { mask |= C }
			if maskVar == nil || st.Else != nil || st.Init != nil || len(st.Body.List) != 1 {
				return nil, cerr(s.Pos(), "%s: unsupported if statement in encoder", c.fi.Key)
			}
			path, t, ok := c.fieldPath(st.Cond)
			if !ok {
				return nil, cerr(s.Pos(), "%s: mask condition %s is not a field", c.fi.Key, c.x.l.str(st.Cond))
			}
			if b, _ := t.Underlying().(*types.Basic); b == nil || b.Kind() != types.Bool {
				return nil, cerr(s.Pos(), "%s: mask condition %s is not a bool field", c.fi.Key, path)
			}
			as, ok := st.Body.List[0].(*ast.AssignStmt)
			if !ok || as.Tok != token.OR_ASSIGN || len(as.Lhs) != 1 || objOf(c.x.info, as.Lhs[0]) != maskVar {
				return nil, cerr(s.Pos(), "%s: mask branch is not 'mask |= C'", c.fi.Key)
			}
			v, ok := constUint(c.x.info, as.Rhs[0])
			if !ok {
				return nil, cerr(s.Pos(), "%s: mask bit is not constant", c.fi.Key)
			}
			if _, dup := maskBits[path]; dup {
				return nil, cerr(s.Pos(), "%s: field %s contributes to the mask twice", c.fi.Key, path)
			}
			maskBits[path] = v
		case *ast.ExprStmt:
			call, ok := st.X.(*ast.CallExpr)
			if !ok {
				return nil, cerr(s.Pos(), "%s: unsupported statement", c.fi.Key)
			}
			if items, isNested, err := c.nestedCall(call); err != nil {
				return nil, err
			} else if isNested {
				out = append(out, items...)
				continue
			}
			cf := callee(c.x.info, call)
			if hc, ok, err := c.helperCtx(call); err != nil {
				return nil, err
			} else if ok {
				// a private helper that is handed the buffer: its writes are this message's writes
				items, err := hc.encodeStmts(hc.fi.Decl.Body.List)
				if err != nil {
					return nil, err
				}
				out = append(out, items...)
				continue
			}
			if !c.x.isBufMethod(cf) || objOfSelBase(c.x.info, call.Fun) != c.buf {
				return nil, cerr(s.Pos(), "%s: call %s is neither a buffer write nor a nested encode", c.fi.Key, c.x.l.str(call))
			}
			prim, err := c.x.writePrim(cf)
			if err != nil {
				return nil, err
			}
			if len(call.Args) != 1 {
				return nil, cerr(s.Pos(), "%s: write with %d arguments", c.fi.Key, len(call.Args))
			}
			arg := unparen(call.Args[0])
			conv := c.x.l.str(arg)
			inner, _, err := c.x.stripConvMask(arg)
			if err != nil {
				return nil, err
			}
			// b.WriteN(mask)
			if maskVar != nil && objOf(c.x.info, inner) == maskVar {
				kind := map[string]string{"u32": "bits32", "u64": "bits64"}[prim.Kind]
				if kind == "" {
					return nil, cerr(s.Pos(), "%s: mask written with width %s", c.fi.Key, prim.Kind)
				}
				out = append(out, LItem{Kind: kind, Field: strings.TrimSuffix(c.prefix, "."), Bits: maskBits, Pos: maskPos})
				maskVar = nil
				continue
			}
			// b.Write32(s.bitmask())
			if ic, ok := inner.(*ast.CallExpr); ok {
				if bits, pos, ok, err := c.bitmaskHelper(ic); err != nil {
					return nil, err
				} else if ok {
					kind := map[string]string{"u32": "bits32", "u64": "bits64"}[prim.Kind]
					if kind == "" {
						return nil, cerr(s.Pos(), "%s: mask written with width %s", c.fi.Key, prim.Kind)
					}
					out = append(out, LItem{Kind: kind, Field: strings.TrimSuffix(c.prefix, "."), Bits: bits, Pos: pos})
					continue
				}
				// len(F): list count or payload count
				if id, ok := ic.Fun.(*ast.Ident); ok && id.Name == "len" && len(ic.Args) == 1 {
					path, t, ok := c.fieldPath(ic.Args[0])
					if !ok {
						return nil, cerr(s.Pos(), "%s: len of non-field %s", c.fi.Key, c.x.l.str(ic.Args[0]))
					}
					if prim.Kind == "u16" {
						it := LItem{Kind: "list16", Field: path, FType: t.String(), Conv: conv, Pos: s.Pos()}
						out = append(out, it)
						pendingListCount = &out[len(out)-1]
						pendingField = path
						continue
					}
					if prim.Kind == "u32" {
						out = append(out, LItem{Kind: "count32", Field: path, Conv: conv, Pos: s.Pos()})
						continue
					}
					return nil, cerr(s.Pos(), "%s: length written with width %s", c.fi.Key, prim.Kind)
				}
			}
			it, err := c.leaf(primKind(prim), inner, conv, s.Pos())
			if err != nil {
				return nil, err
			}
			out = append(out, it)
		case *ast.RangeStmt:
			if pendingListCount == nil {
				return nil, cerr(s.Pos(), "%s: range loop without a preceding element count", c.fi.Key)
			}
			path, _, ok := c.fieldPath(st.X)
			if !ok || path != pendingField {
				return nil, cerr(s.Pos(), "%s: loop ranges over %s but the count written is len(%s)", c.fi.Key, c.x.l.str(st.X), pendingField)
			}
			if st.Value == nil {
				return nil, cerr(s.Pos(), "%s: range loop without element variable", c.fi.Key)
			}
			if k, ok := st.Key.(*ast.Ident); ok && k.Name != "_" {
				return nil, cerr(s.Pos(), "%s: range loop uses the index", c.fi.Key)
			}
			ev := c.x.info.Defs[st.Value.(*ast.Ident)]
			c.locals[ev] = path + "[]"
			elem, err := c.encodeStmts(st.Body.List)
			delete(c.locals, ev)
			if err != nil {
				return nil, err
			}
			pendingListCount.Elem = elem
			pendingListCount = nil
		default:
			return nil, cerr(s.Pos(), "%s: unsupported statement %T in encoder", c.fi.Key, s)
		}
	}
	if pendingListCount != nil {
		return nil, cerr(c.fi.Decl.Pos(), "%s: element count of %s written but elements are not", c.fi.Key, pendingField)
	}
	if maskVar != nil && len(maskBits) > 0 {
		return nil, cerr(c.fi.Decl.Pos(), "%s: mask computed but never written", c.fi.Key)
	}
	return out, nil
}

func objOfSelBase(info *types.Info, fun ast.Expr) types.Object {
	sel, ok := fun.(*ast.SelectorExpr)
	if !ok {
		return nil
	}
	return objOf(info, sel.X)
}

// bitmaskHelper recognises a call of a method on the receiver whose body is the
// mask idiom followed by "return mask" (SetAttrMask.bitmask).
func (c *extractCtx) bitmaskHelper(call *ast.CallExpr) (map[string]uint64, token.Pos, bool, error) {
	sel, ok := call.Fun.(*ast.SelectorExpr)
	if !ok || len(call.Args) != 0 {
		return nil, 0, false, nil
	}
	if p, _, ok := c.fieldPath(sel.X); !ok || p != strings.TrimSuffix(c.prefix, ".") {
		return nil, 0, false, nil
	}
	hf := c.x.l.FuncOf(callee(c.x.info, call))
	if hf == nil || hf.Decl.Body == nil || hf.Decl.Recv == nil {
		return nil, 0, false, nil
	}
	body := hf.Decl.Body.List
	if len(body) < 2 {
		return nil, 0, false, nil
	}
	ret, ok := body[len(body)-1].(*ast.ReturnStmt)
	if !ok || len(ret.Results) != 1 {
		return nil, 0, false, nil
	}
	hc := &extractCtx{x: c.x, fi: hf, prefix: c.prefix, dir: "encode", locals: map[types.Object]string{}}
	if names := hf.Decl.Recv.List[0].Names; len(names) == 1 {
		hc.recv = c.x.info.Defs[names[0]]
	}
	// Interpret "var mask T; if ...; return mask" by appending a synthetic write.
	var maskVar types.Object
	bits := map[string]uint64{}
	for _, s := range body[:len(body)-1] {
		switch st := s.(type) {
		case *ast.DeclStmt:
			gd := st.Decl.(*ast.GenDecl)
			if len(gd.Specs) != 1 {
				return nil, 0, false, cerr(s.Pos(), "%s: unsupported declaration", hf.Key)
			}
			vs := gd.Specs[0].(*ast.ValueSpec)
			if len(vs.Names) != 1 || len(vs.Values) != 0 {
				return nil, 0, false, cerr(s.Pos(), "%s: unsupported declaration", hf.Key)
			}
			maskVar = c.x.info.Defs[vs.Names[0]]
		case *ast.IfStmt:
			if maskVar == nil || st.Else != nil || st.Init != nil || len(st.Body.List) != 1 {
				return nil, 0, false, cerr(s.Pos(), "%s: unsupported if statement in mask helper", hf.Key)
			}
			path, _, ok := hc.fieldPath(st.Cond)
			if !ok {
				return nil, 0, false, cerr(s.Pos(), "%s: mask condition is not a field", hf.Key)
			}
			as, ok := st.Body.List[0].(*ast.AssignStmt)
			if !ok || as.Tok != token.OR_ASSIGN || objOf(c.x.info, as.Lhs[0]) != maskVar {
				return nil, 0, false, cerr(s.Pos(), "%s: mask branch is not 'mask |= C'", hf.Key)
			}
			v, ok := constUint(c.x.info, as.Rhs[0])
			if !ok {
				return nil, 0, false, cerr(s.Pos(), "%s: mask bit is not constant", hf.Key)
			}
			if _, dup := bits[path]; dup {
				return nil, 0, false, cerr(s.Pos(), "%s: field %s contributes twice", hf.Key, path)
			}
			bits[path] = v
		default:
			return nil, 0, false, cerr(s.Pos(), "%s: unsupported statement in mask helper", hf.Key)
		}
	}
	if maskVar == nil || objOf(c.x.info, ret.Results[0]) != maskVar {
		return nil, 0, false, cerr(ret.Pos(), "%s: does not return the mask", hf.Key)
	}
	return bits, hf.Decl.Pos(), true, nil
}

func (c *extractCtx) decodeStmts(stmts []ast.Stmt) ([]LItem, error) {
	stmts = flattenBlocks(stmts)
	var out []LItem
	var maskVar types.Object
	var maskItem *LItem
	var countVar types.Object // n := b.Read16()
	var countPos token.Pos
	resetSeen := map[string]bool{}
	accum := map[types.Object]string{} // local accumulators of list fields that still await their write-back
	var payloadCountVar types.Object   // count := b.Read32()
	for i := 0; i < len(stmts); i++ {
		s := stmts[i]
		switch st := s.(type) {
		case *ast.ExprStmt:
			call, ok := st.X.(*ast.CallExpr)
			if !ok {
				return nil, cerr(s.Pos(), "%s: unsupported statement", c.fi.Key)
			}
			items, isNested, err := c.nestedCall(call)
			if err != nil {
				return nil, err
			}
			if !isNested {
				if hc, ok, err := c.helperCtx(call); err != nil {
					return nil, err
				} else if ok {
					hitems, err := hc.decodeStmts(hc.fi.Decl.Body.List)
					if err != nil {
						return nil, err
					}
					out = append(out, hitems...)
					continue
				}
				return nil, cerr(s.Pos(), "%s: call %s discards what it reads or is not a nested decode", c.fi.Key, c.x.l.str(call))
			}
			out = append(out, items...)
		case *ast.ReturnStmt:
			// a helper that hands out the values it read: every result is a local holding one read
			if c.retTargets != nil && i == len(stmts)-1 {
				results := st.Results
				if len(results) == 0 && c.fi.Decl.Type.Results != nil {
					for _, f := range c.fi.Decl.Type.Results.List {
						for _, nm := range f.Names {
							results = append(results, nm)
						}
					}
				}
				if len(results) != len(c.retTargets) {
					return nil, cerr(s.Pos(), "%s: returns %d values for %d targets", c.fi.Key, len(results), len(c.retTargets))
				}
				used := map[int]bool{}
				drop := -1
				for j, e := range results {
					lo := objOf(c.x.info, e)
					idx, has := c.pending[lo]
					if lo == nil || !has || used[idx] {
						return nil, cerr(s.Pos(), "%s: result %d (%s) is not a value read from the buffer by this helper", c.fi.Key, j, c.x.l.str(e))
					}
					used[idx] = true
					tg := c.retTargets[j]
					if tg.field {
						bits, signed := typeBits(tg.ftype)
						out[idx].Field, out[idx].FType, out[idx].FBits, out[idx].Signed = tg.path, types.TypeString(tg.ftype, func(p *types.Package) string { return p.Name() }), bits, signed
					} else {
						// an element count for the caller: the item itself is emitted with the list
						if out[idx].Kind != "u16" || c.countOut >= 0 {
							return nil, cerr(s.Pos(), "%s: result %d is kept in a local of the caller but is not a u16 element count", c.fi.Key, j)
						}
						c.countOut, drop = j, idx
					}
				}
				if len(used) != len(c.pending) {
					return nil, cerr(s.Pos(), "%s: a value read from the buffer is dropped", c.fi.Key)
				}
				if drop >= 0 {
					out = append(out[:drop], out[drop+1:]...)
				}
				c.returned = true
				continue
			}
			// only at the end of a helper: return the storage parameter
			if c.retPath == "" || i != len(stmts)-1 || len(st.Results) != 1 {
				return nil, cerr(s.Pos(), "%s: unsupported return in decoder", c.fi.Key)
			}
			if p, _, ok := c.fieldPath(st.Results[0]); !ok || p != c.retPath {
				return nil, cerr(s.Pos(), "%s: returns %s, not the storage of %s", c.fi.Key, c.x.l.str(st.Results[0]), c.retPath)
			}
			c.returned = true
		case *ast.DeclStmt:
			// "var q QID" inside list loops is handled by the loop code; a plain declaration
			// without initialiser ("var n uint16") only introduces a local
			if gd, ok := st.Decl.(*ast.GenDecl); ok && gd.Tok == token.VAR {
				plain := true
				for _, sp := range gd.Specs {
					if vs, ok := sp.(*ast.ValueSpec); !ok || len(vs.Values) != 0 {
						plain = false
					}
				}
				if plain {
					continue
				}
			}
			return nil, cerr(s.Pos(), "%s: unsupported declaration in decoder", c.fi.Key)
		case *ast.AssignStmt:
			// a, b, n = helper(buf): a private helper reads several values and hands them out
			if len(st.Lhs) > 1 && len(st.Rhs) == 1 {
				if hcall, ok := unparen(st.Rhs[0]).(*ast.CallExpr); ok {
					if hc, ok, err := c.helperCtx(hcall); err != nil {
						return nil, err
					} else if ok {
						hc.countOut = -1
						for _, lhs := range st.Lhs {
							if p, t, isField := c.fieldPath(lhs); isField {
								hc.retTargets = append(hc.retTargets, retTarget{path: p, field: true, ftype: t})
							} else if lo := objOf(c.x.info, lhs); lo != nil {
								hc.retTargets = append(hc.retTargets, retTarget{local: lo})
							} else {
								return nil, cerr(s.Pos(), "%s: result of %s is stored in %s, which is neither a field nor a local", c.fi.Key, c.x.l.str(hcall.Fun), c.x.l.str(lhs))
							}
						}
						items, err := hc.decodeStmts(hc.fi.Decl.Body.List)
						if err != nil {
							return nil, err
						}
						if !hc.returned {
							return nil, cerr(s.Pos(), "%s: helper %s does not hand out what it read", c.fi.Key, c.x.l.str(hcall.Fun))
						}
						out = append(out, items...)
						if hc.countOut >= 0 {
							countVar = hc.retTargets[hc.countOut].local
							countPos = s.Pos()
						}
						continue
					}
				}
			}
			if len(st.Lhs) != 1 || len(st.Rhs) != 1 {
				return nil, cerr(s.Pos(), "%s: unsupported multi-assignment", c.fi.Key)
			}
			rhs := unparen(st.Rhs[0])
			// *r = T{F: b.ReadX(), ...}: the fields are read in the order the elements are written
			if cl, ok := rhs.(*ast.CompositeLit); ok && st.Tok == token.ASSIGN {
				items, err := c.decodeLiteral(st.Lhs[0], cl)
				if err != nil {
					return nil, err
				}
				out = append(out, items...)
				continue
			}
			// F = helper(b, F): a private helper that is handed the buffer and the storage
			if hcall, ok := rhs.(*ast.CallExpr); ok && st.Tok == token.ASSIGN {
				if hc, ok, err := c.helperCtx(hcall); err != nil {
					return nil, err
				} else if ok {
					lp, _, lok := c.fieldPath(st.Lhs[0])
					if !lok {
						return nil, cerr(s.Pos(), "%s: result of %s is not stored in a field of the message", c.fi.Key, c.x.l.str(hcall.Fun))
					}
					hc.retPath = lp
					if hc.countArg != nil {
						if hc.countArg != countVar {
							return nil, cerr(s.Pos(), "%s: %s is handed to %s but is not the element count read before", c.fi.Key, hc.countArg.Name(), c.x.l.str(hcall.Fun))
						}
						countVar = nil // consumed by the helper's loop
					}
					items, err := hc.decodeStmts(hc.fi.Decl.Body.List)
					if err != nil {
						return nil, err
					}
					for k := range items {
						if items[k].Kind == "list16" && hc.countIn != nil && items[k].Pos == token.NoPos {
							items[k].Pos = countPos
						}
					}
					if !hc.returned {
						return nil, cerr(s.Pos(), "%s: helper %s does not return the storage it filled", c.fi.Key, c.x.l.str(hcall.Fun))
					}
					out = append(out, items...)
					continue
				}
			}
			// L := F[:0] ... F = L: the elements are accumulated in a local that starts as the
			// emptied storage of the field and is stored in the field afterwards
			if sl, ok := rhs.(*ast.SliceExpr); ok && st.Tok == token.DEFINE {
				id, isId := st.Lhs[0].(*ast.Ident)
				rp, _, rok := c.fieldPath(sl.X)
				hi, hok := constInt(c.x.info, sl.High)
				if isId && rok && sl.Low == nil && sl.High != nil && hok && hi == 0 && !sl.Slice3 {
					obj := c.x.info.Defs[id]
					if c.locals == nil {
						c.locals = map[types.Object]string{}
					}
					c.locals[obj] = rp
					accum[obj] = rp
					resetSeen[rp] = true
					continue
				}
				return nil, cerr(s.Pos(), "%s: unsupported slice assignment", c.fi.Key)
			}
			if id, ok := rhs.(*ast.Ident); ok && st.Tok == token.ASSIGN {
				if p, isAcc := accum[objOf(c.x.info, id)]; isAcc {
					lp, _, lok := c.fieldPath(st.Lhs[0])
					if !lok || lp != p {
						return nil, cerr(s.Pos(), "%s: the elements accumulated for %s are stored in %s", c.fi.Key, p, c.x.l.str(st.Lhs[0]))
					}
					// from here on the local no longer stands for the field
					delete(accum, objOf(c.x.info, id))
					delete(c.locals, objOf(c.x.info, id))
					continue
				}
			}
			// F = F[:0]
			if sl, ok := rhs.(*ast.SliceExpr); ok && st.Tok == token.ASSIGN {
				lp, _, lok := c.fieldPath(st.Lhs[0])
				rp, _, rok := c.fieldPath(sl.X)
				hi, hok := constInt(c.x.info, sl.High)
				if lok && rok && lp == rp && sl.Low == nil && sl.High != nil && hok && hi == 0 {
					resetSeen[lp] = true
					continue
				}
				return nil, cerr(s.Pos(), "%s: unsupported slice assignment", c.fi.Key)
			}
			// a.F = mask&C != 0
			if be, ok := rhs.(*ast.BinaryExpr); ok && be.Op == token.NEQ && maskVar != nil {
				if z, ok := constInt(c.x.info, be.Y); ok && z == 0 {
					if and, ok := unparen(be.X).(*ast.BinaryExpr); ok && and.Op == token.AND && objOf(c.x.info, and.X) == maskVar {
						v, ok := constUint(c.x.info, and.Y)
						if !ok {
							return nil, cerr(s.Pos(), "%s: mask bit is not constant", c.fi.Key)
						}
						path, t, ok := c.fieldPath(st.Lhs[0])
						if !ok {
							return nil, cerr(s.Pos(), "%s: mask target %s is not a field", c.fi.Key, c.x.l.str(st.Lhs[0]))
						}
						if b, _ := t.Underlying().(*types.Basic); b == nil || b.Kind() != types.Bool {
							return nil, cerr(s.Pos(), "%s: mask target %s is not bool", c.fi.Key, path)
						}
						if _, dup := maskItem.Bits[path]; dup {
							return nil, cerr(s.Pos(), "%s: field %s assigned twice from the mask", c.fi.Key, path)
						}
						maskItem.Bits[path] = v
						continue
					}
				}
				return nil, cerr(s.Pos(), "%s: unsupported mask test", c.fi.Key)
			}
			// X = [T](b.ReadY())
			inner, _, err := c.x.stripConvMask(rhs)
			if err != nil {
				return nil, err
			}
			call, ok := unparen(inner).(*ast.CallExpr)
			if !ok {
				return nil, cerr(s.Pos(), "%s: unsupported assignment %s", c.fi.Key, c.x.l.str(s))
			}
			cf := callee(c.x.info, call)
			if !c.x.isBufMethod(cf) || objOfSelBase(c.x.info, call.Fun) != c.buf {
				return nil, cerr(s.Pos(), "%s: assignment from %s which is not a buffer read", c.fi.Key, c.x.l.str(call))
			}
			prim, err := c.x.readPrim(cf)
			if err != nil {
				return nil, err
			}
			if st.Tok == token.DEFINE {
				// n := b.Read16() | mask := b.Read64() | count := b.Read32()
				id := st.Lhs[0].(*ast.Ident)
				obj := c.x.info.Defs[id]
				// Look ahead to classify.
				if i+1 < len(stmts) {
					if c.isMaskUse(stmts[i+1], obj) {
						kind := map[string]string{"u32": "bits32", "u64": "bits64"}[prim.Kind]
						if kind == "" {
							return nil, cerr(s.Pos(), "%s: mask read with width %s", c.fi.Key, prim.Kind)
						}
						out = append(out, LItem{Kind: kind, Field: strings.TrimSuffix(c.prefix, "."), Bits: map[string]uint64{}, Pos: s.Pos()})
						maskItem = &out[len(out)-1]
						maskVar = obj
						continue
					}
					if ifs, ok := stmts[i+1].(*ast.IfStmt); ok && prim.Kind == "u32" {
						if path, ok := c.payloadCountCheck(ifs, obj); ok {
							out = append(out, LItem{Kind: "count32", Field: path, Pos: s.Pos()})
							payloadCountVar = obj
							i++
							continue
						}
					}
				}
				if prim.Kind == "u16" {
					countVar = obj
					countPos = s.Pos()
					continue
				}
				return nil, cerr(s.Pos(), "%s: value read into local %s is not used in a recognised way", c.fi.Key, id.Name)
			}
			// inside a helper: a value read into a local / named result that is handed out later
			if lo := objOf(c.x.info, st.Lhs[0]); lo != nil && c.retTargets != nil {
				if _, _, isField := c.fieldPath(st.Lhs[0]); !isField {
					if c.pending == nil {
						c.pending = map[types.Object]int{}
					}
					out = append(out, LItem{Kind: primKind(prim), Conv: c.x.l.str(rhs), Pos: s.Pos()})
					c.pending[lo] = len(out) - 1
					continue
				}
			}
			it, err := c.leaf(primKind(prim), st.Lhs[0], c.x.l.str(rhs), s.Pos())
			if err != nil {
				return nil, err
			}
			out = append(out, it)
		case *ast.ForStmt:
			if countVar == nil && c.countIn != nil {
				countVar, countPos = c.countIn, s.Pos()
			}
			if countVar == nil {
				return nil, cerr(s.Pos(), "%s: loop without a preceding element count", c.fi.Key)
			}
			ivar, ok := c.x.simpleCounter(st)
			if !ok {
				return nil, cerr(s.Pos(), "%s: loop is not 'for i := 0; i < int(n); i++'", c.fi.Key)
			}
			be, ok := st.Cond.(*ast.BinaryExpr)
			if !ok || be.Op != token.LSS || objOf(c.x.info, be.X) != ivar {
				return nil, cerr(s.Pos(), "%s: loop condition is not 'i < int(n)'", c.fi.Key)
			}
			if a, _, _ := c.x.stripConvMask(be.Y); objOf(c.x.info, a) != countVar {
				return nil, cerr(s.Pos(), "%s: loop bound is not the count that was read", c.fi.Key)
			}
			it, err := c.decodeListBody(st.Body.List)
			if err != nil {
				return nil, err
			}
			it.Pos = countPos
			it.Reset = resetSeen[it.Field]
			out = append(out, it)
			countVar = nil
		case *ast.IfStmt:
			// the payload length check written without a local:
			//   if b.Read32() != uint32(len(F)) { b.markOverrun() }
			//   if b.Read32() == uint32(len(F)) { return }; b.markOverrun()      (last two statements)
			path, eq, ok, err := c.payloadCountDirect(st)
			if err != nil {
				return nil, err
			}
			if !ok {
				return nil, cerr(s.Pos(), "%s: unsupported statement %T in decoder", c.fi.Key, s)
			}
			if eq {
				// equal → return; the overrun mark must be all that follows
				if i+2 != len(stmts) || !isMarkOverrun(c.x.info, stmts[i+1]) {
					return nil, cerr(s.Pos(), "%s: a matching payload length returns, but what follows is not just b.markOverrun()", c.fi.Key)
				}
				i++
			}
			out = append(out, LItem{Kind: "count32", Field: path, Pos: s.Pos()})
		default:
			return nil, cerr(s.Pos(), "%s: unsupported statement %T in decoder", c.fi.Key, s)
		}
	}
	_ = payloadCountVar
	if countVar != nil {
		return nil, cerr(c.fi.Decl.Pos(), "%s: element count read but no elements decoded", c.fi.Key)
	}
	for obj, p := range accum {
		return nil, cerr(obj.Pos(), "%s: the elements of %s are accumulated in %s, which is never stored in the field", c.fi.Key, p, obj.Name())
	}
	return out, nil
}

func (c *extractCtx) isMaskUse(s ast.Stmt, mask types.Object) bool {
	as, ok := s.(*ast.AssignStmt)
	if !ok || len(as.Rhs) != 1 {
		return false
	}
	be, ok := unparen(as.Rhs[0]).(*ast.BinaryExpr)
	if !ok || be.Op != token.NEQ {
		return false
	}
	and, ok := unparen(be.X).(*ast.BinaryExpr)
	return ok && and.Op == token.AND && objOf(c.x.info, and.X) == mask
}

// payloadCountCheck recognises: if count != uint32(len(F)) { b.markOverrun() }
func (c *extractCtx) payloadCountCheck(ifs *ast.IfStmt, count types.Object) (string, bool) {
	be, ok := ifs.Cond.(*ast.BinaryExpr)
	if !ok || be.Op != token.NEQ || ifs.Else != nil || ifs.Init != nil {
		return "", false
	}
	x, y := be.X, be.Y
	if objOf(c.x.info, x) != count {
		x, y = y, x
	}
	if objOf(c.x.info, x) != count {
		return "", false
	}
	inner, _, _ := c.x.stripConvMask(y)
	lc, ok := unparen(inner).(*ast.CallExpr)
	if !ok || len(lc.Args) != 1 {
		return "", false
	}
	if id, ok := lc.Fun.(*ast.Ident); !ok || id.Name != "len" {
		return "", false
	}
	path, _, ok := c.fieldPath(lc.Args[0])
	if !ok {
		return "", false
	}
	if len(ifs.Body.List) != 1 {
		return "", false
	}
	es, ok := ifs.Body.List[0].(*ast.ExprStmt)
	if !ok {
		return "", false
	}
	mc, ok := es.X.(*ast.CallExpr)
	if !ok || calleeKey(c.x.info, mc) != "p9.buffer.markOverrun" {
		return "", false
	}
	return path, true
}

// decodeListBody handles the two element idioms:
//
//	F = append(F, b.ReadString())
//	var q T; q.decode(b); F = append(F, q)
func (c *extractCtx) decodeListBody(body []ast.Stmt) (LItem, error) {
	pos := token.NoPos
	if len(body) > 0 {
		pos = body[0].Pos()
	}
	appendTarget := func(s ast.Stmt) (string, ast.Expr, bool) {
		as, ok := s.(*ast.AssignStmt)
		if !ok || as.Tok != token.ASSIGN || len(as.Lhs) != 1 || len(as.Rhs) != 1 {
			return "", nil, false
		}
		call, ok := as.Rhs[0].(*ast.CallExpr)
		if !ok || len(call.Args) != 2 {
			return "", nil, false
		}
		if id, ok := call.Fun.(*ast.Ident); !ok || id.Name != "append" {
			return "", nil, false
		}
		lp, _, lok := c.fieldPath(as.Lhs[0])
		ap, _, aok := c.fieldPath(call.Args[0])
		if !lok || !aok || lp != ap {
			return "", nil, false
		}
		return lp, call.Args[1], true
	}
	switch len(body) {
	case 1:
		path, elem, ok := appendTarget(body[0])
		if !ok {
			return LItem{}, cerr(pos, "%s: list element is not appended to a message field", c.fi.Key)
		}
		inner, _, err := c.x.stripConvMask(elem)
		if err != nil {
			return LItem{}, err
		}
		call, ok := unparen(inner).(*ast.CallExpr)
		if !ok {
			return LItem{}, cerr(pos, "%s: list element is not read from the buffer", c.fi.Key)
		}
		cf := callee(c.x.info, call)
		if !c.x.isBufMethod(cf) || objOfSelBase(c.x.info, call.Fun) != c.buf {
			return LItem{}, cerr(pos, "%s: list element is not read from the buffer", c.fi.Key)
		}
		prim, err := c.x.readPrim(cf)
		if err != nil {
			return LItem{}, err
		}
		return LItem{Kind: "list16", Field: path, Elem: []LItem{{Kind: primKind(prim), Field: path + "[]", Pos: pos}}}, nil
	case 3:
		ds, ok := body[0].(*ast.DeclStmt)
		if !ok {
			break
		}
		gd, ok := ds.Decl.(*ast.GenDecl)
		if !ok || len(gd.Specs) != 1 {
			break
		}
		vs := gd.Specs[0].(*ast.ValueSpec)
		if len(vs.Names) != 1 || len(vs.Values) != 0 {
			break
		}
		ev := c.x.info.Defs[vs.Names[0]]
		path, elem, ok := appendTarget(body[2])
		if !ok || objOf(c.x.info, elem) != ev {
			break
		}
		es, ok := body[1].(*ast.ExprStmt)
		if !ok {
			break
		}
		call, ok := es.X.(*ast.CallExpr)
		if !ok {
			break
		}
		c.locals[ev] = path + "[]"
		items, isNested, err := c.nestedCall(call)
		delete(c.locals, ev)
		if err != nil {
			return LItem{}, err
		}
		if !isNested {
			break
		}
		return LItem{Kind: "list16", Field: path, Elem: items}, nil
	}
	return LItem{}, cerr(pos, "%s: unsupported list element idiom", c.fi.Key)
}

// --- rreaddir -------------------------------------------------------------

// rreaddirEncode verifies the whole-entry truncation idiom and returns
// "count32 dirents".  What is checked (C01.r9):
//
//	entriesBuf := buffer{}; payloadSize := 0
//	for _, d := range r.Entries { d.encode(&entriesBuf); if len(entriesBuf.data) > int(r.Count) { break }; payloadSize = len(entriesBuf.data) }
//	r.Count = uint32(payloadSize); r.payload = entriesBuf.data[:payloadSize]; b.Write32(r.Count)
func (c *extractCtx) rreaddirEncode() ([]LItem, error) {
	info := c.x.info
	res := newResolver(c.x.l, info, c.fi.Decl)
	body := c.fi.Decl.Body.List
	// A statement that only names a pure expression (limit := int(r.Count)) is transparent: the
	// resolver renders its uses as the expression.  It is accepted where nothing between the
	// definition and the use can change the expression's value: directly before its use, or
	// before the loop when the loop assigns none of its variables.
	isAlias := func(s ast.Stmt) (types.Object, ast.Expr) {
		as, ok := s.(*ast.AssignStmt)
		if !ok || as.Tok != token.DEFINE || len(as.Lhs) != 1 || len(as.Rhs) != 1 {
			return nil, nil
		}
		obj := info.Defs[as.Lhs[0].(*ast.Ident)]
		if d, ok := res.defs[obj]; ok && d != nil && pureExpr(d) {
			if _, isC := constInt(info, d); !isC {
				return obj, d
			}
		}
		return nil, nil
	}
	var entriesBuf, acc types.Object
	var loop *ast.RangeStmt
	var tail []ast.Stmt
	var preAliases []ast.Expr
	note := func(obj types.Object, init ast.Expr) error {
		switch {
		case types.Identical(obj.Type(), c.x.bufType) && entriesBuf == nil:
			if init != nil {
				if cl, ok := unparen(init).(*ast.CompositeLit); !ok || len(cl.Elts) != 0 {
					return cerr(init.Pos(), "%s: the scratch buffer does not start empty", c.fi.Key)
				}
			}
			entriesBuf = obj
		case acc == nil:
			if b, ok := obj.Type().Underlying().(*types.Basic); !ok || b.Kind() != types.Int {
				return cerr(obj.Pos(), "%s: unsupported local %s before the entry loop", c.fi.Key, obj.Name())
			}
			if init != nil {
				if v, ok := constInt(info, init); !ok || v != 0 {
					return cerr(init.Pos(), "%s: the size accumulator does not start at 0", c.fi.Key)
				}
			}
			acc = obj
		default:
			return cerr(obj.Pos(), "%s: unsupported local %s before the entry loop", c.fi.Key, obj.Name())
		}
		return nil
	}
	for i, s := range body {
		if rs, ok := s.(*ast.RangeStmt); ok {
			loop = rs
			tail = body[i+1:]
			break
		}
		if _, d := isAlias(s); d != nil {
			preAliases = append(preAliases, d)
			continue
		}
		switch st := s.(type) {
		case *ast.AssignStmt:
			if st.Tok != token.DEFINE || len(st.Lhs) != len(st.Rhs) {
				return nil, cerr(s.Pos(), "%s: unsupported statement before the entry loop", c.fi.Key)
			}
			for j, l := range st.Lhs {
				if err := note(info.Defs[l.(*ast.Ident)], st.Rhs[j]); err != nil {
					return nil, err
				}
			}
		case *ast.DeclStmt:
			gd, ok := st.Decl.(*ast.GenDecl)
			if !ok || gd.Tok != token.VAR {
				return nil, cerr(s.Pos(), "%s: unsupported statement before the entry loop", c.fi.Key)
			}
			for _, sp := range gd.Specs {
				vs := sp.(*ast.ValueSpec)
				for j, nm := range vs.Names {
					var init ast.Expr
					if j < len(vs.Values) {
						init = vs.Values[j]
					}
					if err := note(info.Defs[nm], init); err != nil {
						return nil, err
					}
				}
			}
		default:
			return nil, cerr(s.Pos(), "%s: unsupported statement before the entry loop", c.fi.Key)
		}
	}
	if loop == nil || entriesBuf == nil || acc == nil {
		return nil, cerr(c.fi.Decl.Pos(), "%s: entry loop idiom not found", c.fi.Key)
	}
	if p, _, ok := c.fieldPath(loop.X); !ok || !strings.HasSuffix(p, "Entries") {
		return nil, cerr(loop.Pos(), "%s: loop does not range over Entries", c.fi.Key)
	}
	if loop.Value == nil {
		return nil, cerr(loop.Pos(), "%s: loop has no element variable", c.fi.Key)
	}
	// aliases defined before the loop must not be invalidated inside it
	assignedInLoop := map[types.Object]bool{}
	ast.Inspect(loop.Body, func(n ast.Node) bool {
		switch v := n.(type) {
		case *ast.AssignStmt:
			for _, l := range v.Lhs {
				for _, o := range objsIn(info, l) {
					assignedInLoop[o] = true
				}
				if o := objOf(info, l); o != nil {
					assignedInLoop[o] = true
				}
			}
		case *ast.UnaryExpr:
			if v.Op == token.AND {
				for _, o := range objsIn(info, v.X) {
					assignedInLoop[o] = true
				}
			}
		}
		return true
	})
	for _, d := range preAliases {
		for _, o := range objsIn(info, d) {
			if assignedInLoop[o] {
				return nil, cerr(d.Pos(), "%s: %s is computed before the loop but changes inside it", c.fi.Key, c.x.l.str(d))
			}
		}
	}
	dvar := info.Defs[loop.Value.(*ast.Ident)]
	bufName := res.nameOf(entriesBuf)
	lenBuf := "len(" + bufName + ".data)"
	// loop body without adjacent alias definitions
	var lb []ast.Stmt
	for i, s := range loop.Body.List {
		if obj, _ := isAlias(s); obj != nil {
			// must be used by the very next non-alias statement only after no intervening effects:
			// aliases are consecutive with their use because everything between is an alias too
			if i+1 >= len(loop.Body.List) {
				return nil, cerr(s.Pos(), "%s: unused local in the entry loop", c.fi.Key)
			}
			continue
		}
		lb = append(lb, s)
	}
	// an alias may only be used in the statement(s) that follow it without an intervening effect
	for i, s := range loop.Body.List {
		obj, _ := isAlias(s)
		if obj == nil {
			continue
		}
		effects := 0
		for _, later := range loop.Body.List[i+1:] {
			uses := false
			ast.Inspect(later, func(n ast.Node) bool {
				if id, ok := n.(*ast.Ident); ok && info.Uses[id] == obj {
					uses = true
				}
				return true
			})
			if uses && effects > 0 {
				return nil, cerr(later.Pos(), "%s: %s is used after the buffer may have changed", c.fi.Key, obj.Name())
			}
			if o2, _ := isAlias(later); o2 == nil {
				if _, isIf := later.(*ast.IfStmt); !isIf {
					if as, isAs := later.(*ast.AssignStmt); !isAs || objOf(info, as.Lhs[0]) != acc {
						effects++
					}
				}
			}
		}
	}
	if len(lb) != 3 {
		return nil, cerr(loop.Pos(), "%s: entry loop body has %d statements, want encode / limit test / size update", c.fi.Key, len(lb))
	}
	// 1. d.encode(&entriesBuf)
	es, ok := lb[0].(*ast.ExprStmt)
	okEnc := false
	if ok {
		if call, ok := es.X.(*ast.CallExpr); ok && len(call.Args) == 1 {
			if sel, ok := call.Fun.(*ast.SelectorExpr); ok && sel.Sel.Name == "encode" && objOf(info, sel.X) == dvar {
				if u, ok := call.Args[0].(*ast.UnaryExpr); ok && u.Op == token.AND && objOf(info, u.X) == entriesBuf {
					okEnc = calleeKey(info, call) == "p9.Dirent.encode"
				}
			}
		}
	}
	if !okEnc {
		return nil, cerr(lb[0].Pos(), "%s: first loop statement is not d.encode(&entriesBuf)", c.fi.Key)
	}
	// 2. if len(entriesBuf.data) > int(r.Count) { break }
	ifs, ok := lb[1].(*ast.IfStmt)
	okLim := false
	if ok && ifs.Else == nil && ifs.Init == nil && len(ifs.Body.List) == 1 {
		if br, ok := ifs.Body.List[0].(*ast.BranchStmt); ok && br.Tok == token.BREAK && br.Label == nil {
			key, pol := atomOf(res, info, nil, ifs.Cond)
			if i := strings.Index(key, " > "); i > 0 && pol {
				lhs, rhs := key[:i], key[i+3:]
				if nospace(lhs) == nospace(lenBuf) && strings.HasPrefix(nospace(rhs), "int(") && strings.HasSuffix(nospace(rhs), ".Count)") {
					okLim = true
				}
			}
		}
	}
	if !okLim {
		return nil, cerr(lb[1].Pos(), "%s: second loop statement is not 'if len(entriesBuf.data) > int(r.Count) { break }' (whole-entry limit)", c.fi.Key)
	}
	// 3. payloadSize = len(entriesBuf.data)
	as, ok := lb[2].(*ast.AssignStmt)
	if !ok || as.Tok != token.ASSIGN || len(as.Lhs) != 1 || objOf(info, as.Lhs[0]) != acc || nospace(res.str(as.Rhs[0])) != nospace(lenBuf) {
		return nil, cerr(lb[2].Pos(), "%s: third loop statement is not 'payloadSize = len(entriesBuf.data)'", c.fi.Key)
	}
	// tail: r.Count = uint32(payloadSize); r.payload = entriesBuf.data[:payloadSize]; b.Write32(r.Count)
	accName := res.nameOf(acc)
	var setCount, setPayload, write bool
	var writePos token.Pos
	for _, s := range tail {
		switch st := s.(type) {
		case *ast.AssignStmt:
			if len(st.Lhs) != 1 || len(st.Rhs) != 1 || st.Tok != token.ASSIGN || write {
				return nil, cerr(s.Pos(), "%s: unexpected statements after the entry loop", c.fi.Key)
			}
			p, _, ok := c.fieldPath(st.Lhs[0])
			switch {
			case ok && strings.HasSuffix(p, "Count"):
				if nospace(res.str(st.Rhs[0])) != "uint32("+accName+")" {
					return nil, cerr(s.Pos(), "%s: Count is not set to the payload size", c.fi.Key)
				}
				setCount = true
			case ok && strings.HasSuffix(p, "payload"):
				sl, ok := unparen(st.Rhs[0]).(*ast.SliceExpr)
				if !ok || sl.Low != nil || sl.High == nil || objOf(info, sl.High) != acc {
					return nil, cerr(s.Pos(), "%s: payload is not entriesBuf.data[:payloadSize]", c.fi.Key)
				}
				if sel, ok := unparen(sl.X).(*ast.SelectorExpr); !ok || sel.Sel.Name != "data" || objOf(info, sel.X) != entriesBuf {
					return nil, cerr(s.Pos(), "%s: payload is not a prefix of the encoded entries", c.fi.Key)
				}
				setPayload = true
			default:
				return nil, cerr(s.Pos(), "%s: unexpected statements after the entry loop", c.fi.Key)
			}
		case *ast.ExprStmt:
			call, ok := st.X.(*ast.CallExpr)
			if !ok || len(call.Args) != 1 || write {
				return nil, cerr(s.Pos(), "%s: count is not written", c.fi.Key)
			}
			prim, err := c.x.writePrim(callee(info, call))
			if err != nil || prim.Kind != "u32" || objOfSelBase(info, call.Fun) != c.buf {
				return nil, cerr(s.Pos(), "%s: count is not written as u32 to the message buffer", c.fi.Key)
			}
			p, _, isField := c.fieldPath(call.Args[0])
			okVal := isField && strings.HasSuffix(p, "Count") && setCount || nospace(res.str(call.Args[0])) == "uint32("+accName+")"
			if !okVal {
				return nil, cerr(s.Pos(), "%s: the value written is not Count", c.fi.Key)
			}
			write, writePos = true, s.Pos()
		default:
			return nil, cerr(s.Pos(), "%s: unexpected statements after the entry loop", c.fi.Key)
		}
	}
	if !setCount || !setPayload || !write {
		return nil, cerr(loop.End(), "%s: after the entry loop Count, payload and the written count must all be set (Count=%v payload=%v written=%v)", c.fi.Key, setCount, setPayload, write)
	}
	dirent := c.x.l.namedType("p9", "Dirent")
	elem, err := c.x.layout(dirent, "encode", "Entries[].", c.depth+1)
	if err != nil {
		return nil, err
	}
	return []LItem{{Kind: "count32", Field: "payload", Pos: writePos}, {Kind: "dirents", Field: "Entries", Elem: elem, Pos: loop.Pos()}}, nil
}

// rreaddirDecode verifies:
//
//	r.Count = b.Read32(); entriesBuf := buffer{data: r.payload}; r.Entries = r.Entries[:0]
//	for { var d Dirent; d.decode(&entriesBuf); if entriesBuf.isOverrun() { break }; r.Entries = append(r.Entries, d) }
func (c *extractCtx) rreaddirDecode() ([]LItem, error) {
	info := c.x.info
	body := c.fi.Decl.Body.List
	if len(body) != 4 {
		return nil, cerr(c.fi.Decl.Pos(), "%s: expected 4 statements (count, inner buffer, reset, loop), found %d", c.fi.Key, len(body))
	}
	a0, ok := body[0].(*ast.AssignStmt)
	if !ok {
		return nil, cerr(body[0].Pos(), "%s: count not read", c.fi.Key)
	}
	if p, _, ok := c.fieldPath(a0.Lhs[0]); !ok || !strings.HasSuffix(p, "Count") {
		return nil, cerr(a0.Pos(), "%s: first statement does not read Count", c.fi.Key)
	}
	if call, ok := a0.Rhs[0].(*ast.CallExpr); !ok {
		return nil, cerr(a0.Pos(), "%s: count not read from buffer", c.fi.Key)
	} else if prim, err := c.x.readPrim(callee(info, call)); err != nil || prim.Kind != "u32" {
		return nil, cerr(a0.Pos(), "%s: count not read as u32", c.fi.Key)
	}
	a1, ok := body[1].(*ast.AssignStmt)
	if !ok || a1.Tok != token.DEFINE {
		return nil, cerr(body[1].Pos(), "%s: inner buffer not created", c.fi.Key)
	}
	eb := info.Defs[a1.Lhs[0].(*ast.Ident)]
	cl, ok := a1.Rhs[0].(*ast.CompositeLit)
	if !ok || len(cl.Elts) != 1 {
		return nil, cerr(a1.Pos(), "%s: inner buffer is not buffer{data: r.payload}", c.fi.Key)
	}
	kv, ok := cl.Elts[0].(*ast.KeyValueExpr)
	if !ok {
		return nil, cerr(a1.Pos(), "%s: inner buffer is not buffer{data: r.payload}", c.fi.Key)
	}
	if p, _, ok := c.fieldPath(kv.Value); !ok || !strings.HasSuffix(p, "payload") {
		return nil, cerr(a1.Pos(), "%s: inner buffer does not wrap the payload", c.fi.Key)
	}
	// reset
	reset := false
	if a2, ok := body[2].(*ast.AssignStmt); ok && len(a2.Rhs) == 1 {
		if sl, ok := a2.Rhs[0].(*ast.SliceExpr); ok && sl.Low == nil {
			lp, _, _ := c.fieldPath(a2.Lhs[0])
			rp, _, _ := c.fieldPath(sl.X)
			if hi, ok := constInt(info, sl.High); ok && hi == 0 && lp == rp && strings.HasSuffix(lp, "Entries") {
				reset = true
			}
		}
	}
	if !reset {
		return nil, cerr(body[2].Pos(), "%s: Entries is not reset to length 0 before decoding", c.fi.Key)
	}
	fs, ok := body[3].(*ast.ForStmt)
	if !ok || fs.Cond != nil || fs.Init != nil || fs.Post != nil || len(fs.Body.List) != 4 {
		return nil, cerr(body[3].Pos(), "%s: entry loop is not the expected 'for { var d; d.decode; if overrun break; append }'", c.fi.Key)
	}
	ds, ok := fs.Body.List[0].(*ast.DeclStmt)
	if !ok {
		return nil, cerr(fs.Pos(), "%s: loop does not declare a fresh entry", c.fi.Key)
	}
	vs := ds.Decl.(*ast.GenDecl).Specs[0].(*ast.ValueSpec)
	if len(vs.Values) != 0 {
		return nil, cerr(fs.Pos(), "%s: loop entry is not zero-initialised", c.fi.Key)
	}
	dvar := info.Defs[vs.Names[0]]
	es, ok := fs.Body.List[1].(*ast.ExprStmt)
	okDec := false
	if ok {
		if call, ok := es.X.(*ast.CallExpr); ok && len(call.Args) == 1 && calleeKey(info, call) == "p9.Dirent.decode" {
			if sel, ok := call.Fun.(*ast.SelectorExpr); ok && objOf(info, sel.X) == dvar {
				if u, ok := call.Args[0].(*ast.UnaryExpr); ok && u.Op == token.AND && objOf(info, u.X) == eb {
					okDec = true
				}
			}
		}
	}
	if !okDec {
		return nil, cerr(fs.Body.List[1].Pos(), "%s: loop does not decode the entry from the inner buffer", c.fi.Key)
	}
	ifs, ok := fs.Body.List[2].(*ast.IfStmt)
	okBrk := false
	if ok && len(ifs.Body.List) >= 1 {
		if call, ok := ifs.Cond.(*ast.CallExpr); ok && calleeKey(info, call) == "p9.buffer.isOverrun" && objOfSelBase(info, call.Fun) == eb {
			if br, ok := ifs.Body.List[len(ifs.Body.List)-1].(*ast.BranchStmt); ok && br.Tok == token.BREAK {
				okBrk = true
			}
		}
	}
	if !okBrk {
		return nil, cerr(fs.Body.List[2].Pos(), "%s: an incompletely decoded entry is not discarded (no 'if entriesBuf.isOverrun() { break }' before append)", c.fi.Key)
	}
	as, ok := fs.Body.List[3].(*ast.AssignStmt)
	okApp := false
	if ok && len(as.Rhs) == 1 {
		if call, ok := as.Rhs[0].(*ast.CallExpr); ok && len(call.Args) == 2 {
			if id, ok := call.Fun.(*ast.Ident); ok && id.Name == "append" && objOf(info, call.Args[1]) == dvar {
				lp, _, _ := c.fieldPath(as.Lhs[0])
				ap, _, _ := c.fieldPath(call.Args[0])
				okApp = lp == ap && strings.HasSuffix(lp, "Entries")
			}
		}
	}
	if !okApp {
		return nil, cerr(fs.Body.List[3].Pos(), "%s: decoded entry is not appended to Entries", c.fi.Key)
	}
	dirent := c.x.l.namedType("p9", "Dirent")
	elem, err := c.x.layout(dirent, "decode", "Entries[].", c.depth+1)
	if err != nil {
		return nil, err
	}
	return []LItem{{Kind: "count32", Field: "payload", Pos: a0.Pos()}, {Kind: "dirents", Field: "Entries", Elem: elem, Reset: true, Pos: fs.Pos()}}, nil
}

// --- registry ---------------------------------------------------------------

type regEntry struct {
	Num      int64
	ConstKey string // msgTversion
	Type     *types.Named
	Pos      token.Pos
}

// registryEntries extracts msgDotLRegistry.register(K, func() message { return &T{} }) calls from init().
func (x *codecX) registryEntries() ([]regEntry, []error) {
	var out []regEntry
	var errs []error
	for _, fi := range x.l.funcsOfPkg("p9") {
		if fi.Decl.Name.Name != "init" || fi.Decl.Recv != nil || fi.Decl.Body == nil {
			continue
		}
		ast.Inspect(fi.Decl.Body, func(n ast.Node) bool {
			call, ok := n.(*ast.CallExpr)
			if !ok || calleeKey(x.info, call) != "p9.registry.register" {
				return true
			}
			if len(call.Args) != 2 {
				errs = append(errs, cerr(call.Pos(), "register call with %d arguments", len(call.Args)))
				return true
			}
			num, ok := constInt(x.info, call.Args[0])
			if !ok {
				errs = append(errs, cerr(call.Pos(), "message type of register call is not constant"))
				return true
			}
			// the constructor: a function literal, or a declared function handed over by name
			var body *ast.BlockStmt
			if fl, isLit := unparen(call.Args[1]).(*ast.FuncLit); isLit {
				body = fl.Body
			} else if tf := x.l.FuncOf(callee(x.info, &ast.CallExpr{Fun: unparen(call.Args[1])})); tf != nil && tf.Decl.Body != nil && tf.Decl.Recv == nil {
				body = tf.Decl.Body
			}
			if body == nil || len(body.List) != 1 {
				errs = append(errs, cerr(call.Pos(), "constructor of type %d is not a single-return function", num))
				return true
			}
			ret, ok := body.List[0].(*ast.ReturnStmt)
			if !ok || len(ret.Results) != 1 {
				errs = append(errs, cerr(call.Pos(), "constructor of type %d is not a single-return function literal", num))
				return true
			}
			u, ok := ret.Results[0].(*ast.UnaryExpr)
			var nt *types.Named
			if ok && u.Op == token.AND {
				if cl, ok := u.X.(*ast.CompositeLit); ok && len(cl.Elts) == 0 {
					nt, _ = x.info.TypeOf(cl).(*types.Named)
				}
			}
			if nt == nil {
				errs = append(errs, cerr(call.Pos(), "constructor of type %d does not return a fresh &T{}", num))
				return true
			}
			out = append(out, regEntry{Num: num, ConstKey: x.l.str(call.Args[0]), Type: nt, Pos: call.Pos()})
			return true
		})
	}
	sort.Slice(out, func(i, j int) bool { return out[i].Num < out[j].Num })
	return out, errs
}

// typOf returns the constant returned by T.typ().
func (x *codecX) typOf(t *types.Named) (int64, bool) {
	f, _ := x.methodOf(t, "typ")
	fi := x.l.FuncOf(f)
	if fi == nil || fi.Decl.Body == nil || len(fi.Decl.Body.List) != 1 {
		return 0, false
	}
	ret, ok := fi.Decl.Body.List[0].(*ast.ReturnStmt)
	if !ok || len(ret.Results) != 1 {
		return 0, false
	}
	return constInt(x.info, ret.Results[0])
}

// fixedSizeOf returns the constant returned by T.FixedSize(), if T is a payloader.
func (x *codecX) fixedSizeOf(t *types.Named) (int64, bool) {
	f, _ := x.methodOf(t, "FixedSize")
	if f == nil {
		return 0, false
	}
	fi := x.l.FuncOf(f)
	if fi == nil || fi.Decl.Body == nil || len(fi.Decl.Body.List) != 1 {
		return 0, false
	}
	ret, ok := fi.Decl.Body.List[0].(*ast.ReturnStmt)
	if !ok || len(ret.Results) != 1 {
		return 0, false
	}
	return constInt(x.info, ret.Results[0])
}

func isMarkOverrun(info *types.Info, s ast.Stmt) bool {
	es, ok := s.(*ast.ExprStmt)
	if !ok {
		return false
	}
	mc, ok := es.X.(*ast.CallExpr)
	return ok && calleeKey(info, mc) == "p9.buffer.markOverrun"
}

// payloadCountDirect recognises an if statement whose condition compares a u32 read from the
// buffer directly with uint32(len(F)): with != the body must be exactly b.markOverrun(), with
// == exactly "return".  Result: the field path, whether the comparison is ==.
func (c *extractCtx) payloadCountDirect(ifs *ast.IfStmt) (string, bool, bool, error) {
	be, ok := unparen(ifs.Cond).(*ast.BinaryExpr)
	if !ok || (be.Op != token.NEQ && be.Op != token.EQL) || ifs.Else != nil || ifs.Init != nil || len(ifs.Body.List) != 1 {
		return "", false, false, nil
	}
	x, y := unparen(be.X), unparen(be.Y)
	isRead := func(e ast.Expr) bool {
		call, ok := e.(*ast.CallExpr)
		if !ok || len(call.Args) != 0 {
			return false
		}
		cf := callee(c.x.info, call)
		if !c.x.isBufMethod(cf) || objOfSelBase(c.x.info, call.Fun) != c.buf {
			return false
		}
		prim, err := c.x.readPrim(cf)
		return err == nil && prim.Kind == "u32" && !prim.Mask
	}
	if !isRead(x) {
		x, y = y, x
	}
	if !isRead(x) {
		return "", false, false, nil
	}
	inner, _, _ := c.x.stripConvMask(y)
	lc, ok := unparen(inner).(*ast.CallExpr)
	if !ok || len(lc.Args) != 1 {
		return "", false, false, nil
	}
	if id, ok := lc.Fun.(*ast.Ident); !ok || id.Name != "len" {
		return "", false, false, nil
	}
	path, _, ok := c.fieldPath(lc.Args[0])
	if !ok {
		return "", false, false, nil
	}
	if be.Op == token.NEQ {
		if !isMarkOverrun(c.x.info, ifs.Body.List[0]) {
			return "", false, false, cerr(ifs.Pos(), "%s: a payload length mismatch does not mark the buffer as overrun", c.fi.Key)
		}
		return path, false, true, nil
	}
	if ret, isRet := ifs.Body.List[0].(*ast.ReturnStmt); !isRet || len(ret.Results) != 0 {
		return "", false, false, nil
	}
	return path, true, true, nil
}
