package main

// Model of the server side of package p9 shared by C03..C09, C13..C16:
// backend call sites (calls of p9.File / p9.Attacher methods), their receiver
// reference, and expansion through helpers that take the File as a parameter.

import (
	"go/ast"
	"go/token"
	"go/types"
	"regexp"
	"sort"
	"strings"
)

type BackendSite struct {
	Site    *Site
	Method  string   // Walk, Create, ...
	Recv    string   // resolved receiver expression ("ref.file", "ref.parent.file", "sf")
	Base    string   // reference the file belongs to ("ref", "ref.parent"); "" if the receiver is not X.file
	Fresh   bool     // receiver is a local bound to a source call in this function (not yet published)
	Via     string   // "walkOne" when expanded through a helper parameter
	Outer   *Site    // the call site of the helper (locks are taken from here when Via != "")
	ArgStrs []string // resolved argument expressions
	Args    []ast.Expr
}

// construct key, stable across line changes.
func (b *BackendSite) Key() string {
	root := b.Site.Root.Key
	if b.Outer != nil {
		return b.Outer.Root.Key + " → " + b.Via + " → File." + b.Method + " on " + b.Recv
	}
	return root + " → File." + b.Method + " on " + b.Recv
}

// state at the site whose locks/facts count.
func (b *BackendSite) State() *HState {
	if b.Outer != nil {
		return b.Outer.St
	}
	return b.Site.St
}

type ServerModel struct {
	L         *Loaded
	DB        *SiteDB
	Info      *types.Info
	Backend   []*BackendSite
	res       map[*FuncInfo]*resolver
	transp    map[*FuncInfo]int // memo of transparent(): 1 yes, 2 no
	ctxFields []*FieldAccess
}

// anchorHelpers are unexported helpers that the rule tables name themselves (Appendix B,
// the guard tables): their sites keep being judged under their own name.
var anchorHelpers = map[string]bool{
	"p9.walkOne":                  true,
	"p9.doWalk":                   true,
	"p9.fidRef.renameChildTo":     true,
	"p9.clunkHandleXattr":         true,
	"p9.notifyNameChange":         true,
	"p9.notifyDelete":             true,
	"p9.connState.handle":         true,
	"p9.connState.handleRequest":  true,
	"p9.connState.handleRequests": true,
}

// transparent reports whether fi is a private helper whose sites are judged in the context of
// its callers instead of on its own: unexported, not a request handler, never used as a value,
// called from somewhere, and analysed in place at every one of its call sites (small enough,
// not recursive, callers themselves roots or transparent within the depth bound).
func (m *ServerModel) transparent(fi *FuncInfo) bool {
	return m.transparentAt(fi, 1)
}

func (m *ServerModel) transparentAt(fi *FuncInfo, depth int) bool {
	if fi == nil || fi.Decl.Body == nil || fi.Obj.Exported() || anchorHelpers[fi.Key] || pinnedFuncs[fi.Key] || isHandlerFunc(fi) || depth > maxInlineDepth {
		return false
	}
	if depth == 1 {
		if v, ok := m.transp[fi]; ok {
			return v == 1
		}
	}
	uses := m.usesOf(fi)
	ok := m.DB.weight(fi) <= maxInlineWeight && m.DB.Wrappers[fi.Obj] == nil && len(uses) > 0 && m.valueUses(fi) == 0
	if ok {
		for _, s := range uses {
			if s.Root == fi || s.Root.Pkg != fi.Pkg {
				ok = false // recursive, or called across packages
				break
			}
			if _, isDefer := s.Node.(*ast.DeferStmt); isDefer {
				ok = false
				break
			}
			if _, isGo := s.Node.(*ast.GoStmt); isGo {
				ok = false
				break
			}
			// the caller is a root of its own, or a transparent helper one level up
			if m.callerIsHelper(s.Root) && !m.transparentAt(s.Root, depth+1) {
				ok = false
				break
			}
		}
	}
	if depth == 1 {
		if m.transp == nil {
			m.transp = map[*FuncInfo]int{}
		}
		if ok {
			m.transp[fi] = 1
		} else {
			m.transp[fi] = 2
		}
	}
	return ok
}

// callerIsHelper: the function would itself be judged through its callers if it could be.
func (m *ServerModel) callerIsHelper(fi *FuncInfo) bool {
	return !fi.Obj.Exported() && !anchorHelpers[fi.Key] && !pinnedFuncs[fi.Key] && !isHandlerFunc(fi) && len(m.usesOf(fi)) > 0 && m.valueUses(fi) == 0 &&
		m.DB.weight(fi) <= maxInlineWeight && m.DB.Wrappers[fi.Obj] == nil
}

// contextSites returns the call sites of key as the rules should judge them: a site written
// in a transparent helper is replaced by its instances inside the functions that call the
// helper (state, locks and facts of the caller included; Root = that caller; expressions are
// rendered through Site.Res / Site.argExpr in the caller's frame).
func (m *ServerModel) contextSites(key string) []*Site {
	var out []*Site
	for _, s := range m.DB.Calls[key] {
		if !m.transparent(s.Root) {
			out = append(out, s)
		}
	}
	var roots []*FuncInfo
	for fi := range m.DB.Deep {
		roots = append(roots, fi)
	}
	sort.Slice(roots, func(i, j int) bool { return roots[i].Key < roots[j].Key })
	type ck struct {
		call  *ast.CallExpr
		outer *ast.CallExpr
		root  *FuncInfo
	}
	seen := map[ck]*Site{}
	for _, root := range roots {
		if m.transparent(root) {
			continue
		}
		for _, d := range m.DB.Deep[root] {
			if d.Callee != key {
				continue
			}
			allTransparent := true
			for _, fr := range d.Inl {
				if !m.transparent(m.L.FuncOf(m.Info.Defs[fr.Decl.Name].(*types.Func))) {
					allTransparent = false
				}
			}
			if !allTransparent {
				continue
			}
			k := ck{d.Call, d.Inl[0].Call, root}
			if prev, ok := seen[k]; ok {
				prev.St = hJoin(prev.St, d.St)
				continue
			}
			cp := *d
			seen[k] = &cp
			out = append(out, &cp)
		}
	}
	return out
}

func (m *ServerModel) resolver(fi *FuncInfo) *resolver {
	if r, ok := m.res[fi]; ok {
		return r
	}
	r := newResolver(m.L, fi.Pkg.TypesInfo, fi.Decl)
	m.res[fi] = r
	return r
}

func isClientSide(fi *FuncInfo) bool {
	k := fi.Key
	return strings.HasPrefix(k, "p9.Client.") || strings.HasPrefix(k, "p9.clientFile.")
}

var sourceMethods = map[string]bool{"Attach": true, "Walk": true, "WalkGetAttr": true, "Create": true}

var serverModels = map[*Loaded]*ServerModel{}

// buildServerModel: one model per loaded configuration (checks borrowed from other
// properties reuse it; the rules only read it).
func buildServerModel(l *Loaded) *ServerModel {
	if m := serverModels[l]; m != nil {
		allDefsLoaded = l
		return m
	}
	m := buildServerModelUncached(l)
	serverModels[l] = m
	return m
}

func buildServerModelUncached(l *Loaded) *ServerModel {
	allDefsLoaded = l
	db := buildSiteDB(l, "p9")
	m := &ServerModel{L: l, DB: db, Info: l.Pkg("p9").TypesInfo, res: map[*FuncInfo]*resolver{}}
	info := m.Info
	// 1. Direct File-method calls.
	type paramUse struct {
		fi    *FuncInfo
		param int
		sites []*BackendSite
	}
	paramUses := map[*types.Func]map[int][]*BackendSite{}
	var keys []string
	for k := range db.Calls {
		if strings.HasPrefix(k, "p9.File.") || k == "p9.Attacher.Attach" {
			keys = append(keys, k)
		}
	}
	sort.Strings(keys)
	type seenKey struct {
		call  *ast.CallExpr
		outer *ast.CallExpr
		root  *FuncInfo
	}
	seen := map[seenKey]*BackendSite{}
	for _, k := range keys {
		// sites written in private helpers are judged inside the functions that call the helper
		// (except where the receiver is the helper's own parameter: expansion 2 below)
		sites := append([]*Site{}, m.contextSites(k)...)
		for _, s := range db.Calls[k] {
			if m.transparent(s.Root) {
				if sel, ok := unparen(s.Call.Fun).(*ast.SelectorExpr); ok {
					if v, ok := objOf(info, sel.X).(*types.Var); ok && paramIndex(s.Root, info, v) >= 0 {
						sites = append(sites, s)
					}
				}
			}
		}
		for _, s := range sites {
			if isClientSide(s.Root) {
				continue
			}
			sk := seenKey{call: s.Call, root: s.Root}
			if len(s.Inl) > 0 {
				sk.outer = s.Inl[0].Call
				// the deep instance of a parameter-receiver site is represented by expansion 2
				if sel, ok := unparen(s.Call.Fun).(*ast.SelectorExpr); ok {
					if v, ok := objOf(info, sel.X).(*types.Var); ok {
						if decl := l.declAt(s.Call.Pos()); decl != nil {
							if hf := l.FuncOf(info.Defs[decl.Name].(*types.Func)); hf != nil && paramIndex(hf, info, v) >= 0 {
								continue
							}
						}
					}
				}
			}
			if prev, ok := seen[sk]; ok {
				// Visited several times (loop wrappers): keep the weakest state.
				prev.Site.St = hJoin(prev.Site.St, s.St)
				continue
			}
			res := s.Res
			if res == nil {
				res = m.resolver(s.Root)
			}
			sel, ok := unparen(s.Call.Fun).(*ast.SelectorExpr)
			if !ok {
				continue
			}
			bs := &BackendSite{Site: s, Method: sel.Sel.Name, Recv: res.str(sel.X)}
			for i, a := range s.Call.Args {
				bs.Args = append(bs.Args, s.argExpr(info, i))
				bs.ArgStrs = append(bs.ArgStrs, res.str(a))
			}
			if strings.HasSuffix(bs.Recv, ".file") {
				bs.Base = strings.TrimSuffix(bs.Recv, ".file")
			}
			// Receiver is a plain local/parameter?
			if id, ok := unparen(sel.X).(*ast.Ident); ok {
				obj := objOf(info, id)
				if v, ok := obj.(*types.Var); ok {
					if pi := paramIndex(s.Root, info, v); pi >= 0 {
						if paramUses[s.Root.Obj] == nil {
							paramUses[s.Root.Obj] = map[int][]*BackendSite{}
						}
						paramUses[s.Root.Obj][pi] = append(paramUses[s.Root.Obj][pi], bs)
					} else if m.isFreshLocal(m.writtenIn(s), v) {
						bs.Fresh = true
					}
				}
			}
			seen[sk] = bs
			m.Backend = append(m.Backend, bs)
		}
	}
	// 2. Expansion through helpers whose File parameter is the receiver (walkOne).
	for fobj, byParam := range paramUses {
		fi := l.FuncOf(fobj)
		for pi, uses := range byParam {
			for _, cs := range m.contextSites(fi.Key) {
				if isClientSide(cs.Root) || pi >= len(cs.Call.Args) {
					continue
				}
				res := cs.Res
				if res == nil {
					res = m.resolver(cs.Root)
				}
				recv := res.str(cs.Call.Args[pi])
				for _, u := range uses {
					// Arguments that are parameters of the helper are replaced by the outer call's arguments.
					args := append([]ast.Expr{}, u.Args...)
					argStrs := append([]string{}, u.ArgStrs...)
					for ai, a := range u.Args {
						if v, ok := objOf(info, a).(*types.Var); ok {
							if pj := paramIndex(fi, info, v); pj >= 0 && pj < len(cs.Call.Args) {
								args[ai] = cs.argExpr(info, pj)
								argStrs[ai] = res.str(cs.Call.Args[pj])
							}
						}
					}
					bs := &BackendSite{Site: u.Site, Method: u.Method, Recv: recv, Via: fi.Decl.Name.Name, Outer: cs, Args: args, ArgStrs: argStrs}
					if strings.HasSuffix(recv, ".file") {
						bs.Base = strings.TrimSuffix(recv, ".file")
					}
					m.Backend = append(m.Backend, bs)
				}
			}
		}
	}
	// Drop the un-expanded parameter-receiver sites (they are represented per call site).
	var out []*BackendSite
	for _, b := range m.Backend {
		if b.Outer == nil {
			if id, ok := unparen(b.Site.Call.Fun.(*ast.SelectorExpr).X).(*ast.Ident); ok {
				if v, ok := objOf(info, id).(*types.Var); ok && paramIndex(b.Site.Root, info, v) >= 0 {
					if len(db.Calls[b.Site.Root.Key]) > 0 {
						continue
					}
				}
			}
		}
		out = append(out, b)
	}
	m.Backend = out
	sort.SliceStable(m.Backend, func(i, j int) bool { return m.Backend[i].Key() < m.Backend[j].Key() })
	return m
}

func paramIndex(fi *FuncInfo, info *types.Info, v *types.Var) int {
	idx := 0
	for _, fld := range fi.Decl.Type.Params.List {
		for _, nm := range fld.Names {
			if info.Defs[nm] == v {
				return idx
			}
			idx++
		}
		if len(fld.Names) == 0 {
			idx++
		}
	}
	return -1
}

// isFreshLocal: every assignment to the local in this function is from a source
// call (Attach, Walk, WalkGetAttr, Create) or a helper returning a File.
// writtenIn: the function whose body contains the site (a helper judged in Root's context, or
// Root itself).
func (m *ServerModel) writtenIn(s *Site) *FuncInfo {
	if len(s.Inl) > 0 {
		if f, ok := m.Info.Defs[s.Inl[len(s.Inl)-1].Decl.Name].(*types.Func); ok {
			if hf := m.L.FuncOf(f); hf != nil {
				return hf
			}
		}
	}
	return s.Root
}

func (m *ServerModel) isFreshLocal(fi *FuncInfo, v *types.Var) bool {
	info := m.Info
	fresh, other := 0, 0
	ast.Inspect(fi.Decl, func(n ast.Node) bool {
		as, ok := n.(*ast.AssignStmt)
		if !ok {
			return true
		}
		for _, lhs := range as.Lhs {
			if objOf(info, lhs) != v {
				continue
			}
			if len(as.Rhs) == 1 {
				if call, ok := unparen(as.Rhs[0]).(*ast.CallExpr); ok {
					k := calleeKey(info, call)
					if strings.HasPrefix(k, "p9.File.") && sourceMethods[k[len("p9.File."):]] || k == "p9.Attacher.Attach" || k == "p9.walkOne" {
						fresh++
						continue
					}
				}
			}
			other++
		}
		return true
	})
	return fresh > 0 && other == 0
}

// concurrencyClass parses the doc comments of the p9.File interface:
// "On the server, X has a read|write|global|no concurrency guarantee".
func fileMethodClasses(l *Loaded) (map[string]string, []string) {
	out := map[string]string{}
	var problems []string
	p9 := l.Pkg("p9")
	re := regexp.MustCompile(`On the server, (\w+) has (?:a |an )?(read|write|global|no) concurrency guarantee`)
	for _, f := range p9.Syntax {
		ast.Inspect(f, func(n ast.Node) bool {
			ts, ok := n.(*ast.TypeSpec)
			if !ok || ts.Name.Name != "File" {
				return true
			}
			it, ok := ts.Type.(*ast.InterfaceType)
			if !ok {
				return true
			}
			for _, fld := range it.Methods.List {
				if len(fld.Names) != 1 {
					continue
				}
				name := fld.Names[0].Name
				cls := "unspecified"
				if fld.Doc != nil {
					text := strings.Join(strings.Fields(fld.Doc.Text()), " ")
					if mm := re.FindStringSubmatch(text); mm != nil {
						if mm[1] != name {
							problems = append(problems, "comment on "+name+" speaks about "+mm[1])
						}
						cls = mm[2]
						if cls == "no" {
							cls = "none"
						}
					}
				}
				out[name] = cls
			}
			return false
		})
	}
	return out, problems
}

// The property's own class table (C07 statement); the source comments are compared with it
// so that editing a comment cannot weaken the check.
var propertyClasses = map[string]string{
	"Create": "write", "Mkdir": "write", "Symlink": "write", "Link": "write", "Mknod": "write", "UnlinkAt": "write", "SetAttr": "write",
	"Walk": "read", "WalkGetAttr": "read", "Open": "read", "ReadAt": "read", "WriteAt": "read", "GetAttr": "read", "Readdir": "read", "Readlink": "read", "FSync": "read",
	"RenameAt": "global", "Renamed": "global",
}

const (
	tokRenameR = "p9.Server.renameMu:R@*"
	tokRenameW = "p9.Server.renameMu:W@*"
)

func opTok(mode, base string) string { return "p9.pathNode.opMu:" + mode + "@" + base + ".pathNode" }

// succeededVar returns the variable (resolved name) holding the error result of call, if the
// state knows that this call was the variable's last definition.
func (m *ServerModel) errVarOf(st *HState, root *FuncInfo, call *ast.CallExpr) (string, bool) {
	res := m.resolver(root)
	for obj, def := range st.Defs {
		if def == ast.Node(call) {
			if isErrorType(obj.Type()) {
				id := ast.NewIdent(obj.Name())
				_ = id
				if u, ok := res.uniq[obj]; ok {
					return u, true
				}
				return obj.Name(), true
			}
		}
	}
	return "", false
}

func isErrorType(t types.Type) bool {
	return t != nil && t.String() == "error"
}

// callSucceeded: at state st it is known that call returned a nil error.
func (m *ServerModel) callSucceeded(st *HState, root *FuncInfo, call *ast.CallExpr) bool {
	if st.Dead {
		return true
	}
	// The error variable may have been resolved to its only definition, the call itself.
	if st.holds(m.resolver(root).str(call)+" == nil", true) {
		return true
	}
	v, ok := m.errVarOf(st, root, call)
	return ok && st.holds(v+" == nil", true)
}

// checkedBy: some call of fn (callee key) with first argument rendering as arg is known to
// have returned nil at st.
func (m *ServerModel) checkedBy(st *HState, root *FuncInfo, fnKey, arg string) bool {
	res := m.resolver(root)
	// The error variable may have been resolved to its (only) definition.
	short := fnKey[strings.LastIndex(fnKey, ".")+1:]
	if st.holds(short+"("+arg+") == nil", true) {
		return true
	}
	for obj, def := range st.Defs {
		call, ok := def.(*ast.CallExpr)
		if !ok || calleeKey(m.Info, call) != fnKey || len(call.Args) == 0 {
			continue
		}
		if res.str(call.Args[0]) != arg {
			continue
		}
		name := obj.Name()
		if u, ok := res.uniq[obj]; ok {
			name = u
		}
		if st.holds(name+" == nil", true) {
			return true
		}
	}
	return false
}

// --- queries that follow an operation into helpers analysed in place -------------------

// callsDeep returns the call sites of key that run as part of root: the ones written in root
// itself (callsIn) and the ones inside helpers that the site analysis entered in place
// (Site.Inl non-empty; their states include what root established before the helper call).
// blockingIn returns the blocking operations and go statements (SiteDB.Blocking) of root,
// those written in helpers that are judged in root's context included.
func (m *ServerModel) blockingIn(root *FuncInfo, callee string) []*Site {
	var out []*Site
	seen := map[ast.Node]*Site{}
	for _, b := range m.DB.Blocking {
		if b.Root == root && b.Callee == callee {
			out = append(out, b)
		}
	}
	for _, b := range m.DB.DeepBlocking {
		if b.Root != root || b.Callee != callee {
			continue
		}
		all := true
		for _, fr := range b.Inl {
			if !m.transparent(m.L.FuncOf(m.Info.Defs[fr.Decl.Name].(*types.Func))) {
				all = false
			}
		}
		if !all {
			continue
		}
		if prev, ok := seen[b.Node]; ok {
			prev.St = hJoin(prev.St, b.St)
			continue
		}
		cp := *b
		seen[b.Node] = &cp
		out = append(out, &cp)
	}
	return out
}

func (m *ServerModel) callsDeep(root *FuncInfo, key string) []*Site {
	out := m.callsIn(root, key)
	have := map[[2]*ast.CallExpr]bool{}
	for _, s := range out {
		if len(s.Inl) > 0 {
			have[[2]*ast.CallExpr{s.Call, s.Inl[0].Call}] = true
		}
	}
	type ck struct {
		call  *ast.CallExpr
		outer *ast.CallExpr
	}
	by := map[ck]*Site{}
	var order []ck
	for _, s := range m.DB.Deep[root] {
		if s.Callee != key {
			continue
		}
		k := ck{s.Call, s.Inl[0].Call}
		if have[[2]*ast.CallExpr{s.Call, s.Inl[0].Call}] {
			continue // already there as a site of a helper judged in root's context
		}
		if prev, ok := by[k]; ok {
			cp := *prev
			cp.St = hJoin(prev.St, s.St)
			by[k] = &cp
			continue
		}
		by[k] = s
		order = append(order, k)
	}
	for _, k := range order {
		out = append(out, by[k])
	}
	return out
}

// arg renders argument i of the site's call in the frame of the root function.
func (s *Site) arg(i int) string {
	if i >= len(s.Call.Args) {
		return ""
	}
	return s.Res.str(s.Call.Args[i])
}

// recvStr renders the receiver of the site's call in the frame of the root function.
func (s *Site) recvStr() string {
	if sel, ok := unparen(s.Call.Fun).(*ast.SelectorExpr); ok {
		return s.Res.str(sel.X)
	}
	return ""
}

// argExpr maps argument i back to an expression of the root function: a bare parameter of a
// helper analysed in place is replaced by the expression the helper was called with.
func (s *Site) argExpr(info *types.Info, i int) ast.Expr {
	if i >= len(s.Call.Args) {
		return nil
	}
	return s.mapExpr(info, s.Call.Args[i])
}

// mapExpr maps an expression written at the site back into the root function's frame as far
// as it is a bare parameter of the helpers the site sits in.
func (s *Site) mapExpr(info *types.Info, e ast.Expr) ast.Expr {
	e = unparen(e)
	for lvl := len(s.Inl) - 1; lvl >= 0; lvl-- {
		id, ok := e.(*ast.Ident)
		if !ok {
			return e
		}
		obj := info.Uses[id]
		fr := s.Inl[lvl]
		idx, found := 0, false
		for _, fld := range fr.Decl.Type.Params.List {
			for _, nm := range fld.Names {
				if info.Defs[nm] == obj && idx < len(fr.Call.Args) {
					e = unparen(fr.Call.Args[idx])
					found = true
				}
				idx++
			}
			if len(fld.Names) == 0 {
				idx++
			}
		}
		if !found {
			return e
		}
	}
	return e
}

// viaHelpers describes the helper chain of a deep site ("" for a direct one).
func (s *Site) viaHelpers() string {
	if len(s.Inl) == 0 {
		return ""
	}
	var names []string
	for _, f := range s.Inl {
		names = append(names, f.Decl.Name.Name)
	}
	return " (via " + strings.Join(names, " → ") + ")"
}

// valueUses counts the references to a declared function that are not the callee of a call
// (method values, function values stored or passed on): such a function can run from places
// the static call sites do not show.
func (m *ServerModel) valueUses(fi *FuncInfo) int {
	n := 0
	for _, p := range m.L.modulePkgs() {
		for id, obj := range p.TypesInfo.Uses {
			if obj != types.Object(fi.Obj) {
				continue
			}
			var ref ast.Node = id
			if sel, ok := m.L.parent(id).(*ast.SelectorExpr); ok && sel.Sel == id {
				ref = sel
			}
			if call, ok := m.L.parent(ref).(*ast.CallExpr); ok {
				if unparen(call.Fun) == ref.(ast.Expr) {
					continue
				}
				// handed to a callback wrapper as its callback: analysed in place like a literal
				if w := m.DB.Wrappers[callee(p.TypesInfo, call)]; w != nil && w.ParamIdx < len(call.Args) && unparen(call.Args[w.ParamIdx]) == ref.(ast.Expr) {
					continue
				}
			}
			n++
		}
	}
	return n
}

// reachedOnlyFrom checks a who-may-call rule through private helpers: every static caller of
// key must be one of the allowed functions or an unexported function that is never used as a
// value and whose own callers satisfy the same condition.  It returns the offending callers.
func (m *ServerModel) reachedOnlyFrom(key string, allowed map[string]bool) (bad []string, via []string) {
	seen := map[string]bool{}
	var visit func(k string, depth int)
	visit = func(k string, depth int) {
		for _, s := range m.DB.Calls[k] {
			c := s.Root
			if allowed[c.Key] || seen[c.Key] {
				continue
			}
			seen[c.Key] = true
			private := !c.Obj.Exported() && m.valueUses(c) == 0 && len(m.DB.Calls[c.Key]) > 0
			if !private || depth >= 3 {
				bad = append(bad, c.Key)
				continue
			}
			via = append(via, c.Key)
			visit(c.Key, depth+1)
		}
	}
	visit(key, 0)
	sort.Strings(bad)
	sort.Strings(via)
	return dedupe(bad), dedupe(via)
}

// exitsDeep: the exits of fi together with the exits of the helpers analysed in place from it
// (a guard may sit in a private helper and answer from there).
func (m *ServerModel) exitsDeep(fi *FuncInfo) []*ExitRec {
	return append(append([]*ExitRec{}, m.DB.Exits[fi]...), m.DB.DeepExits[fi]...)
}

// sitesInOrder lists the call sites that run as part of root - its own and those inside
// helpers analysed in place - in source order of the statements of root (a helper's sites
// take the position of the call that enters the helper), one entry per call and entry path.
func (m *ServerModel) sitesInOrder(root *FuncInfo) []*Site {
	type ck struct {
		call  *ast.CallExpr
		outer *ast.CallExpr
	}
	seen := map[ck]bool{}
	var out []*Site
	for _, s := range append(append([]*Site{}, m.DB.ByFunc[root]...), m.DB.Deep[root]...) {
		if s.Call == nil {
			continue
		}
		k := ck{s.Call, nil}
		if len(s.Inl) > 0 {
			k.outer = s.Inl[0].Call
		}
		if seen[k] {
			continue
		}
		seen[k] = true
		out = append(out, s)
	}
	pos := func(s *Site) (token.Pos, token.Pos) {
		if len(s.Inl) > 0 {
			return s.Inl[0].Call.Pos(), s.Call.Pos()
		}
		return s.Call.Pos(), 0
	}
	sort.SliceStable(out, func(i, j int) bool {
		a1, a2 := pos(out[i])
		b1, b2 := pos(out[j])
		if a1 != b1 {
			return a1 < b1
		}
		return a2 < b2
	})
	return out
}

// resultName returns the canonical name (in root's frame) of the variable that receives result
// #idx (negative: counted from the end) of the first assignment in root whose single
// right-hand side satisfies pred ("" if there is none).  Rules use it instead of assuming
// what a local is called ("ok", "err", "remaining").
func (m *ServerModel) resultName(root *FuncInfo, idx int, pred func(rhs ast.Expr) bool) string {
	return resultNameIn(m.L, root, m.resolver(root), idx, pred)
}

func resultNameIn(l *Loaded, root *FuncInfo, res *resolver, idx int, pred func(rhs ast.Expr) bool) string {
	out := ""
	ast.Inspect(root.Decl, func(n ast.Node) bool {
		if out != "" {
			return false
		}
		var lhs []ast.Expr
		var rhs ast.Expr
		switch v := n.(type) {
		case *ast.AssignStmt:
			if len(v.Rhs) == 1 {
				lhs, rhs = v.Lhs, v.Rhs[0]
			}
		case *ast.ValueSpec:
			if len(v.Values) == 1 {
				for _, nm := range v.Names {
					lhs = append(lhs, nm)
				}
				rhs = v.Values[0]
			}
		}
		if rhs == nil || !pred(unparen(rhs)) {
			return true
		}
		i := idx
		if i < 0 {
			i = len(lhs) + i
		}
		if i >= 0 && i < len(lhs) {
			if obj := objOf(res.info, lhs[i]); obj != nil {
				out = res.nameOf(obj)
			}
		}
		return true
	})
	return out
}

// isCallTo / isAssertTo: predicates for resultName.
func isCallTo(info *types.Info, keys ...string) func(ast.Expr) bool {
	return func(e ast.Expr) bool {
		c, ok := e.(*ast.CallExpr)
		if !ok {
			return false
		}
		k := calleeKey(info, c)
		for _, want := range keys {
			if k == want {
				return true
			}
		}
		return false
	}
}

func isAssertTo(info *types.Info, typeSuffix string) func(ast.Expr) bool {
	return func(e ast.Expr) bool {
		ta, ok := e.(*ast.TypeAssertExpr)
		if !ok || ta.Type == nil {
			return false
		}
		t := info.TypeOf(ta.Type)
		return t != nil && strings.HasSuffix(types.TypeString(t, nil), typeSuffix)
	}
}

// rootPos: the position, inside Root, at which the site runs: the call itself, or - for a site
// inside helpers analysed in place - the call in Root that enters the outermost helper.
func (s *Site) rootPos() token.Pos {
	if len(s.Inl) > 0 {
		return s.Inl[0].Call.Pos()
	}
	return s.Call.Pos()
}

// rootsOf returns the functions on whose behalf fi runs for the purposes of the rules: fi
// itself, or - for a private helper that is judged in its callers' context - the roots of its
// callers.  "This may only happen in X" is checked as rootsOf(fi) ⊆ {X}.
func (m *ServerModel) rootsOf(fi *FuncInfo) []*FuncInfo {
	seen := map[*FuncInfo]bool{}
	var out []*FuncInfo
	var walk func(f *FuncInfo, depth int)
	walk = func(f *FuncInfo, depth int) {
		if !m.transparent(f) || depth > 3 {
			if !seen[f] {
				seen[f] = true
				out = append(out, f)
			}
			return
		}
		for _, s := range m.usesOf(f) {
			walk(s.Root, depth+1)
		}
	}
	walk(fi, 0)
	sort.Slice(out, func(i, j int) bool { return out[i].Key < out[j].Key })
	return out
}

// onlyFor: fi runs only on behalf of the function with the given key.
func (m *ServerModel) onlyFor(fi *FuncInfo, key string) bool {
	roots := m.rootsOf(fi)
	if len(roots) == 0 {
		return false
	}
	for _, r := range roots {
		if r.Key != key {
			return false
		}
	}
	return true
}

// fields returns the field accesses as the rules should judge them: an access written in a
// transparent helper is replaced by its instances inside the functions that call the helper
// (Root = that caller, state and locks of the caller's context; FieldAccess.Res renders the
// base expression in the caller's frame).
func (m *ServerModel) fields() []*FieldAccess {
	if m.ctxFields != nil {
		return m.ctxFields
	}
	var out []*FieldAccess
	for _, fa := range m.DB.Fields {
		if !m.transparent(fa.Root) {
			out = append(out, fa)
		}
	}
	for _, fa := range m.DB.DeepFields {
		if m.transparent(fa.Root) {
			continue
		}
		all := true
		for _, fr := range fa.Inl {
			if !m.transparent(m.L.FuncOf(m.Info.Defs[fr.Decl.Name].(*types.Func))) {
				all = false
			}
		}
		if all {
			out = append(out, fa)
		}
	}
	m.ctxFields = out
	return out
}

// flowOut follows a local variable of a transparent helper through the helper's return
// statements into the variables its callers assign the results to (transitively): the
// objects that hold "the same value" for rules that trace a backend result to a reply field.
// The variable itself is always part of the result.
func (m *ServerModel) flowOut(obj types.Object) []types.Object {
	out := []types.Object{obj}
	seen := map[types.Object]bool{obj: true}
	for i := 0; i < len(out) && i < 16; i++ {
		o := out[i]
		decl := m.L.declOf(o)
		if decl == nil {
			continue
		}
		fobj, _ := m.Info.Defs[decl.Name].(*types.Func)
		h := m.L.FuncOf(fobj)
		if h == nil || !m.transparent(h) {
			continue
		}
		// positions at which every return hands out o (named results count by position)
		var named []types.Object
		if decl.Type.Results != nil {
			for _, f := range decl.Type.Results.List {
				for _, nm := range f.Names {
					named = append(named, m.Info.Defs[nm])
				}
			}
		}
		pos := map[int]bool{}
		for j, n := range named {
			if n == o {
				pos[j] = true
			}
		}
		ast.Inspect(decl.Body, func(n ast.Node) bool {
			if _, isLit := n.(*ast.FuncLit); isLit {
				return false
			}
			if ret, ok := n.(*ast.ReturnStmt); ok {
				for j, e := range ret.Results {
					if objOf(m.Info, e) == o {
						pos[j] = true
					}
				}
			}
			return true
		})
		if len(pos) == 0 {
			continue
		}
		for _, s := range m.DB.Calls[h.Key] {
			as, ok := m.L.parent(s.Call).(*ast.AssignStmt)
			if !ok || len(as.Rhs) != 1 {
				continue
			}
			for j := range pos {
				if j < len(as.Lhs) {
					if lo := objOf(m.Info, as.Lhs[j]); lo != nil && !seen[lo] {
						seen[lo] = true
						out = append(out, lo)
					}
				}
			}
		}
	}
	return out
}

// usesOf: the places from which fi runs: its static call sites and the wrapper calls that
// receive it as their callback (Site.Virtual).
func (m *ServerModel) usesOf(fi *FuncInfo) []*Site {
	out := append([]*Site{}, m.DB.Calls[fi.Key]...)
	var roots []*FuncInfo
	for r := range m.DB.Virtual {
		roots = append(roots, r)
	}
	sort.Slice(roots, func(i, j int) bool { return roots[i].Key < roots[j].Key })
	for _, r := range roots {
		for _, v := range m.DB.Virtual[r] {
			if v.Callee == fi.Key {
				out = append(out, v)
			}
		}
	}
	return out
}

// succeededAt: at state st the backend/helper call of site is known to have returned a nil
// error.  The call and its error variable are rendered the way they were rendered at the site
// (Site.Res: the frame of a helper analysed in place included).
func (m *ServerModel) succeededAt(st *HState, site *Site) bool {
	if st.Dead {
		return true
	}
	res := site.Res
	if res == nil {
		res = m.resolver(site.Root)
	}
	if st.holds(res.str(site.Call)+" == nil", true) {
		return true
	}
	for obj, def := range st.Defs {
		if def == ast.Node(site.Call) && isErrorType(obj.Type()) {
			if st.holds(res.nameOf(obj)+" == nil", true) {
				return true
			}
		}
	}
	// the error variable of the assignment, by name (Defs may have been joined away)
	if as, ok := m.L.parent(site.Call).(*ast.AssignStmt); ok && len(as.Rhs) == 1 && len(as.Lhs) > 0 {
		if eo := objOf(m.Info, as.Lhs[len(as.Lhs)-1]); eo != nil && isErrorType(eo.Type()) {
			if def, has := st.Defs[eo]; has && def == ast.Node(site.Call) && st.holds(res.nameOf(eo)+" == nil", true) {
				return true
			}
		}
	}
	return false
}

// resultVarIn names, in root's frame, the variable of root that ends up holding result #idx of
// the call at site: the assignment's own left-hand side for a call written in root, or - for
// a call inside a helper judged in root's context - the variable the helper's result flows
// into through its return statements (flowOut).  "" if there is none.
func (m *ServerModel) resultVarIn(root *FuncInfo, site *Site, idx int) string {
	o := m.resultObjIn(root, site, idx)
	if o == nil {
		return ""
	}
	return m.resolver(root).nameOf(o)
}

func (m *ServerModel) resultObjIn(root *FuncInfo, site *Site, idx int) types.Object {
	as, ok := m.L.parent(site.Call).(*ast.AssignStmt)
	if !ok || len(as.Rhs) != 1 {
		return nil
	}
	i := idx
	if i < 0 {
		i = len(as.Lhs) + i
	}
	if i < 0 || i >= len(as.Lhs) {
		return nil
	}
	o := objOf(m.Info, as.Lhs[i])
	if o == nil {
		return nil
	}
	for _, c := range m.flowOut(o) {
		if c.Pos() >= root.Decl.Pos() && c.Pos() < root.Decl.End() {
			return c
		}
	}
	return nil
}

// deferredAt: a call of key has been deferred on every path to this state and has not run yet -
// by the function the state belongs to, or (for a state inside a helper judged in place) by
// one of the callers whose activation is still open.
func deferredAt(st *HState, key string) bool {
	for k := range st.Must {
		for strings.HasPrefix(k, "outer|") {
			k = strings.TrimPrefix(k, "outer|")
		}
		if k == "defer:"+key {
			return true
		}
	}
	return false
}

// boolTest finds the variable of root that tells whether the decision pred was taken: the
// comma-ok variable of an assignment whose right-hand side satisfies pred, written in root
// (truth = true), or - when the decision was moved into a private helper judged in root's
// context - the variable of root that receives a boolean result of the helper which is the
// constant false exactly on the helper's exits where the decision was taken and the constant
// true exactly where it was refuted (truth = false), or the other way round.
func (m *ServerModel) boolTest(root *FuncInfo, pred func(rhs ast.Expr) bool) (name string, truth bool) {
	if n := m.resultName(root, -1, pred); n != "" {
		return n, true
	}
	res := m.resolver(root)
	for _, s := range m.DB.ByFunc[root] {
		h := m.L.FuncOf(callee(m.Info, s.Call))
		if h == nil || !m.transparent(h) {
			continue
		}
		hn := m.resultName(h, -1, pred)
		if hn == "" {
			continue
		}
		as, ok := m.L.parent(s.Call).(*ast.AssignStmt)
		if !ok || len(as.Rhs) != 1 {
			continue
		}
		sig := h.Obj.Type().(*types.Signature)
		for i := 0; i < sig.Results().Len() && i < len(as.Lhs); i++ {
			if b, ok := sig.Results().At(i).Type().Underlying().(*types.Basic); !ok || b.Kind() != types.Bool {
				continue
			}
			same, opposite, n := true, true, 0
			for _, ex := range m.DB.Exits[h] {
				if ex.Fn != ast.Node(h.Decl) || ex.St.Dead {
					continue
				}
				if ex.Ret == nil || len(ex.Ret.Results) != sig.Results().Len() {
					same, opposite = false, false
					break
				}
				id, ok := unparen(ex.Ret.Results[i]).(*ast.Ident)
				if !ok || id.Name != "true" && id.Name != "false" {
					same, opposite = false, false
					break
				}
				n++
				val := id.Name == "true"
				taken, refuted := ex.St.holds(hn, true), ex.St.holds(hn, false)
				if !(val && taken || !val && refuted) {
					same = false
				}
				if !(val && refuted || !val && taken) {
					opposite = false
				}
			}
			if n >= 2 && same != opposite {
				return res.str(as.Lhs[i]), same
			}
		}
	}
	return "", true
}

// rnorm renders an expression of fi through fi's resolver (single-assignment locals are
// replaced by what they stand for: data := rread.Data reads as rread.Data), without spaces.
func (m *ServerModel) rnorm(fi *FuncInfo, e ast.Expr) string {
	if e == nil {
		return ""
	}
	return strings.ReplaceAll(m.resolver(fi).str(e), " ", "")
}

// spawnedBody returns the body a go (or defer) statement runs: the function literal written
// in place, or the body of the declared function or method that is called.
func (m *ServerModel) spawnedBody(call *ast.CallExpr) *ast.BlockStmt {
	if lit, ok := unparen(call.Fun).(*ast.FuncLit); ok {
		return lit.Body
	}
	if fi := m.L.FuncOf(callee(m.Info, call)); fi != nil && fi.Decl.Body != nil {
		return fi.Decl.Body
	}
	return nil
}
