package main

// Model of the server side of package p9 shared by C03..C09, C13..C16:
// backend call sites (calls of p9.File / p9.Attacher methods), their receiver
// reference, and expansion through helpers that take the File as a parameter.

import (
	"go/ast"
	"go/token"
	"go/types"
	"regexp"
	"sort"
	"strings"
)

type BackendSite struct {
	Site    *Site
	Method  string   // Walk, Create, ...
	Recv    string   // resolved receiver expression ("ref.file", "ref.parent.file", "sf")
	Base    string   // reference the file belongs to ("ref", "ref.parent"); "" if the receiver is not X.file
	Fresh   bool     // receiver is a local bound to a source call in this function (not yet published)
	Via     string   // "walkOne" when expanded through a helper parameter
	Outer   *Site    // the call site of the helper (locks are taken from here when Via != "")
	ArgStrs []string // resolved argument expressions
	Args    []ast.Expr
}

// construct key, stable across line changes.
func (b *BackendSite) Key() string {
	root := b.Site.Root.Key
	if b.Outer != nil {
		return b.Outer.Root.Key + " → " + b.Via + " → File." + b.Method + " on " + b.Recv
	}
	return root + " → File." + b.Method + " on " + b.Recv
}

// state at the site whose locks/facts count.
func (b *BackendSite) State() *HState {
	if b.Outer != nil {
		return b.Outer.St
	}
	return b.Site.St
}

type ServerModel struct {
	L       *Loaded
	DB      *SiteDB
	Info    *types.Info
	Backend []*BackendSite
	res     map[*FuncInfo]*resolver
}

func (m *ServerModel) resolver(fi *FuncInfo) *resolver {
	if r, ok := m.res[fi]; ok {
		return r
	}
	r := newResolver(m.L, fi.Pkg.TypesInfo, fi.Decl)
	m.res[fi] = r
	return r
}

func isClientSide(fi *FuncInfo) bool {
	k := fi.Key
	return strings.HasPrefix(k, "p9.Client.") || strings.HasPrefix(k, "p9.clientFile.")
}

var sourceMethods = map[string]bool{"Attach": true, "Walk": true, "WalkGetAttr": true, "Create": true}

func buildServerModel(l *Loaded) *ServerModel {
	db := buildSiteDB(l, "p9")
	m := &ServerModel{L: l, DB: db, Info: l.Pkg("p9").TypesInfo, res: map[*FuncInfo]*resolver{}}
	info := m.Info
	// 1. Direct File-method calls.
	type paramUse struct {
		fi    *FuncInfo
		param int
		sites []*BackendSite
	}
	paramUses := map[*types.Func]map[int][]*BackendSite{}
	var keys []string
	for k := range db.Calls {
		if strings.HasPrefix(k, "p9.File.") || k == "p9.Attacher.Attach" {
			keys = append(keys, k)
		}
	}
	sort.Strings(keys)
	seen := map[*ast.CallExpr]*BackendSite{}
	for _, k := range keys {
		for _, s := range db.Calls[k] {
			if isClientSide(s.Root) {
				continue
			}
			if prev, ok := seen[s.Call]; ok {
				// Visited several times (loop wrappers): keep the weakest state.
				prev.Site.St = hJoin(prev.Site.St, s.St)
				continue
			}
			res := m.resolver(s.Root)
			sel, ok := unparen(s.Call.Fun).(*ast.SelectorExpr)
			if !ok {
				continue
			}
			bs := &BackendSite{Site: s, Method: sel.Sel.Name, Recv: res.str(sel.X), Args: s.Call.Args}
			for _, a := range s.Call.Args {
				bs.ArgStrs = append(bs.ArgStrs, res.str(a))
			}
			if strings.HasSuffix(bs.Recv, ".file") {
				bs.Base = strings.TrimSuffix(bs.Recv, ".file")
			}
			// Receiver is a plain local/parameter?
			if id, ok := unparen(sel.X).(*ast.Ident); ok {
				obj := objOf(info, id)
				if v, ok := obj.(*types.Var); ok {
					if pi := paramIndex(s.Root, info, v); pi >= 0 {
						if paramUses[s.Root.Obj] == nil {
							paramUses[s.Root.Obj] = map[int][]*BackendSite{}
						}
						paramUses[s.Root.Obj][pi] = append(paramUses[s.Root.Obj][pi], bs)
					} else if m.isFreshLocal(s.Root, v) {
						bs.Fresh = true
					}
				}
			}
			seen[s.Call] = bs
			m.Backend = append(m.Backend, bs)
		}
	}
	// 2. Expansion through helpers whose File parameter is the receiver (walkOne).
	for fobj, byParam := range paramUses {
		fi := l.FuncOf(fobj)
		for pi, uses := range byParam {
			for _, cs := range db.Calls[fi.Key] {
				if isClientSide(cs.Root) || pi >= len(cs.Call.Args) {
					continue
				}
				res := m.resolver(cs.Root)
				recv := res.str(cs.Call.Args[pi])
				for _, u := range uses {
					// Arguments that are parameters of the helper are replaced by the outer call's arguments.
					args := append([]ast.Expr{}, u.Args...)
					argStrs := append([]string{}, u.ArgStrs...)
					for ai, a := range u.Args {
						if v, ok := objOf(info, a).(*types.Var); ok {
							if pj := paramIndex(fi, info, v); pj >= 0 && pj < len(cs.Call.Args) {
								args[ai] = cs.Call.Args[pj]
								argStrs[ai] = res.str(cs.Call.Args[pj])
							}
						}
					}
					bs := &BackendSite{Site: u.Site, Method: u.Method, Recv: recv, Via: fi.Decl.Name.Name, Outer: cs, Args: args, ArgStrs: argStrs}
					if strings.HasSuffix(recv, ".file") {
						bs.Base = strings.TrimSuffix(recv, ".file")
					}
					m.Backend = append(m.Backend, bs)
				}
			}
		}
	}
	// Drop the un-expanded parameter-receiver sites (they are represented per call site).
	var out []*BackendSite
	for _, b := range m.Backend {
		if b.Outer == nil {
			if id, ok := unparen(b.Site.Call.Fun.(*ast.SelectorExpr).X).(*ast.Ident); ok {
				if v, ok := objOf(info, id).(*types.Var); ok && paramIndex(b.Site.Root, info, v) >= 0 {
					if len(db.Calls[b.Site.Root.Key]) > 0 {
						continue
					}
				}
			}
		}
		out = append(out, b)
	}
	m.Backend = out
	sort.SliceStable(m.Backend, func(i, j int) bool { return m.Backend[i].Key() < m.Backend[j].Key() })
	return m
}

func paramIndex(fi *FuncInfo, info *types.Info, v *types.Var) int {
	idx := 0
	for _, fld := range fi.Decl.Type.Params.List {
		for _, nm := range fld.Names {
			if info.Defs[nm] == v {
				return idx
			}
			idx++
		}
		if len(fld.Names) == 0 {
			idx++
		}
	}
	return -1
}

// isFreshLocal: every assignment to the local in this function is from a source
// call (Attach, Walk, WalkGetAttr, Create) or a helper returning a File.
func (m *ServerModel) isFreshLocal(fi *FuncInfo, v *types.Var) bool {
	info := m.Info
	fresh, other := 0, 0
	ast.Inspect(fi.Decl, func(n ast.Node) bool {
		as, ok := n.(*ast.AssignStmt)
		if !ok {
			return true
		}
		for _, lhs := range as.Lhs {
			if objOf(info, lhs) != v {
				continue
			}
			if len(as.Rhs) == 1 {
				if call, ok := unparen(as.Rhs[0]).(*ast.CallExpr); ok {
					k := calleeKey(info, call)
					if strings.HasPrefix(k, "p9.File.") && sourceMethods[k[len("p9.File."):]] || k == "p9.Attacher.Attach" || k == "p9.walkOne" {
						fresh++
						continue
					}
				}
			}
			other++
		}
		return true
	})
	return fresh > 0 && other == 0
}

// concurrencyClass parses the doc comments of the p9.File interface:
// "On the server, X has a read|write|global|no concurrency guarantee".
func fileMethodClasses(l *Loaded) (map[string]string, []string) {
	out := map[string]string{}
	var problems []string
	p9 := l.Pkg("p9")
	re := regexp.MustCompile(`On the server, (\w+) has (?:a |an )?(read|write|global|no) concurrency guarantee`)
	for _, f := range p9.Syntax {
		ast.Inspect(f, func(n ast.Node) bool {
			ts, ok := n.(*ast.TypeSpec)
			if !ok || ts.Name.Name != "File" {
				return true
			}
			it, ok := ts.Type.(*ast.InterfaceType)
			if !ok {
				return true
			}
			for _, fld := range it.Methods.List {
				if len(fld.Names) != 1 {
					continue
				}
				name := fld.Names[0].Name
				cls := "unspecified"
				if fld.Doc != nil {
					text := strings.Join(strings.Fields(fld.Doc.Text()), " ")
					if mm := re.FindStringSubmatch(text); mm != nil {
						if mm[1] != name {
							problems = append(problems, "comment on "+name+" speaks about "+mm[1])
						}
						cls = mm[2]
						if cls == "no" {
							cls = "none"
						}
					}
				}
				out[name] = cls
			}
			return false
		})
	}
	return out, problems
}

// The property's own class table (C07 statement); the source comments are compared with it
// so that editing a comment cannot weaken the check.
var propertyClasses = map[string]string{
	"Create": "write", "Mkdir": "write", "Symlink": "write", "Link": "write", "Mknod": "write", "UnlinkAt": "write", "SetAttr": "write",
	"Walk": "read", "WalkGetAttr": "read", "Open": "read", "ReadAt": "read", "WriteAt": "read", "GetAttr": "read", "Readdir": "read", "Readlink": "read", "FSync": "read",
	"RenameAt": "global", "Renamed": "global",
}

const (
	tokRenameR = "p9.Server.renameMu:R@*"
	tokRenameW = "p9.Server.renameMu:W@*"
)

func opTok(mode, base string) string { return "p9.pathNode.opMu:" + mode + "@" + base + ".pathNode" }

// succeededVar returns the variable (resolved name) holding the error result of call, if the
// state knows that this call was the variable's last definition.
func (m *ServerModel) errVarOf(st *HState, root *FuncInfo, call *ast.CallExpr) (string, bool) {
	res := m.resolver(root)
	for obj, def := range st.Defs {
		if def == ast.Node(call) {
			if isErrorType(obj.Type()) {
				id := ast.NewIdent(obj.Name())
				_ = id
				if u, ok := res.uniq[obj]; ok {
					return u, true
				}
				return obj.Name(), true
			}
		}
	}
	return "", false
}

func isErrorType(t types.Type) bool {
	return t != nil && t.String() == "error"
}

// callSucceeded: at state st it is known that call returned a nil error.
func (m *ServerModel) callSucceeded(st *HState, root *FuncInfo, call *ast.CallExpr) bool {
	if st.Dead {
		return true
	}
	// The error variable may have been resolved to its only definition, the call itself.
	if st.holds(m.resolver(root).str(call)+" == nil", true) {
		return true
	}
	v, ok := m.errVarOf(st, root, call)
	return ok && st.holds(v+" == nil", true)
}

// checkedBy: some call of fn (callee key) with first argument rendering as arg is known to
// have returned nil at st.
func (m *ServerModel) checkedBy(st *HState, root *FuncInfo, fnKey, arg string) bool {
	res := m.resolver(root)
	// The error variable may have been resolved to its (only) definition.
	short := fnKey[strings.LastIndex(fnKey, ".")+1:]
	if st.holds(short+"("+arg+") == nil", true) {
		return true
	}
	for obj, def := range st.Defs {
		call, ok := def.(*ast.CallExpr)
		if !ok || calleeKey(m.Info, call) != fnKey || len(call.Args) == 0 {
			continue
		}
		if res.str(call.Args[0]) != arg {
			continue
		}
		name := obj.Name()
		if u, ok := res.uniq[obj]; ok {
			name = u
		}
		if st.holds(name+" == nil", true) {
			return true
		}
	}
	return false
}

// --- queries that follow an operation into helpers analysed in place -------------------

// callsDeep returns the call sites of key that run as part of root: the ones written in root
// itself (callsIn) and the ones inside helpers that the site analysis entered in place
// (Site.Inl non-empty; their states include what root established before the helper call).
func (m *ServerModel) callsDeep(root *FuncInfo, key string) []*Site {
	out := m.callsIn(root, key)
	type ck struct {
		call  *ast.CallExpr
		outer *ast.CallExpr
	}
	by := map[ck]*Site{}
	var order []ck
	for _, s := range m.DB.Deep[root] {
		if s.Callee != key {
			continue
		}
		k := ck{s.Call, s.Inl[0].Call}
		if prev, ok := by[k]; ok {
			cp := *prev
			cp.St = hJoin(prev.St, s.St)
			by[k] = &cp
			continue
		}
		by[k] = s
		order = append(order, k)
	}
	for _, k := range order {
		out = append(out, by[k])
	}
	return out
}

// arg renders argument i of the site's call in the frame of the root function.
func (s *Site) arg(i int) string {
	if i >= len(s.Call.Args) {
		return ""
	}
	return s.Res.str(s.Call.Args[i])
}

// recvStr renders the receiver of the site's call in the frame of the root function.
func (s *Site) recvStr() string {
	if sel, ok := unparen(s.Call.Fun).(*ast.SelectorExpr); ok {
		return s.Res.str(sel.X)
	}
	return ""
}

// argExpr maps argument i back to an expression of the root function: a bare parameter of a
// helper analysed in place is replaced by the expression the helper was called with.
func (s *Site) argExpr(info *types.Info, i int) ast.Expr {
	if i >= len(s.Call.Args) {
		return nil
	}
	return s.mapExpr(info, s.Call.Args[i])
}

// mapExpr maps an expression written at the site back into the root function's frame as far
// as it is a bare parameter of the helpers the site sits in.
func (s *Site) mapExpr(info *types.Info, e ast.Expr) ast.Expr {
	e = unparen(e)
	for lvl := len(s.Inl) - 1; lvl >= 0; lvl-- {
		id, ok := e.(*ast.Ident)
		if !ok {
			return e
		}
		obj := info.Uses[id]
		fr := s.Inl[lvl]
		idx, found := 0, false
		for _, fld := range fr.Decl.Type.Params.List {
			for _, nm := range fld.Names {
				if info.Defs[nm] == obj && idx < len(fr.Call.Args) {
					e = unparen(fr.Call.Args[idx])
					found = true
				}
				idx++
			}
			if len(fld.Names) == 0 {
				idx++
			}
		}
		if !found {
			return e
		}
	}
	return e
}

// viaHelpers describes the helper chain of a deep site ("" for a direct one).
func (s *Site) viaHelpers() string {
	if len(s.Inl) == 0 {
		return ""
	}
	var names []string
	for _, f := range s.Inl {
		names = append(names, f.Decl.Name.Name)
	}
	return " (via " + strings.Join(names, " → ") + ")"
}

// valueUses counts the references to a declared function that are not the callee of a call
// (method values, function values stored or passed on): such a function can run from places
// the static call sites do not show.
func (m *ServerModel) valueUses(fi *FuncInfo) int {
	n := 0
	for _, p := range m.L.modulePkgs() {
		for id, obj := range p.TypesInfo.Uses {
			if obj != types.Object(fi.Obj) {
				continue
			}
			var ref ast.Node = id
			if sel, ok := m.L.parent(id).(*ast.SelectorExpr); ok && sel.Sel == id {
				ref = sel
			}
			if call, ok := m.L.parent(ref).(*ast.CallExpr); ok && unparen(call.Fun) == ref.(ast.Expr) {
				continue
			}
			n++
		}
	}
	return n
}

// reachedOnlyFrom checks a who-may-call rule through private helpers: every static caller of
// key must be one of the allowed functions or an unexported function that is never used as a
// value and whose own callers satisfy the same condition.  It returns the offending callers.
func (m *ServerModel) reachedOnlyFrom(key string, allowed map[string]bool) (bad []string, via []string) {
	seen := map[string]bool{}
	var visit func(k string, depth int)
	visit = func(k string, depth int) {
		for _, s := range m.DB.Calls[k] {
			c := s.Root
			if allowed[c.Key] || seen[c.Key] {
				continue
			}
			seen[c.Key] = true
			private := !c.Obj.Exported() && m.valueUses(c) == 0 && len(m.DB.Calls[c.Key]) > 0
			if !private || depth >= 3 {
				bad = append(bad, c.Key)
				continue
			}
			via = append(via, c.Key)
			visit(c.Key, depth+1)
		}
	}
	visit(key, 0)
	sort.Strings(bad)
	sort.Strings(via)
	return dedupe(bad), dedupe(via)
}

// exitsDeep: the exits of fi together with the exits of the helpers analysed in place from it
// (a guard may sit in a private helper and answer from there).
func (m *ServerModel) exitsDeep(fi *FuncInfo) []*ExitRec {
	return append(append([]*ExitRec{}, m.DB.Exits[fi]...), m.DB.DeepExits[fi]...)
}

// sitesInOrder lists the call sites that run as part of root - its own and those inside
// helpers analysed in place - in source order of the statements of root (a helper's sites
// take the position of the call that enters the helper), one entry per call and entry path.
func (m *ServerModel) sitesInOrder(root *FuncInfo) []*Site {
	type ck struct {
		call  *ast.CallExpr
		outer *ast.CallExpr
	}
	seen := map[ck]bool{}
	var out []*Site
	for _, s := range append(append([]*Site{}, m.DB.ByFunc[root]...), m.DB.Deep[root]...) {
		if s.Call == nil {
			continue
		}
		k := ck{s.Call, nil}
		if len(s.Inl) > 0 {
			k.outer = s.Inl[0].Call
		}
		if seen[k] {
			continue
		}
		seen[k] = true
		out = append(out, s)
	}
	pos := func(s *Site) (token.Pos, token.Pos) {
		if len(s.Inl) > 0 {
			return s.Inl[0].Call.Pos(), s.Call.Pos()
		}
		return s.Call.Pos(), 0
	}
	sort.SliceStable(out, func(i, j int) bool {
		a1, a2 := pos(out[i])
		b1, b2 := pos(out[j])
		if a1 != b1 {
			return a1 < b1
		}
		return a2 < b2
	})
	return out
}

// resultName returns the canonical name (in root's frame) of the variable that receives result
// #idx (negative: counted from the end) of the first assignment in root whose single
// right-hand side satisfies pred ("" if there is none).  Rules use it instead of assuming
// what a local is called ("ok", "err", "remaining").
func (m *ServerModel) resultName(root *FuncInfo, idx int, pred func(rhs ast.Expr) bool) string {
	return resultNameIn(m.L, root, m.resolver(root), idx, pred)
}

func resultNameIn(l *Loaded, root *FuncInfo, res *resolver, idx int, pred func(rhs ast.Expr) bool) string {
	out := ""
	ast.Inspect(root.Decl, func(n ast.Node) bool {
		if out != "" {
			return false
		}
		var lhs []ast.Expr
		var rhs ast.Expr
		switch v := n.(type) {
		case *ast.AssignStmt:
			if len(v.Rhs) == 1 {
				lhs, rhs = v.Lhs, v.Rhs[0]
			}
		case *ast.ValueSpec:
			if len(v.Values) == 1 {
				for _, nm := range v.Names {
					lhs = append(lhs, nm)
				}
				rhs = v.Values[0]
			}
		}
		if rhs == nil || !pred(unparen(rhs)) {
			return true
		}
		i := idx
		if i < 0 {
			i = len(lhs) + i
		}
		if i >= 0 && i < len(lhs) {
			if obj := objOf(res.info, lhs[i]); obj != nil {
				out = res.nameOf(obj)
			}
		}
		return true
	})
	return out
}

// isCallTo / isAssertTo: predicates for resultName.
func isCallTo(info *types.Info, keys ...string) func(ast.Expr) bool {
	return func(e ast.Expr) bool {
		c, ok := e.(*ast.CallExpr)
		if !ok {
			return false
		}
		k := calleeKey(info, c)
		for _, want := range keys {
			if k == want {
				return true
			}
		}
		return false
	}
}

func isAssertTo(info *types.Info, typeSuffix string) func(ast.Expr) bool {
	return func(e ast.Expr) bool {
		ta, ok := e.(*ast.TypeAssertExpr)
		if !ok || ta.Type == nil {
			return false
		}
		t := info.TypeOf(ta.Type)
		return t != nil && strings.HasSuffix(types.TypeString(t, nil), typeSuffix)
	}
}
