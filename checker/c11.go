package main

import (
	"fmt"
	"go/ast"
	"go/token"
	"go/types"
	"strings"
)

func init() {
	register(&propInfo{
		id: "C11", fn: checkC11, multiConfig: true,
		explanation: "The chunk loop's behaviour is arithmetic over runtime sizes; decided are its dataflow invariants: (r1) delegation — ReadAt/WriteAt return chunk(c.client.payloadSize, c.readAt|c.writeAt, p, offset), the single-message primitives readAt/writeAt are referenced nowhere else, and tread/twrite requests are constructed only inside them; (r2) window — every slice of p passed to fn inside the loop starts at the running total and ends at len(p) exactly on the path where len(p) < total+chunkSize, and at total+chunkSize otherwise (or at a variable clamped that way), so each chunk lies inside p and is at most chunkSize long; (r3) lock-step accumulators — total and offset are both advanced by the n returned by that very call, once per iteration, before any exit test; (r4) exits — the loop returns (total, err) on the first non-nil error, (total, nil) on n < chunkSize and on total == len(p), no operation is issued when total == len(p) already holds (no spurious extra request at an exact multiple), the zero-length case calls fn exactly once, and n is never discarded; (r5) single-message primitives — readAt sends Count = uint32(len(p)) with the caller's offset and offers p as payload destination, copies when the decoded payload does not alias p, returns len(Data) and io.EOF exactly under len(Data) == 0 && len(p) > 0; writeAt sends p un-copied with the caller's offset and returns the server's count. (r6, continued) largestFixedSize really is the largest fixed size (C13.r4) and the payload size in force is derived from the announced message size (C12.r5); (r7) the reply of each chunk is received whole however the transport segments it (the vectored-read rules C17.r2/r3). (r8) a chunk's reply carries what the backend produced: the server's read buffer goes back to its pool only after the reply was written (the rule of C18.r4).",
		assumptions: []string{"that the chunks sum to len(p) for every size, and behaviour at exact multiples, follow from r2–r4 but are not computed", "the payload size in force is the one C13.r4 bounds"},
	})
}

func checkC11(r *Run) {
	m := buildServerModel(r.L)
	info := m.Info
	db := m.DB
	ch := r.mustFunc("r2", "p9", "chunk")
	if ch == nil {
		return
	}
	c11Delegation(r, m)

	// --- chunk internals ---
	var pnames []string
	for _, f := range ch.Decl.Type.Params.List {
		for _, nm := range f.Names {
			pnames = append(pnames, nm.Name)
		}
	}
	if len(pnames) != 4 {
		r.undecided("r2", "chunk signature", ch.Decl.Pos(), "expected (chunkSize, fn, p, offset)")
		return
	}
	csz, fnN, pN, offN := pnames[0], pnames[1], pnames[2], pnames[3]
	// the loop
	var loop *ast.ForStmt
	ast.Inspect(ch.Decl.Body, func(n ast.Node) bool {
		if fs, ok := n.(*ast.ForStmt); ok && loop == nil {
			loop = fs
		}
		return true
	})
	if loop == nil {
		r.fail("r2", "chunk loop", ch.Decl.Pos(), "chunk has no loop")
		return
	}
	res := m.resolver(ch)
	fnObj := objByName(info, ch, fnN)
	// calls of fn
	type fcall struct {
		site   *Site
		inLoop bool
	}
	var calls []fcall
	for _, s := range db.ByFunc[ch] {
		if s.Call != nil && objOf(info, s.Call.Fun) == fnObj && fnObj != nil {
			calls = append(calls, fcall{s, containsNode(loop, s.Call)})
		}
	}
	over := "total + int(" + csz + ") > len(" + pN + ")"
	// the accumulator name: find "X += n"
	total := ""
	ast.Inspect(loop.Body, func(n ast.Node) bool {
		if as, ok := n.(*ast.AssignStmt); ok && as.Tok == token.ADD_ASSIGN && len(as.Lhs) == 1 {
			if t := info.TypeOf(as.Lhs[0]); t != nil && t.String() == "int" && total == "" {
				total = r.L.str(as.Lhs[0])
			}
		}
		return true
	})
	if total == "" {
		r.fail("r3", "chunk: running total", loop.Pos(), "no 'total += n' accumulator in the loop")
		return
	}
	over = total + " + int(" + csz + ") > len(" + pN + ")"
	nIn := 0
	var nObjs []types.Object
	for _, c := range calls {
		if !c.inLoop {
			continue
		}
		nIn++
		key := fmt.Sprintf("chunk: fn call #%d", nIn)
		call := c.site.Call
		if len(call.Args) != 2 {
			r.fail("r2", key, call.Pos(), "fn is called with %d arguments", len(call.Args))
			continue
		}
		sl, ok := unparen(call.Args[0]).(*ast.SliceExpr)
		if !ok || objOf(info, sl.X) == nil || r.L.str(sl.X) != pN {
			r.fail("r2", key+" window", call.Pos(), "the buffer passed to fn is %s, not a slice of %s", r.L.str(call.Args[0]), pN)
			continue
		}
		lowOK := sl.Low != nil && r.L.str(sl.Low) == total
		st := c.site.St
		highOK, why := false, ""
		switch {
		case sl.High == nil:
			highOK = st.holds(over, true)
			why = "open-ended slice only where len(p) < total+chunkSize"
			if !highOK {
				why = "p[total:] is passed on a path where len(p) < total+chunkSize is not established: the chunk can exceed the payload size"
			}
		default:
			hs := strings.ReplaceAll(res.str(sl.High), " ", "")
			want := strings.ReplaceAll(total+"+int("+csz+")", " ", "")
			if hs == want {
				highOK = st.holds(over, false)
				why = "p[total:total+chunkSize] only where it fits"
				if !highOK {
					why = "p[total:total+chunkSize] is passed on a path where total+chunkSize ≤ len(p) is not established: slice bounds out of range"
				}
			} else {
				// end clamped: a variable (end := total+chunkSize; if end > len(p) { end = len(p) })
				// or an expression (min(len(p), total+chunkSize)), evaluated symbolically
				ok2, w := clampHolds(r.L, res, ch, sl.High, clampSpec{Src: total + " + int(" + csz + ")", LimitStr: "len(" + pN + ")"})
				highOK, why = ok2, "upper bound "+r.L.str(sl.High)+" "+w
			}
		}
		r.check(lowOK && highOK, "r2", key+" window", call.Pos(), "starts at the running total; "+why, fmt.Sprintf("chunk window is wrong (starts at total: %v): %s", lowOK, why))
		// offset argument
		r.check(r.L.str(call.Args[1]) == offN, "r3", key+" offset", call.Pos(), "issued at the running offset", "the chunk is issued at "+r.L.str(call.Args[1])+", not at the running offset")
		// no operation once everything is done
		r.check(st.holds(total+" == len("+pN+")", false), "r4", key+" not issued when the buffer is exhausted", call.Pos(), "total != len(p) holds at the call",
			"fn can be called when total == len(p): after a buffer that is an exact multiple of the payload size an extra, empty operation is issued and its result becomes the caller's")
		// result variable n
		if as, ok := r.L.parent(call).(*ast.AssignStmt); ok && len(as.Lhs) == 2 {
			nObjs = append(nObjs, objOf(info, as.Lhs[0]))
		} else {
			r.fail("r4", key+" result kept", call.Pos(), "the count returned by fn is discarded")
		}
	}
	r.floor("r2", "fn calls inside the chunk loop", nIn, 1)
	// zero-length case
	zeroOK := false
	for _, c := range calls {
		if c.inLoop {
			continue
		}
		if _, isRet := r.L.parent(c.site.Call).(*ast.ReturnStmt); isRet && c.site.St.holds("len("+pN+") == 0", true) &&
			r.L.str(c.site.Call.Args[0]) == pN && r.L.str(c.site.Call.Args[1]) == offN {
			zeroOK = true
		}
	}
	r.check(zeroOK, "r4", "chunk: zero-length buffer issues exactly one operation", ch.Decl.Pos(), "len(p) == 0 → return fn(p, offset)", "the zero-length case does not call fn(p, offset) exactly once")

	// --- r3: accumulators ---
	var nName string
	if len(nObjs) > 0 && nObjs[0] != nil {
		nName = nObjs[0].Name()
		for _, o := range nObjs {
			if o != nObjs[0] {
				nName = ""
			}
		}
	}
	addTotal, addOff := 0, 0
	var firstExit token.Pos
	var lastAdd token.Pos
	var lastCall token.Pos
	for _, c := range calls {
		if c.inLoop && c.site.Call.Pos() > lastCall {
			lastCall = c.site.Call.Pos()
		}
	}
	for _, s := range loop.Body.List {
		switch v := s.(type) {
		case *ast.AssignStmt:
			if v.Tok == token.ADD_ASSIGN && len(v.Lhs) == 1 {
				l, rr := r.L.str(v.Lhs[0]), strings.ReplaceAll(r.L.str(v.Rhs[0]), " ", "")
				if l == total && rr == nName && v.Pos() > lastCall {
					addTotal++
					lastAdd = v.Pos()
				}
				if l == offN && rr == "int64("+nName+")" && v.Pos() > lastCall {
					addOff++
					lastAdd = v.Pos()
				}
			}
		case *ast.IfStmt:
			if v.Pos() > lastCall && firstExit == 0 && containsReturn(v) {
				firstExit = v.Pos()
			}
		}
	}
	r.check(nName != "" && addTotal == 1 && addOff == 1, "r3", "chunk: total and offset advance by the same n", loop.Pos(),
		"total += n; offset += int64(n), once per iteration, n returned by the chunk's call",
		fmt.Sprintf("accumulators are not advanced in lock-step by the call's result (n=%q, total+=n ×%d, offset+=int64(n) ×%d)", nName, addTotal, addOff))
	r.check(firstExit == 0 || lastAdd != 0 && lastAdd < firstExit, "r3", "chunk: accumulators advance before any exit test", loop.Pos(), "both += precede the first return in the iteration", "an exit test precedes the accumulator update: the count of the last chunk would be lost")

	// --- r4: exits ---
	var sawErr, sawShort, sawDone bool
	for _, ex := range db.Exits[ch] {
		if ex.Ret == nil || ex.St.Dead || len(ex.Ret.Results) != 2 || !containsNode(loop, ex.Ret) {
			continue
		}
		r0 := r.L.str(ex.Ret.Results[0])
		r1 := unparen(ex.Ret.Results[1])
		// the error returned here is known non-nil (whatever the variable is called)
		errNonNil := false
		if eo := objOf(info, r1); eo != nil && isErrorType(eo.Type()) {
			errNonNil = ex.St.holds(res.nameOf(eo)+" == nil", false)
		}
		switch {
		case errNonNil:
			okE := r0 == total && objOf(info, r1) != nil && isErrorType(objOf(info, r1).Type())
			r.check(okE, "r4", "chunk: first error ends the loop with the bytes done so far", ex.Ret.Pos(), "return total, err", "on an error the loop returns "+r.L.str(ex.Ret))
			sawErr = sawErr || okE
		case ex.St.holds("int("+csz+") > "+nName, true):
			okS := r0 == total && isNilIdent(info, r1)
			r.check(okS, "r4", "chunk: a short chunk ends the loop", ex.Ret.Pos(), "n < chunkSize → return total, nil", "on a short chunk the loop returns "+r.L.str(ex.Ret))
			sawShort = sawShort || okS
		case ex.St.holds(total+" == len("+pN+")", true):
			okD := r0 == total && isNilIdent(info, r1)
			r.check(okD, "r4", "chunk: an exhausted buffer ends the loop", ex.Ret.Pos(), "total == len(p) → return total, nil", "when the buffer is exhausted the loop returns "+r.L.str(ex.Ret))
			sawDone = sawDone || okD
		default:
			r.fail("r4", "chunk: unexpected loop exit", ex.Ret.Pos(), "loop exit %s under facts %s is none of: error, short chunk, buffer exhausted", r.L.str(ex.Ret), describePaths(ex.St))
		}
	}
	// the exhaustion test written as the loop's condition: for total != len(p) {...}; return total, nil
	if loop.Cond != nil {
		for _, ex := range db.Exits[ch] {
			if ex.Ret == nil || ex.St.Dead || len(ex.Ret.Results) != 2 || ex.Ret.Pos() < loop.End() {
				continue
			}
			if ex.St.holds(total+" == len("+pN+")", true) {
				okD := r.L.str(ex.Ret.Results[0]) == total && isNilIdent(info, unparen(ex.Ret.Results[1]))
				r.check(okD, "r4", "chunk: an exhausted buffer ends the loop", ex.Ret.Pos(), "total == len(p) → return total, nil", "when the buffer is exhausted the function returns "+r.L.str(ex.Ret))
				sawDone = sawDone || okD
			} else {
				r.fail("r4", "chunk: unexpected loop exit", ex.Ret.Pos(), "the loop is left towards %s under facts %s although the buffer is not known to be exhausted", r.L.str(ex.Ret), describePaths(ex.St))
			}
		}
	}
	r.check(sawErr && sawShort && sawDone, "r4", "chunk: the three loop exits exist", loop.Pos(), "error / short chunk / exhausted",
		fmt.Sprintf("missing loop exit (error=%v, short chunk=%v, buffer exhausted=%v)", sawErr, sawShort, sawDone))

	c11Primitives(r, m)

	// r6: the chunk size in force leaves room for the header and fixed part of each request and reply
	// (the client-sizing rule of C13.r4, evaluated here as well).
	if ev := newSizeEval(r, info); ev != nil {
		hl, _ := r.L.pkgConst("p9", "headerLength")
		fsR, ok1 := ev.x.fixedSizeOf(r.L.namedType("p9", "rread"))
		fsW, ok2 := ev.x.fixedSizeOf(r.L.namedType("p9", "twrite"))
		if ok1 && ok2 {
			r.alias = map[string]string{"r4": "r6"}
			c13Client(r, m, ev, hl+fsW, hl+fsR)
			c13Registry(r, ev)
			r.alias = nil
		}
	}
	if r.borrowed == nil {
		// the chunk size is derived from the message size the server announced (C12.r5)
		r.borrow(checkC12, map[string]string{"r5": "r6"})
		// r7: a chunk's reply is received whole however the transport cuts it (C17.r2/r3: the
		// vectored read of header, fixed part and payload advances by exactly what arrived)
		r.borrow(checkC17, map[string]string{"r2": "r7", "r3": "r7"})
		// r8: the bytes of a chunk are the bytes the backend produced: a read buffer returns to
		// its pool only through PayloadCleanup, after the reply was written (C18.r4)
		r.borrow(checkC18, map[string]string{"r4": "r8"})
	}
}

func containsReturn(n ast.Node) bool {
	found := false
	ast.Inspect(n, func(m ast.Node) bool {
		if _, ok := m.(*ast.ReturnStmt); ok {
			found = true
		}
		if _, ok := m.(*ast.FuncLit); ok {
			return false
		}
		return true
	})
	return found
}

func litFields(cl *ast.CompositeLit) map[string]ast.Expr {
	out := map[string]ast.Expr{}
	for _, el := range cl.Elts {
		if kv, ok := el.(*ast.KeyValueExpr); ok {
			if id, ok := kv.Key.(*ast.Ident); ok {
				out[id.Name] = kv.Value
			}
		}
	}
	return out
}

// chunkPrim is the single-message primitive behind ReadAt / WriteAt: the callback handed to
// chunk, which may be a method value (c.readAt) or a function literal written in place.
type chunkPrim struct {
	owner  *FuncInfo // the function whose analysis holds the primitive's sites and exits
	fn     ast.Node  // *ast.FuncDecl (owner.Decl) or the *ast.FuncLit inside owner
	body   *ast.BlockStmt
	recv   string // name of the clientFile variable in scope
	pN     string // the buffer parameter
	offN   string // the offset parameter
	method *FuncInfo
	call   *ast.CallExpr // the chunk call
}

// chunkPrimOf finds the chunk call of ReadAt / WriteAt and resolves its callback.
func chunkPrimOf(r *Run, m *ServerModel, outer *FuncInfo) *chunkPrim {
	info := m.Info
	var out *chunkPrim
	ast.Inspect(outer.Decl.Body, func(n ast.Node) bool {
		c, ok := n.(*ast.CallExpr)
		if !ok || calleeKey(info, c) != "p9.chunk" || len(c.Args) != 4 || out != nil {
			return true
		}
		cb := unparen(c.Args[1])
		cp := &chunkPrim{call: c, recv: outer.Decl.Recv.List[0].Names[0].Name}
		var ft *ast.FuncType
		if lit, isLit := cb.(*ast.FuncLit); isLit {
			cp.owner, cp.fn, cp.body, ft = outer, lit, lit.Body, lit.Type
		} else if tf := r.L.FuncOf(callee(info, &ast.CallExpr{Fun: cb})); tf != nil && tf.Decl.Body != nil && tf.Decl.Recv != nil {
			cp.owner, cp.fn, cp.body, ft, cp.method = tf, tf.Decl, tf.Decl.Body, tf.Decl.Type, tf
			cp.recv = tf.Decl.Recv.List[0].Names[0].Name
		} else {
			return true
		}
		// parameter names as the owner's resolver renders them (a literal's parameters may
		// shadow the enclosing function's: p#2)
		var names []string
		for _, f := range ft.Params.List {
			for _, nm := range f.Names {
				names = append(names, m.resolver(cp.owner).nameOf(info.Defs[nm]))
			}
		}
		if len(names) == 2 {
			cp.pN, cp.offN = names[0], names[1]
			out = cp
		}
		return true
	})
	return out
}

// exits / sites of the primitive
func (cp *chunkPrim) exits(db *SiteDB) []*ExitRec {
	var out []*ExitRec
	for _, ex := range db.Exits[cp.owner] {
		if ex.Fn == cp.fn {
			out = append(out, ex)
		}
	}
	return out
}

func (cp *chunkPrim) sites(db *SiteDB) []*Site {
	var out []*Site
	for _, s := range db.ByFunc[cp.owner] {
		if s.Call != nil && cp.body.Pos() <= s.Call.Pos() && s.Call.End() <= cp.body.End() {
			out = append(out, s)
		}
	}
	return out
}

func c11Primitives(r *Run, m *ServerModel) {
	info := m.Info
	db := m.DB
	var raP, waP *chunkPrim
	if o := r.mustFunc("r5", "p9", "clientFile.ReadAt"); o != nil {
		if raP = chunkPrimOf(r, m, o); raP == nil {
			r.undecided("r5", "readAt: the primitive behind ReadAt", o.Decl.Pos(), "ReadAt does not hand a method value or a function literal to chunk")
		}
	}
	if o := r.mustFunc("r5", "p9", "clientFile.WriteAt"); o != nil {
		if waP = chunkPrimOf(r, m, o); waP == nil {
			r.undecided("r5", "writeAt: the primitive behind WriteAt", o.Decl.Pos(), "WriteAt does not hand a method value or a function literal to chunk")
		}
	}
	if ra := raP; ra != nil {
		norm := func(e ast.Expr) string { return m.rnorm(ra.owner, e) }
		recv, pN, offN := ra.recv, ra.pN, ra.offN
		var treadOK, rreadOK bool
		rreadVar := ""
		ast.Inspect(ra.body, func(n ast.Node) bool {
			cl, ok := n.(*ast.CompositeLit)
			if !ok {
				return true
			}
			ts := types.TypeString(info.TypeOf(cl), nil)
			f := litFields(cl)
			if strings.HasSuffix(ts, "p9.tread") {
				treadOK = f["fid"] != nil && norm(f["fid"]) == recv+".fid" && f["Offset"] != nil && norm(f["Offset"]) == "uint64("+offN+")" && f["Count"] != nil && norm(f["Count"]) == "uint32(len("+pN+"))"
			}
			if strings.HasSuffix(ts, "p9.rread") {
				rreadOK = f["Data"] != nil && norm(f["Data"]) == pN
				if as, ok := r.L.parent(cl).(*ast.AssignStmt); ok && len(as.Lhs) == 1 {
					rreadVar = r.L.str(as.Lhs[0])
				}
			}
			return true
		})
		r.check(treadOK, "r5", "readAt: request", ra.fn.Pos(), "tread{fid: c.fid, Offset: uint64(offset), Count: uint32(len(p))}", "the Tread is not {fid: c.fid, Offset: uint64(offset), Count: uint32(len(p))}")
		r.check(rreadOK, "r5", "readAt: p is offered as the payload destination", ra.fn.Pos(), "rread{Data: p}", "the reply object is not primed with Data: p")
		// copy when not aliased
		okCopy := false
		for _, s := range ra.sites(db) {
			if s.Call == nil {
				continue
			}
			if id, ok := s.Call.Fun.(*ast.Ident); ok && id.Name == "copy" && len(s.Call.Args) == 2 {
				if norm(s.Call.Args[0]) == pN && norm(s.Call.Args[1]) == rreadVar+".Data" {
					alias := "&" + rreadVar + ".Data[0] == &" + pN + "[0]"
					okCopy = s.St.holds(alias, false)
				}
			}
		}
		r.check(okCopy, "r5", "readAt: payload copied when it does not alias p", ra.fn.Pos(), "copy(p, Data) under &Data[0] != &p[0]", "readAt does not copy the decoded payload into p when transport.go allocated a different buffer: the caller's buffer would stay unfilled")
		// exits
		var okEOF, okLen bool
		for _, ex := range ra.exits(db) {
			if ex.Ret == nil || len(ex.Ret.Results) != 2 || ex.St.Dead {
				continue
			}
			r0, r1 := norm(ex.Ret.Results[0]), norm(ex.Ret.Results[1])
			if r1 == "io.EOF" {
				okEOF = r0 == "0" && ex.St.holds("len("+rreadVar+".Data) == 0", true) && ex.St.holds("len("+pN+") > 0", true)
			}
			if r1 == "nil" {
				okLen = r0 == "len("+rreadVar+".Data)"
				// and EOF is not skipped: on this exit NOT(len(Data)==0 && len(p)>0)
				for _, p := range ex.St.Paths {
					a, okA := p["len("+rreadVar+".Data) == 0"]
					b, okB := p["len("+pN+") > 0"]
					if !(okA && !a || okB && !b) {
						okLen = false
					}
				}
			}
		}
		r.check(okEOF, "r5", "readAt: io.EOF exactly for an empty read into a non-empty buffer", ra.fn.Pos(), "len(Data) == 0 && len(p) > 0 → (0, io.EOF)", "io.EOF is not returned exactly under len(Data) == 0 && len(p) > 0")
		r.check(okLen, "r5", "readAt: returns the number of bytes received", ra.fn.Pos(), "return len(Data), nil otherwise", "readAt does not return (len(Data), nil) on the remaining paths")
	}
	if wa := waP; wa != nil {
		norm := func(e ast.Expr) string { return m.rnorm(wa.owner, e) }
		recv, pN, offN := wa.recv, wa.pN, wa.offN
		okReq := false
		rwVar := ""
		ast.Inspect(wa.body, func(n ast.Node) bool {
			cl, ok := n.(*ast.CompositeLit)
			if !ok {
				return true
			}
			ts := types.TypeString(info.TypeOf(cl), nil)
			f := litFields(cl)
			if strings.HasSuffix(ts, "p9.twrite") {
				okReq = f["fid"] != nil && norm(f["fid"]) == recv+".fid" && f["Offset"] != nil && norm(f["Offset"]) == "uint64("+offN+")" && f["Data"] != nil && norm(f["Data"]) == pN
			}
			if strings.HasSuffix(ts, "p9.rwrite") {
				if as, ok := r.L.parent(cl).(*ast.AssignStmt); ok && len(as.Lhs) == 1 {
					rwVar = r.L.str(as.Lhs[0])
				}
			}
			return true
		})
		r.check(okReq, "r5", "writeAt: request", wa.fn.Pos(), "twrite{fid: c.fid, Offset: uint64(offset), Data: p}", "the Twrite is not {fid: c.fid, Offset: uint64(offset), Data: p}")
		okRet := false
		for _, ex := range wa.exits(db) {
			if ex.Ret != nil && len(ex.Ret.Results) == 2 && norm(ex.Ret.Results[1]) == "nil" {
				okRet = norm(ex.Ret.Results[0]) == "int("+rwVar+".Count)"
			}
		}
		r.check(okRet, "r5", "writeAt: returns the server's count", wa.fn.Pos(), "return int(rwrite.Count), nil", "writeAt does not return the count the server reported")
	}
}

// c11Delegation (r1): ReadAt/WriteAt delegate to chunk; the single-message primitives and the
// Tread/Twrite requests exist nowhere else.
func c11Delegation(r *Run, m *ServerModel) {
	info := m.Info
	// --- r1 delegation ---
	p9 := r.L.Pkg("p9")
	prims := map[string]*chunkPrim{} // "tread" / "twrite" -> the primitive that may build it
	for _, pair := range [][2]string{{"ReadAt", "tread"}, {"WriteAt", "twrite"}} {
		fi := r.mustFunc("r1", "p9", "clientFile."+pair[0])
		if fi == nil {
			continue
		}
		cp := chunkPrimOf(r, m, fi)
		okDel := false
		what := "a method value or literal"
		if cp != nil && len(fi.Decl.Body.List) == 1 {
			if ret, ok := fi.Decl.Body.List[0].(*ast.ReturnStmt); ok && len(ret.Results) == 1 && unparen(ret.Results[0]) == ast.Expr(cp.call) {
				c := cp.call
				recv := fi.Decl.Recv.List[0].Names[0].Name
				var pnames []string
				for _, f := range fi.Decl.Type.Params.List {
					for _, nm := range f.Names {
						pnames = append(pnames, nm.Name)
					}
				}
				okCb := cp.method == nil || r.L.str(unparen(c.Args[1]).(*ast.SelectorExpr).X) == recv
				okDel = r.L.str(c.Args[0]) == recv+".client.payloadSize" && okCb && len(pnames) == 2 && r.L.str(c.Args[2]) == pnames[0] && r.L.str(c.Args[3]) == pnames[1]
			}
			if cp.method != nil {
				what = "c." + cp.method.Decl.Name.Name
			} else {
				what = "func(p, offset) {…}"
			}
			prims[pair[1]] = cp
		}
		r.check(okDel, "r1", "clientFile."+pair[0]+" delegates to chunk", fi.Decl.Pos(), "return chunk(c.client.payloadSize, "+what+", p, offset)", pair[0]+" is not 'return chunk(c.client.payloadSize, <single-message primitive>, p, offset)': requests would not be split by the negotiated payload size")
		// a named primitive is referenced only as chunk's argument here
		if cp != nil && cp.method != nil {
			target := cp.method
			var bad []string
			for _, f := range p9.Syntax {
				ast.Inspect(f, func(n ast.Node) bool {
					sel, ok := n.(*ast.SelectorExpr)
					if !ok || info.Uses[sel.Sel] != types.Object(target.Obj) {
						return true
					}
					if unparen(cp.call.Args[1]) == ast.Expr(sel) {
						return true
					}
					where := "?"
					if fd := r.L.enclosingDecl(sel); fd != nil {
						where = fd.Name.Name
					}
					bad = append(bad, where+" at "+r.L.relPos(sel.Pos()))
					return true
				})
			}
			nm := target.Decl.Name.Name
			r.check(len(bad) == 0, "r1", "clientFile."+nm+" is reached only through chunk", target.Decl.Pos(), "single-message primitive used only as chunk's callback", "the single-message primitive "+nm+" is used directly in "+strings.Join(bad, ", ")+": a request larger than the payload size would go out unsplit")
		}
	}
	// tread/twrite literals only inside the primitives
	for _, f := range p9.Syntax {
		ast.Inspect(f, func(n ast.Node) bool {
			cl, ok := n.(*ast.CompositeLit)
			if !ok {
				return true
			}
			ts := types.TypeString(info.TypeOf(cl), nil)
			var want string
			switch {
			case strings.HasSuffix(ts, "p9.tread"):
				want = "tread"
			case strings.HasSuffix(ts, "p9.twrite"):
				want = "twrite"
			default:
				return true
			}
			fd := r.L.enclosingDecl(cl)
			if fd == nil || fd.Name.Name == "init" || len(cl.Elts) == 0 {
				return true // registry constructors
			}
			cp := prims[want]
			inside := cp != nil && cp.body.Pos() <= cl.Pos() && cl.End() <= cp.body.End()
			r.check(inside, "r1", fmt.Sprintf("%s: builds a %s request", fd.Name.Name, want), cl.Pos(), "constructed in the primitive handed to chunk", "a "+ts+" request is built in "+fd.Name.Name+", outside the chunked path")
			return true
		})
	}
}
