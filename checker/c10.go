package main

import (
	"fmt"
	"go/ast"
	"go/token"
	"go/types"
	"sort"
	"strings"
)

func init() {
	register(&propInfo{
		id: "C10", fn: checkC10, multiConfig: true,
		explanation: "(r1) allocator: pool.Get/Put touch cache/start only under mu, Get hands out a cached value or start after the start == limit → false test (so no value ≥ limit is produced), and the two pools of NewClient start at 1 with limits folding to NOTAG (65535) and NOFID (2^32−1): 0, NOTAG and NOFID are never handed out and fids fit 4 wire bytes; (r2) fid release discipline: every fidPool.Put is either on the error side of the very sendRecv that would have bound that fid (with the id obtained from fidPool.Get in the same function) or after a successful Tclunk/Tremove in Close/Remove behind the closed compare-and-swap; every successful bind returns newFile(fid(id)) of that id; (r3) tag discipline: the tag is returned by a defer registered right after Get, and the pending entry is stored under pendingMu before send; (r4) demultiplexing: handleOne completes c.pending[t] for the t returned by recv, deletes it under the lock and signals that object's done channel; the lookup callback rejects unknown tags (ErrUnexpectedTag) and wrong reply types (ErrBadResponse) except Rlerror; (r5) failure broadcast: on any recv error every pending entry is signalled with the error and the map is replaced under pendingMu; done channels are buffered so signalling under the lock cannot block; (r6) token pairing: in waitAndRecv every path that acquired the receive token (c.recvr <- true) gives it back (<-c.recvr) exactly once before returning or looping, and handleOne is called only there; (r7) no stale waiter: every exit of sendRecv after the pending entry was stored either went through waitAndRecv (whose delivery removes the entry) or deletes the entry under pendingMu — otherwise the pooled response object is recycled while still reachable from pending.",
		assumptions: []string{"reply-order permutations and liveness of the select protocol under a real scheduler are not decided"},
	})
}

func checkC10(r *Run) {
	m := buildServerModel(r.L)
	info := m.Info
	db := m.DB
	norm := func(e ast.Node) string { return strings.ReplaceAll(r.L.str(e), " ", "") }

	// ---- r1: allocator ----
	if g := r.mustFunc("r1", "p9", "pool.Get"); g != nil {
		recv := g.Decl.Recv.List[0].Names[0].Name
		okLock := true
		n := 0
		for _, fa := range m.fields() {
			if fa.Root.Key != "p9.pool.Get" && fa.Root.Key != "p9.pool.Put" {
				continue
			}
			if fa.Key == "p9.pool.cache" || fa.Key == "p9.pool.start" {
				n++
				if !hasClass(fa.St.Locks, "p9.pool.mu") {
					okLock = false
				}
			}
		}
		r.check(okLock && n >= 6, "r1", "pool: cache and start only under mu", g.Decl.Pos(), fmt.Sprintf("%d accesses, all under mu", n), "the allocator's state is touched outside pool.mu: two goroutines can be handed the same tag or fid")
		// start++ only when start != limit
		okLim := false
		ast.Inspect(g.Decl.Body, func(nd ast.Node) bool {
			if inc, ok := nd.(*ast.IncDecStmt); ok && inc.Tok == token.INC && norm(inc.X) == recv+".start" {
				for _, s := range db.ByFunc[g] {
					_ = s
				}
				okLim = true
			}
			return true
		})
		// every path that hands out the counter (result 0 is p.start, result 1 true) has refused
		// start == limit; the results are read per path, whether they are returned early or
		// assigned to named results
		gres := m.resolver(g)
		okFact, nStart, okEx := true, 0, false
		limFact := recv + ".start == " + recv + ".limit"
		for _, xp := range exitPaths(r.L, db, g, gres) {
			if len(xp.Vals) != 2 {
				continue
			}
			switch nospace(xp.Vals[1].s) {
			case "true":
				if nospace(xp.Vals[0].s) == recv+".start" {
					nStart++
					if !xp.holds(limFact, false) {
						okFact = false
					}
				}
			case "false":
				if xp.holds(limFact, true) && nospace(xp.Vals[0].s) == "0" {
					okEx = true
				}
			}
		}
		okFact = okFact && nStart > 0
		r.check(okLim && okFact, "r1", "pool.Get never produces a value ≥ limit", g.Decl.Pos(), "start is handed out and incremented only after start == limit → false", "pool.Get can hand out start without having refused start == limit: NOTAG / NOFID (or a wrapped-around 0) could be allocated")
		// exhausted → (0,false)
		r.check(okEx, "r1", "pool.Get reports exhaustion", g.Decl.Pos(), "start == limit → (0, false)", "exhaustion is not reported")
	}
	if nc := r.mustFunc("r1", "p9", "NewClient"); nc != nil {
		found := 0
		ast.Inspect(nc.Decl.Body, func(nd ast.Node) bool {
			kv, ok := nd.(*ast.KeyValueExpr)
			if !ok {
				return true
			}
			id, ok := kv.Key.(*ast.Ident)
			if !ok || (id.Name != "tagPool" && id.Name != "fidPool") {
				return true
			}
			cl, ok := kv.Value.(*ast.CompositeLit)
			if !ok {
				return true
			}
			f := litFields(cl)
			st, ok1 := constInt(info, f["start"])
			lim, ok2 := constUint(info, f["limit"])
			want := uint64(65535)
			if id.Name == "fidPool" {
				want = 4294967295
			}
			found++
			r.check(ok1 && ok2 && st == 1 && lim == want, "r1", "NewClient: "+id.Name+" range", kv.Pos(), fmt.Sprintf("start 1, limit %d (exclusive)", want),
				fmt.Sprintf("%s is {start: %d, limit: %d}; must start at 1 (0 is reserved) and stop before %d (the NOTAG/NOFID sentinel)", id.Name, st, lim, want))
			return true
		})
		r.check(found == 2, "r1", "NewClient: both pools configured", nc.Decl.Pos(), "tagPool and fidPool literals", fmt.Sprintf("%d pool literals found", found))
	}

	// ---- r2: fid release discipline ----
	nPut := 0
	ownSeen := map[*ast.CallExpr]bool{}
	// (sites in private helpers are judged inside the methods that call the helper)
	for _, s := range m.contextSites("p9.pool.Put") {
		if !strings.HasSuffix(s.recvStr(), ".fidPool") || s.St.Dead {
			continue
		}
		nPut++
		root := s.Root
		// A helper that takes the fid from the pool itself, sends the binding request and
		// returns the fid on failure is a unit of its own: it is judged in its own frame (once,
		// whoever calls it).
		if len(s.Inl) > 0 {
			hd := s.Inl[len(s.Inl)-1].Decl
			hf := r.L.FuncOf(info.Defs[hd.Name].(*types.Func))
			var own *Site
			if hf != nil {
				for _, g := range m.DB.Calls["p9.pool.Get"] {
					if g.Root != hf || !strings.HasSuffix(m.resolver(hf).str(unparen(g.Call.Fun).(*ast.SelectorExpr).X), ".fidPool") {
						continue
					}
					for _, o := range m.DB.Calls["p9.pool.Put"] {
						if o.Root == hf && o.Call == s.Call {
							own = o
						}
					}
				}
			}
			if own != nil {
				if ownSeen[own.Call] {
					continue
				}
				ownSeen[own.Call] = true
				s, root = own, hf
			}
		}
		key := fmt.Sprintf("%s: fidPool.Put(%s)", root.Key, nospace(s.arg(0)))
		res := m.resolver(root)
		arg := unparen(s.Call.Args[0])
		// strip conversion
		if c, ok := arg.(*ast.CallExpr); ok && len(c.Args) == 1 {
			if tv, ok := info.Types[c.Fun]; ok && tv.IsType() {
				arg = unparen(c.Args[0])
			}
		}
		switch root.Key {
		case "p9.clientFile.Close", "p9.clientFile.Remove":
			// after the success of sendRecv(tclunk/tremove) and behind the CAS
			var sr *ast.CallExpr
			var srSite *Site
			for _, cs := range m.callsIn(root, "p9.Client.sendRecv") {
				sr, srSite = cs.Call, cs
			}
			okS := sr != nil && (m.callSucceeded(s.St, root, sr) || m.succeededAt(s.St, srSite))
			okReq := false
			if sr != nil {
				// (the request may be a parameter of a helper shared by Close and Remove: it
				// stands for what this method handed over)
				rs := norm(srSite.argExpr(info, 0))
				okReq = strings.HasPrefix(rs, "&tclunk{fid:") || strings.HasPrefix(rs, "&tremove{fid:")
			}
			okCAS := false
			for _, p := range s.St.Paths {
				for k, v := range p {
					// atomic.CompareAndSwapUint32(&c.closed, 0, 1), or the typed form c.closed.CompareAndSwap(0, 1)
					if v && (strings.Contains(k, "CompareAndSwapUint32(&") && strings.Contains(k, ".closed, 0, 1)") || strings.Contains(k, ".closed.CompareAndSwap(0, 1)") || strings.Contains(k, ".closed.CompareAndSwap(false, true)")) {
						okCAS = true
					}
				}
			}
			okArg := strings.HasSuffix(norm(arg), ".fid")
			r.check(okS && okReq && okCAS && okArg, "r2", key, s.Call.Pos(), "after the server confirmed Tclunk/Tremove, behind the closed CAS",
				fmt.Sprintf("fid returned to the pool without a confirmed unbind (after successful sendRecv=%v, request is Tclunk/Tremove of this fid=%v, behind closed CAS=%v): the number could be given to a new File while the server still has it bound", okS, okReq, okCAS))
		default:
			// error side of the binding sendRecv; id from fidPool.Get here.  The argument is
			// rendered in root's frame (a helper's parameter stands for what it was called with)
			// and stripped of conversions: it must name the variable that received Get's result.
			argName := stripConvText(s.arg(0))
			for { // conversions to named types too: uint64(fid(id))
				i := strings.Index(argName, "(")
				if i <= 0 || !isPlainIdent(argName[:i]) || matchingParen(argName, i) != len(argName)-1 || strings.Contains(argName[i:], ",") {
					break
				}
				argName = stripConvText(argName[i+1 : len(argName)-1])
			}
			var idObj types.Object
			for _, g := range m.callsIn(root, "p9.pool.Get") {
				if as, ok := r.L.parent(g.Call).(*ast.AssignStmt); ok && len(as.Lhs) == 2 && len(g.Inl) == 0 {
					if o := objOf(info, as.Lhs[0]); o != nil && res.nameOf(o) == argName {
						idObj = o
					}
				}
			}
			_ = arg
			fromGet := false
			if idObj != nil {
				if def, ok := s.St.Defs[idObj].(*ast.CallExpr); ok && calleeKey(info, def) == "p9.pool.Get" && strings.HasSuffix(recvStr(res, def), ".fidPool") {
					fromGet = true
				}
			}
			// the request that binds the fid: a request literal (written in place or held in a
			// local) one of whose fields is fid(id), possibly through a local alias
			var binding *ast.CallExpr
			bindingStr, bindingErr := "", ""
			for _, cs := range m.callsIn(root, "p9.Client.sendRecv") {
				if idObj == nil {
					continue
				}
				want := "fid(" + res.nameOf(idObj) + ")"
				if lit := requestLiteral(info, cs.Res, cs.Call.Args[0]); lit != nil {
					for _, el := range lit.Elts {
						v := el
						if kv, isKV := el.(*ast.KeyValueExpr); isKV {
							v = kv.Value
						}
						if nospace(cs.Res.str(v)) == want {
							binding = cs.Call
							bindingStr = cs.Res.str(cs.Call)
							// the variable that receives its error, as rendered at that site
							if as, isAs := r.L.parent(cs.Call).(*ast.AssignStmt); isAs && len(as.Lhs) == 1 {
								if eo := objOf(info, as.Lhs[0]); eo != nil {
									bindingErr = cs.Res.nameOf(eo)
								}
							}
						}
					}
				}
			}
			failed := false
			if binding != nil {
				cstr := bindingStr + " == nil"
				failed = s.St.holds(cstr, false) || bindingErr != "" && s.St.holds(bindingErr+" == nil", false)
				if !failed {
					if v, ok := m.errVarOf(s.St, root, binding); ok {
						failed = s.St.holds(v+" == nil", false)
					}
				}
			}
			r.check(fromGet && binding != nil && failed, "r2", key, s.Call.Pos(), "the request that would have bound this fid failed",
				fmt.Sprintf("fid returned to the pool although the request that binds it is not known to have failed (id from fidPool.Get=%v, binding request found=%v, known failed=%v): the server may still have it bound when it is handed out again", fromGet, binding != nil, failed))
		}
	}
	r.floor("r2", "fidPool.Put sites", nPut, 6)
	// each fidPool.Get is followed, on success, by newFile(fid(id))
	for _, s := range db.Calls["p9.pool.Get"] {
		if !strings.HasSuffix(recvStr(m.resolver(s.Root), s.Call), ".fidPool") {
			continue
		}
		as, ok := r.L.parent(s.Call).(*ast.AssignStmt)
		if !ok || len(as.Lhs) != 2 {
			continue
		}
		id := norm(as.Lhs[0])
		okNew := false
		for _, nf := range m.callsIn(s.Root, "p9.Client.newFile") {
			if nospace(nf.arg(0)) == "fid("+id+")" {
				okNew = true
			}
		}
		r.check(okNew, "r2", s.Root.Key+": allocated fid becomes a File", s.Call.Pos(), "newFile(fid("+id+"))", "the fid allocated here is never wrapped by newFile(fid("+id+")): it is neither used nor released")
	}

	// ---- r3 / r7: sendRecv ----
	sr := r.mustFunc("r3", "p9", "Client.sendRecv")
	if sr != nil {
		res := m.resolver(sr)
		// defer tagPool.Put right after Get
		okDefer := false
		for _, g := range m.callsIn(sr, "p9.pool.Get") {
			as, _ := r.L.parent(g.Call).(*ast.AssignStmt)
			var cur ast.Stmt = as
			for i := 0; i < 2 && cur != nil; i++ {
				cur = nextStmt(r.L, cur)
				if d, ok := cur.(*ast.DeferStmt); ok && calleeKey(info, d.Call) == "p9.pool.Put" && as != nil && norm(d.Call.Args[0]) == norm(as.Lhs[0]) {
					okDefer = true
				}
			}
		}
		r.check(okDefer, "r3", "sendRecv: tag released by defer", sr.Decl.Pos(), "defer tagPool.Put(t) right after Get", "the tag is not returned to the pool by an immediate defer: an early return leaks it")
		// pending store before send, under pendingMu
		for _, s := range m.callsIn(sr, "p9.send") {
			stored := false
			for k := range s.St.Must {
				if strings.HasPrefix(k, "mapstore:") && strings.HasSuffix(k, ".pending") {
					stored = true
				}
			}
			r.check(stored, "r3", "sendRecv: waiter registered before the request leaves", s.Call.Pos(), "c.pending[tag] = resp precedes send", "the request can be on the wire before its waiter is in c.pending: a fast reply read by another goroutine finds no entry, is rejected as an unexpected tag and fails every pending call")
		}
		// every access to the pending table, wherever it is written (helpers included), holds
		// pendingMu; the constructor fills the not yet published object
		for _, fa := range m.fields() {
			if fa.Key == "p9.Client.pending" && fa.Root.Key != "p9.NewClient" {
				r.check(hasClass(fa.St.Locks, "p9.Client.pendingMu"), "r3", fa.Root.Key+": pending accessed under pendingMu", fa.Sel.Pos(), "under pendingMu", "c.pending is accessed without pendingMu in "+fa.Root.Key)
			}
		}
		// r7: exits after the store
		// "drained": after the entry was deleted, a value that a failure broadcast may already
		// have put into the response's done channel is taken out again (non-blocking receive)
		isDrain := func(n ast.Node) bool {
			sel, ok := n.(*ast.SelectStmt)
			if !ok {
				return false
			}
			hasDefault, recvDone := false, false
			for _, c := range sel.Body.List {
				cc := c.(*ast.CommClause)
				if cc.Comm == nil {
					hasDefault = true
					continue
				}
				ast.Inspect(cc.Comm, func(x ast.Node) bool {
					if u, ok := x.(*ast.UnaryExpr); ok && u.Op == token.ARROW && strings.HasSuffix(nospace(r.L.str(u.X)), ".done") {
						recvDone = true
					}
					return true
				})
			}
			return hasDefault && recvDone
		}
		drainedAt, _ := mustFlag(db, sr, func(n ast.Node, _ *resolver) (bool, bool) {
			if isDrain(n) {
				return true, true
			}
			// the communication of such a select, as a node of its own in the flow graph
			if st, ok := n.(ast.Stmt); ok {
				if cc, ok := r.L.parent(st).(*ast.CommClause); ok && cc.Comm == st {
					if blk, ok := r.L.parent(cc).(*ast.BlockStmt); ok {
						if sel, ok := r.L.parent(blk).(*ast.SelectStmt); ok && isDrain(sel) {
							isRecv := false
							ast.Inspect(st, func(x ast.Node) bool {
								if u, ok := x.(*ast.UnaryExpr); ok && u.Op == token.ARROW && strings.HasSuffix(nospace(r.L.str(u.X)), ".done") {
									isRecv = true
								}
								return true
							})
							if isRecv {
								return true, true
							}
						}
					}
				}
			}
			del := false
			inspectNoLit(n, func(x ast.Node) {
				if c, ok := x.(*ast.CallExpr); ok {
					if id, ok := c.Fun.(*ast.Ident); ok && id.Name == "delete" && len(c.Args) == 2 && strings.HasSuffix(nospace(r.L.str(c.Args[0])), ".pending") {
						del = true
					}
				}
			})
			if del {
				return false, true // a broadcast before the delete may still signal: drain afterwards
			}
			return false, false
		}, nil)
		n := 0
		for _, ex := range db.Exits[sr] {
			if ex.Fn != ast.Node(sr.Decl) || ex.St.Dead {
				continue
			}
			stored := false
			for k := range ex.St.May {
				if strings.HasPrefix(k, "mapstore:") && strings.HasSuffix(k, ".pending") {
					stored = true
				}
			}
			if !stored {
				continue
			}
			n++
			waited := ex.St.Must["p9.Client.waitAndRecv"]
			deleted := false
			for k := range ex.St.Must {
				if strings.HasPrefix(k, "delete:") && strings.HasSuffix(k, ".pending") {
					deleted = true
				}
			}
			pos := sr.Decl.End()
			if ex.Ret != nil {
				pos = ex.Ret.Pos()
			}
			if !waited && deleted && ex.Ret != nil {
				r.check(drainedAt[ex.Ret], "r7", fmt.Sprintf("sendRecv exit #%d recycles an empty response", n), pos, "after the entry is deleted the done channel is drained (select with default)",
					"this exit did not wait for its response, yet a failure broadcast (handleOne: every pending entry is signalled) may have put an error into resp.done between the registration and the delete: the response object goes back to the process-wide pool with that value still in its channel, and the next call that draws it - on any client - returns that stale error at once while its own reply is later taken for an unexpected tag")
			}
			r.check(waited || deleted, "r7", fmt.Sprintf("sendRecv exit #%d leaves no pending entry", n), pos, "went through waitAndRecv (delivery removes the entry) or deletes it",
				"this exit (send failed) leaves c.pending[tag] pointing at the response object that the deferred responsePool.Put recycles: a later failure broadcast writes into another call's channel, and with the channel already full blocks for ever while holding pendingMu")
		}
		r.floor("r7", "exits of sendRecv after the waiter was registered", n, 3)
		_ = res
	}

	// ---- r4 / r5: handleOne ----
	if ho := r.mustFunc("r4", "p9", "Client.handleOne"); ho != nil {
		// t from recv
		tName := ""
		for _, s := range m.callsIn(ho, "p9.recv") {
			if as, ok := r.L.parent(s.Call).(*ast.AssignStmt); ok && len(as.Lhs) == 3 {
				tName = norm(as.Lhs[0])
			}
		}
		var okLookup, okDelete, okSignal bool
		respVar := ""
		ast.Inspect(ho.Decl.Body, func(nd ast.Node) bool {
			switch v := nd.(type) {
			case *ast.AssignStmt:
				if len(v.Lhs) == 1 && len(v.Rhs) == 1 && strings.HasSuffix(norm(v.Rhs[0]), ".pending["+tName+"]") && r.L.enclosingFunc(v) == ast.Node(ho.Decl) {
					okLookup = true
					respVar = norm(v.Lhs[0])
				}
			case *ast.CallExpr:
				if id, ok := v.Fun.(*ast.Ident); ok && id.Name == "delete" && len(v.Args) == 2 && strings.HasSuffix(norm(v.Args[0]), ".pending") && norm(v.Args[1]) == tName {
					okDelete = true
				}
			case *ast.SendStmt:
				if respVar != "" && norm(v.Chan) == respVar+".done" {
					okSignal = true
				}
			}
			return true
		})
		r.check(tName != "" && okLookup && okDelete && okSignal, "r4", "handleOne completes the waiter of the received tag", ho.Decl.Pos(), "resp := pending[t]; delete(pending, t); resp.done <- …",
			fmt.Sprintf("the reply is not delivered to exactly the waiter registered for the received tag (lookup by recv's tag=%v, entry deleted=%v, that object's done signalled=%v)", okLookup, okDelete, okSignal))

		// lookup callback: the literal passed to recv
		for _, s := range m.callsIn(ho, "p9.recv") {
			// the callback: a function literal, or a declared function / method value
			cbArg := unparen(s.Call.Args[len(s.Call.Args)-1])
			var cbFn ast.Node
			var cbExits []*ExitRec
			if l, isLit := cbArg.(*ast.FuncLit); isLit {
				cbFn, cbExits = l, db.Exits[ho]
			} else if tf := r.L.FuncOf(callee(info, &ast.CallExpr{Fun: cbArg})); tf != nil && tf.Decl.Body != nil {
				cbFn, cbExits = tf.Decl, db.Exits[tf]
			}
			if cbFn == nil {
				r.undecided("r4", "handleOne: lookup callback", s.Call.Pos(), "recv is given neither a function literal nor a declared function")
				continue
			}
			lit := cbFn
			var unexp, bad, rlerr bool
			for _, ex := range cbExits {
				if ex.Fn != cbFn || ex.Ret == nil || len(ex.Ret.Results) != 2 || ex.St.Dead {
					continue
				}
				r1 := norm(ex.Ret.Results[1])
				switch {
				case r1 == "ErrUnexpectedTag":
					unexp = ex.St.holds("resp == nil", true) || ex.St.holds("c.pending[t] == nil", true) || anyFact(ex.St, "== nil", true)
				case strings.HasPrefix(r1, "&ErrBadResponse{"):
					bad = anyFact(ex.St, ".typ()", false) && anyFact(ex.St, "== msgRlerror", false)
				case r1 == "nil" && strings.HasPrefix(norm(ex.Ret.Results[0]), "&rlerror{"):
					rlerr = anyFact(ex.St, "== msgRlerror", true)
				}
			}
			r.check(unexp, "r4", "lookup: unknown tag is rejected", lit.Pos(), "no waiter → ErrUnexpectedTag", "a reply whose tag has no waiter is not rejected with ErrUnexpectedTag")
			r.check(bad, "r4", "lookup: wrong reply type is rejected", lit.Pos(), "type ≠ expected and ≠ Rlerror → ErrBadResponse", "a reply of the wrong type is not rejected with ErrBadResponse")
			r.check(rlerr, "r4", "lookup: Rlerror is always accepted", lit.Pos(), "Rlerror → fresh rlerror", "Rlerror is not accepted in place of the expected reply")
		}
		// r5 broadcast
		errName := m.resultName(ho, -1, isCallTo(info, "p9.recv"))
		var okRange, okReplace bool
		ast.Inspect(ho.Decl.Body, func(nd ast.Node) bool {
			switch v := nd.(type) {
			case *ast.RangeStmt:
				if strings.HasSuffix(norm(v.X), ".pending") {
					ast.Inspect(v.Body, func(n2 ast.Node) bool {
						if ss, ok := n2.(*ast.SendStmt); ok && strings.HasSuffix(norm(ss.Chan), ".done") && m.resolver(ho).str(ss.Value) == errName && errName != "" {
							okRange = true
						}
						return true
					})
				}
			case *ast.AssignStmt:
				if len(v.Lhs) == 1 && strings.HasSuffix(norm(v.Lhs[0]), ".pending") && strings.HasPrefix(norm(v.Rhs[0]), "make(map[tag]") {
					okReplace = true
				}
			}
			return true
		})
		okBranch := false
		for _, b := range db.Blocking {
			if b.Root == ho && b.Callee == "chan<-" && b.St.holds(errName+" == nil", false) && hasClass(b.St.Locks, "p9.Client.pendingMu") {
				okBranch = true
			}
		}
		r.check(okRange && okReplace && okBranch, "r5", "handleOne: a receive error fails every pending call", ho.Decl.Pos(), "err != nil → every pending done <- err, map replaced, under pendingMu",
			fmt.Sprintf("failure broadcast incomplete (every waiter signalled=%v, map replaced=%v, on the err != nil branch under pendingMu=%v): calls pending when the connection breaks would hang", okRange, okReplace, okBranch))
		// done channels are buffered
		okBuf := false
		p9 := r.L.Pkg("p9")
		for _, f := range p9.Syntax {
			ast.Inspect(f, func(nd ast.Node) bool {
				kv, ok := nd.(*ast.KeyValueExpr)
				if ok {
					if id, ok := kv.Key.(*ast.Ident); ok && id.Name == "done" {
						if c, ok := kv.Value.(*ast.CallExpr); ok && len(c.Args) == 2 {
							if v, ok := constInt(info, c.Args[1]); ok && v >= 1 {
								okBuf = true
							}
						}
					}
				}
				return true
			})
		}
		r.check(okBuf, "r5", "response.done is buffered", token.NoPos, "make(chan error, 1): signalling under pendingMu cannot block", "response.done is unbuffered: handleOne would block under pendingMu until the waiter reads")
		// who calls handleOne
		var callers []string
		for _, s := range db.Calls["p9.Client.handleOne"] {
			callers = append(callers, s.Root.Key)
		}
		sort.Strings(callers)
		r.check(strings.Join(dedupe(callers), ",") == "p9.Client.waitAndRecv", "r6", "handleOne is called only by the token holder", ho.Decl.Pos(), "only from waitAndRecv", "handleOne is called from "+strings.Join(callers, ","))
	}

	// ---- r6: token pairing ----
	c10Token(r, m)
}

func anyFact(st *HState, sub string, pol bool) bool {
	if st.Dead {
		return false
	}
	for _, p := range st.Paths {
		found := false
		for k, v := range p {
			if strings.Contains(k, sub) && v == pol {
				found = true
			}
		}
		if !found {
			return false
		}
	}
	return true
}

// c10Token: inside the select clause that acquired the token, every path performs exactly one
// <-c.recvr before leaving the clause.
func c10Token(r *Run, m *ServerModel) {
	info := m.Info
	wr := r.mustFunc("r6", "p9", "Client.waitAndRecv")
	if wr == nil {
		return
	}
	norm := func(e ast.Node) string { return strings.ReplaceAll(r.L.str(e), " ", "") }
	var clause *ast.CommClause
	ast.Inspect(wr.Decl.Body, func(nd ast.Node) bool {
		cc, ok := nd.(*ast.CommClause)
		if !ok || clause != nil {
			return true
		}
		if ss, ok := cc.Comm.(*ast.SendStmt); ok && strings.HasSuffix(norm(ss.Chan), ".recvr") {
			clause = cc
		}
		return true
	})
	if clause == nil {
		r.fail("r6", "waitAndRecv: token acquisition", wr.Decl.Pos(), "no 'case c.recvr <- true' clause found")
		return
	}
	// count <-c.recvr on paths through the clause body
	lit := &ast.FuncLit{Type: &ast.FuncType{Params: &ast.FieldList{}}, Body: &ast.BlockStmt{List: clause.Body, Lbrace: clause.Colon, Rbrace: clause.End()}}
	type res struct {
		c   cnt
		pos token.Pos
	}
	var results []res
	a := &Analysis[cnt]{L: r.L, Info: info,
		Join: func(a, b cnt) cnt {
			if b.Min < a.Min {
				a.Min = b.Min
			}
			if b.Max > a.Max {
				a.Max = b.Max
			}
			return a
		},
		Equal: func(a, b cnt) bool { return a == b },
		Copy:  func(a cnt) cnt { return a },
	}
	a.Stmt = func(s cnt, n ast.Node, fc *FlowCtx[cnt]) cnt {
		inspectNoLit(n, func(mn ast.Node) {
			if u, ok := mn.(*ast.UnaryExpr); ok && u.Op == token.ARROW && strings.HasSuffix(norm(u.X), ".recvr") {
				s.Min++
				s.Max++
			}
		})
		return s
	}
	a.Exit = func(s cnt, ret *ast.ReturnStmt, fc *FlowCtx[cnt]) {
		p := clause.End()
		if ret != nil {
			p = ret.Pos()
		}
		results = append(results, res{s, p})
	}
	a.Run(lit, cnt{})
	if len(results) == 0 {
		r.undecided("r6", "waitAndRecv: token pairing", clause.Pos(), "no exits found in the token clause")
		return
	}
	for i, rs := range results {
		r.check(rs.c.Min == 1 && rs.c.Max == 1, "r6", fmt.Sprintf("waitAndRecv: token returned on exit #%d of the holder's clause", i+1), rs.pos, "exactly one <-c.recvr on every path",
			fmt.Sprintf("a path through the token holder's clause performs between %d and %d receives from c.recvr: the token is %s, after which no goroutine can (or two can) read the connection", rs.c.Min, rs.c.Max, map[bool]string{true: "not given back", false: "given back twice"}[rs.c.Min == 0]))
	}
	// handleOne inside that clause only
	okIn := true
	for _, s := range m.DB.Calls["p9.Client.handleOne"] {
		if !containsNode(clause, s.Call) {
			okIn = false
		}
	}
	r.check(okIn, "r6", "handleOne runs only while holding the token", clause.Pos(), "called inside the token clause", "handleOne is called outside the clause that holds the receive token")
}

var _ = types.Typ

// requestLiteral resolves a request argument (&T{...}, or &x with x a local assigned once
// from a literal T{...}) to the composite literal.
func requestLiteral(info *types.Info, res *resolver, e ast.Expr) *ast.CompositeLit {
	e = unparen(e)
	u, ok := e.(*ast.UnaryExpr)
	if !ok || u.Op != token.AND {
		return nil
	}
	x := unparen(u.X)
	if cl, ok := x.(*ast.CompositeLit); ok {
		return cl
	}
	// (the address is taken, so the resolver does not treat the local as an alias: look for its
	// one defining statement)
	if obj := objOf(info, x); obj != nil && res.count[obj] == 3 {
		var found *ast.CompositeLit
		ast.Inspect(res.l.declOf(obj), func(n ast.Node) bool {
			if as, ok := n.(*ast.AssignStmt); ok && len(as.Lhs) == len(as.Rhs) {
				for i, l := range as.Lhs {
					if objOf(info, l) == obj {
						if cl, ok := unparen(as.Rhs[i]).(*ast.CompositeLit); ok {
							found = cl
						}
					}
				}
			}
			return true
		})
		return found
	}
	return nil
}
