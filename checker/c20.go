package main

import (
	"fmt"
	"go/ast"
	"go/constant"
	"go/token"
	"go/types"
	"strings"
)

func init() {
	register(&propInfo{
		id: "C20", fn: checkC20, multiConfig: true,
		explanation: "(r1) the QID mapper's table is synchronised: every access to Mapper.paths (a plain map reached from concurrent read-class requests) lies inside a region of a mutex that is a field of the same Mapper, the lookup and the insert of QIDFor are in one region (otherwise two paths for one source), and NewPath is an atomic add; (r2) localfs's fallback table is keyed by value: the keys given to qids.Load/LoadOrStore have a static type whose == is structural on (dev, ino) — a struct value, not a pointer to a freshly allocated one, which never compares equal — the insert is a LoadOrStore whose result is what is returned; (r3) the compact encoding is injective and disjoint from the fallback: the three width variables fold (initialisers, never assigned elsewhere) to 39/12/12 = 63 bits, ino, minor and major occupy the pairwise disjoint ranges [0,39) [39,51) [51,63) (shift amounts evaluated from the source), each field is range-checked against exactly its own width before use, the upper 32 device bits are required to be zero on the untruncated device number, so bit 63 is clear, while fallback paths start at 1<<63 and only grow by atomic add; (r4) one producer: in localfs every non-blank QID is built in (*Local).info with Type = ModeFromOS(fi.Mode()).QIDType() and Path = localToQid of the same FileInfo; (r5) the mode tables agree: ModeFromOS is read as an ordered decision list (os mask → p9 type) plus three independent special-bit translations plus Perm(), OSMode as (p9 type → os bits) plus three independent special-bit translations plus & 0777; for each of the 7 p9 types the os bits OSMode emits select, under ModeFromOS's case order, the same p9 type (evaluated on the constants, not by running the functions), the special-bit pairs are mutually inverse, pairwise distinct and disjoint from the rwx mask, the type constants are the POSIX S_IF* values and QIDType maps dir/symlink/regular to TypeDir/TypeSymlink/TypeRegular.",
		assumptions: []string{"unix.Major/unix.Minor extract the device numbers as documented", "the 28672-value round trip is implied by the table agreement of r5, not enumerated"},
	})
}

func checkC20(r *Run) {
	db := buildSiteDB(r.L, "fsimpl/qids", "fsimpl/localfs")
	norm := func(e ast.Node) string { return strings.ReplaceAll(r.L.str(e), " ", "") }

	// ---- r1: Mapper ----
	qp := r.L.Pkg("fsimpl/qids")
	if qp == nil {
		r.undecided("r1", "package fsimpl/qids", token.NoPos, "not loaded")
	} else {
		n := 0
		var regions []string
		for _, fa := range db.Fields {
			if fa.Key != "fsimpl/qids.Mapper.paths" {
				continue
			}
			if fa.Root.Key == "fsimpl/qids.NewMapper" {
				continue
			}
			n++
			base := newResolver(r.L, fa.Root.Pkg.TypesInfo, fa.Root.Decl).str(fa.Sel.X)
			held := ""
			for t := range fa.St.Locks {
				c, _, inst := parseLockToken(t)
				if strings.HasPrefix(c, "fsimpl/qids.Mapper.") && inst == base {
					held = t
				}
			}
			mode := "read"
			if fa.Write || isMapWrite(r.L, fa.Sel) {
				mode = "write"
			}
			key := fmt.Sprintf("%s: %s of Mapper.paths", fa.Root.Key, mode)
			r.check(held != "", "r1", key, fa.Sel.Pos(), "under "+held,
				"Mapper.paths is a plain map reached from concurrent read-class requests (Walk, GetAttr, Readdir through the wrapper) and is accessed here with "+describeSet(fa.St.Locks)+" held: 'fatal error: concurrent map writes' (not recoverable) and two paths for one source")
			regions = append(regions, held)
		}
		r.floor("r1", "accesses to Mapper.paths", n, 2)
		// one region for lookup + insert in QIDFor: a single Lock call in QIDFor, released by defer or after the insert
		if qf := r.L.Func("fsimpl/qids", "Mapper.QIDFor"); qf != nil {
			nLock := 0
			for _, la := range db.LockAcqs {
				if la.Site.Root == qf {
					nLock++
				}
			}
			r.check(nLock == 1, "r1", "QIDFor: lookup and insert share one critical section", qf.Decl.Pos(), fmt.Sprintf("%d lock acquisition(s)", nLock), "QIDFor locks more than once: between the lookup and the insert another request can insert a different path for the same source")
		}
		if np := r.L.Func("fsimpl/qids", "PathGenerator.NewPath"); np != nil {
			okAt := false
			for _, s := range db.ByFunc[np] {
				if s.Callee == "sync/atomic.AddUint64" || s.Callee == "sync/atomic.Uint64.Add" {
					okAt = true
				}
			}
			r.check(okAt, "r1", "NewPath is an atomic add", np.Decl.Pos(), "atomic.AddUint64", "NewPath does not allocate paths atomically: two requests can get the same path")
		}
	}

	// ---- localfs (unix only) ----
	ltq := r.L.Func("fsimpl/localfs", "localToQid")
	if ltq == nil || r.L.Func("fsimpl/localfs", "encodeLikely") == nil {
		r.ok("r2", "localfs QID encoding on "+r.Config, token.NoPos, "system_unix.go is not compiled for this configuration")
	} else {
		c20Fallback(r, db, ltq)
		c20Compact(r, db)
		c20Producer(r, db)
	}

	// ---- r5: mode tables ----
	c20Modes(r)
	_ = norm
}

func c20Fallback(r *Run, db *SiteDB, ltq *FuncInfo) {
	info := ltq.Pkg.TypesInfo
	norm := func(e ast.Node) string { return strings.ReplaceAll(r.L.str(e), " ", "") }
	n := 0
	var los *Site
	// the table may be consulted by localToQid itself or by a private helper it calls (one that
	// the pinned tree does not have: unlikelyQid(di))
	hosts := []*FuncInfo{ltq}
	for _, s := range db.ByFunc[ltq] {
		if s.Call == nil {
			continue
		}
		if tf := r.L.FuncOf(callee(info, s.Call)); tf != nil && tf != ltq && tf.Pkg == ltq.Pkg && tf.Decl.Body != nil && !tf.Obj.Exported() && !pinnedFuncs[tf.Key] {
			hosts = append(hosts, tf)
		}
	}
	var sites []*Site
	hostOf := map[*Site]*FuncInfo{}
	for _, h := range hosts {
		for _, s := range db.ByFunc[h] {
			sites = append(sites, s)
			hostOf[s] = h
		}
	}
	for _, s := range sites {
		if s.Callee != "sync.Map.Load" && s.Callee != "sync.Map.LoadOrStore" && s.Callee != "sync.Map.Store" {
			continue
		}
		n++
		if s.Callee == "sync.Map.LoadOrStore" {
			los = s
		}
		kt := info.TypeOf(s.Call.Args[0])
		key := fmt.Sprintf("localToQid: key of %s", strings.TrimPrefix(s.Callee, "sync.Map."))
		_, isPtr := kt.Underlying().(*types.Pointer)
		st, isStruct := kt.Underlying().(*types.Struct)
		okFields := false
		if isStruct {
			names := []string{}
			for i := 0; i < st.NumFields(); i++ {
				names = append(names, st.Field(i).Name())
			}
			okFields = st.NumFields() == 2 && types.Comparable(kt)
			_ = names
		}
		r.check(!isPtr && isStruct && okFields, "r2", key, s.Call.Pos(), "struct value "+kt.String()+" compared field by field",
			fmt.Sprintf("the table is keyed by %s: a pointer to a freshly allocated struct never equals an earlier key, so every lookup of an 'unlikely' (dev, ino) misses, allocates a new path (the QID path of a file changes from call to call) and the table grows without bound", kt.String()))
		if s.Callee == "sync.Map.Store" {
			r.fail("r2", "localToQid: insert is a LoadOrStore", s.Call.Pos(), "a plain Store lets two racing first lookups publish different paths for one file")
		}
	}
	r.floor("r2", "fallback table operations in localToQid", n, 2)
	if los != nil {
		// returned value is LoadOrStore's result
		okRet := false
		if as, ok := r.L.parent(los.Call).(*ast.AssignStmt); ok && len(as.Lhs) == 2 {
			v := norm(as.Lhs[0])
			host := hostOf[los]
			for _, ex := range db.Exits[host] {
				if ex.Ret != nil && len(ex.Ret.Results) > 0 && ex.Ret.Pos() > los.Call.Pos() && strings.HasPrefix(norm(ex.Ret.Results[0]), v+".(") {
					okRet = true
				}
			}
			if host != ltq && okRet {
				// ... and localToQid hands on what the helper returns
				okRet = false
				for _, ex := range db.Exits[ltq] {
					if ex.Ret == nil || len(ex.Ret.Results) == 0 {
						continue
					}
					if c, isCall := unparen(ex.Ret.Results[0]).(*ast.CallExpr); isCall && r.L.FuncOf(callee(info, c)) == host {
						okRet = true
					}
				}
			}
		}
		r.check(okRet, "r2", "localToQid returns the winner of LoadOrStore", los.Call.Pos(), "single winner", "the value returned is not LoadOrStore's result: two racing lookups can return different paths")
		// new paths come from the atomic counter
		okCtr := strings.Contains(norm(los.Call.Args[1]), "nextQid.Add(1)")
		r.check(okCtr, "r2", "fallback paths come from the atomic counter", los.Call.Pos(), "nextQid.Add(1)", "new fallback paths are not taken from nextQid.Add(1)")
	} else {
		r.fail("r2", "localToQid: insert is a LoadOrStore", ltq.Decl.Pos(), "no LoadOrStore found")
	}
}

// foldVar evaluates a package-level variable's initialiser.
func foldVar(r *Run, pkg, name string) (int64, bool, token.Pos) {
	p := r.L.Pkg(pkg)
	if p == nil {
		return 0, false, token.NoPos
	}
	for _, f := range p.Syntax {
		for _, d := range f.Decls {
			gd, ok := d.(*ast.GenDecl)
			if !ok {
				continue
			}
			for _, sp := range gd.Specs {
				vs, ok := sp.(*ast.ValueSpec)
				if !ok {
					continue
				}
				for i, nm := range vs.Names {
					if nm.Name == name && i < len(vs.Values) {
						if v, ok := constInt(p.TypesInfo, vs.Values[i]); ok {
							return v, true, nm.Pos()
						}
					}
				}
			}
		}
	}
	return 0, false, token.NoPos
}

func c20Compact(r *Run, db *SiteDB) {
	lp := r.L.Pkg("fsimpl/localfs")
	info := lp.TypesInfo
	norm := func(e ast.Node) string { return strings.ReplaceAll(r.L.str(e), " ", "") }
	ino, ok1, _ := foldVar(r, "fsimpl/localfs", "inodeLikelyBits")
	mnr, ok2, _ := foldVar(r, "fsimpl/localfs", "devMinorLikelyBits")
	mjr, ok3, _ := foldVar(r, "fsimpl/localfs", "devMajorLikelyBits")
	if !ok1 || !ok2 || !ok3 {
		r.undecided("r3", "width variables", token.NoPos, "inodeLikelyBits/devMinorLikelyBits/devMajorLikelyBits do not fold to constants")
		return
	}
	r.check(ino+mnr+mjr == 63 && ino > 0 && mnr > 0 && mjr > 0, "r3", "compact encoding uses 63 bits", token.NoPos, fmt.Sprintf("ino %d + minor %d + major %d = 63: bit 63 stays clear", ino, mnr, mjr), fmt.Sprintf("ino %d + minor %d + major %d != 63: compact paths can reach bit 63 (the fallback range) or waste bits", ino, mnr, mjr))
	// never assigned elsewhere
	for _, nm := range []string{"inodeLikelyBits", "devMinorLikelyBits", "devMajorLikelyBits"} {
		obj := lp.Types.Scope().Lookup(nm)
		writes := 0
		for _, f := range lp.Syntax {
			ast.Inspect(f, func(n ast.Node) bool {
				switch v := n.(type) {
				case *ast.AssignStmt:
					for _, l := range v.Lhs {
						if objOf(info, l) == obj {
							writes++
						}
					}
				case *ast.IncDecStmt:
					if objOf(info, v.X) == obj {
						writes++
					}
				case *ast.UnaryExpr:
					if v.Op == token.AND && objOf(info, v.X) == obj {
						writes++
					}
				}
				return true
			})
		}
		r.check(writes == 0, "r3", nm+" is never reassigned", token.NoPos, "initialiser only", fmt.Sprintf("%s is written %d times after initialisation: the encoding is not a fixed layout", nm, writes))
	}
	el := r.L.Func("fsimpl/localfs", "encodeLikely")
	// shifts: q |= minor << S1; q |= major << S2
	var eval func(e ast.Expr) (int64, bool)
	eval = func(e ast.Expr) (int64, bool) {
		// a local that is defined once stands for its definition (minorShift := inodeLikelyBits)
		if id, isId := unparen(e).(*ast.Ident); isId && el != nil {
			if v, isVar := objOf(info, id).(*types.Var); isVar && !v.IsField() && v.Parent() != v.Pkg().Scope() {
				var def ast.Expr
				n := 0
				ast.Inspect(el.Decl.Body, func(nd ast.Node) bool {
					switch st := nd.(type) {
					case *ast.AssignStmt:
						for i, l := range st.Lhs {
							if objOf(info, l) == v {
								n++
								if len(st.Lhs) == len(st.Rhs) {
									def = st.Rhs[i]
								}
							}
						}
					case *ast.IncDecStmt:
						if objOf(info, st.X) == v {
							n += 2
						}
					case *ast.UnaryExpr:
						if st.Op == token.AND && objOf(info, st.X) == v {
							n += 2
						}
					}
					return true
				})
				if n == 1 && def != nil {
					return eval(def)
				}
				return 0, false
			}
		}
		// evaluate sums of the three variables
		s := norm(unparen(e))
		s = strings.Trim(s, "()")
		total := int64(0)
		for _, t := range strings.Split(s, "+") {
			switch t {
			case "inodeLikelyBits":
				total += ino
			case "devMinorLikelyBits":
				total += mnr
			case "devMajorLikelyBits":
				total += mjr
			default:
				if v, ok := constInt(info, e); ok {
					return v, true
				}
				return 0, false
			}
		}
		return total, true
	}
	shifts := map[string]int64{}
	widths := map[string]int64{"ino": ino, "minor": mnr, "major": mjr}
	// which variable is which field: ino is the second parameter, major/minor the locals
	// computed by unix.Major / unix.Minor (whatever they are called)
	elRes := newResolver(r.L, info, el.Decl)
	role := map[types.Object]string{}
	devName, inoName := "dev", "ino"
	if ps := el.Decl.Type.Params.List; len(ps) >= 1 {
		var names []*ast.Ident
		for _, f := range ps {
			names = append(names, f.Names...)
		}
		if len(names) == 2 {
			role[info.Defs[names[1]]] = "ino"
			devName, inoName = names[0].Name, names[1].Name
		}
		// one parameter that bundles the two numbers (encodeLikely(di devino)): the device is
		// the field handed to unix.Major / unix.Minor, the inode the other field
		if len(names) == 1 {
			if st, ok := info.Defs[names[0]].Type().Underlying().(*types.Struct); ok && st.NumFields() == 2 {
				devField := ""
				ast.Inspect(el.Decl.Body, func(n ast.Node) bool {
					if c, ok := n.(*ast.CallExpr); ok && len(c.Args) == 1 {
						if k := calleeKey(info, c); strings.HasSuffix(k, "unix.Major") || strings.HasSuffix(k, "unix.Minor") {
							if sel, ok := unparen(c.Args[0]).(*ast.SelectorExpr); ok && objOf(info, sel.X) == info.Defs[names[0]] {
								devField = sel.Sel.Name
							}
						}
					}
					return true
				})
				for i := 0; i < 2 && devField != ""; i++ {
					if f := st.Field(i).Name(); f != devField {
						devName, inoName = names[0].Name+"."+devField, names[0].Name+"."+f
					}
				}
			}
		}
	}
	isIno := func(e ast.Expr) bool {
		return role[objOf(info, e)] == "ino" || norm(unparen(e)) == inoName && strings.Contains(inoName, ".")
	}
	ast.Inspect(el.Decl.Body, func(n ast.Node) bool {
		if as, ok := n.(*ast.AssignStmt); ok && len(as.Lhs) == 1 && len(as.Rhs) == 1 {
			ast.Inspect(as.Rhs[0], func(m ast.Node) bool {
				if c, ok := m.(*ast.CallExpr); ok {
					switch k := calleeKey(info, c); {
					case strings.HasSuffix(k, "unix.Major"):
						role[objOf(info, as.Lhs[0])] = "major"
					case strings.HasSuffix(k, "unix.Minor"):
						role[objOf(info, as.Lhs[0])] = "minor"
					}
				}
				return true
			})
		}
		return true
	})
	_ = elRes
	ast.Inspect(el.Decl.Body, func(n ast.Node) bool {
		as, ok := n.(*ast.AssignStmt)
		if !ok || len(as.Lhs) != 1 || len(as.Rhs) != 1 {
			return true
		}
		if as.Tok == token.OR_ASSIGN {
			if be, ok := unparen(as.Rhs[0]).(*ast.BinaryExpr); ok && be.Op == token.SHL {
				if v, ok := eval(be.Y); ok {
					if rl := role[objOf(info, be.X)]; rl != "" {
						shifts[rl] = v
					} else {
						shifts["?"+norm(be.X)] = v
					}
				}
			}
		}
		if as.Tok == token.DEFINE || as.Tok == token.ASSIGN {
			// q := ino & inoLikely
			if be, ok := unparen(as.Rhs[0]).(*ast.BinaryExpr); ok && be.Op == token.AND && isIno(be.X) {
				shifts["ino"] = 0
			}
		}
		return true
	})
	// the same assembly written as one expression: ino&mask | minor<<S1 | major<<S2 (the
	// operands of a chain of |, wherever it stands)
	var orOperands func(e ast.Expr) []ast.Expr
	orOperands = func(e ast.Expr) []ast.Expr {
		e = unparen(e)
		if be, ok := e.(*ast.BinaryExpr); ok && be.Op == token.OR {
			return append(orOperands(be.X), orOperands(be.Y)...)
		}
		return []ast.Expr{e}
	}
	ast.Inspect(el.Decl.Body, func(n ast.Node) bool {
		be, ok := n.(*ast.BinaryExpr)
		if !ok || be.Op != token.OR {
			return true
		}
		for _, op := range orOperands(be) {
			ob, isBin := op.(*ast.BinaryExpr)
			if !isBin {
				continue
			}
			switch ob.Op {
			case token.SHL:
				if v, ok := eval(ob.Y); ok {
					if rl := role[objOf(info, unparen(ob.X))]; rl != "" {
						shifts[rl] = v
					} else {
						shifts["?"+norm(ob.X)] = v
					}
				}
			case token.AND:
				if isIno(ob.X) {
					shifts["ino"] = 0
				}
			}
		}
		return false
	})
	okLayout := len(shifts) == 3
	type rg struct{ lo, hi int64 }
	ranges := map[string]rg{}
	for f, sh := range shifts {
		w, ok := widths[f]
		if !ok {
			okLayout = false
			continue
		}
		ranges[f] = rg{sh, sh + w}
	}
	desc := fmt.Sprintf("ino [%d,%d) minor [%d,%d) major [%d,%d)", ranges["ino"].lo, ranges["ino"].hi, ranges["minor"].lo, ranges["minor"].hi, ranges["major"].lo, ranges["major"].hi)
	disjoint := okLayout
	fs := []string{"ino", "minor", "major"}
	for i := range fs {
		for j := i + 1; j < len(fs); j++ {
			a, b := ranges[fs[i]], ranges[fs[j]]
			if a.lo < b.hi && b.lo < a.hi {
				disjoint = false
			}
		}
		if ranges[fs[i]].hi > 63 {
			disjoint = false
		}
	}
	r.check(disjoint, "r3", "the three fields occupy pairwise disjoint bit ranges below bit 63", el.Decl.Pos(), desc, "bit ranges overlap or reach bit 63: "+desc+" — two different (dev, ino) pairs can encode to the same path")
	// range checks: facts at the success exit
	var okIno, okMaj, okMin, okUp bool
	for _, ex := range db.Exits[el] {
		if ex.Ret == nil || len(ex.Ret.Results) != 2 || norm(ex.Ret.Results[1]) != "true" || ex.St.Dead {
			continue
		}
		res := newResolver(r.L, info, el.Decl)
		_ = res
		for _, p := range ex.St.Paths {
			for k, v := range p {
				kk := strings.ReplaceAll(k, " ", "")
				if !v && strings.HasPrefix(kk, inoName+"&^") && strings.Contains(kk, "nOnes(inodeLikelyBits)") && strings.HasSuffix(kk, "==0") {
					// canonical "X == 0" false would mean != 0 … the guard is "(ino & ^inoLikely) != 0 → return": on success the atom "… == 0" is true
				}
				if v && strings.Contains(kk, inoName+"&^") && strings.Contains(kk, "nOnes(inodeLikelyBits)") && strings.HasSuffix(kk, "==0") {
					okIno = true
				}
				if !v && strings.Contains(kk, ">nOnes(devMajorLikelyBits)") && strings.Contains(kk, "Major(") {
					okMaj = true
				}
				if !v && strings.Contains(kk, ">nOnes(devMinorLikelyBits)") && strings.Contains(kk, "Minor(") {
					okMin = true
				}
				if v && strings.Contains(kk, devName+"&") && strings.Contains(kk, "nOnes(devUpperBits)<<devUpperOffset") && strings.HasSuffix(kk, "==0") {
					okUp = true
				}
			}
		}
	}
	r.check(okIno && okMaj && okMin, "r3", "each field is range-checked against its own width", el.Decl.Pos(), "ino ≤ 39 bits, major ≤ 12 bits, minor ≤ 12 bits before they are packed",
		fmt.Sprintf("a field is packed without being limited to its own width (ino checked=%v, major checked=%v, minor checked=%v): its high bits spill into the neighbouring field", okIno, okMaj, okMin))
	ub, _ := r.L.pkgConst("fsimpl/localfs", "devUpperBits")
	uo, _ := r.L.pkgConst("fsimpl/localfs", "devUpperOffset")
	r.check(okUp && ub == 32 && uo == 32, "r3", "device numbers with upper bits set are not encoded compactly", el.Decl.Pos(), "dev & (0xffffffff << 32) == 0 required", "the upper 32 bits of the device number are not required to be zero: major/minor bits stored there are ignored and two devices share an encoding")
	// the device number reaches encodeLikely untruncated
	if ltq := r.L.Func("fsimpl/localfs", "localToQid"); ltq != nil {
		for _, s := range db.ByFunc[ltq] {
			if s.Callee != "fsimpl/localfs.encodeLikely" {
				continue
			}
			narrow := ""
			var chk func(e ast.Expr)
			chk = func(e ast.Expr) {
				e = unparen(e)
				if c, ok := e.(*ast.CallExpr); ok && len(c.Args) == 1 {
					if tv, ok := info.Types[c.Fun]; ok && tv.IsType() {
						if b, ok := tv.Type.Underlying().(*types.Basic); ok {
							switch b.Kind() {
							case types.Uint32, types.Int32, types.Uint16, types.Int16, types.Uint8, types.Int8:
								narrow = b.Name()
							}
						}
						chk(c.Args[0])
					}
				}
				if id, ok := e.(*ast.Ident); ok {
					if v, ok := objOf(info, id).(*types.Var); ok && !v.IsField() {
						for _, d := range defsOf(r.L, info, ltq, v) {
							chk(d.Rhs)
						}
					}
				}
			}
			chk(s.Call.Args[0])
			r.check(narrow == "", "r3", "the device number reaches the encoder untruncated", s.Call.Pos(), "no narrowing conversion on the way from Stat_t.Dev",
				"the device number is converted through "+narrow+" before encodeLikely: its upper bits (large majors/minors) are discarded before the 'upper bits must be zero' test can see them, so distinct devices get the same path")
		}
	}
	// ... and nowhere in localToQid is the device or inode number cut below 64 bits: the
	// fallback table's key must carry all of (st_dev, st_ino), or two files that differ only
	// in the bits cut off share one table entry and therefore one path
	if ltq := r.L.Func("fsimpl/localfs", "localToQid"); ltq != nil {
		var narrowAt token.Pos
		what := ""
		ast.Inspect(ltq.Decl.Body, func(n ast.Node) bool {
			switch v := n.(type) {
			case *ast.CallExpr:
				if tv, ok := info.Types[v.Fun]; ok && tv.IsType() && len(v.Args) == 1 {
					if b, ok := tv.Type.Underlying().(*types.Basic); ok && b.Info()&types.IsInteger != 0 {
						switch b.Kind() {
						case types.Uint32, types.Int32, types.Uint16, types.Int16, types.Uint8, types.Int8:
							if a := norm(v.Args[0]); strings.Contains(a, ".Dev") || strings.Contains(a, ".Ino") {
								narrowAt, what = v.Pos(), norm(v)
							}
						}
					}
				}
			case *ast.CompositeLit:
				if st, ok := info.TypeOf(v).Underlying().(*types.Struct); ok {
					for i := 0; i < st.NumFields(); i++ {
						if b, ok := st.Field(i).Type().Underlying().(*types.Basic); ok && b.Info()&types.IsInteger != 0 {
							switch b.Kind() {
							case types.Uint64, types.Int64, types.Uintptr:
							default:
								narrowAt, what = v.Pos(), "field "+st.Field(i).Name()+" "+b.Name()+" of the key "+norm(v.Type)
							}
						}
					}
				}
			}
			return true
		})
		r.check(narrowAt == token.NoPos, "r2", "localToQid: device and inode number are kept at 64 bits", ltq.Decl.Pos(), "no conversion of Stat_t.Dev/Ino below 64 bits, key fields are 64-bit",
			"the device or inode number is cut below 64 bits ("+what+"): two files whose numbers differ only in the bits cut off get the same fallback path")
	}
	// fallback range starts at 1<<63
	okStart := false
	for _, f := range lp.Syntax {
		ast.Inspect(f, func(n ast.Node) bool {
			c, ok := n.(*ast.CallExpr)
			if !ok || len(c.Args) != 1 {
				return true
			}
			if strings.HasSuffix(norm(c.Fun), "nextQid.Store") {
				if v, ok := constUint(info, c.Args[0]); ok && v == 1<<63 {
					okStart = true
				}
			}
			return true
		})
	}
	r.check(okStart, "r3", "fallback paths start at bit 63", token.NoPos, "nextQid.Store(1 << 63)", "the fallback counter does not start at 1<<63: fallback paths can collide with compact ones")
}

func c20Producer(r *Run, db *SiteDB) {
	lp := r.L.Pkg("fsimpl/localfs")
	info := lp.TypesInfo
	norm := func(e ast.Node) string { return strings.ReplaceAll(r.L.str(e), " ", "") }
	inf := r.L.Func("fsimpl/localfs", "Local.info")
	if inf == nil {
		r.undecided("r4", "Local.info", token.NoPos, "not found")
		return
	}
	var okType, okPath bool
	fiVar := ""
	// the Type may also be given in the literal that creates the QID: p9.QID{Type: ...}
	ast.Inspect(inf.Decl.Body, func(n ast.Node) bool {
		cl, ok := n.(*ast.CompositeLit)
		if !ok || !strings.HasSuffix(types.TypeString(info.TypeOf(cl), nil), "p9.QID") {
			return true
		}
		for _, el := range cl.Elts {
			if kv, ok := el.(*ast.KeyValueExpr); ok && norm(kv.Key) == "Type" {
				rhs := norm(kv.Value)
				if strings.HasPrefix(rhs, "p9.ModeFromOS(") && strings.HasSuffix(rhs, ".Mode()).QIDType()") {
					okType = true
					fiVar = strings.TrimSuffix(strings.TrimPrefix(rhs, "p9.ModeFromOS("), ".Mode()).QIDType()")
				}
			}
		}
		return true
	})
	ast.Inspect(inf.Decl.Body, func(n ast.Node) bool {
		as, ok := n.(*ast.AssignStmt)
		if !ok || len(as.Lhs) < 1 || len(as.Rhs) != 1 {
			return true
		}
		l := norm(as.Lhs[0])
		rhs := norm(as.Rhs[0])
		if strings.HasSuffix(l, ".Type") && strings.HasPrefix(rhs, "p9.ModeFromOS(") && strings.HasSuffix(rhs, ".Mode()).QIDType()") {
			okType = true
			fiVar = strings.TrimSuffix(strings.TrimPrefix(rhs, "p9.ModeFromOS("), ".Mode()).QIDType()")
		}
		if c, ok := unparen(as.Rhs[0]).(*ast.CallExpr); ok && calleeKey(info, c) == "fsimpl/localfs.localToQid" && len(c.Args) == 2 {
			if norm(c.Args[1]) == fiVar && fiVar != "" {
				okPath = true
			}
		}
		return true
	})
	r.check(okType && okPath, "r4", "localfs: QID type and path come from one FileInfo", inf.Decl.Pos(), "Type = ModeFromOS("+fiVar+".Mode()).QIDType(); Path = localToQid(_, "+fiVar+")", "(*Local).info does not derive Type from ModeFromOS(fi.Mode()).QIDType() and Path from localToQid of the same FileInfo")
	// no other function builds a non-blank QID
	for _, fi := range r.L.funcsOfPkg("fsimpl/localfs") {
		if fi == inf || fi.Decl.Body == nil {
			continue
		}
		ast.Inspect(fi.Decl.Body, func(n ast.Node) bool {
			switch v := n.(type) {
			case *ast.CompositeLit:
				if strings.HasSuffix(types.TypeString(info.TypeOf(v), nil), "p9.QID") && len(v.Elts) > 0 {
					r.fail("r4", fi.Key+": builds a QID", v.Pos(), "a non-blank QID is built outside (*Local).info")
				}
			case *ast.AssignStmt:
				for _, l := range v.Lhs {
					if sel, ok := unparen(l).(*ast.SelectorExpr); ok {
						if t := info.TypeOf(sel.X); t != nil && strings.HasSuffix(t.String(), "p9.QID") {
							r.fail("r4", fi.Key+": writes a QID field", v.Pos(), "a QID field is assigned outside (*Local).info")
						}
					}
				}
			}
			return true
		})
	}
}

// ---- r5 ----

type caseRule struct {
	mask uint64 // os bits tested (mode&mask != 0)
	p9   uint64 // p9 type bits added
	name string
}

func c20Modes(r *Run) {
	p9 := r.L.Pkg("p9")
	info := p9.TypesInfo
	norm := func(e ast.Node) string { return strings.ReplaceAll(r.L.str(e), " ", "") }
	mf := r.L.Func("p9", "ModeFromOS")
	om := r.L.Func("p9", "FileMode.OSMode")
	if mf == nil || om == nil {
		r.undecided("r5", "mode converters", token.NoPos, "ModeFromOS / OSMode not found")
		return
	}
	cu := func(e ast.Expr) (uint64, bool) { return constUint(info, e) }
	osConst := func(name string) uint64 {
		if op := r.L.ByPath["os"]; op != nil {
			if c, ok := op.Types.Scope().Lookup(name).(*types.Const); ok {
				v, _ := constant.Uint64Val(constant.ToInt(c.Val()))
				return v
			}
		}
		return 0
	}
	// POSIX values
	posix := map[string]uint64{"FileModeMask": 0o170000, "ModeSocket": 0o140000, "ModeSymlink": 0o120000, "ModeRegular": 0o100000, "ModeBlockDevice": 0o60000, "ModeDirectory": 0o40000, "ModeCharacterDevice": 0o20000, "ModeNamedPipe": 0o10000, "Setuid": 0o4000, "Setgid": 0o2000, "Sticky": 0o1000, "AllPermissions": 0o777}
	okPosix := true
	for n, want := range posix {
		if v, ok := r.L.pkgConst("p9", n); !ok || uint64(v) != want {
			okPosix = false
			r.fail("r5", "constant "+n, token.NoPos, "p9.%s = %#o, POSIX/9P2000.L value is %#o", n, v, want)
		}
	}
	if okPosix {
		r.ok("r5", "type and permission constants are the POSIX values", token.NoPos, "S_IFMT, S_IF*, S_ISUID/GID/VTX, 0777")
	}
	// --- ModeFromOS: decision list ---
	var fromList []caseRule
	var fromDefault uint64
	var fromSpecial = map[uint64]uint64{} // os bit -> p9 bit
	okShape := true
	specialInSwitch := false
	for _, s := range flattenBlocks(mf.Decl.Body.List) {
		switch v := s.(type) {
		case *ast.SwitchStmt:
			if v.Tag != nil {
				okShape = false
			}
			for _, c := range v.Body.List {
				cc := c.(*ast.CaseClause)
				add := uint64(0)
				for _, b := range cc.Body {
					if as, ok := b.(*ast.AssignStmt); ok && as.Tok == token.OR_ASSIGN {
						if x, ok := cu(as.Rhs[0]); ok {
							add |= x
						}
					}
				}
				if cc.List == nil {
					fromDefault = add
					continue
				}
				for _, e := range cc.List {
					mask := uint64(0)
					e = unparen(e)
					if call, ok := e.(*ast.CallExpr); ok && calleeKey(info, call) == "io/fs.FileMode.IsDir" {
						mask = osConst("ModeDir")
					} else if be, ok := e.(*ast.BinaryExpr); ok && be.Op == token.NEQ {
						if and, ok := unparen(be.X).(*ast.BinaryExpr); ok && and.Op == token.AND {
							if x, ok := cu(and.Y); ok {
								mask = x
							}
						}
					}
					if mask == 0 {
						okShape = false
					}
					if add == posix["Setuid"] || add == posix["Setgid"] || add == posix["Sticky"] {
						specialInSwitch = true
					}
					fromList = append(fromList, caseRule{mask, add, norm(e)})
				}
			}
		case *ast.IfStmt:
			if be, ok := unparen(v.Cond).(*ast.BinaryExpr); ok && be.Op == token.NEQ && v.Else == nil && len(v.Body.List) == 1 {
				if and, ok := unparen(be.X).(*ast.BinaryExpr); ok && and.Op == token.AND {
					if x, ok := cu(and.Y); ok {
						if as, ok := v.Body.List[0].(*ast.AssignStmt); ok && as.Tok == token.OR_ASSIGN {
							if y, ok := cu(as.Rhs[0]); ok {
								fromSpecial[x] = y
							}
						}
					}
				}
			}
		}
	}
	// --- OSMode ---
	toOS := map[uint64]uint64{} // p9 type -> os bits
	toSpecial := map[uint64]uint64{}
	permMask := uint64(0)
	isX := map[string]uint64{"IsDir": posix["ModeDirectory"], "IsSymlink": posix["ModeSymlink"], "IsSocket": posix["ModeSocket"], "IsNamedPipe": posix["ModeNamedPipe"], "IsCharacterDevice": posix["ModeCharacterDevice"], "IsBlockDevice": posix["ModeBlockDevice"], "IsRegular": posix["ModeRegular"]}
	for _, s := range flattenBlocks(om.Decl.Body.List) {
		switch v := s.(type) {
		case *ast.AssignStmt:
			// osMode |= os.FileMode(m & AllPermissions)  (or as part of the initialising expression)
			for _, rhs := range v.Rhs {
				ast.Inspect(rhs, func(n ast.Node) bool {
					if be, ok := n.(*ast.BinaryExpr); ok && be.Op == token.AND {
						if x, ok := cu(be.Y); ok {
							permMask = x
						}
					}
					return true
				})
			}
		case *ast.SwitchStmt:
			for _, c := range v.Body.List {
				cc := c.(*ast.CaseClause)
				for _, e := range cc.List {
					e = unparen(e)
					// special bits inside the switch: only the first matching case is translated
					if be, ok := e.(*ast.BinaryExpr); ok && be.Op == token.NEQ {
						if and, ok := unparen(be.X).(*ast.BinaryExpr); ok && and.Op == token.AND {
							if x, ok := cu(and.Y); ok && (x == posix["Setuid"] || x == posix["Setgid"] || x == posix["Sticky"]) {
								specialInSwitch = true
							}
						}
					}
				}
			}
		case *ast.IfStmt:
			if be, ok := unparen(v.Cond).(*ast.BinaryExpr); ok && be.Op == token.NEQ && v.Else == nil && len(v.Body.List) == 1 {
				if and, ok := unparen(be.X).(*ast.BinaryExpr); ok && and.Op == token.AND {
					if x, ok := cu(and.Y); ok {
						if as, ok := v.Body.List[0].(*ast.AssignStmt); ok && as.Tok == token.OR_ASSIGN {
							if y, ok := cu(as.Rhs[0]); ok {
								toSpecial[x] = y
							}
						}
					}
				}
			}
		}
	}
	// OSMode's type part as a table "file type → os bits", however the switching is written
	// (IsX() cases, a switch on FileType(), a helper method)
	mt := &modeTab{l: r.L, info: info}
	if tab, found, okTab := mt.orTable(om, mt.envOf(om), 0); found && okTab {
		for t, bits := range tab {
			if bits != 0 || t == posix["ModeRegular"] {
				toOS[t] = bits
			}
		}
	} else if found {
		r.undecided("r5", "OSMode: type switch", om.Decl.Pos(), "the arms of OSMode's type switch are not 'result |= constant'")
	}
	_ = isX
	r.check(okShape && len(fromList) >= 6, "r5", "ModeFromOS is an ordered decision list over os mode bits", mf.Decl.Pos(), fmt.Sprintf("%d cases + default", len(fromList)), "ModeFromOS's type switch is not a list of 'mode&MASK != 0' tests the checker can evaluate")
	r.check(!specialInSwitch, "r5", "setuid, setgid and sticky are translated independently of each other", om.Decl.Pos(), "three independent if statements in each direction", "the special bits are translated inside a switch: only the first matching case runs, so a mode with two of setuid/setgid/sticky set loses the others on the round trip")
	// simulate: for each p9 type, OSMode's bits → ModeFromOS's first matching case
	typeNames := map[uint64]string{}
	for n, v := range posix {
		if strings.HasPrefix(n, "Mode") {
			typeNames[v] = n
		}
	}
	var types7 []uint64
	for _, n := range []string{"ModeDirectory", "ModeSymlink", "ModeSocket", "ModeNamedPipe", "ModeCharacterDevice", "ModeBlockDevice", "ModeRegular"} {
		types7 = append(types7, posix[n])
	}
	for _, t := range types7 {
		osbits, has := toOS[t]
		if !has && t != posix["ModeRegular"] {
			r.fail("r5", "round trip of "+typeNames[t], om.Decl.Pos(), "OSMode has no case for %s: the type is lost", typeNames[t])
			continue
		}
		got := fromDefault
		for _, c := range fromList {
			if osbits&c.mask != 0 {
				got = c.p9
				break
			}
		}
		key := "round trip of " + typeNames[t]
		r.check(got == t, "r5", key, om.Decl.Pos(), fmt.Sprintf("%s → os bits %#x → %s", typeNames[t], osbits, typeNames[got]),
			fmt.Sprintf("OSMode turns %s into os bits %#x, which ModeFromOS's case order reads as %s: the type changes on the round trip", typeNames[t], osbits, typeNames[got]))
	}
	// special bits: mutually inverse, distinct, disjoint from rwx
	okSp := len(fromSpecial) == 3 && len(toSpecial) == 3
	seen := map[uint64]bool{}
	for osb, p9b := range fromSpecial {
		if toSpecial[p9b] != osb {
			okSp = false
		}
		if p9b&0o777 != 0 || seen[p9b] {
			okSp = false
		}
		seen[p9b] = true
	}
	wantSp := map[uint64]uint64{osConst("ModeSetuid"): posix["Setuid"], osConst("ModeSetgid"): posix["Setgid"], osConst("ModeSticky"): posix["Sticky"]}
	for k, v := range wantSp {
		if fromSpecial[k] != v {
			okSp = false
		}
	}
	r.check(okSp, "r5", "setuid/setgid/sticky translations are mutually inverse", mf.Decl.Pos(), "os.ModeSetuid↔04000, os.ModeSetgid↔02000, os.ModeSticky↔01000", fmt.Sprintf("special-bit tables are not inverse bijections onto 04000/02000/01000 (ModeFromOS: %v, OSMode: %v)", fromSpecial, toSpecial))
	r.check(permMask == 0o777, "r5", "OSMode copies exactly the rwx bits", om.Decl.Pos(), "m & 0777", fmt.Sprintf("OSMode copies m & %#o directly: bits above rwx live elsewhere in os.FileMode", permMask))
	// ModeFromOS starts from mode.Perm()
	okPerm := false
	ast.Inspect(mf.Decl.Body, func(n ast.Node) bool {
		if c, ok := n.(*ast.CallExpr); ok && calleeKey(info, c) == "io/fs.FileMode.Perm" {
			okPerm = true
		}
		return true
	})
	r.check(okPerm, "r5", "ModeFromOS copies the rwx bits", mf.Decl.Pos(), "FileMode(mode.Perm())", "ModeFromOS does not start from mode.Perm()")
	// QIDType
	if qt := r.L.Func("p9", "FileMode.QIDType"); qt != nil {
		tab, okTab := mt.valueFunc(qt, mt.envOf(qt), 0, cu)
		got := map[string]string{}
		for t, v := range tab {
			got[modeTypeNames[t]] = fmt.Sprintf("%#x", v)
		}
		// 9P: QTDIR 0x80, QTSYMLINK 0x02, QTFILE 0x00
		okQ := okTab && tab[posix["ModeDirectory"]] == 0x80 && tab[posix["ModeSymlink"]] == 0x02 && tab[posix["ModeRegular"]] == 0x00
		for t, v := range tab {
			if t != posix["ModeDirectory"] && v == 0x80 || t != posix["ModeSymlink"] && v == 0x02 {
				okQ = false // another type reported as directory / symlink
			}
		}
		r.check(okQ, "r5", "QIDType maps directory, symlink and regular file", qt.Decl.Pos(), "dir→QTDIR, symlink→QTSYMLINK, regular→QTFILE, nothing else claims those", fmt.Sprintf("QIDType table (file type → QID type byte) is %v", got))
	}
}

// flattenBlocks lists the statements of a body with plain nested blocks opened up (a loop over
// a fixed table is judged in its written-out form: one block per row, see unroll.go).
func flattenBlocks(list []ast.Stmt) []ast.Stmt {
	var out []ast.Stmt
	for _, s := range list {
		if b, ok := s.(*ast.BlockStmt); ok {
			out = append(out, flattenBlocks(b.List)...)
			continue
		}
		out = append(out, s)
	}
	return out
}
