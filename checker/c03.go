package main

import (
	"fmt"
	"go/ast"
	"go/token"
	"go/types"
	"sort"
	"strings"
)

func init() {
	register(&propInfo{
		id: "C03", fn: checkC03, multiConfig: true,
		explanation: "Client/server transparency is decided by composing two tables that are both extracted from the source: (r1) client table — for each of the 26 p9.File methods on *clientFile, the request literal(s) that reach sendRecv are resolved (local message variables, later field assignments, the embedded Tu* wrappers, the xattr helper); every fid-typed field of the request must be set explicitly (an unset fid is fid 0 on the wire), the self fid must be c.fid, other fids the .fid of a parameter asserted to *clientFile or a fresh fid from fidPool.Get, and every method parameter must flow into exactly one request field; (r2) server table — for each handler the backend call ref.file.M(args): the receiver is the LookupFID result of the request's self-fid field (the parent for Trename/Tremove), each argument is a request field, a looked-up File, the uid bound by the wrapper, or nameFor(ref); (r3) composition — parameter index → request field → backend argument index is the identity on the method's signature, and backend result index → reply field → client result index likewise; the request type the client uses is the one whose handler calls that method, and the reply object it passes is the handler's reply type; (r4) version gating — every Tu* literal is on the true branch of versionSupportsTucreation(c.client.version) and the plain message on the other branch carries GID: NoGID and no uid; Twalkgetattr only under versionSupportsTwalkgetattr with the Walk+GetAttr fallback; the predicates' thresholds fold to 3 and 2; no other extension message is built by client code; (r5) errors — every error reply goes through newErr → linux.ExtractErrno, which consults wrapped chains (errors.Is/As), recovers exact errno values before it applies the lossy os.Err* sentinel table, and ends in EIO; sendRecv turns Rlerror into linux.Errno(Error); (r6) SetXattr/RemoveXattr return ENOSYS without reaching sendRecv. (r7) I/O reaches the wire only through the chunking loop, sized by the announced msize (the rules of C11.r1 and C12.r5); (r8) handles keep denoting their File across rename and unlink (the bookkeeping rules of C08.r1-r3); (r9) arguments survive the wire only if both directions of every flag-mask codec use the same bit for the same flag (the rule of C01.r6); (r10) Close returns what File.Close returned: tclunk.handle keeps the result of DeleteFID and holds no reference of its own on the fid across it, so the DecRef whose error becomes the reply is the one that closes the File.",
		assumptions: []string{"that the bytes survive the wire is C01; that the fid denotes the right File is C04/C05/C08; chunking is C11"},
	})
}

// flatten the fields set by a request expression at a sendRecv site.
type reqBuild struct {
	Type   *types.Named
	Fields map[string]ast.Expr // flattened path -> value expression
	Pos    token.Pos
}

type c03 struct {
	r    *Run
	m    *ServerModel
	info *types.Info
	fidT types.Type
}

func (c *c03) norm(e ast.Node) string { return strings.ReplaceAll(c.r.L.str(e), " ", "") }

// stripConv removes conversions; returns inner expr.
func (c *c03) stripConv(e ast.Expr) ast.Expr {
	for {
		e = unparen(e)
		call, ok := e.(*ast.CallExpr)
		if !ok || len(call.Args) != 1 {
			return e
		}
		if tv, ok := c.info.Types[call.Fun]; ok && tv.IsType() {
			e = call.Args[0]
			continue
		}
		return e
	}
}

func namedOf(t types.Type) *types.Named {
	if p, ok := t.(*types.Pointer); ok {
		t = p.Elem()
	}
	n, _ := t.(*types.Named)
	return n
}

// build resolves a request expression (&T{...}, &msg, msg, T{...}) into flattened fields.
func (c *c03) build(fi *FuncInfo, e ast.Expr, site token.Pos, prefix string, out map[string]ast.Expr, depth int) *types.Named {
	if depth > 4 {
		return nil
	}
	e = unparen(e)
	if u, ok := e.(*ast.UnaryExpr); ok && u.Op == token.AND {
		e = unparen(u.X)
	}
	switch v := e.(type) {
	case *ast.CompositeLit:
		nt := namedOf(c.info.TypeOf(v))
		if nt == nil {
			return nil
		}
		for _, el := range v.Elts {
			kv, ok := el.(*ast.KeyValueExpr)
			if !ok {
				continue
			}
			name := kv.Key.(*ast.Ident).Name
			val := unparen(kv.Value)
			// nested struct value (literal or local message variable)
			if vt := c.info.TypeOf(val); vt != nil {
				if _, isStruct := vt.Underlying().(*types.Struct); isStruct {
					if _, isLit := val.(*ast.CompositeLit); isLit {
						c.build(fi, val, site, prefix+name+".", out, depth+1)
						continue
					}
					if id, ok := val.(*ast.Ident); ok {
						if c.buildVar(fi, id, site, prefix+name+".", out, depth+1) {
							continue
						}
					}
				}
			}
			out[prefix+name] = kv.Value
		}
		return nt
	case *ast.Ident:
		if c.buildVar(fi, v, site, prefix, out, depth+1) {
			return namedOf(c.info.TypeOf(v))
		}
	}
	return nil
}

// buildVar: v is a local message variable defined by a literal, possibly with later field assignments
// that dominate the site lexically.
func (c *c03) buildVar(fi *FuncInfo, id *ast.Ident, site token.Pos, prefix string, out map[string]ast.Expr, depth int) bool {
	obj := objOf(c.info, id)
	if obj == nil {
		return false
	}
	found := false
	ast.Inspect(fi.Decl.Body, func(n ast.Node) bool {
		as, ok := n.(*ast.AssignStmt)
		if !ok || as.Pos() > site {
			return true
		}
		for i, lhs := range as.Lhs {
			if len(as.Lhs) != len(as.Rhs) {
				continue
			}
			if objOf(c.info, lhs) == obj {
				if cl, ok := unparen(as.Rhs[i]).(*ast.CompositeLit); ok {
					c.build(fi, cl, site, prefix, out, depth+1)
					found = true
				}
			}
			// msg.F = x
			if sel, ok := unparen(lhs).(*ast.SelectorExpr); ok && objOf(c.info, sel.X) == obj {
				if c.dominatesLexically(as, site) {
					out[prefix+sel.Sel.Name] = as.Rhs[i]
				}
			}
		}
		return true
	})
	return found
}

// dominatesLexically: stmt precedes the position and every if-body enclosing stmt also encloses it.
func (c *c03) dominatesLexically(stmt ast.Node, site token.Pos) bool {
	for p := c.r.L.parent(stmt); p != nil; p = c.r.L.parent(p) {
		switch v := p.(type) {
		case *ast.IfStmt:
			if containsNode(v.Body, stmt) && !(v.Body.Pos() <= site && site <= v.Body.End()) {
				return false
			}
			if v.Else != nil && containsNode(v.Else, stmt) && !(v.Else.Pos() <= site && site <= v.Else.End()) {
				return false
			}
		case *ast.FuncDecl:
			return true
		}
	}
	return true
}

// fidFieldsOf lists the flattened fid-typed wire fields of a request type.
func (c *c03) fidFieldsOf(nt *types.Named) []string {
	var all []string
	wireFields(nt, "", &all, 0)
	var out []string
	for _, f := range all {
		t := fieldTypeByPath(nt, f)
		if t != nil && types.Identical(t, c.fidT) {
			out = append(out, f)
		}
	}
	return out
}

func fieldTypeByPath(nt *types.Named, path string) types.Type {
	cur := types.Type(nt)
	for _, p := range strings.Split(path, ".") {
		p = strings.TrimSuffix(p, "[]")
		st, ok := cur.Underlying().(*types.Struct)
		if !ok {
			return nil
		}
		found := false
		for i := 0; i < st.NumFields(); i++ {
			if st.Field(i).Name() == p {
				cur = st.Field(i).Type()
				found = true
				break
			}
		}
		if !found {
			return nil
		}
	}
	return cur
}

// lastComp returns the last component of a flattened path.
func lastComp(p string) string {
	if i := strings.LastIndex(p, "."); i >= 0 {
		return p[i+1:]
	}
	return p
}

// methods whose client implementation is checked elsewhere or is special.
var c03Special = map[string]string{
	"ReadAt": "chunked through readAt (C11.r1/r5)", "WriteAt": "chunked through writeAt (C11.r1/r5)",
	"Renamed": "server-side notification only; no request", "SetXattr": "r6", "RemoveXattr": "r6",
}

// expected backend method per client method when it is not the same name.
var c03BackendOf = map[string]string{"Rename": "RenameAt", "Remove": "UnlinkAt", "Close": "", "GetXattr": "GetXattr", "ListXattrs": "ListXattrs"}

func checkC03(r *Run) {
	m := buildServerModel(r.L)
	info := m.Info
	p9 := r.L.Pkg("p9")
	c := &c03{r: r, m: m, info: info, fidT: p9.Types.Scope().Lookup("fid").Type()}
	fileI, _ := p9.Types.Scope().Lookup("File").Type().Underlying().(*types.Interface)
	if fileI == nil {
		r.undecided("r1", "File interface", token.NoPos, "not found")
		return
	}
	nMethods := 0
	serverTab := c.serverTable()
	var names []string
	for i := 0; i < fileI.NumMethods(); i++ {
		names = append(names, fileI.Method(i).Name())
	}
	sort.Strings(names)
	for _, name := range names {
		fi := r.L.Func("p9", "clientFile."+name)
		if fi == nil {
			r.fail("r1", "clientFile."+name, token.NoPos, "clientFile does not implement File.%s", name)
			continue
		}
		nMethods++
		if why, ok := c03Special[name]; ok {
			r.ok("r1", "clientFile."+name, fi.Decl.Pos(), "%s", why)
			continue
		}
		c.clientMethod(fi, name, serverTab)
	}
	r.floor("r1", "File methods implemented by clientFile", nMethods, 26)
	c.versionGating()
	c.errors()
	c.localENOSYS()
	// r7: I/O is split to fit msize on every path that issues Tread/Twrite (the rule of C11.r1).
	r.alias = map[string]string{"r1": "r7"}
	c11Delegation(r, m)
	r.alias = nil
	if r.borrowed == nil {
		// ... by the payload size that follows from the message size the server announced (C12.r5)
		r.borrow(checkC12, map[string]string{"r5": "r7"})
		// r5 (continued): an error that is wrapped on its way to the reply keeps its chain (C15.r5)
		r.borrow(checkC15, map[string]string{"r5": "r5"})
	}
	// r8: operations keep reaching the File a handle was derived from: the server fences a path
	// only after the backend really removed or replaced it (the rule of C08.r1).
	// ... renames are told to the backend with the entry's current name (read while renames
	// are excluded, C08.r2) and the bookkeeping of a rename mirrors what the backend did
	// (C08.r3).
	if r.borrowed == nil {
		r.borrow(checkC08, map[string]string{"r1": "r8", "r2": "r8", "r3": "r8"})
		// r9: what the caller passed is what the backend is handed only if the two directions
		// of every flag-mask codec agree bit by bit (the rule of C01.r6): SetAttrMask, AttrMask
		// and the other masks are written by one function and read by another
		r.borrow(checkC01, map[string]string{"r6": "r9"})
	}
	// r10: Close returns what File.Close returned: the reply of Tclunk carries the result of
	// DeleteFID, which is the result of the DecRef that drops the fid's own reference - the
	// backend's Close error only if that DecRef is the last one.  So the handler must not
	// hold a reference of its own on the fid (a lookup released by defer) across DeleteFID.
	if tc := r.mustFunc("r10", "p9", "tclunk.handle"); tc != nil {
		sites := m.callsIn(tc, "p9.connState.DeleteFID")
		r.check(len(sites) > 0, "r10", "tclunk.handle drops the fid through DeleteFID", tc.Decl.Pos(), "DeleteFID(t.fid)", "tclunk.handle does not call DeleteFID")
		for _, s := range sites {
			held := false
			for k := range s.St.May {
				for strings.HasPrefix(k, "outer|") {
					k = strings.TrimPrefix(k, "outer|")
				}
				if k == "defer:p9.fidRef.DecRef" {
					held = true
				}
			}
			late := 0
			for _, d := range m.callsIn(tc, "p9.fidRef.DecRef") {
				if len(d.Inl) == 0 && d.Call.Pos() > s.Call.Pos() {
					late++
				}
			}
			r.check(!held && late == 0, "r10", "tclunk.handle: DeleteFID drops the last reference", s.Call.Pos(), "no reference of the handler's own is held across DeleteFID: its result is File.Close's result",
				"the handler still holds a reference it looked up (released by a deferred or later DecRef) when DeleteFID drops the fid's own: File.Close then runs in the handler's DecRef, whose result is discarded - a Close that fails is reported to the client as success")
			used := false
			// the result is what the reply is made of
			if as, ok := r.L.parent(s.Call).(*ast.AssignStmt); ok && len(as.Lhs) == 1 {
				if id, isId := as.Lhs[0].(*ast.Ident); isId && id.Name != "_" {
					used = true
				}
			}
			if _, isRet := r.L.parent(s.Call).(*ast.ReturnStmt); isRet {
				used = true
			}
			if ce, isCall := r.L.parent(s.Call).(*ast.CallExpr); isCall && len(s.Inl) == 0 {
				_ = ce
				used = true // newErr(cs.DeleteFID(...)) and the like
			}
			r.check(used, "r10", "tclunk.handle: the result of DeleteFID is kept", s.Call.Pos(), "assigned or returned", "the result of DeleteFID (the error of File.Close) is discarded")
		}
	}
}

type srvEntry struct {
	Handler *FuncInfo
	Method  string
	RecvFld string   // request field whose lookup is the receiver ("fid"), ".parent" suffix if parent
	Args    []string // per backend arg: "field:F", "lookup:F", "uid", "nameFor", "const:…", "other:…"
	Results []string // per backend result index: reply field it ends in ("" if dropped)
	Reply   string   // reply type name
	Site    *BackendSite
}

// serverTable: request type name -> entries.
func (c *c03) serverTable() map[string][]*srvEntry {
	r, m, info := c.r, c.m, c.info
	out := map[string][]*srvEntry{}
	for _, b := range m.Backend {
		if b.Fresh {
			continue
		}
		root := b.Site.Root
		if b.Outer != nil {
			root = b.Outer.Root
		}
		if !isHandlerFunc(root) && root.Key != "p9.doWalk" {
			continue
		}
		h := m.handlerInfo(root)
		e := &srvEntry{Handler: root, Method: b.Method, Site: b}
		// receiver
		base := b.Base
		rootVar := base
		suffix := ""
		if i := strings.Index(base, "."); i >= 0 {
			rootVar, suffix = base[:i], base[i:]
		}
		if f, ok := h.Lookups[rootVar]; ok {
			e.RecvFld = f + suffix
		} else {
			e.RecvFld = "?" + base
		}
		res := m.resolver(b.Site.Root)
		for _, a := range b.Args {
			e.Args = append(e.Args, c.deriveArg(h, res, a))
		}
		// results → reply fields
		as, _ := r.L.parent(b.Site.Call).(*ast.AssignStmt)
		sig, _ := info.TypeOf(b.Site.Call.Fun).(*types.Signature)
		nres := 0
		if sig != nil {
			nres = sig.Results().Len()
		}
		e.Results = make([]string, nres)
		if as != nil && len(as.Lhs) == nres {
			for i, lhs := range as.Lhs {
				// the result is stored straight into a field of a local reply value (reply.QID, ... = GetAttr())
				if sel, isSel := unparen(lhs).(*ast.SelectorExpr); isSel {
					if bo := objOf(info, sel.X); bo != nil && bo.Parent() != bo.Pkg().Scope() {
						if nt := namedOf(bo.Type()); nt != nil && strings.HasPrefix(nt.Obj().Name(), "r") && nt.Obj().Pkg().Name() == "p9" {
							e.Results[i] = sel.Sel.Name
							continue
						}
					}
				}
				obj0 := objOf(info, lhs)
				if obj0 == nil {
					continue
				}
				// the variables that carry this result (through a private helper's returns, if
				// the call sits in one)
				carriers := map[types.Object]bool{}
				for _, o := range m.flowOut(obj0) {
					carriers[o] = true
				}
				// find the reply literal field initialised from this variable
				ast.Inspect(root.Decl.Body, func(n ast.Node) bool {
					cl, ok := n.(*ast.CompositeLit)
					if !ok {
						return true
					}
					nt := namedOf(info.TypeOf(cl))
					if nt == nil || !strings.HasPrefix(nt.Obj().Name(), "r") || nt.Obj().Pkg().Name() != "p9" {
						return true
					}
					for j, el := range cl.Elts {
						switch v := el.(type) {
						case *ast.KeyValueExpr:
							val := unparen(v.Value)
							if sl, ok := val.(*ast.SliceExpr); ok {
								val = unparen(sl.X) // Data: dataBuf[:n] — n is the count, handled by C13
								_ = val
							}
							if carriers[objOf(info, v.Value)] {
								e.Results[i] = v.Key.(*ast.Ident).Name
							}
						default:
							// positional literal (&rreadlink{target}, &rstatfs{st})
							if carriers[objOf(info, el)] {
								if st, ok := nt.Underlying().(*types.Struct); ok && j < st.NumFields() {
									e.Results[i] = st.Field(j).Name()
								}
							}
						}
					}
					return true
				})
			}
		}
		tname := ""
		if root.Decl.Recv != nil {
			tname = strings.Split(root.Key, ".")[1]
		}
		out[tname] = append(out[tname], e)
	}
	// Walks reach the backend through doWalk: one entry per handler that calls it.
	for _, cs := range m.DB.Calls["p9.doWalk"] {
		root := cs.Root
		if !isHandlerFunc(root) || root.Decl.Recv == nil || len(cs.Call.Args) != 4 {
			continue
		}
		h := m.handlerInfo(root)
		res := m.resolver(root)
		tname := strings.Split(root.Key, ".")[1]
		recvFld := "?" + res.str(cs.Call.Args[1])
		if f, ok := h.Lookups[res.str(cs.Call.Args[1])]; ok {
			recvFld = f
		}
		// find a backend site to attach positions to
		var site *BackendSite
		for _, b := range m.Backend {
			if b.Via == "walkOne" {
				site = b
			}
		}
		if site == nil {
			continue
		}
		results := make([]string, 5)
		if as, ok := r.L.parent(cs.Call).(*ast.AssignStmt); ok && len(as.Lhs) == 5 {
			for i, lhs := range as.Lhs {
				obj := objOf(info, lhs)
				if obj == nil {
					continue
				}
				ast.Inspect(root.Decl.Body, func(n ast.Node) bool {
					if kv, ok := n.(*ast.KeyValueExpr); ok && objOf(info, kv.Value) == obj {
						if id, ok := kv.Key.(*ast.Ident); ok {
							results[i] = id.Name
						}
					}
					return true
				})
			}
		}
		for _, meth := range []string{"Walk", "WalkGetAttr"} {
			out[tname] = append(out[tname], &srvEntry{Handler: root, Method: meth, RecvFld: recvFld, Args: []string{c.deriveArg(h, res, cs.Call.Args[2])}, Results: results, Site: site})
		}
	}
	return out
}

func (c *c03) deriveArg(h *HandlerInfo, res *resolver, a ast.Expr) string {
	info := c.info
	inner := c.stripConv(a)
	s := res.str(inner)
	if isNilIdent(info, unparen(inner)) {
		return "const:nil"
	}
	if _, ok := constInt(info, inner); ok {
		return "const:" + s
	}
	if strings.Contains(s, ".nameFor(") {
		return "nameFor"
	}
	// t.F or t.Embedded.F
	if h.Recv != "" && strings.HasPrefix(s, h.Recv+".") {
		f := strings.TrimPrefix(s, h.Recv+".")
		// slices of a field (dataBuf[:count] is not a field)
		if i := strings.IndexAny(f, "[("); i >= 0 {
			f = f[:i]
		}
		return "field:" + lastComp(f)
	}
	// refX.file
	if strings.HasSuffix(s, ".file") {
		v := strings.TrimSuffix(s, ".file")
		if f, ok := h.Lookups[v]; ok {
			return "lookup:" + f
		}
	}
	if id, ok := unparen(inner).(*ast.Ident); ok {
		if v, ok := objOf(info, id).(*types.Var); ok && paramIndex(h.Fi, info, v) >= 0 {
			// the uid handed to the Tu* wrappers' do methods is recognised by its type
			if strings.HasSuffix(types.TypeString(v.Type(), nil), "p9.UID") {
				return "param:uid"
			}
			return "param:" + id.Name
		}
		// a local clamped from a request field (count := t.Count; if count > max { count = max }):
		// the documented shortening of reads and directory listings
		if v, ok := objOf(info, id).(*types.Var); ok && !v.IsField() {
			// the same shortening written with the builtin: count := min(t.Count, limit)
			if d := res.defs[v]; d != nil {
				if mc, isCall := unparen(d).(*ast.CallExpr); isCall && len(mc.Args) == 2 {
					if mid, isId := mc.Fun.(*ast.Ident); isId && mid.Name == "min" {
						if _, isB := info.Uses[mid].(*types.Builtin); isB {
							for _, a := range mc.Args {
								as := res.str(c.stripConv(a))
								if h.Recv != "" && strings.HasPrefix(as, h.Recv+".") {
									return "field:" + lastComp(strings.TrimPrefix(as, h.Recv+"."))
								}
							}
						}
					}
				}
			}
			for _, d := range defsOf(c.r.L, info, h.Fi, v) {
				ds := res.str(c.stripConv(d.Rhs))
				if h.Recv != "" && strings.HasPrefix(ds, h.Recv+".") && d.Cond == nil {
					return "field:" + lastComp(strings.TrimPrefix(ds, h.Recv+"."))
				}
			}
		}
	}
	if sl, ok := unparen(inner).(*ast.SliceExpr); ok {
		return "slice:" + res.str(sl.X)
	}
	return "other:" + s
}

// clientMethod checks one method's requests and composes with the server table.
func (c *c03) clientMethod(fi *FuncInfo, name string, serverTab map[string][]*srvEntry) {
	r, m, info := c.r, c.m, c.info
	recv := fi.Decl.Recv.List[0].Names[0].Name
	// parameters
	type param struct {
		name string
		typ  types.Type
	}
	var params []param
	for _, f := range fi.Decl.Type.Params.List {
		for _, nm := range f.Names {
			params = append(params, param{nm.Name, info.Defs[nm].Type()})
		}
		if len(f.Names) == 0 {
			params = append(params, param{"_", info.TypeOf(f.Type)})
		}
	}
	// sendRecv sites in this method and in the xattr helper it delegates to
	body := fi
	helperArg := map[string]string{} // helper param -> caller expression
	if name == "GetXattr" || name == "ListXattrs" {
		for _, s := range m.callsIn(fi, "p9.clientFile.xattrWalkRead") {
			if h := r.L.Func("p9", "clientFile.xattrWalkRead"); h != nil {
				body = h
				if len(h.Decl.Type.Params.List) == 1 && len(h.Decl.Type.Params.List[0].Names) == 1 {
					helperArg[h.Decl.Type.Params.List[0].Names[0].Name] = c.norm(s.Call.Args[0])
				}
			}
		}
	}
	sites := m.callsIn(body, "p9.Client.sendRecv")
	if len(sites) == 0 {
		if name == "WalkGetAttr" {
			return
		}
		r.fail("r1", "clientFile."+name, fi.Decl.Pos(), "the method never reaches sendRecv: the operation does not arrive at the server")
		return
	}
	usedParams := map[string]int{}
	for si, s := range sites {
		fields := map[string]ast.Expr{}
		// (a request that is the parameter of a private helper stands for what the method
		// handed to the helper)
		nt := c.build(body, s.argExpr(info, 0), s.Call.Pos(), "", fields, 0)
		// (a request written inside a helper that is judged in this method's context mentions
		// the helper's parameters: they stand for what the method handed over)
		rn := c.norm
		if len(s.Inl) > 0 && s.Res != nil {
			site := s
			rn = func(e ast.Node) string {
				if x, isExpr := e.(ast.Expr); isExpr {
					return nospace(site.Res.str(x))
				}
				return c.norm(e)
			}
		}
		if nt == nil {
			r.undecided("r1", fmt.Sprintf("clientFile.%s request #%d", name, si+1), s.Call.Pos(), "request expression %s cannot be resolved to a literal", r.L.str(s.Call.Args[0]))
			continue
		}
		tname := nt.Obj().Name()
		key := fmt.Sprintf("clientFile.%s → %s", name, tname)
		// Close's own requests in helper: the xattr fid is closed by newFile+Close
		// (i) fid fields
		for _, ff := range c.fidFieldsOf(nt) {
			val, set := fields[ff]
			if !set {
				// embedded path: tucreate.tlcreate.fid is set through the embedded literal, flattened as "tlcreate.fid"
				r.fail("r1", key+": fid field "+ff, s.Call.Pos(), "the request does not set its fid field %s: it goes out as fid 0, which is never bound (the fid pool starts at 1) — the server answers EBADF and the backend operation is never reached", ff)
				continue
			}
			vs := rn(c.stripConv(val))
			ok := false
			why := vs
			switch {
			case vs == recv+".fid":
				ok = true
			case vs == "noFID":
				ok = lastComp(ff) == r.L.authFidField()
			case strings.HasSuffix(vs, ".fid"):
				// X.fid where X := param.(*clientFile)
				xv := strings.TrimSuffix(vs, ".fid")
				ast.Inspect(body.Decl.Body, func(n ast.Node) bool {
					if as, ok2 := n.(*ast.AssignStmt); ok2 && len(as.Lhs) == 2 && len(as.Rhs) == 1 && c.norm(as.Lhs[0]) == xv {
						if ta, ok3 := unparen(as.Rhs[0]).(*ast.TypeAssertExpr); ok3 {
							pn := c.norm(ta.X)
							for _, p := range params {
								if p.name == pn {
									ok = true
									usedParams[pn]++
									fields[ff] = ta.X // record as parameter use
								}
							}
						}
					}
					return true
				})
			default:
				// the fid of a parameter file, obtained through a private helper that asserts its
				// argument to *clientFile and hands back its fid (dirFID, err := clientFID(dir))
				if pe := c.fidViaHelper(body, c.stripConv(val)); pe != nil {
					pn := c.norm(pe)
					for _, p := range params {
						if p.name == pn {
							ok = true
							usedParams[pn]++
							fields[ff] = pe // record as parameter use
						}
					}
					if ok {
						break
					}
				}
				// fresh fid: fid(id) with id from fidPool.Get (a helper's parameter stands for the
				// expression it was called with)
				if obj := objOf(info, c.stripConv(s.mapExpr(info, c.stripConv(val)))); obj != nil {
					if def, ok2 := s.St.Defs[obj].(*ast.CallExpr); ok2 && calleeKey(info, def) == "p9.pool.Get" {
						ok = true
					}
				}
			}
			r.check(ok, "r1", key+": fid field "+ff, s.Call.Pos(), ff+" = "+why, fmt.Sprintf("fid field %s is set to %s, which is neither this file's fid, a parameter file's fid, nor a freshly allocated fid", ff, why))
		}
		// (ii) parameters → fields
		fieldOfParam := map[string]string{}
		for f, v := range fields {
			vs := rn(c.stripConv(v))
			if hv, ok := helperArg[vs]; ok {
				vs = hv
			}
			// len(p) etc. are handled by C11
			for _, p := range params {
				if vs == p.name {
					if prev, dup := fieldOfParam[p.name]; dup && prev != f {
						r.fail("r1", key+": parameter "+p.name, s.Call.Pos(), "parameter %s is sent twice (fields %s and %s)", p.name, prev, f)
					}
					fieldOfParam[p.name] = f
					usedParams[p.name]++
				}
			}
		}
		// (iii) composition with the server
		entries := serverTab[tname]
		wantMethod := name
		if wm, ok := c03BackendOf[name]; ok {
			wantMethod = wm
		}
		if tname == "tclunk" || tname == "tremove" && name != "Remove" {
			continue // Close / the xattr fid's clunk: unbinding is C04.r2
		}
		if (name == "GetXattr" || name == "ListXattrs") && tname != "txattrwalk" {
			continue
		}
		var ent *srvEntry
		for _, e := range entries {
			if e.Method == wantMethod {
				ent = e
			}
		}
		// Tu* wrappers delegate to the embedded type's do()
		if ent == nil && strings.HasPrefix(tname, "tu") {
			inner := map[string]string{"tucreate": "tlcreate", "tumkdir": "tmkdir", "tumknod": "tmknod", "tusymlink": "tsymlink"}[tname]
			for _, e := range serverTab[inner] {
				if e.Method == wantMethod {
					ent = e
				}
			}
			// the wrapper must pass its UID
			if h := r.L.Func("p9", tname+".handle"); h != nil {
				okUID := false
				for _, cs := range m.DB.ByFunc[h] {
					if cs.Call != nil && strings.HasSuffix(cs.Callee, ".do") && len(cs.Call.Args) == 2 && strings.HasSuffix(c.norm(cs.Call.Args[1]), ".UID") {
						okUID = true
					}
				}
				r.check(okUID, "r2", tname+".handle passes the request's UID", h.Decl.Pos(), "do(cs, t.UID)", tname+".handle does not pass t.UID to the backend call")
			}
		} else if inner := tname; ent != nil && (inner == "tlcreate" || inner == "tmkdir" || inner == "tmknod" || inner == "tsymlink") {
			if h := r.L.Func("p9", tname+".handle"); h != nil {
				okNo := false
				for _, cs := range m.DB.ByFunc[h] {
					if cs.Call != nil && strings.HasSuffix(cs.Callee, ".do") && len(cs.Call.Args) == 2 && c.norm(cs.Call.Args[1]) == "NoUID" {
						okNo = true
					}
				}
				r.check(okNo, "r2", tname+".handle uses NoUID", h.Decl.Pos(), "do(cs, NoUID)", tname+".handle does not bind NoUID for the uid the plain message cannot carry")
			}
		}
		if ent == nil {
			if wantMethod == "" {
				continue
			}
			r.fail("r3", key+": handler calls File."+wantMethod, s.Call.Pos(), "the client sends %s for File.%s, but no handler of %s calls File.%s: the operation arrives as something else (or not at all)", tname, name, tname, wantMethod)
			continue
		}
		// receiver
		selfField := ""
		for _, ff := range c.fidFieldsOf(nt) {
			if v, ok := fields[ff]; ok && rn(c.stripConv(v)) == recv+".fid" {
				selfField = lastComp(ff)
			}
		}
		wantRecv := selfField
		if name == "Rename" || name == "Remove" {
			wantRecv = selfField + ".parent"
		}
		r.check(ent.RecvFld == wantRecv, "r3", key+": receiver", ent.Site.Site.Call.Pos(), "backend call on the File bound to field "+wantRecv,
			fmt.Sprintf("the client puts its own fid into field %q but the handler calls File.%s on the lookup of %q: the operation reaches a different File", selfField, ent.Method, ent.RecvFld))
		// arguments
		msig := methodSig(c.info, r.L, wantMethod)
		if msig == nil {
			continue
		}
		switch name {
		case "Rename":
			// Rename(dir, name) → RenameAt(nameFor, lookup(Directory).file, t.Name)
			okA := len(ent.Args) == 3 && ent.Args[0] == "nameFor" && ent.Args[1] == "lookup:"+lastComp(fieldOfParam[params[0].name]) && ent.Args[2] == "field:"+lastComp(fieldOfParam[params[1].name])
			r.check(okA, "r3", key+": arguments", ent.Site.Site.Call.Pos(), "RenameAt(current name, new directory, new name)", fmt.Sprintf("Rename(dir, name) arrives as RenameAt(%s)", strings.Join(ent.Args, ", ")))
		case "Remove":
			okA := len(ent.Args) == 2 && ent.Args[0] == "nameFor" && strings.HasPrefix(ent.Args[1], "const:")
			r.check(okA, "r3", key+": arguments", ent.Site.Site.Call.Pos(), "UnlinkAt(current name, 0)", fmt.Sprintf("Remove arrives as UnlinkAt(%s)", strings.Join(ent.Args, ", ")))
		case "GetXattr", "ListXattrs":
			// handled by the dispatch check below
		default:
			for i, p := range params {
				if i >= len(ent.Args) {
					break
				}
				f, sent := fieldOfParam[p.name]
				pkey := fmt.Sprintf("%s: parameter %d (%s)", key, i, p.name)
				got := ent.Args[i]
				// uid travels in the Tu* wrapper only
				if got == "param:uid" {
					if strings.HasPrefix(tname, "tu") {
						r.check(sent && lastComp(f) == "UID", "r3", pkey, s.Call.Pos(), "uid → UID → backend uid", "the uid parameter is not sent in the UID field of "+tname)
					} else {
						r.ok("r3", pkey, s.Call.Pos(), "uid cannot be carried by %s (documented: dropped below version 3)", tname)
					}
					continue
				}
				if !sent {
					// gid below version 3: NoGID
					if lastComp(strings.TrimPrefix(got, "field:")) == "GID" && !strings.HasPrefix(tname, "tu") {
						v := fields["GID"]
						r.check(v != nil && c.norm(v) == "NoGID", "r3", pkey, s.Call.Pos(), "gid dropped below version 3 (GID: NoGID)", "the plain message does not carry GID: NoGID")
						continue
					}
					r.fail("r3", pkey, s.Call.Pos(), "parameter %s of File.%s is not sent in any field of %s (the backend receives %s)", p.name, name, tname, got)
					continue
				}
				want1 := "field:" + lastComp(f)
				want2 := "lookup:" + lastComp(f)
				want3 := "slice:" + "t." + lastComp(f)
				okA := got == want1 || got == want2 || strings.HasPrefix(got, "slice:") && strings.HasSuffix(got, "."+lastComp(f)) || got == want3
				if !okA && strings.HasPrefix(got, "slice:") {
					// walk: names reach the backend element-wise through doWalk (C09.r3)
					okA = lastComp(f) == "Names"
				}
				r.check(okA, "r3", pkey, s.Call.Pos(), fmt.Sprintf("%s → %s.%s → argument %d of File.%s", p.name, tname, lastComp(f), i, ent.Method),
					fmt.Sprintf("parameter %d (%s) is sent as %s.%s, but argument %d of the backend File.%s is %s: the backend receives a different value in this position", i, p.name, tname, lastComp(f), i, ent.Method, got))
			}
		}
		// results: backend result k → reply field → client result k
		c.results(fi, body, name, key, s, ent)
	}
	// what is sent is what the caller passed: a parameter that reaches a request field is not
	// changed on the way (a client-side clamp of Readdir's count below what one reply can carry
	// ends listings early; the server clamps against the negotiated msize itself)
	for _, f := range fi.Decl.Type.Params.List {
		for _, nm := range f.Names {
			pobj := info.Defs[nm]
			if pobj == nil || usedParams[nm.Name] == 0 {
				continue
			}
			var at token.Pos
			ast.Inspect(fi.Decl.Body, func(n ast.Node) bool {
				switch v := n.(type) {
				case *ast.AssignStmt:
					for _, lhs := range v.Lhs {
						if objOf(info, lhs) == pobj {
							at = v.Pos()
						}
					}
				case *ast.IncDecStmt:
					if objOf(info, v.X) == pobj {
						at = v.Pos()
					}
				}
				return true
			})
			if at != token.NoPos {
				r.fail("r1", fmt.Sprintf("clientFile.%s: parameter %s is sent as passed", name, nm.Name), at, "the parameter %s is modified before it is put into the request: the backend does not receive what the caller passed", nm.Name)
			}
		}
	}
	// every parameter used
	for _, p := range params {
		if p.name == "_" {
			continue
		}
		if usedParams[p.name] == 0 {
			// File-typed parameters are counted through their .fid use above
			used := false
			ast.Inspect(body.Decl.Body, func(n ast.Node) bool {
				if id, ok := n.(*ast.Ident); ok && id.Name == p.name && info.Uses[id] != nil {
					used = true
				}
				return true
			})
			if name == "GetXattr" || name == "ListXattrs" {
				used = true
			}
			r.check(used, "r1", fmt.Sprintf("clientFile.%s: parameter %s is sent", name, p.name), fi.Decl.Pos(), "used", fmt.Sprintf("parameter %s of %s is never sent to the server", p.name, name))
			if used && !(name == "Lock" || name == "Create" || name == "Mkdir" || name == "Symlink" || name == "Mknod") {
				// used but not as a plain field value
				switch {
				case p.name == "p" || name == "Readdir" || name == "Walk" || name == "WalkGetAttr":
				default:
				}
			}
		}
	}
}

func methodSig(info *types.Info, l *Loaded, name string) *types.Signature {
	p9 := l.Pkg("p9")
	fileI, _ := p9.Types.Scope().Lookup("File").Type().Underlying().(*types.Interface)
	if fileI == nil {
		return nil
	}
	for i := 0; i < fileI.NumMethods(); i++ {
		if fileI.Method(i).Name() == name {
			return fileI.Method(i).Type().(*types.Signature)
		}
	}
	return nil
}

// results: the client returns reply field G in result position k iff the handler stores backend
// result k in G.
func (c *c03) results(fi, body *FuncInfo, name, key string, s *Site, ent *srvEntry) {
	r, info := c.r, c.info
	if len(s.Call.Args) < 2 {
		return
	}
	replyVar := ""
	replyT := ""
	ra := unparen(s.argExpr(info, 1)) // (a helper's parameter stands for what it was called with)
	if u, ok := ra.(*ast.UnaryExpr); ok && u.Op == token.AND {
		replyVar = c.norm(u.X)
		if nt := namedOf(info.TypeOf(u.X)); nt != nil {
			replyT = nt.Obj().Name()
		}
	}
	// reply type agreement: the handler's reply literal type (through the Tu* wrapper: ru* wraps r*)
	if replyT != "" {
		want := "r" + strings.TrimPrefix(strings.Split(ent.Handler.Key, ".")[1], "t")
		got := replyT
		if inner, ok := map[string]string{"rucreate": "rlcreate", "rumkdir": "rmkdir", "rumknod": "rmknod", "rusymlink": "rsymlink"}[got]; ok {
			got = inner
		}
		r.check(got == want, "r3", key+": reply type", s.Call.Pos(), "client expects "+replyT, fmt.Sprintf("the client passes a %s to receive the reply, the handler of this request answers with %s", replyT, want))
	}
	if replyVar == "" || name == "Rename" || name == "Remove" {
		return
	}
	// client success return: results by position
	for _, ex := range c.m.DB.Exits[body] {
		if ex.Ret == nil || ex.St.Dead || !ex.St.Must["p9.Client.sendRecv"] {
			continue
		}
		last := unparen(ex.Ret.Results[len(ex.Ret.Results)-1])
		if !isNilIdent(info, last) {
			continue
		}
		for k, res := range ex.Ret.Results[:len(ex.Ret.Results)-1] {
			rs := c.norm(res)
			if !strings.HasPrefix(rs, replyVar+".") {
				continue // c itself (Create), new clientFile, nil ...
			}
			fld := lastComp(strings.TrimPrefix(rs, replyVar+"."))
			// server: which backend result index ends in fld?
			idx := -1
			for j, g := range ent.Results {
				if g == fld {
					idx = j
				}
			}
			if idx < 0 {
				// qids of a walk come from doWalk's accumulation; valid/attr likewise
				if name == "Walk" || name == "WalkGetAttr" {
					continue
				}
				r.fail("r3", fmt.Sprintf("%s: result %d (%s)", key, k, fld), ex.Ret.Pos(), "the client returns reply field %s as result %d, but the handler never stores a result of File.%s in it", fld, k, ent.Method)
				continue
			}
			// positions: File.Create returns (File, QID, uint32, error): the File is not on the wire
			off := 0
			if name == "Create" {
				off = 0
			}
			r.check(idx == k+off || name == "Create" && idx == k, "r3", fmt.Sprintf("%s: result %d (%s)", key, k, fld), ex.Ret.Pos(), fmt.Sprintf("result %d of File.%s → %s → result %d", idx, ent.Method, fld, k),
				fmt.Sprintf("the backend's result %d is sent as %s, which the client returns as result %d: the caller gets a different value in this position", idx, fld, k))
		}
	}
}

func (c *c03) versionGating() {
	r, m, info := c.r, c.m, c.info
	// predicates' thresholds
	for nm, want := range map[string]int64{"versionSupportsTucreation": 3, "versionSupportsTwalkgetattr": 2} {
		fi := r.mustFunc("r4", "p9", nm)
		if fi == nil {
			continue
		}
		// "v >= N", written directly or through an expression function and a fixed table
		got, okT := r.L.thresholdOf(fi)
		ok := okT && got == want
		r.check(ok, "r4", nm+" threshold", fi.Decl.Pos(), fmt.Sprintf("v >= %d", want), fmt.Sprintf("%s is not 'v >= %d': an extension message would be sent to (or withheld from) the wrong versions", nm, want))
	}
	// every extension literal in client code is gated
	ext := map[string]string{"tucreate": "versionSupportsTucreation", "tumkdir": "versionSupportsTucreation", "tumknod": "versionSupportsTucreation", "tusymlink": "versionSupportsTucreation", "twalkgetattr": "versionSupportsTwalkgetattr"}
	n := 0
	for _, fi := range r.L.funcsOfPkg("p9") {
		if !isClientSide(fi) || fi.Decl.Body == nil || m.transparent(fi) {
			continue // (a private helper's requests are judged inside the methods that call it)
		}
		for _, s := range m.callsIn(fi, "p9.Client.sendRecv") {
			nt := namedOf(info.TypeOf(s.Call.Args[0]))
			if nt == nil {
				continue
			}
			tname := nt.Obj().Name()
			pred, isExt := ext[tname]
			recv := fi.Decl.Recv.List[0].Names[0].Name
			vexpr := recv + ".client.version"
			if strings.HasPrefix(fi.Key, "p9.Client.") {
				vexpr = recv + ".version"
			}
			fact := pred + "(" + vexpr + ")"
			if isExt {
				n++
				r.check(s.St.holds(fact, true), "r4", fi.Key+": "+tname+" only at versions that define it", s.Call.Pos(), "under "+fact, tname+" is sent without "+fact+" being established: a server at a lower negotiated version does not know this message type")
				continue
			}
			// the plain counterparts on the other branch: no uid, GID NoGID (checked in r3) and the gate is false
			switch tname {
			case "tlcreate", "tmkdir", "tmknod", "tsymlink":
				f := "versionSupportsTucreation(" + vexpr + ")"
				r.check(s.St.holds(f, false), "r4", fi.Key+": plain "+tname+" only below version 3", s.Call.Pos(), "under !"+f, "the plain "+tname+" (which cannot carry uid/gid) is sent although the version supports the Tu* form")
			}
			// no other extension types (124..135) are built by the client
			if num, ok := c.typNumber(nt); ok && num >= 124 && !isExt {
				r.fail("r4", fi.Key+": "+tname, s.Call.Pos(), "client sends extension message %d %s without a version predicate", num, tname)
			}
		}
	}
	r.floor("r4", "gated extension requests", n, 5)
	// WalkGetAttr fallback
	if fi := r.L.Func("p9", "clientFile.WalkGetAttr"); fi != nil {
		okFB := false
		recvN := "c"
		if fi.Decl.Recv != nil && len(fi.Decl.Recv.List[0].Names) == 1 {
			recvN = fi.Decl.Recv.List[0].Names[0].Name
		}
		gate := "versionSupportsTwalkgetattr(" + recvN + ".client.version)"
		for _, s := range m.callsIn(fi, "p9.clientFile.Walk") {
			if s.St.holds(gate, false) {
				okFB = true
			}
		}
		okGA := false
		for _, s := range m.callsIn(fi, "p9.File.GetAttr") {
			if s.St.holds(gate, false) {
				okGA = true
			}
		}
		r.check(okFB && okGA, "r4", "WalkGetAttr falls back to Walk + GetAttr", fi.Decl.Pos(), "below version 2", "WalkGetAttr has no Walk+GetAttr fallback for versions without Twalkgetattr")
	}
}

func (c *c03) typNumber(nt *types.Named) (int64, bool) {
	x, err := newCodecX(c.r.L)
	if err != nil {
		return 0, false
	}
	return x.typOf(nt)
}

func (c *c03) errors() {
	r, m, info := c.r, c.m, c.info
	// sendRecv: Rlerror → linux.Errno(Error)
	if sr := r.mustFunc("r5", "p9", "Client.sendRecv"); sr != nil {
		ok := false
		for _, ex := range m.DB.Exits[sr] {
			if ex.Ret != nil && len(ex.Ret.Results) == 1 {
				s := c.norm(ex.Ret.Results[0])
				if strings.HasPrefix(s, "linux.Errno(") && strings.HasSuffix(s, ".Error)") {
					ok = true
				}
			}
		}
		r.check(ok, "r5", "sendRecv turns Rlerror into linux.Errno", sr.Decl.Pos(), "return linux.Errno(rlerr.Error)", "sendRecv does not return linux.Errno(Rlerror.Error)")
	}
	// ExtractErrno
	lp := r.L.Pkg("linux")
	if lp == nil {
		r.undecided("r5", "package linux", token.NoPos, "not loaded")
		return
	}
	ex := r.L.Func("linux", "ExtractErrno")
	if ex == nil {
		r.undecided("r5", "linux.ExtractErrno", token.NoPos, "not found")
		return
	}
	linfo := lp.TypesInfo
	// stages in source order
	type stage struct {
		kind string
		pos  token.Pos
	}
	var stages []stage
	ast.Inspect(ex.Decl.Body, func(n ast.Node) bool {
		call, ok := n.(*ast.CallExpr)
		if !ok {
			return true
		}
		switch calleeKey(linfo, call) {
		case "errors.Is":
			stages = append(stages, stage{"sentinel-table", call.Pos()})
		case "errors.As":
			stages = append(stages, stage{"exact-linux-errno", call.Pos()})
		case "linux.sysErrno":
			stages = append(stages, stage{"exact-system-errno", call.Pos()})
		}
		return true
	})
	var order []string
	firstSentinel, lastExact := token.NoPos, token.NoPos
	hasAs, hasSys, hasIs := false, false, false
	for _, st := range stages {
		order = append(order, st.kind)
		switch st.kind {
		case "sentinel-table":
			hasIs = true
			if firstSentinel == token.NoPos {
				firstSentinel = st.pos
			}
		default:
			if st.kind == "exact-linux-errno" {
				hasAs = true
			} else {
				hasSys = true
			}
			if st.pos > lastExact {
				lastExact = st.pos
			}
		}
	}
	r.check(hasAs && hasSys && hasIs, "r5", "ExtractErrno consults wrapped chains", ex.Decl.Pos(), "errors.As into linux.Errno, sysErrno, errors.Is on the os.Err* sentinels", fmt.Sprintf("stages found: %v", order))
	// every return chosen by the sentinel table is reached only after both exact stages failed
	ldb0 := buildLocalDB(r.L, []*FuncInfo{ex})
	exactFirst, nSent := true, 0
	for _, e := range ldb0.Exits[ex] {
		if e.Fn != ast.Node(ex.Decl) || e.Ret == nil || e.St.Dead {
			continue
		}
		for _, p := range e.St.Paths {
			sentinel, asFailed, sysFailed := false, false, false
			for k, v := range p {
				switch {
				case strings.HasPrefix(k, "errors.Is(") && v:
					sentinel = true
				case strings.HasPrefix(k, "errors.As(") && !v:
					asFailed = true
				case strings.Contains(k, "sysErrno(") && strings.HasSuffix(k, " == 0") && v:
					sysFailed = true
				}
			}
			if sentinel {
				nSent++
				if !asFailed || !sysFailed {
					exactFirst = false
				}
			}
		}
	}
	_ = lastExact
	r.check(firstSentinel == token.NoPos || exactFirst && nSent > 0, "r5", "ExtractErrno recovers exact errno values before the lossy sentinel table", ex.Decl.Pos(),
		"exact stages precede errors.Is(err, os.Err*)",
		"the os.Err* sentinel table is consulted before the exact errno is extracted: syscall.Errno.Is answers true for several numbers per sentinel, so a backend's syscall.EPERM (Is(os.ErrPermission)) reaches the client as EACCES and ENOTEMPTY (Is(os.ErrExist)) as EEXIST — not the equivalent Linux errno")
	// default EIO
	// the exit taken when no stage matched (no errors.Is / errors.As came out true on the way)
	// returns EIO; every such exit does
	okEIO, nDefault := true, 0
	ldb := buildLocalDB(r.L, []*FuncInfo{ex})
	for _, e := range ldb.Exits[ex] {
		if e.Fn != ast.Node(ex.Decl) || e.Ret == nil || len(e.Ret.Results) != 1 || e.St.Dead {
			continue
		}
		unmatched := false
		for _, p := range e.St.Paths {
			pos := false
			for k, v := range p {
				if v && (strings.HasPrefix(k, "errors.Is(") || strings.HasPrefix(k, "errors.As(")) {
					pos = true
				}
				// an exact errno was found: "x == 0" false for the extracted number
				if !v && strings.HasSuffix(k, " == 0") {
					pos = true
				}
			}
			if !pos {
				unmatched = true
			}
		}
		if !unmatched {
			continue
		}
		nDefault++
		if v, isC := constInt(linfo, e.Ret.Results[0]); !isC || v != 5 {
			okEIO = false
		}
	}
	okEIO = okEIO && nDefault > 0
	r.check(okEIO, "r5", "ExtractErrno defaults to EIO", ex.Decl.Pos(), "last return is EIO", "errors without an errno are not mapped to EIO")
	// sysErrno uses errors.As on this platform's syscall.Errno (wrapped chains)
	if se := r.L.Func("linux", "sysErrno"); se != nil {
		usesAs := false
		ast.Inspect(se.Decl.Body, func(n ast.Node) bool {
			if call, ok := n.(*ast.CallExpr); ok && calleeKey(linfo, call) == "errors.As" {
				usesAs = true
			}
			return true
		})
		if strings.HasPrefix(r.Config, "linux/") {
			r.check(usesAs, "r5", "sysErrno finds syscall.Errno through wrapped chains", se.Decl.Pos(), "errors.As", "sysErrno does not unwrap: an *os.PathError from the backend would become EIO")
		} else {
			r.note("sysErrno on %s: errors.As=%v (non-Linux errno numbering is normalised by that platform's file)", r.Config, usesAs)
		}
	}
	_ = info
}

func (c *c03) localENOSYS() {
	r, m, info := c.r, c.m, c.info
	eff := computeEffects(m.DB)
	sr := r.L.Func("p9", "Client.sendRecv")
	for _, nm := range []string{"SetXattr", "RemoveXattr"} {
		fi := r.mustFunc("r6", "p9", "clientFile."+nm)
		if fi == nil {
			continue
		}
		okRet := len(m.DB.Exits[fi]) > 0
		for _, ex := range m.DB.Exits[fi] {
			if v, ok := errnoOf(info, ex.Ret); !ok || v != 38 {
				okRet = false
			}
		}
		reach := reachableFuncs(eff, []*types.Func{fi.Obj})
		r.check(okRet && (sr == nil || !reach[sr.Obj]), "r6", "clientFile."+nm+" fails locally with ENOSYS", fi.Decl.Pos(), "returns ENOSYS, cannot reach sendRecv", nm+" does not return ENOSYS on every path or can reach sendRecv")
	}
}

// fidViaHelper: val is a local of fi that receives, once, the first result of a private
// function (one the pinned tree does not have) which asserts its only argument to *clientFile
// and returns that file's fid on every return that does not carry an error; the argument
// expression of the call is handed back.
func (c *c03) fidViaHelper(fi *FuncInfo, val ast.Expr) ast.Expr {
	info := c.info
	obj, ok := objOf(info, val).(*types.Var)
	if !ok || obj.IsField() {
		return nil
	}
	var arg ast.Expr
	n := 0
	ast.Inspect(fi.Decl.Body, func(nd ast.Node) bool {
		as, ok := nd.(*ast.AssignStmt)
		if !ok {
			return true
		}
		for i, l := range as.Lhs {
			if objOf(info, l) != obj {
				continue
			}
			n++
			if i != 0 || len(as.Rhs) != 1 {
				continue
			}
			call, isCall := unparen(as.Rhs[0]).(*ast.CallExpr)
			if !isCall || len(call.Args) != 1 {
				continue
			}
			tf := c.r.L.FuncOf(callee(info, call))
			if tf == nil || tf.Decl.Body == nil || tf.Obj.Exported() || pinnedFuncs[tf.Key] || tf.Pkg != fi.Pkg {
				continue
			}
			ps := tf.Decl.Type.Params.List
			if len(ps) != 1 || len(ps[0].Names) != 1 {
				continue
			}
			pobj := info.Defs[ps[0].Names[0]]
			// cf, ok := f.(*clientFile)
			var cf types.Object
			ast.Inspect(tf.Decl.Body, func(n2 ast.Node) bool {
				as2, isAs := n2.(*ast.AssignStmt)
				if !isAs || len(as2.Rhs) != 1 || len(as2.Lhs) < 1 {
					return true
				}
				if ta, isTA := unparen(as2.Rhs[0]).(*ast.TypeAssertExpr); isTA && ta.Type != nil && objOf(info, ta.X) == pobj && strings.HasSuffix(c.norm(ta.Type), "*clientFile") {
					cf = objOf(info, as2.Lhs[0])
				}
				return true
			})
			if cf == nil {
				continue
			}
			nret, nfid, okAll := 0, 0, true
			inspectNoLit(tf.Decl.Body, func(n3 ast.Node) {
				ret, isRet := n3.(*ast.ReturnStmt)
				if !isRet {
					return
				}
				nret++
				if len(ret.Results) != 2 {
					okAll = false
					return
				}
				if sel, isSel := unparen(ret.Results[0]).(*ast.SelectorExpr); isSel && sel.Sel.Name == "fid" && objOf(info, sel.X) == cf {
					nfid++
					return
				}
				// otherwise the return carries an error
				if isNilIdent(info, unparen(ret.Results[1])) {
					okAll = false
				}
			})
			if nret > 0 && nfid > 0 && okAll {
				arg = call.Args[0]
			}
		}
		return true
	})
	if n != 1 {
		return nil
	}
	return arg
}
