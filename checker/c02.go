package main

import (
	"fmt"
	"go/ast"
	"go/token"
	"go/types"
	"os"
	"os/exec"
	"path/filepath"
	"regexp"
	"sort"
	"strconv"
	"strings"
)

func init() {
	register(&propInfo{
		id: "C02", fn: checkC02, multiConfig: true,
		explanation: "Decided on the receive slice (recv, its lookup callbacks, registry.get, every registered decode method with its nested decoders, and the buffer read primitives): (r1) every construct that can panic on data — index and slice expressions, make with a non-constant size, unchecked type assertions, integer division, explicit panic — is enumerated from the syntax trees and must be discharged by one of a closed list of rules: index whose type range fits the array (factories[uint8]), slice/index dominated by the has(n)/consume ok guard on the same values, [:0] and full-array slices, comma-ok assertions, the sync.Pool assertion where New and every Put supply *[]byte, make sizes bounded by r2 or by a u16 count guarded by has(); in the thorough tier the Go compiler's own prove pass is cross-referenced (bounds checks it could not eliminate inside the slice must be sites the checker discharged by a guard rule; compile only, nothing runs); (r2) every allocation or read length in recv is fixedSize, remaining or remaining−fixedSize, all dominated by the connection-ending returns on size < headerLength and size > 4 MiB || size > msize (and fixedSize > remaining for the subtraction), and both callers pass the negotiated size; (r3) every return of recv after the header is a ConnError or is reached only after the body was consumed — by the complete vectored read or by the drain io.Copy(Discard, LimitReader(r, remaining)) under remaining > 0; (r4) the two size-check returns are reached before anything else reads from r; (r5) the server answers a protocol error with exactly one Rlerror and keeps serving, and ends the connection without sending on a ConnError (the counting rules of C06.r1/r4); (r6) markOverrun only sets, nothing clears the flag, and isOverrun is consulted after decode before the message is returned. (r7) the vectored read below recv advances its buffers by exactly what each read delivered (the rules of C17.r2/r3): no slice expression can go out of range and no complete frame ends the connection because of where the transport cut it.",
		assumptions: []string{"panics inside the standard library are not analysed", "memory held by decoded values (a 65535-element name list) is bounded by the u16 counts, independent of msize: reported, not covered by the msize clause"},
		trusted:     []string{"Go compiler prove pass (thorough tier cross-reference only)"},
	})
}

type riskSite struct {
	fn   *FuncInfo
	node ast.Node
	kind string
	text string
}

func checkC02(r *Run) {
	m := buildServerModel(r.L)
	info := m.Info
	db := m.DB
	norm := func(e ast.Node) string { return strings.ReplaceAll(r.L.str(e), " ", "") }
	recv := r.mustFunc("r1", "p9", "recv")
	if recv == nil {
		return
	}
	// ---- the receive slice ----
	eff := computeEffects(db)
	x, err := newCodecX(r.L)
	if err != nil {
		r.undecided("r1", "codec", token.NoPos, "%v", err)
		return
	}
	slice := map[*FuncInfo]bool{recv: true}
	addReach := func(f *types.Func) {
		for g := range reachableFuncs(eff, []*types.Func{f}) {
			if fi := r.L.FuncOf(g); fi != nil && shortPkg(fi.Pkg.PkgPath) == "p9" {
				slice[fi] = true
			}
		}
	}
	addReach(recv.Obj)
	entries, _ := x.registryEntries()
	nDec := 0
	for _, e := range entries {
		if f, _ := x.methodOf(e.Type, "decode"); f != nil {
			addReach(f)
			nDec++
		}
		for _, mn := range []string{"FixedSize", "Payload", "SetPayload"} {
			if f, _ := x.methodOf(e.Type, mn); f != nil {
				addReach(f)
			}
		}
	}
	if g := r.L.Func("p9", "registry.get"); g != nil {
		addReach(g.Obj)
	}
	// functions of the slice that only log are irrelevant; restrict to package p9 (done above)
	r.floor("r1", "registered decoders in the receive slice", nDec, 65)
	// the lookup callbacks: literals passed to recv
	var lits []*ast.FuncLit
	var litOwner []*FuncInfo
	for _, s := range db.Calls["p9.recv"] {
		if lit, ok := unparen(s.Call.Args[len(s.Call.Args)-1]).(*ast.FuncLit); ok {
			lits = append(lits, lit)
			litOwner = append(litOwner, s.Root)
		}
	}

	// ---- r1: enumerate risky constructs ----
	var sites []riskSite
	collect := func(fi *FuncInfo, root ast.Node) {
		ast.Inspect(root, func(n ast.Node) bool {
			switch v := n.(type) {
			case *ast.IndexExpr:
				if t := info.TypeOf(v.X); t != nil {
					switch t.Underlying().(type) {
					case *types.Map:
						return true
					case *types.Signature:
						return true
					}
					if tv, ok := info.Types[v.X]; ok && tv.IsType() {
						return true // generic instantiation
					}
				}
				sites = append(sites, riskSite{fi, v, "index", norm(v)})
			case *ast.SliceExpr:
				sites = append(sites, riskSite{fi, v, "slice", norm(v)})
			case *ast.TypeAssertExpr:
				if v.Type == nil {
					return true
				}
				sites = append(sites, riskSite{fi, v, "assert", norm(v)})
			case *ast.BinaryExpr:
				if v.Op == token.QUO || v.Op == token.REM {
					if t := info.TypeOf(v); t != nil {
						if b, ok := t.Underlying().(*types.Basic); ok && b.Info()&types.IsInteger != 0 {
							sites = append(sites, riskSite{fi, v, "divide", norm(v)})
						}
					}
				}
			case *ast.CallExpr:
				// order.UintN(v) indexes v[N/8-1]
				if ck := calleeKey(info, v); strings.Contains(ck, "encoding/binary.") && (strings.Contains(ck, ".Uint") || strings.Contains(ck, ".PutUint")) {
					sites = append(sites, riskSite{fi, v, "binary", norm(v)})
				}
				if id, ok := v.Fun.(*ast.Ident); ok {
					if _, isB := info.Uses[id].(*types.Builtin); isB {
						switch id.Name {
						case "panic":
							sites = append(sites, riskSite{fi, v, "panic", norm(v)})
						case "make":
							if len(v.Args) >= 2 {
								if _, isConst := constInt(info, v.Args[1]); !isConst {
									sites = append(sites, riskSite{fi, v, "make", norm(v)})
								}
							}
						}
					}
				}
			}
			return true
		})
	}
	var sliceFuncs []*FuncInfo
	for fi := range slice {
		sliceFuncs = append(sliceFuncs, fi)
	}
	sort.Slice(sliceFuncs, func(i, j int) bool { return sliceFuncs[i].Key < sliceFuncs[j].Key })
	for _, fi := range sliceFuncs {
		if fi.Decl.Body == nil {
			continue
		}
		// String() methods and logging helpers are reachable only through l.Printf("%s", m): formatting,
		// not decoding.  They are excluded by name.
		if fi.Decl.Name.Name == "String" || fi.Decl.Name.Name == "Error" {
			continue
		}
		collect(fi, fi.Decl.Body)
	}
	for i, lit := range lits {
		_ = i
		// already part of their owner's body only if the owner is in the slice; handleOne/handleRequest are not
		if !slice[litOwner[i]] {
			collect(litOwner[i], lit.Body)
		}
	}
	r.stat("r1:functions in the receive slice", len(sliceFuncs))
	// local facts with guards rendered through expression functions (has(n) ≡ len(data) >= n)
	var localFuncs []*FuncInfo
	localFuncs = append(localFuncs, sliceFuncs...)
	for i := range lits {
		if !slice[litOwner[i]] {
			localFuncs = append(localFuncs, litOwner[i])
		}
	}
	bp := &boundsProver{l: r.L, info: info, db: buildLocalDB(r.L, localFuncs), res: map[*FuncInfo]*resolver{}}
	discharged := map[string]bool{} // file:line of guard-discharged bounds constructs (for the compiler cross-reference)
	stateAt := func(fi *FuncInfo, n ast.Node) *HState {
		if st, ok := db.Exprs[n]; ok {
			return st
		}
		// state of the innermost recorded site containing / equal to n: use field accesses and calls of fi
		var best *HState
		bestSpan := token.Pos(1 << 30)
		for _, s := range db.ByFunc[fi] {
			if s.Node != nil && s.Node.Pos() <= n.Pos() && n.End() <= s.Node.End() {
				if span := s.Node.End() - s.Node.Pos(); span < bestSpan {
					best, bestSpan = s.St, span
				}
			}
		}
		for _, fa := range m.fields() {
			if fa.Root == fi && fa.Sel.Pos() >= n.Pos() && fa.Sel.End() <= n.End() {
				return fa.St
			}
		}
		return best
	}
	for _, s := range sites {
		key := fmt.Sprintf("%s: %s %s", s.fn.Key, s.kind, s.text)
		pos := s.node.Pos()
		ok, why := false, ""
		st := stateAt(s.fn, s.node)
		_ = st
		switch s.kind {
		case "index":
			ix := s.node.(*ast.IndexExpr)
			if arr, isArr := info.TypeOf(ix.X).Underlying().(*types.Array); isArr {
				if v, isC := constInt(info, ix.Index); isC && v >= 0 && v < arr.Len() {
					ok, why = true, "constant index within the array"
				} else if b, isB := info.TypeOf(ix.Index).Underlying().(*types.Basic); isB {
					max := map[types.BasicKind]int64{types.Uint8: 256, types.Uint16: 65536}[b.Kind()]
					if max > 0 && max <= arr.Len() {
						ok, why = true, fmt.Sprintf("index type range (%d values) fits the array length %d", max, arr.Len())
					}
				}
			}
			if !ok {
				if lst := bp.db.Exprs[s.node]; lst != nil {
					if ok, why = bp.index(s.fn, ix, lst); ok {
						discharged[lineKey(r, pos)] = true
					}
				}
			}
		case "slice":
			sl := s.node.(*ast.SliceExpr)
			t := info.TypeOf(sl.X)
			_, isArr := t.Underlying().(*types.Array)
			if p, isPtr := t.Underlying().(*types.Pointer); isPtr {
				_, isArr = p.Elem().Underlying().(*types.Array)
			}
			hi0 := false
			if sl.High != nil {
				if v, isC := constInt(info, sl.High); isC && v == 0 {
					hi0 = true
				}
			}
			switch {
			case sl.Low == nil && sl.High == nil:
				ok, why = true, "full slice"
			case isArr && sl.Low == nil && hi0, sl.Low == nil && hi0:
				ok, why = true, "[:0] never exceeds the capacity"
			default:
				if lst := bp.db.Exprs[s.node]; lst != nil {
					if ok, why = bp.slice(s.fn, sl, lst); ok {
						discharged[lineKey(r, pos)] = true
					}
				}
			}
		case "assert":
			ta := s.node.(*ast.TypeAssertExpr)
			switch p := r.L.parent(ta).(type) {
			case *ast.AssignStmt:
				if len(p.Lhs) == 2 {
					ok, why = true, "comma-ok assertion"
				}
			case *ast.ValueSpec:
				if len(p.Names) == 2 {
					ok, why = true, "comma-ok assertion"
				}
			}
			if !ok && norm(ta) == "dataPool.Get().(*[]byte)" {
				if okPool, w := poolSuppliesByteSlicePtr(r, info); okPool {
					ok, why = true, w
				} else {
					why = w
				}
			}
		case "make":
			c := s.node.(*ast.CallExpr)
			sz := norm(c.Args[1])
			switch {
			case s.fn.Key == "p9.recv" || m.onlyFor(s.fn, "p9.recv"):
				ok, why = true, "size is "+sz+": bounded under r2 (judged where recv runs it)"
			case s.fn.Key == "p9.buffer.append":
				ok, why = true, "encoder side (not on the receive path)"
			default:
				// a length taken from the frame must be covered by the bytes actually present
				for _, ls := range bp.db.ByFunc[s.fn] {
					if ls.Call == c {
						ok, why = bp.makeBounded(s.fn, c, ls.St)
					}
				}
			}
		case "binary":
			c := s.node.(*ast.CallExpr)
			for _, ls := range bp.db.ByFunc[s.fn] {
				if ls.Call == c {
					ok, why = bp.binaryWidth(s.fn, c, ls.St)
				}
			}
		case "panic":
			why = "explicit panic in the receive slice"
		case "divide":
			why = "integer division in the receive slice"
		}
		if why == "" {
			why = "no discharge rule applies"
		}
		if ok {
			r.ok("r1", key, pos, "%s", why)
		} else {
			r.fail("r1", key, pos, "construct can panic on hostile input: %s", why)
		}
	}
	r.floor("r1", "risky constructs enumerated", len(sites), 12)
	// consume is only called with small constants or a guarded u16
	for _, s := range db.Calls["p9.buffer.consume"] {
		v, isC := constInt(info, s.Call.Args[0])
		okLen := isC && v >= 0 || bp.nonNegative(s.Root, s.Call.Args[0], 0)
		r.check(okLen, "r1", s.Root.Key+": consume("+norm(s.Call.Args[0])+")", s.Call.Pos(), "constant width or a length that cannot be negative", "consume is called with a length that may be negative (slice bounds out of range)")
	}

	// ---- r2: bounded allocation ----
	res := m.resolver(recv)
	sizeN := ""
	ast.Inspect(recv.Decl.Body, func(n ast.Node) bool {
		if as, ok := n.(*ast.AssignStmt); ok && len(as.Lhs) == 1 && len(as.Rhs) == 1 {
			if c, ok := unparen(as.Rhs[0]).(*ast.CallExpr); ok && calleeKey(info, c) == "p9.buffer.Read32" && sizeN == "" {
				sizeN = res.str(as.Lhs[0])
			}
		}
		return true
	})
	if sizeN == "" {
		// the header is decoded by a private helper that the pinned tree does not have
		// (size, t, tag := decodeHeader(&hdr)): the variable of recv that receives the result
		// position in which the helper returns what Read32 yielded
		ast.Inspect(recv.Decl.Body, func(n ast.Node) bool {
			as, ok := n.(*ast.AssignStmt)
			if !ok || len(as.Rhs) != 1 || sizeN != "" {
				return true
			}
			call, ok := unparen(as.Rhs[0]).(*ast.CallExpr)
			if !ok {
				return true
			}
			tf := r.L.FuncOf(callee(info, call))
			if tf == nil || tf.Decl.Body == nil || tf.Obj.Exported() || pinnedFuncs[tf.Key] || tf.Pkg != recv.Pkg {
				return true
			}
			var v types.Object
			ast.Inspect(tf.Decl.Body, func(n2 ast.Node) bool {
				if as2, ok := n2.(*ast.AssignStmt); ok && len(as2.Lhs) == 1 && len(as2.Rhs) == 1 && v == nil {
					if c, ok := unparen(as2.Rhs[0]).(*ast.CallExpr); ok && calleeKey(info, c) == "p9.buffer.Read32" {
						v = objOf(info, as2.Lhs[0])
					}
				}
				return true
			})
			if v == nil {
				return true
			}
			idx, nret := -1, 0
			inspectNoLit(tf.Decl.Body, func(n3 ast.Node) {
				if ret, ok := n3.(*ast.ReturnStmt); ok {
					nret++
					for i, e := range ret.Results {
						if objOf(info, unparen(e)) == v {
							idx = i
						}
					}
				}
			})
			if nret == 1 && idx >= 0 && idx < len(as.Lhs) {
				sizeN = res.str(as.Lhs[idx])
			}
			return true
		})
	}
	if sizeN == "" {
		r.undecided("r2", "recv: size variable", recv.Decl.Pos(), "size := headerBuf.Read32() not found")
		return
	}
	// the negotiated limit: recv's uint32 parameter
	msizeN := "msize"
	for _, f := range recv.Decl.Type.Params.List {
		for _, nm := range f.Names {
			if t := info.Defs[nm].Type(); t.String() == "uint32" {
				msizeN = nm.Name
			}
		}
	}
	// "size > min(4 MiB, msize)" refuted stands for both comparisons refuted
	minRefuted := func(st *HState) bool {
		return st.holds(sizeN+" > min(maximumLength, "+msizeN+")", false) || st.holds(sizeN+" > min("+msizeN+", maximumLength)", false)
	}
	boundFacts := func(st *HState) (bool, string) {
		a := st.holds("headerLength > "+sizeN, false)
		b := st.holds(sizeN+" > maximumLength", false) || minRefuted(st)
		c := st.holds(sizeN+" > "+msizeN, false) || minRefuted(st)
		return a && b && c, fmt.Sprintf("size ≥ headerLength: %v, size ≤ 4 MiB: %v, size ≤ msize: %v", a, b, c)
	}
	nAlloc := 0
	// sites in recv itself and in private helpers analysed in place from it
	for _, s := range append(append([]*Site{}, db.ByFunc[recv]...), db.Deep[recv]...) {
		if s.Call == nil || s.St.Dead {
			continue
		}
		isAlloc := false
		what := ""
		var sizeArg ast.Expr
		if id, ok := s.Call.Fun.(*ast.Ident); ok && id.Name == "make" && len(s.Call.Args) >= 2 {
			if _, isC := constInt(info, s.Call.Args[1]); !isC {
				isAlloc, what, sizeArg = true, "make(…, "+nospace(s.Res.str(s.Call.Args[1]))+")", s.Call.Args[1]
			}
		}
		// a call of a local function literal that allocates by its argument (appendBuffer)
		if id, ok := s.Call.Fun.(*ast.Ident); ok && len(s.Call.Args) == 1 {
			if lit, isLit := unparen(res.defs[objOf(info, id)]).(*ast.FuncLit); isLit && res.defs[objOf(info, id)] != nil {
				allocates := false
				ast.Inspect(lit.Body, func(n ast.Node) bool {
					if c, isCall := n.(*ast.CallExpr); isCall {
						if mk, isId := c.Fun.(*ast.Ident); isId && mk.Name == "make" {
							allocates = true
						}
					}
					return true
				})
				if allocates {
					isAlloc, what, sizeArg = true, id.Name+"("+nospace(s.Res.str(s.Call.Args[0]))+")", s.Call.Args[0]
				}
			}
		}
		if s.Callee == "io.LimitReader" || s.Callee == "vecnet.Buffers.ReadFrom" {
			isAlloc, what = true, s.Callee
		}
		if !isAlloc {
			continue
		}
		// the make inside appendBuffer's literal is judged at appendBuffer's call sites
		if len(s.Inl) == 0 && containsFuncLit(r.L, s.Call, recv) {
			continue
		}
		nAlloc++
		ok, why := boundFacts(s.St)
		// a length computed as a difference of unsigned values must not wrap: a − b needs b ≤ a
		for e := unparen(sizeArg); e != nil; {
			if c, isCall := e.(*ast.CallExpr); isCall && len(c.Args) == 1 && info.Types[c.Fun].IsType() {
				e = unparen(c.Args[0]) // conversion
				continue
			}
			if be, isBin := e.(*ast.BinaryExpr); isBin && be.Op == token.SUB {
				a, b := s.Res.str(be.X), s.Res.str(be.Y)
				g := s.St.holds(b+" > "+a, false)
				ok = ok && g
				why += fmt.Sprintf(", %s ≤ %s: %v", nospace(b), nospace(a), g)
			}
			break
		}
		r.check(ok, "r2", "recv: "+what+" is bounded by the negotiated size", s.Call.Pos(), why,
			"an allocation/read length in recv is not dominated by the checks that end the connection for size < 7 or size > min(4 MiB, msize) ("+why+"): a hostile size field makes the receiver buffer more than msize (up to 4 GiB)")
	}
	r.floor("r2", "allocation/read sites in recv", nAlloc, 5)
	// remaining = size - headerLength
	okRem := false
	ast.Inspect(recv.Decl.Body, func(n ast.Node) bool {
		if as, ok := n.(*ast.AssignStmt); ok && len(as.Lhs) == 1 && len(as.Rhs) == 1 {
			if be, ok := unparen(as.Rhs[0]).(*ast.BinaryExpr); ok && be.Op == token.SUB && res.str(be.X) == sizeN {
				if c, isC := constInt(info, be.Y); isC && c == 7 {
					okRem = true
				}
			}
		}
		return true
	})
	r.check(okRem, "r2", "recv: remaining = size − headerLength", recv.Decl.Pos(), "body length derived from the size field", "remaining is not size − headerLength")
	// callers pass the negotiated size
	for _, s := range db.Calls["p9.recv"] {
		arg := norm(s.Call.Args[2])
		switch s.Root.Key {
		case "p9.connState.handleRequest":
			// (the value may be computed in place or handed back by a private getter)
			sawLoad := false // (the ceiling alone is not the negotiated size)
			var isMsize func(fi *FuncInfo, e ast.Expr, depth int) bool
			isMsize = func(fi *FuncInfo, e ast.Expr, depth int) bool {
				base := func(e ast.Expr) bool {
					t := norm(e)
					if strings.HasPrefix(t, "atomic.LoadUint32(&") && strings.HasSuffix(t, ".messageSize)") || strings.HasSuffix(t, ".messageSize.Load()") {
						sawLoad = true
						return true
					}
					if v, isC := constInt(info, e); isC {
						return v == 4<<20 // before negotiation: the 4 MiB ceiling
					}
					if tf, rets := getterReturns(r.L, info, e); tf != nil && tf.Pkg == fi.Pkg && depth < 3 {
						for _, ret := range rets {
							if !isMsize(tf, ret, depth+1) {
								return false
							}
						}
						return true
					}
					return false
				}
				if objOf(info, e) == nil {
					return base(unparen(e))
				}
				return allDefsAre(info, fi, e, base)
			}
			okA := isMsize(s.Root, s.Call.Args[2], 0) && sawLoad
			r.check(okA, "r2", "server passes the negotiated msize to recv", s.Call.Pos(), arg+" = cs.messageSize (4 MiB before negotiation)", "the server's receive limit "+arg+" is not the negotiated message size")
		case "p9.Client.handleOne":
			r.check(strings.HasSuffix(arg, ".messageSize"), "r2", "client passes the negotiated msize to recv", s.Call.Pos(), arg, "the client's receive limit is "+arg)
		}
	}

	// ---- r3 / r4: exits of recv ----
	// "The frame's body has been taken off the stream" as a must-analysis (helpers analysed in
	// place): established by the vectored read of the body, by a drain of exactly the body
	// length into Discard, and along the edges on which nothing is left to read (body length
	// not > 0, no vector queued).
	remN := ""
	ast.Inspect(recv.Decl.Body, func(n ast.Node) bool {
		if as, ok := n.(*ast.AssignStmt); ok && len(as.Lhs) == 1 && len(as.Rhs) == 1 {
			if be, ok := unparen(as.Rhs[0]).(*ast.BinaryExpr); ok && be.Op == token.SUB && res.str(be.X) == sizeN {
				if c, isC := constInt(info, be.Y); isC && c == 7 {
					remN = nospace(res.str(as.Lhs[0]))
				}
			}
		}
		return true
	})
	isDiscard := func(e ast.Expr) bool {
		d := nospace(r.L.str(e))
		return d == "ioutil.Discard" || d == "io.Discard"
	}
	consumedAt, _ := mustFlag(db, recv, func(n ast.Node, fres *resolver) (bool, bool) {
		done := false
		inspectNoLit(n, func(m ast.Node) {
			c, ok := m.(*ast.CallExpr)
			if !ok {
				return
			}
			switch calleeKey(info, c) {
			case "vecnet.Buffers.ReadFrom":
				done = true
			case "io.Copy":
				if len(c.Args) == 2 && isDiscard(c.Args[0]) {
					if lr, ok := unparen(c.Args[1]).(*ast.CallExpr); ok && calleeKey(info, lr) == "io.LimitReader" && len(lr.Args) == 2 && nospace(fres.str(lr.Args[1])) == "int64("+remN+")" {
						done = true
					}
				}
			case "io.CopyN":
				if len(c.Args) == 3 && isDiscard(c.Args[0]) && nospace(fres.str(c.Args[2])) == "int64("+remN+")" {
					done = true
				}
			}
		})
		return done, done
	}, func(key string, truth bool) bool {
		k := nospace(key)
		if remN != "" && (k == remN+">0" && !truth || (k == remN+"==0" || k == "0=="+remN) && truth) {
			return true // nothing left to drain
		}
		if strings.HasPrefix(k, "len(") && strings.HasSuffix(k, ")>0") && !truth {
			// no vector queued: nothing had to be read
			inner := k[4 : len(k)-3]
			if obj := objByName(info, recv, inner); obj != nil && strings.HasSuffix(obj.Type().String(), "vecnet.Buffers") {
				return true
			}
		}
		return false
	})
	nEx := 0
	for _, ex := range db.Exits[recv] {
		if ex.Fn != ast.Node(recv.Decl) || ex.Ret == nil || ex.St.Dead || len(ex.Ret.Results) != 3 {
			continue
		}
		nEx++
		key := fmt.Sprintf("recv exit #%d (%s)", nEx, r.L.str(ex.Ret.Results[2]))
		errE := unparen(ex.Ret.Results[2])
		isConn := false
		if cl, ok := errE.(*ast.CompositeLit); ok && strings.HasSuffix(types.TypeString(info.TypeOf(cl), nil), "p9.ConnError") {
			isConn = true
		}
		readBody := ex.St.May["vecnet.Buffers.ReadFrom"] || ex.St.May["io.Copy"] || ex.St.May["io.LimitReader"]
		// r4: size-check exits read nothing beyond the header
		sizeExit := !ex.St.holds("headerLength > "+sizeN, false) || !(ex.St.holds(sizeN+" > maximumLength", false) && ex.St.holds(sizeN+" > "+msizeN, false) || minRefuted(ex.St))
		if sizeExit && ex.St.Must["p9.buffer.Read32"] {
			r.check(isConn && !readBody && !ex.St.May[""] && !mayCallLookup(ex.St), "r4", key+": bad size ends the connection without reading the body", ex.Ret.Pos(), "ConnError, nothing read after the header",
				"a size field below 7 or above the limit does not end the connection before anything else is read from the stream")
			continue
		}
		if isConn {
			r.ok("r3", key, ex.Ret.Pos(), "connection error: the connection ends")
			continue
		}
		if !ex.St.Must["io.ReadAtLeast"] && !ex.St.Must["io.ReadFull"] {
			r.fail("r3", key, ex.Ret.Pos(), "non-connection exit before the header was read")
			continue
		}
		// body consumed on every path to this exit: complete read, drain of exactly the body
		// length, or nothing left to read
		if consumedAt[ex.Ret] {
			r.ok("r3", key, ex.Ret.Pos(), "on every path the body was read (ReadFrom), drained (Copy to Discard of exactly "+remN+" bytes) or empty")
			continue
		}
		r.fail("r3", key, ex.Ret.Pos(), "recv returns a non-connection error without having consumed the frame's body: the next recv parses a header from the middle of this frame (lost synchronisation)")
	}
	r.floor("r3", "exits of recv", nEx, 8)

	// ---- r5: server reaction (shared with C06) ----
	r.alias = map[string]string{"r1": "r5", "r2": "r5", "r3": "r5", "r4": "r5", "r5": "r5", "r6": "r5", "r7": "r5", "r8": "r5"}
	c02ServerReaction(r, m)
	r.alias = nil

	// ---- r6: overrun flag ----
	// (the flag is the only bool field of buffer, whatever it is called)
	overrunField := "overflow"
	if nt := r.L.namedType("p9", "buffer"); nt != nil {
		if st, ok := nt.Underlying().(*types.Struct); ok {
			var bools []string
			for i := 0; i < st.NumFields(); i++ {
				if b, isB := st.Field(i).Type().Underlying().(*types.Basic); isB && b.Kind() == types.Bool {
					bools = append(bools, st.Field(i).Name())
				}
			}
			if len(bools) == 1 {
				overrunField = bools[0]
			}
		}
	}
	nw := 0
	okOnlyTrue := true
	for _, fa := range m.fields() {
		if fa.Key == "p9.buffer."+overrunField && fa.Write {
			nw++
			if as, ok := r.L.parent(fa.Sel).(*ast.AssignStmt); ok {
				if tv := constValue(info, as.Rhs[0]); tv == nil || tv.String() != "true" || fa.Root.Key != "p9.buffer.markOverrun" {
					okOnlyTrue = false
				}
			}
		}
	}
	r.check(nw == 1 && okOnlyTrue, "r6", "the overrun flag is only ever set", token.NoPos, "single store overflow = true in markOverrun", "the overrun flag is written elsewhere or cleared: a decoder overrun could be forgotten")
	// consume marks overrun on failure
	if cf := r.L.Func("p9", "buffer.consume"); cf != nil {
		// every exit that reports failure (second result false) has marked the overrun
		okMark, nFail := true, 0
		for _, ex := range db.Exits[cf] {
			if ex.Ret == nil || len(ex.Ret.Results) != 2 || ex.St.Dead {
				continue
			}
			if bv := constValue(info, ex.Ret.Results[1]); bv != nil && bv.String() == "false" {
				nFail++
				if !ex.St.Must["p9.buffer.markOverrun"] {
					okMark = false
				}
			}
		}
		okMark = okMark && nFail > 0
		r.check(okMark, "r6", "consume records an overrun", cf.Decl.Pos(), "!has(n) → markOverrun", "a failed consume does not mark the buffer as overrun")
	}
	// every read primitive of the buffer records an overrun when the bytes are not there
	// (the path summaries of primsem.go: a summary is only produced for a primitive that
	// marks the overrun on its short-input paths and returns the zero value there)
	nPrim := 0
	for _, fi := range r.L.funcsOfPkg("p9") {
		if fi.Decl.Recv == nil || fi.Decl.Body == nil || !strings.HasPrefix(fi.Decl.Name.Name, "Read") || !x.isBufMethod(fi.Obj) {
			continue
		}
		nPrim++
		_, perr := x.readPrim(fi.Obj)
		r.check(perr == nil, "r6", "buffer."+fi.Decl.Name.Name+" records an overrun on short input", fi.Decl.Pos(), "every path on which the bytes are missing marks the overrun and yields the zero value",
			fmt.Sprintf("%v: a frame that is too short for its message would be accepted with made-up field values", perr))
	}
	r.floor("r6", "read primitives of the buffer", nPrim, 8)
	okChk := false
	// the buffer the message is decoded from: the argument of m.decode(&X)
	decBuf := ""
	for _, s := range db.ByFunc[recv] {
		if s.Call != nil && strings.HasSuffix(s.Callee, ".decode") && len(s.Call.Args) == 1 {
			decBuf = strings.TrimPrefix(res.str(s.Call.Args[0]), "&")
		}
	}
	for _, ex := range db.Exits[recv] {
		if ex.Ret != nil && len(ex.Ret.Results) == 3 && isNilIdent(info, unparen(ex.Ret.Results[2])) && !ex.St.Dead {
			okChk = decBuf != "" && ex.St.holds(decBuf+".isOverrun()", false) && ex.St.Must["p9.buffer.isOverrun"]
		}
	}
	r.check(okChk, "r6", "recv delivers a message only if the decoder did not overrun", recv.Decl.Pos(), "isOverrun() false on the success exit", "the success exit of recv is not guarded by dataBuf.isOverrun(): a message decoded from a too-short body (zero-filled fields) would be delivered")

	// ---- thorough: compiler cross-reference ----
	if r.Tier == "thorough" && r.Config == "linux/amd64" && r.borrowed == nil {
		c02CompilerCrossRef(r, sliceFuncs, discharged)
	}
	r.note("decoded values are bounded by the u16 list/string counts (a 65535-element list of empty names needs no bytes beyond its count): memory of decoded values is independent of msize and not covered by the msize clause")

	// r7: a complete valid frame is never turned into an error or a panic by the way the
	// transport cut it: the vectored read advances its buffers by exactly what arrived (the
	// rules of C17.r2/r3) - an over-advanced payload slice panics or ends the connection
	if r.borrowed == nil {
		r.borrow(checkC17, map[string]string{"r2": "r7", "r3": "r7"})
	}
}

func lineKey(r *Run, p token.Pos) string {
	pos := r.L.Fset.Position(p)
	return filepath.Base(pos.Filename) + ":" + strconv.Itoa(pos.Line)
}

func mayCallLookup(st *HState) bool {
	return st.May["p9.registry.get"]
}

// containsFuncLit: call lies inside a function literal of fi (not at the declaration's own level).
func containsFuncLit(l *Loaded, call ast.Node, fi *FuncInfo) bool {
	_, isLit := l.enclosingFunc(call).(*ast.FuncLit)
	return isLit
}

// drainPrecedes: the statement before ret in its block is
// if remaining > 0 { _, _ = io.Copy(io.Discard|ioutil.Discard, io.LimitReader(r, int64(remaining))) }  (or io.CopyN).
// poolSuppliesByteSlicePtr: dataPool.New returns *[]byte and every Put on it passes a *[]byte.
func poolSuppliesByteSlicePtr(r *Run, info *types.Info) (bool, string) {
	p9 := r.L.Pkg("p9")
	okNew := false
	for _, f := range p9.Syntax {
		ast.Inspect(f, func(n ast.Node) bool {
			vs, ok := n.(*ast.ValueSpec)
			if !ok || len(vs.Names) != 1 || vs.Names[0].Name != "dataPool" || len(vs.Values) != 1 {
				return true
			}
			ast.Inspect(vs.Values[0], func(m ast.Node) bool {
				if ret, ok := m.(*ast.ReturnStmt); ok && len(ret.Results) == 1 {
					if t := info.TypeOf(ret.Results[0]); t != nil && t.String() == "*[]byte" {
						okNew = true
					}
				}
				return true
			})
			return false
		})
	}
	okPut := true
	nPut := 0
	for _, f := range p9.Syntax {
		ast.Inspect(f, func(n ast.Node) bool {
			c, ok := n.(*ast.CallExpr)
			if !ok || calleeKey(info, c) != "sync.Pool.Put" {
				return true
			}
			if sel, ok := unparen(c.Fun).(*ast.SelectorExpr); ok && r.L.str(sel.X) == "dataPool" {
				nPut++
				if t := info.TypeOf(c.Args[0]); t == nil || t.String() != "*[]byte" {
					okPut = false
				}
			}
			return true
		})
	}
	if okNew && okPut && nPut > 0 {
		return true, fmt.Sprintf("dataPool.New returns *[]byte and all %d Put calls pass *[]byte", nPut)
	}
	return false, fmt.Sprintf("dataPool may hold something other than *[]byte (New ok=%v, Put ok=%v)", okNew, okPut)
}

// c02ServerReaction: the counting and lock rules of C06 restricted to what C02 states.
func c02ServerReaction(r *Run, m *ServerModel) {
	info := m.Info
	db := m.DB
	hr := r.mustFunc("r5", "p9", "connState.handleRequest")
	if hr == nil {
		return
	}
	res := m.resolver(hr)
	errName := ""
	for _, s := range m.callsIn(hr, "p9.recv") {
		errName = m.resultVarIn(hr, s, 2)
	}
	_ = res
	counts, _ := countCalls(db, info, hr, "p9.send")
	n := 0
	for _, ex := range db.Exits[hr] {
		if ex.Fn != ast.Node(hr.Decl) || ex.Ret == nil || ex.St.Dead || !ex.St.Must["p9.recv"] {
			continue
		}
		c := counts[ex.Ret]
		retv := strings.ReplaceAll(r.L.str(ex.Ret.Results[0]), " ", "")
		// ConnError branch: the comma-ok of the ConnError assertion is true
		connOK, connTruth := m.boolTest(hr, isAssertTo(info, "p9.ConnError"))
		conn := false
		for _, p := range ex.St.Paths {
			for k, v := range p {
				if k == connOK && v == connTruth && connOK != "" {
					conn = true
				}
			}
		}
		proto := ex.St.holds(errName+" == nil", false) && !conn
		switch {
		case conn && !ex.St.Must["p9.connState.StartTag"]:
			n++
			okShut := false
			for _, fa := range m.fields() {
				if fa.Root == hr && fa.Write && fa.Key == "p9.connState.recvShutdown" {
					okShut = true
				}
			}
			r.check(c.Max == 0 && retv == "false" && okShut, "r5", "server: a connection error ends the connection without a reply", ex.Ret.Pos(), "recvShutdown set, no send, return false",
				fmt.Sprintf("on a connection error the server sends %d..%d replies and returns %s", c.Min, c.Max, retv))
		case proto && !ex.St.Must["p9.connState.StartTag"]:
			n++
			r.check(c.Min == 1 && c.Max == 1 && retv == "true" && ex.St.Must["p9.newErr"], "r5", "server: a rejected frame is answered with one Rlerror and serving continues", ex.Ret.Pos(), "one send(newErr(err)), return true",
				fmt.Sprintf("a rejected but well-delimited frame leads to %d..%d replies and return %s", c.Min, c.Max, retv))
			// no connection lock left held (the frames after it are still served)
			var held []string
			for t := range ex.St.MayL {
				if cl, _, _ := parseLockToken(t); strings.HasPrefix(cl, "p9.connState.") {
					held = append(held, t)
				}
			}
			r.check(len(held) == 0, "r5", "server: the receive token is released after a rejected frame", ex.Ret.Pos(), "no connection lock held", "after answering a rejected frame the server still holds "+strings.Join(held, ", ")+": the frames after it are never read")
		}
	}
	r.check(n >= 2, "r5", "server: both error reactions exist", hr.Decl.Pos(), fmt.Sprintf("%d", n), "the connection-error and protocol-error exits of handleRequest were not both found")
}

var bceRe = regexp.MustCompile(`^(?:\./)?([^:]+):(\d+):(\d+): Found (IsInBounds|IsSliceInBounds)`)

// c02CompilerCrossRef compiles package p9 with the prove pass's bounds-check report and compares.
func c02CompilerCrossRef(r *Run, sliceFuncs []*FuncInfo, discharged map[string]bool) {
	tmp, err := os.MkdirTemp("", "p9check-bce-")
	if err != nil {
		r.undecided("r1", "compiler cross-reference", token.NoPos, "%v", err)
		return
	}
	defer os.RemoveAll(tmp)
	cmd := exec.Command("go", "build", "-gcflags=-l -d=ssa/check_bce/debug=1", "-o", filepath.Join(tmp, "out.a"), "./p9")
	cmd.Dir = r.L.Repo
	env := []string{}
	for _, e := range os.Environ() {
		if strings.HasPrefix(e, "GOFLAGS=") || strings.HasPrefix(e, "GOCACHE=") || strings.HasPrefix(e, "GOOS=") || strings.HasPrefix(e, "GOARCH=") {
			continue
		}
		env = append(env, e)
	}
	cmd.Env = append(env, "GOFLAGS=-mod=readonly", "GOCACHE="+filepath.Join(tmp, "cache"), "GOPROXY=off", "GOSUMDB=off", "GOTOOLCHAIN=local", "GOWORK=off")
	out, err := cmd.CombinedOutput()
	if err != nil && !strings.Contains(string(out), "Found Is") {
		r.undecided("r1", "compiler cross-reference", token.NoPos, "go build failed: %v: %s", err, firstLine(string(out)))
		return
	}
	// line ranges of the slice's functions
	type rng struct {
		file       string
		start, end int
		key        string
	}
	var rngs []rng
	for _, fi := range sliceFuncs {
		if fi.Decl.Body == nil || fi.Decl.Name.Name == "String" || fi.Decl.Name.Name == "Error" {
			continue
		}
		s, e := r.L.Fset.Position(fi.Decl.Pos()), r.L.Fset.Position(fi.Decl.End())
		rngs = append(rngs, rng{filepath.Base(s.Filename), s.Line, e.Line, fi.Key})
	}
	total, inSlice := 0, 0
	for _, line := range strings.Split(string(out), "\n") {
		mm := bceRe.FindStringSubmatch(strings.TrimSpace(line))
		if mm == nil {
			continue
		}
		total++
		file := filepath.Base(mm[1])
		ln, _ := strconv.Atoi(mm[2])
		for _, g := range rngs {
			if g.file == file && g.start <= ln && ln <= g.end {
				inSlice++
				k := file + ":" + mm[2]
				key := fmt.Sprintf("compiler: unproven %s in %s (%s)", mm[4], g.key, k)
				// encoder-side helpers share files with the slice; only decode-side functions count
				if g.key == "p9.buffer.append" {
					continue
				}
				r.check(discharged[k], "r1", key, token.NoPos, "bounds check the compiler keeps is one the checker discharged by a dominating guard",
					"the Go compiler could not prove this bounds check safe and the checker has no guard rule for it: a candidate panic on hostile input")
			}
		}
	}
	r.stat("r1:compiler unproven bounds checks in package p9", total)
	r.stat("r1:of which inside the receive slice", inSlice)
	r.note("compiler cross-reference: go build -gcflags='-l -d=ssa/check_bce/debug=1' ./p9 reported %d bounds checks it could not eliminate, %d inside the receive slice", total, inSlice)
}
