package main

// Tables of the pure functions over p9.FileMode (QIDType, OSMode, CanOpen, the IsX predicates).
// A 9P mode word has one of seven file types (mode & S_IFMT).  Whatever way such a function
// is written - a disjunction of IsX() calls, a tagless switch over predicates, a switch on
// m.FileType() or on m&FileModeMask with constant cases, a helper method that does the
// switching - its meaning for the rules is a table "file type → result", and that table is
// what is extracted here, by reading the source: predicates are reduced to the set of types
// they accept (expression functions such as IsDir and FileType are followed into their
// bodies), switches to an ordered first-match list over those sets.

import (
	"go/ast"
	"go/token"
	"go/types"
)

const sIFMT = 0o170000

var modeTypes = []uint64{0o140000, 0o120000, 0o100000, 0o60000, 0o40000, 0o20000, 0o10000}

var modeTypeNames = map[uint64]string{0o140000: "ModeSocket", 0o120000: "ModeSymlink", 0o100000: "ModeRegular", 0o60000: "ModeBlockDevice", 0o40000: "ModeDirectory", 0o20000: "ModeCharacterDevice", 0o10000: "ModeNamedPipe"}

type modeTab struct {
	l    *Loaded
	info *types.Info
}

type typeSet map[uint64]bool

func allTypes() typeSet {
	s := typeSet{}
	for _, t := range modeTypes {
		s[t] = true
	}
	return s
}

// binding of the mode variable(s): objects that denote the mode word under inspection
type modeEnv map[types.Object]bool

// isTypeOf: e denotes (mode & S_IFMT) of the inspected mode.
func (mt *modeTab) isTypeOf(e ast.Expr, env modeEnv, depth int) bool {
	e = unparen(e)
	switch v := e.(type) {
	case *ast.BinaryExpr:
		if v.Op == token.AND {
			if c, ok := constUint(mt.info, v.Y); ok && c == sIFMT && env[objOf(mt.info, v.X)] {
				return true
			}
			if c, ok := constUint(mt.info, v.X); ok && c == sIFMT && env[objOf(mt.info, v.Y)] {
				return true
			}
		}
	case *ast.CallExpr:
		// conversion FileMode(x)
		if tv, ok := mt.info.Types[v.Fun]; ok && tv.IsType() && len(v.Args) == 1 {
			return mt.isTypeOf(v.Args[0], env, depth)
		}
		// expression function on the mode: m.FileType()
		if body, sub, ok := mt.enter(v, env); ok && depth < 4 {
			return mt.isTypeOf(body, sub, depth+1)
		}
	}
	return false
}

// enter: the call is to an expression function whose receiver (or single argument) is the
// inspected mode; returns its body and the environment inside.
func (mt *modeTab) enter(call *ast.CallExpr, env modeEnv) (ast.Expr, modeEnv, bool) {
	tf := mt.l.FuncOf(callee(mt.info, call))
	if tf == nil || tf.Pkg.TypesInfo != mt.info {
		return nil, nil, false
	}
	body := exprFuncBody(tf.Decl)
	if body == nil {
		return nil, nil, false
	}
	sub, ok := mt.bind(call, tf, env)
	if !ok {
		return nil, nil, false
	}
	return body, sub, true
}

// bind maps the callee's receiver / parameters that receive the inspected mode.
func (mt *modeTab) bind(call *ast.CallExpr, tf *FuncInfo, env modeEnv) (modeEnv, bool) {
	sub := modeEnv{}
	if tf.Decl.Recv != nil && len(tf.Decl.Recv.List) == 1 && len(tf.Decl.Recv.List[0].Names) == 1 {
		if sel, ok := unparen(call.Fun).(*ast.SelectorExpr); ok && env[objOf(mt.info, sel.X)] {
			sub[mt.info.Defs[tf.Decl.Recv.List[0].Names[0]]] = true
		}
	}
	idx := 0
	for _, f := range tf.Decl.Type.Params.List {
		for _, nm := range f.Names {
			if idx < len(call.Args) && env[objOf(mt.info, call.Args[idx])] {
				sub[mt.info.Defs[nm]] = true
			}
			idx++
		}
	}
	return sub, len(sub) > 0
}

// pred reduces a boolean expression over the inspected mode to the set of file types it accepts.
func (mt *modeTab) pred(e ast.Expr, env modeEnv, depth int) (typeSet, bool) {
	e = unparen(e)
	switch v := e.(type) {
	case *ast.UnaryExpr:
		if v.Op == token.NOT {
			s, ok := mt.pred(v.X, env, depth)
			if !ok {
				return nil, false
			}
			out := typeSet{}
			for _, t := range modeTypes {
				if !s[t] {
					out[t] = true
				}
			}
			return out, true
		}
	case *ast.BinaryExpr:
		switch v.Op {
		case token.LOR, token.LAND:
			a, ok1 := mt.pred(v.X, env, depth)
			b, ok2 := mt.pred(v.Y, env, depth)
			if !ok1 || !ok2 {
				return nil, false
			}
			out := typeSet{}
			for _, t := range modeTypes {
				if v.Op == token.LOR && (a[t] || b[t]) || v.Op == token.LAND && a[t] && b[t] {
					out[t] = true
				}
			}
			return out, true
		case token.EQL, token.NEQ:
			x, y := v.X, v.Y
			if !mt.isTypeOf(x, env, depth) {
				x, y = y, x
			}
			if mt.isTypeOf(x, env, depth) {
				if c, ok := constUint(mt.info, y); ok {
					out := typeSet{}
					for _, t := range modeTypes {
						if (t == c) == (v.Op == token.EQL) {
							out[t] = true
						}
					}
					return out, true
				}
			}
		}
	case *ast.CallExpr:
		if body, sub, ok := mt.enter(v, env); ok && depth < 4 {
			return mt.pred(body, sub, depth+1)
		}
		// a predicate function that is a switch (CanOpen written as switch)
		if tf := mt.l.FuncOf(callee(mt.info, v)); tf != nil && tf.Pkg.TypesInfo == mt.info && depth < 4 {
			if sub, ok := mt.bind(v, tf, env); ok {
				return mt.boolFunc(tf, sub, depth+1)
			}
		}
	}
	return nil, false
}

// modeCase is one arm of a first-match list.
type modeCase struct {
	when typeSet
	body []ast.Stmt
}

// switchCases reads a switch over the inspected mode as an ordered first-match list; the
// default arm (if any) comes last with the types no other arm accepts.
func (mt *modeTab) switchCases(sw *ast.SwitchStmt, env modeEnv, depth int) ([]modeCase, bool) {
	if sw.Init != nil {
		return nil, false
	}
	tagged := sw.Tag != nil
	if tagged && !mt.isTypeOf(sw.Tag, env, depth) {
		return nil, false
	}
	var out []modeCase
	var def *ast.CaseClause
	taken := typeSet{}
	for _, c := range sw.Body.List {
		cc := c.(*ast.CaseClause)
		if cc.List == nil {
			def = cc
			continue
		}
		when := typeSet{}
		for _, e := range cc.List {
			if tagged {
				cv, ok := constUint(mt.info, e)
				if !ok {
					return nil, false
				}
				when[cv] = true
			} else {
				s, ok := mt.pred(e, env, depth)
				if !ok {
					return nil, false
				}
				for t := range s {
					when[t] = true
				}
			}
		}
		// first match wins
		eff := typeSet{}
		for t := range when {
			if !taken[t] {
				eff[t] = true
				taken[t] = true
			}
		}
		out = append(out, modeCase{eff, cc.Body})
	}
	rest := typeSet{}
	for _, t := range modeTypes {
		if !taken[t] {
			rest[t] = true
		}
	}
	if def != nil {
		out = append(out, modeCase{rest, def.Body})
	} else {
		out = append(out, modeCase{rest, nil})
	}
	return out, true
}

// boolFunc: the set of types for which a predicate function returns true.  Accepted bodies:
// "return <predicate>", or a switch over the mode whose arms return constant booleans
// (optionally followed by a final constant return).
func (mt *modeTab) boolFunc(fi *FuncInfo, env modeEnv, depth int) (typeSet, bool) {
	if body := exprFuncBody(fi.Decl); body != nil {
		return mt.pred(body, env, depth)
	}
	tab, ok := mt.valueFunc(fi, env, depth, func(e ast.Expr) (uint64, bool) {
		if bv := constValue(mt.info, e); bv != nil {
			switch bv.String() {
			case "true":
				return 1, true
			case "false":
				return 0, true
			}
		}
		return 0, false
	})
	if !ok {
		return nil, false
	}
	out := typeSet{}
	for t, v := range tab {
		if v == 1 {
			out[t] = true
		}
	}
	return out, true
}

// valueFunc: a function of the mode whose body is a switch over the mode with arms that
// return a constant (evaluated by val), optionally followed by one final constant return for
// the types no arm returns for.  Result: type → value.
func (mt *modeTab) valueFunc(fi *FuncInfo, env modeEnv, depth int, val func(ast.Expr) (uint64, bool)) (map[uint64]uint64, bool) {
	body := fi.Decl.Body.List
	if len(body) == 0 || len(body) > 2 {
		return nil, false
	}
	sw, ok := body[0].(*ast.SwitchStmt)
	if !ok {
		return nil, false
	}
	cases, ok := mt.switchCases(sw, env, depth)
	if !ok {
		return nil, false
	}
	var tail *uint64
	if len(body) == 2 {
		ret, ok := body[1].(*ast.ReturnStmt)
		if !ok || len(ret.Results) != 1 {
			return nil, false
		}
		v, ok := val(ret.Results[0])
		if !ok {
			return nil, false
		}
		tail = &v
	}
	out := map[uint64]uint64{}
	for _, c := range cases {
		var v *uint64
		if len(c.body) == 1 {
			if ret, ok := c.body[0].(*ast.ReturnStmt); ok && len(ret.Results) == 1 {
				if x, ok := val(ret.Results[0]); ok {
					v = &x
				}
			}
		} else if len(c.body) == 0 {
			v = tail
		}
		if v == nil {
			if len(c.when) == 0 {
				continue
			}
			return nil, false
		}
		for t := range c.when {
			out[t] = *v
		}
	}
	return out, true
}

// orTable: for a function that builds its result by or-ing constants into an accumulator
// inside a switch over the mode (OSMode's type part), or that delegates that part to a helper
// method (acc := ... | m.osTypeBits()), the bits contributed per file type.  found=false when
// the function has no such switch.
func (mt *modeTab) orTable(fi *FuncInfo, env modeEnv, depth int) (tab map[uint64]uint64, found, ok bool) {
	cu := func(e ast.Expr) (uint64, bool) { return constUint(mt.info, e) }
	for _, s := range fi.Decl.Body.List {
		if sw, isSw := s.(*ast.SwitchStmt); isSw {
			cases, okC := mt.switchCases(sw, env, depth)
			if !okC {
				continue // a switch about something else
			}
			tab = map[uint64]uint64{}
			for _, c := range cases {
				add := uint64(0)
				for _, b := range c.body {
					as, isAs := b.(*ast.AssignStmt)
					if !isAs || as.Tok != token.OR_ASSIGN || len(as.Rhs) != 1 {
						return nil, true, false
					}
					x, isC := cu(as.Rhs[0])
					if !isC {
						return nil, true, false
					}
					add |= x
				}
				for t := range c.when {
					tab[t] = add
				}
			}
			return tab, true, true
		}
	}
	// delegated to a helper of the same mode
	var helper *ast.CallExpr
	for _, s := range fi.Decl.Body.List {
		ast.Inspect(s, func(n ast.Node) bool {
			if c, isCall := n.(*ast.CallExpr); isCall && helper == nil && depth < 3 {
				if tf := mt.l.FuncOf(callee(mt.info, c)); tf != nil && tf.Pkg.TypesInfo == mt.info && tf != fi && exprFuncBody(tf.Decl) == nil {
					if _, okB := mt.bind(c, tf, env); okB {
						helper = c
					}
				}
			}
			return true
		})
	}
	if helper != nil {
		tf := mt.l.FuncOf(callee(mt.info, helper))
		sub, _ := mt.bind(helper, tf, env)
		// the helper's value must be or-ed into the result
		if be, isBin := mt.l.parent(helper).(*ast.BinaryExpr); !isBin || be.Op != token.OR {
			if as, isAs := mt.l.parent(helper).(*ast.AssignStmt); !isAs || as.Tok != token.OR_ASSIGN {
				return nil, true, false
			}
		}
		if t, okV := mt.valueFunc(tf, sub, depth+1, cu); okV {
			return t, true, true
		}
		if t, f, okT := mt.orTable(tf, sub, depth+1); f {
			return t, true, okT
		}
	}
	return nil, false, true
}

// envOf: the environment in which the receiver or the first parameter of fi is the mode.
func (mt *modeTab) envOf(fi *FuncInfo) modeEnv {
	env := modeEnv{}
	if fi.Decl.Recv != nil && len(fi.Decl.Recv.List) == 1 && len(fi.Decl.Recv.List[0].Names) == 1 {
		env[mt.info.Defs[fi.Decl.Recv.List[0].Names[0]]] = true
		return env
	}
	if ps := fi.Decl.Type.Params.List; len(ps) > 0 && len(ps[0].Names) > 0 {
		env[mt.info.Defs[ps[0].Names[0]]] = true
	}
	return env
}
