package main

// Transitive effect summaries over the module's static call graph (resolved
// callees; calls through p9.File / p9.Attacher are the opaque backend).

import (
	"go/ast"
	"go/types"
	"sort"
	"strings"
)

type Effects struct {
	Backend   map[string]bool // backend methods that may be called (File.Close, ...)
	FuncValue bool            // calls a function-typed value (callback) that is not a known wrapper's own parameter
	Locks     map[string]bool // lock tokens (class:mode) that may be acquired
	Blocks    map[string]bool // blocking operations: "<-chan", "chan<-", "select", "WaitGroup.Wait", "recv", "send"
	Go        bool
	Callees   map[*types.Func]bool
	Via       map[string]string // effect -> first callee through which it is reached (for reports)
}

func newEffects() *Effects {
	return &Effects{Backend: map[string]bool{}, Locks: map[string]bool{}, Blocks: map[string]bool{}, Callees: map[*types.Func]bool{}, Via: map[string]string{}}
}

func computeEffects(db *SiteDB) map[*types.Func]*Effects {
	l := db.L
	eff := map[*types.Func]*Effects{}
	get := func(f *types.Func) *Effects {
		if e, ok := eff[f]; ok {
			return e
		}
		e := newEffects()
		eff[f] = e
		return e
	}
	for fi, sites := range db.ByFunc {
		e := get(fi.Obj)
		info := fi.Pkg.TypesInfo
		for _, s := range sites {
			if s.Call == nil {
				continue
			}
			k := s.Callee
			switch {
			case strings.HasPrefix(k, "p9.File.") || k == "p9.Attacher.Attach":
				e.Backend[strings.TrimPrefix(k, "p9.")] = true
			case k == "sync.WaitGroup.Wait":
				e.Blocks["WaitGroup.Wait"] = true
			case k == "":
				// call of a function value: a parameter/local of function type
				if _, isLit := unparen(s.Call.Fun).(*ast.FuncLit); isLit {
					break
				}
				if id, ok := unparen(s.Call.Fun).(*ast.Ident); ok {
					if _, isB := info.Uses[id].(*types.Builtin); isB {
						break
					}
				}
				if t := info.TypeOf(s.Call.Fun); t != nil {
					if _, isSig := t.Underlying().(*types.Signature); isSig {
						if tv, ok := info.Types[s.Call.Fun]; !ok || !tv.IsType() {
							e.FuncValue = true
						}
					}
				}
			}
			if op, mode := mutexOp(k); op == "lock" {
				if sel, ok := unparen(s.Call.Fun).(*ast.SelectorExpr); ok {
					class := l.fieldKey(fieldOf(info, sel.X))
					if class != "" {
						e.Locks[class+":"+mode] = true
					}
				}
			}
			if tf := l.FuncOf(callee(info, s.Call)); tf != nil && tf.Decl.Body != nil {
				e.Callees[tf.Obj] = true
			}
			// A declared function handed over as an argument may be called by the receiver.
			for _, a := range s.Call.Args {
				a = unparen(a)
				if _, isLit := a.(*ast.FuncLit); isLit {
					continue
				}
				if _, isSig := typeUnder(info, a).(*types.Signature); !isSig {
					continue
				}
				if tf := l.FuncOf(callee(info, &ast.CallExpr{Fun: a})); tf != nil && tf.Decl.Body != nil {
					e.Callees[tf.Obj] = true
				}
			}
		}
	}
	for _, b := range db.Blocking {
		e := get(b.Root.Obj)
		if b.Callee == "go" {
			e.Go = true
		} else if !b.NonBlocking {
			e.Blocks[b.Callee] = true
		}
	}
	// recv/send are blocking transport operations.
	if fi := l.Func("p9", "recv"); fi != nil {
		get(fi.Obj).Blocks["recv"] = true
	}
	if fi := l.Func("p9", "send"); fi != nil {
		get(fi.Obj).Blocks["send"] = true
	}
	// Transitive closure.
	changed := true
	for changed {
		changed = false
		for f, e := range eff {
			_ = f
			var cs []*types.Func
			for c := range e.Callees {
				cs = append(cs, c)
			}
			sort.Slice(cs, func(i, j int) bool { return funcKey(cs[i]) < funcKey(cs[j]) })
			for _, c := range cs {
				ce := eff[c]
				if ce == nil {
					continue
				}
				for k := range ce.Backend {
					if !e.Backend[k] {
						e.Backend[k] = true
						e.Via["backend:"+k] = funcKey(c)
						changed = true
					}
				}
				for k := range ce.Locks {
					if !e.Locks[k] {
						e.Locks[k] = true
						e.Via["lock:"+k] = funcKey(c)
						changed = true
					}
				}
				for k := range ce.Blocks {
					if !e.Blocks[k] {
						e.Blocks[k] = true
						e.Via["block:"+k] = funcKey(c)
						changed = true
					}
				}
				if ce.FuncValue && !e.FuncValue {
					e.FuncValue = true
					e.Via["funcvalue"] = funcKey(c)
					changed = true
				}
				if ce.Go && !e.Go {
					e.Go = true
					e.Via["go"] = funcKey(c)
					changed = true
				}
			}
		}
	}
	return eff
}

// reachable returns the set of module functions reachable from the given roots.
func reachableFuncs(eff map[*types.Func]*Effects, roots []*types.Func) map[*types.Func]bool {
	seen := map[*types.Func]bool{}
	var walk func(f *types.Func)
	walk = func(f *types.Func) {
		if seen[f] {
			return
		}
		seen[f] = true
		if e := eff[f]; e != nil {
			for c := range e.Callees {
				walk(c)
			}
		}
	}
	for _, r := range roots {
		walk(r)
	}
	return seen
}

func typeUnder(info *types.Info, e ast.Expr) types.Type {
	if t := info.TypeOf(e); t != nil {
		return t.Underlying()
	}
	return nil
}
