package main

import (
	"fmt"
	"go/ast"
	"go/token"
	"go/types"
	"sort"
	"strings"
)

func init() {
	register(&propInfo{
		id: "C04", fn: checkC04, multiConfig: true,
		explanation: "The session model's transition guards are per-request facts, so the history quantifier is discharged handler by handler: (r1) every fid field of a request that names an existing fid goes through LookupFID whose miss branch returns EBADF before anything with an effect (no backend call, InsertFID or DeleteFID may precede that exit), every backend receiver derives from such a lookup, and destination fids are only given to InsertFID; (r2) every exit of tclunk.handle, and every exit of tremove.handle after its lookup, has passed DeleteFID; (r3) every InsertFID is reached only when the operation that produced the new reference succeeded, all exits after it are success replies, InsertFID itself releases a replaced binding, tlcreate rebinds its own fid to an opened literal; (r4) the guard table of the property (opened / mode / type checks with their errnos, xattr sub-protocol switch, CanOpen's exact set, Tauth ENOSYS, auth fid EINVAL) is a subset of the guards that dominate each backend call, with the prescribed errno on the guard's exit; (r5) opened/openFlags are written only on the success side of Open and in the create literal. (r6) handlers act on the request that was sent: decoders overwrite every field and reset every list of recycled message objects (the rule of C18.r1). (r7) Txattrcreate arms a fid by replacing its pending xattr state as a whole (or field by field with the accumulation buffer reset): the offset and size checks of the following Twrites and of the committing Tclunk start from an empty buffer.",
		assumptions: []string{"guards are recognised as path facts over resolved expressions; a guard rewritten in an unrecognised but equivalent form is reported (fail-closed)", "the fid table is a Go map under fidMu (its locking is C16's business)"},
	})
}

func isHandlerFunc(fi *FuncInfo) bool {
	if fi.Decl.Recv == nil {
		return fi.Key == "p9.clunkHandleXattr"
	}
	n := fi.Decl.Name.Name
	if n != "handle" && n != "do" {
		return false
	}
	parts := strings.Split(fi.Key, ".")
	return len(parts) == 3 && strings.HasPrefix(parts[1], "t")
}

// the deleted / directory / opened triple for "modify a directory" handlers.
func dirGuards(d string) []Guard {
	return []Guard{
		{"deleted directory", []Lit{L(true, "$"+d+".isDeleted()")}, 22},
		{"not a directory", []Lit{L(false, "$"+d+".mode.IsDir()")}, 22},
		{"opened directory", []Lit{L(true, "$"+d+".opened")}, 22},
	}
}

func modeIs(fid, mode string) []string {
	return []string{
		"$" + fid + ".openFlags & OpenFlagsModeMask == " + mode,
		"$" + fid + ".openFlags.Mode() == " + mode,
		mode + " == $" + fid + ".openFlags & OpenFlagsModeMask",
	}
}

// handler key -> backend method -> guards
var c04Table = map[string]map[string][]Guard{
	"p9.tlopen.handle": {"Open": {
		{"already opened", []Lit{L(true, "$fid.opened")}, 22},
		{"type cannot be opened", []Lit{L(false, "CanOpen($fid.mode)")}, 22},
		{"directory opened for writing", []Lit{L(true, "$fid.mode.IsDir()"), L(false, "$t.Flags.Mode() == ReadOnly", "$t.Flags & OpenFlagsModeMask == ReadOnly")}, 21},
	}},
	"p9.tlcreate.do":      {"Create": dirGuards("fid")},
	"p9.tsymlink.do":      {"Symlink": dirGuards("Directory")},
	"p9.tmknod.do":        {"Mknod": dirGuards("Directory")},
	"p9.tmkdir.do":        {"Mkdir": dirGuards("Directory")},
	"p9.tlink.handle":     {"Link": dirGuards("Directory")},
	"p9.tunlinkat.handle": {"UnlinkAt": dirGuards("Directory")},
	"p9.trenameat.handle": {"RenameAt": append(dirGuards("OldDirectory"),
		Guard{"new directory is not a directory", []Lit{L(false, "$NewDirectory.mode.IsDir()")}, 22})},
	"p9.trename.handle": {"RenameAt": {
		{"target is not a directory", []Lit{L(false, "$Directory.mode.IsDir()")}, 22},
	}},
	"p9.tread.handle": {"ReadAt": {
		{"not opened", []Lit{L(false, "$fid.opened")}, 22},
		{"opened write-only", []Lit{L(true, modeIs("fid", "WriteOnly")...)}, 1},
		{"xattr fid", []Lit{L(false, "$fid.pendingXattr.op == xattrNone")}, 0},
	}},
	"p9.twrite.handle": {"WriteAt": {
		{"not opened", []Lit{L(false, "$fid.opened")}, 22},
		{"opened read-only", []Lit{L(true, modeIs("fid", "ReadOnly")...)}, 1},
		{"xattr fid", []Lit{L(false, "$fid.pendingXattr.op == xattrNone")}, 0},
	}},
	"p9.treaddir.handle": {"Readdir": {
		{"not opened", []Lit{L(false, "$Directory.opened")}, 22},
		{"not a directory", []Lit{L(false, "$Directory.mode.IsDir()")}, 22},
	}},
	"p9.tfsync.handle": {"FSync": {
		{"not opened", []Lit{L(false, "$fid.opened")}, 22},
	}},
	"p9.clunkHandleXattr": {
		"SetXattr": {
			{"not a pending xattr create", []Lit{L(false, "$fid.pendingXattr.op == xattrCreate")}, 0},
			{"value incomplete", []Lit{L(false, "len($fid.pendingXattr.buf) == int($fid.pendingXattr.size)")}, 22},
		},
		"RemoveXattr": {
			{"not a pending xattr create", []Lit{L(false, "$fid.pendingXattr.op == xattrCreate")}, 0},
			{"value incomplete", []Lit{L(false, "len($fid.pendingXattr.buf) == int($fid.pendingXattr.size)")}, 22},
		},
	},
}

func checkC04(r *Run) {
	m := buildServerModel(r.L)
	info := m.Info
	var handlers []*FuncInfo
	for _, fi := range r.L.funcsOfPkg("p9") {
		if isHandlerFunc(fi) && fi.Decl.Body != nil {
			handlers = append(handlers, fi)
		}
	}
	r.floor("r1", "handler functions (handle/do)", len(handlers), 36)
	hinfo := map[*FuncInfo]*HandlerInfo{}
	for _, fi := range handlers {
		hinfo[fi] = m.handlerInfo(fi)
	}

	// ---- r1: lookup discipline -------------------------------------------------
	nLookups := 0
	effect := func(k string) bool {
		return strings.HasPrefix(k, "p9.File.") || k == "p9.Attacher.Attach" || k == "p9.connState.InsertFID" || k == "p9.connState.DeleteFID" || k == "p9.doWalk"
	}
	for _, fi := range handlers {
		h := hinfo[fi]
		for _, call := range h.LookupSites {
			nLookups++
			key := fmt.Sprintf("%s: LookupFID(%s)", fi.Key, r.L.str(call.Args[0]))
			// The statement after the lookup is "if !ok { return ...EBADF }".
			as, _ := r.L.parent(call).(*ast.AssignStmt)
			var okObj types.Object
			if as != nil && len(as.Lhs) == 2 {
				okObj = objOf(info, as.Lhs[1])
			}
			next := nextStmt(r.L, as)
			ifs, _ := next.(*ast.IfStmt)
			good := false
			var retPos token.Pos = call.Pos()
			if ifs != nil && ifs.Init == nil {
				if u, ok := unparen(ifs.Cond).(*ast.UnaryExpr); ok && u.Op == token.NOT && objOf(info, u.X) == okObj && okObj != nil && endsInReturn(ifs.Body) {
					ret := ifs.Body.List[len(ifs.Body.List)-1].(*ast.ReturnStmt)
					retPos = ret.Pos()
					if v, ok := errnoOf(info, ret); ok && v == 9 {
						good = true
					}
				}
			}
			if !good {
				r.fail("r1", key, call.Pos(), "the lookup is not immediately followed by 'if !ok { return EBADF }': an unbound fid would not be refused with EBADF before the handler acts")
				continue
			}
			// Nothing with an effect may have happened on the way to that exit.
			var bad []string
			for _, ex := range m.DB.Exits[fi] {
				if ex.Ret == nil || ex.Ret.Pos() != retPos {
					continue
				}
				for k := range ex.St.May {
					if effect(k) {
						bad = append(bad, k)
					}
				}
			}
			// Lookups earlier in the same handler are allowed (they are released by defer).
			if len(bad) > 0 {
				sort.Strings(bad)
				r.fail("r1", key, retPos, "EBADF exit is reached after %v may already have happened: an unbound fid must change nothing", bad)
			} else {
				r.ok("r1", key, call.Pos(), "miss → EBADF before any backend call, InsertFID or DeleteFID")
			}
		}
	}
	r.floor("r1", "LookupFID sites in handlers", nLookups, 27)

	// Every backend receiver in a handler derives from a lookup variable.
	for _, b := range m.Backend {
		root := b.Site.Root
		if b.Outer != nil {
			root = b.Outer.Root
		}
		h := hinfo[root]
		if h == nil || b.Fresh || b.Method == "Attach" {
			continue
		}
		base := b.Base
		if base == "" {
			r.undecided("r1", b.Key()+": receiver", b.Site.Call.Pos(), "receiver %s is not X.file", b.Recv)
			continue
		}
		rootVar := base
		if i := strings.IndexAny(base, ".("); i >= 0 {
			rootVar = base[:i]
		}
		if _, ok := h.Lookups[rootVar]; ok {
			r.ok("r1", b.Key()+": receiver", b.Site.Call.Pos(), "%s is the LookupFID result for field %s", rootVar, h.Lookups[rootVar])
		} else {
			r.fail("r1", b.Key()+": receiver", b.Site.Call.Pos(), "backend call on %s, which is not the result of a LookupFID in this handler", base)
		}
	}
	// doWalk is only entered with a looked-up or freshly built reference.
	for _, cs := range m.DB.Calls["p9.doWalk"] {
		h := hinfo[cs.Root]
		arg := m.resolver(cs.Root).str(cs.Call.Args[1])
		key := cs.Root.Key + ": doWalk(" + arg + ")"
		if h != nil {
			if _, ok := h.Lookups[arg]; ok {
				r.ok("r1", key, cs.Call.Pos(), "walk starts at the looked-up reference")
				continue
			}
		}
		if strings.HasPrefix(arg, "&fidRef{") || isLocalLiteral(m, cs.Root, cs.Call.Args[1]) {
			r.ok("r1", key, cs.Call.Pos(), "walk starts at the transient root built in this handler")
			continue
		}
		r.fail("r1", key, cs.Call.Pos(), "doWalk starts from %s, which is neither a LookupFID result nor a reference built here", arg)
	}
	// Every fid-typed request field is used (lookup, insert, or comparison).
	c04FidFieldsUsed(r, m, handlers)

	// ---- r2: unconditional unbind -----------------------------------------------
	for _, nm := range []string{"tclunk.handle", "tremove.handle"} {
		fi := r.mustFunc("r2", "p9", nm)
		if fi == nil {
			continue
		}
		n := 0
		for _, ex := range m.DB.Exits[fi] {
			if ex.Fn != ast.Node(fi.Decl) || ex.St.Dead {
				continue // exits of inlined literals are not exits of the handler
			}
			n++
			key := fmt.Sprintf("p9.%s exit #%d", nm, n)
			pos := fi.Decl.End()
			if ex.Ret != nil {
				pos = ex.Ret.Pos()
			}
			if ex.St.Must["p9.connState.DeleteFID"] {
				r.ok("r2", key, pos, "DeleteFID has been called on every path to this exit")
				continue
			}
			// tremove: the exit of the failed lookup is the only exception.
			if v, ok := errnoOf(info, ex.Ret); ok && v == 9 && !ex.St.May["p9.connState.DeleteFID"] && nm == "tremove.handle" && ex.St.holds(m.resultName(fi, -1, isCallTo(info, "p9.connState.LookupFID")), false) {
				r.ok("r2", key, pos, "fid was not bound (lookup failed): nothing to unbind")
				continue
			}
			r.fail("r2", key, pos, "this exit can be reached without DeleteFID: the fid would stay bound although Tclunk/Tremove must always unbind")
		}
		if n < 2 {
			r.undecided("r2", "p9."+nm, fi.Decl.Pos(), "found %d exits", n)
		}
	}

	// ---- r3: bind on success only -------------------------------------------------
	c04Insert(r, m, hinfo)

	// ---- r4: guard table ------------------------------------------------------------
	// An unmasked comparison of openFlags is equivalent to the masked one only if every
	// store of openFlags (assignments and literal keys) stores a masked value.
	allMasked := openFlagsStoresMasked(r, m)
	nG := 0
	for _, b := range m.Backend {
		root := b.Site.Root
		tab := c04Table[root.Key][b.Method]
		if tab == nil || b.Outer != nil {
			continue
		}
		h := hinfo[root]
		for _, g := range tab {
			nG++
			if allMasked {
				g = withUnmaskedAlternatives(g)
			}
			ok, detail := m.checkGuard(h, b.Site.St, g, m.exitsDeep(root))
			key := fmt.Sprintf("%s: guard %q", b.Key(), g.Name)
			if ok {
				r.ok("r4", key, b.Site.Call.Pos(), "%s", detail)
			} else {
				r.fail("r4", key, b.Site.Call.Pos(), "%s", detail)
			}
		}
	}
	// Tables whose handler or backend call vanished.
	for hk, byM := range c04Table {
		fi := r.L.decls[hk]
		if fi == nil {
			r.undecided("r4", hk, token.NoPos, "handler not found")
			continue
		}
		for meth := range byM {
			found := false
			for _, b := range m.Backend {
				if b.Site.Root == fi && b.Method == meth && b.Outer == nil {
					found = true
				}
			}
			if !found {
				r.undecided("r4", hk+" → File."+meth, fi.Decl.Pos(), "the handler no longer calls File.%s directly: the guard table cannot be evaluated", meth)
			}
		}
	}
	r.floor("r4", "guards evaluated", nG, 39)
	c04WalkGuards(r, m, hinfo)
	c04Misc(r, m, hinfo)

	// ---- r5: who writes open state ---------------------------------------------------
	// "a fid opens at most once" under concurrent requests: the test of opened, File.Open and
	// the store are one exclusive region (the rule of C07.r5)
	r.alias = map[string]string{"r5": "r5"}
	c07OpenOnce(r, m)
	r.alias = nil
	for _, fa := range m.fields() {
		if !fa.Write || (fa.Key != "p9.fidRef.opened" && fa.Key != "p9.fidRef.openFlags") {
			continue
		}
		key := fmt.Sprintf("%s: write of %s", fa.Root.Key, fa.Field.Name())
		if fa.Root.Key != "p9.tlopen.handle" {
			r.fail("r5", key, fa.Sel.Pos(), "open state is written outside tlopen.handle")
			continue
		}
		// On the success side of Open.
		okOpen := false
		for _, b := range m.Backend {
			if b.Site.Root == fa.Root && b.Method == "Open" && m.callSucceeded(fa.St, fa.Root, b.Site.Call) {
				okOpen = true
			}
		}
		r.check(okOpen, "r5", key, fa.Sel.Pos(), "written only after File.Open returned nil", "the store is not dominated by a successful File.Open: a failed open would leave the fid marked open")
	}
	// Literal keys.
	fidRefT := r.L.namedType("p9", "fidRef")
	for _, fi := range r.L.funcsOfPkg("p9") {
		if fi.Decl.Body == nil {
			continue
		}
		ast.Inspect(fi.Decl.Body, func(n ast.Node) bool {
			cl, ok := n.(*ast.CompositeLit)
			if !ok || !types.Identical(info.TypeOf(cl), fidRefT) {
				return true
			}
			// an xattr fid stays inside its own sub-protocol because it has no file type: the
			// guards of open/walk/create/readdir refuse a reference whose mode is zero
			hasXattr, modeKV := false, (*ast.KeyValueExpr)(nil)
			for _, el := range cl.Elts {
				if kv, ok := el.(*ast.KeyValueExpr); ok {
					switch kv.Key.(*ast.Ident).Name {
					case "pendingXattr":
						hasXattr = true
					case "mode":
						modeKV = kv
					}
				}
			}
			if hasXattr {
				r.check(modeKV == nil, "r5", fi.Key+": an xattr fid has no file type", cl.Pos(), "the reference created for a pending xattr operation leaves mode at zero",
					"the reference of an xattr fid is given a file type: Tlopen, Twalk, Tmkdir ... on the xattr fid pass their type guards and reach the backend instead of being refused")
			}
			for _, el := range cl.Elts {
				kv, ok := el.(*ast.KeyValueExpr)
				if !ok {
					continue
				}
				if k := kv.Key.(*ast.Ident).Name; k == "opened" || k == "openFlags" {
					key := fmt.Sprintf("%s: literal sets %s", fi.Key, k)
					r.check(m.onlyFor(fi, "p9.tlcreate.do"), "r5", key, kv.Pos(), "create literal (Tlcreate returns an open fid)", "a reference is born open outside Tlcreate")
				}
			}
			return true
		})
	}

	// r6: the request a handler acts on is the request that was sent: every decoder assigns
	// every field and resets every list of the recycled message object (the rule of C18.r1) -
	// a zero-name Twalkgetattr that keeps an earlier request's names walks instead of cloning
	if r.borrowed == nil {
		r.borrow(checkC18, map[string]string{"r1": "r6"})
	}
	c04XattrArm(r, m)
}

// c04XattrArm (r7): Txattrcreate arms a fid for a new value.  The checks that the following
// Twrites and the final Tclunk make (offset == bytes so far, total == announced size) start
// from an empty accumulation buffer, so arming must replace the pending state as a whole, or
// at least reset its buffer: a fid armed a second time (or armed after a Txattrwalk filled
// the buffer) would otherwise refuse the first write and never commit.
func c04XattrArm(r *Run, m *ServerModel) {
	info := m.Info
	fi := r.mustFunc("r7", "p9", "txattrcreate.handle")
	if fi == nil {
		return
	}
	isPending := func(e ast.Expr) bool {
		f := fieldOf(info, e)
		return f != nil && f.Name() == "pendingXattr" && strings.HasSuffix(types.TypeString(f.Type(), nil), "p9.pendingXattr")
	}
	// the handler and the private helpers it calls (one level)
	bodies := []*FuncInfo{fi}
	for _, s := range m.DB.ByFunc[fi] {
		if s.Call == nil {
			continue
		}
		if tf := r.L.FuncOf(callee(info, s.Call)); tf != nil && tf != fi && tf.Decl.Body != nil && !tf.Obj.Exported() && !pinnedFuncs[tf.Key] && tf.Pkg == fi.Pkg {
			bodies = append(bodies, tf)
		}
	}
	whole, bufReset, fieldwise := false, false, 0
	var at token.Pos
	for _, b := range bodies {
		ast.Inspect(b.Decl.Body, func(n ast.Node) bool {
			as, ok := n.(*ast.AssignStmt)
			if !ok {
				return true
			}
			for i, lhs := range as.Lhs {
				lhs = unparen(lhs)
				if st, isStar := lhs.(*ast.StarExpr); isStar {
					// *px = pendingXattr{...} with px := &ref.pendingXattr
					if id, isId := unparen(st.X).(*ast.Ident); isId {
						if d := m.resolver(b).defs[info.Uses[id]]; d != nil {
							if u, isAddr := unparen(d).(*ast.UnaryExpr); isAddr && u.Op == token.AND && isPending(u.X) {
								whole, at = true, as.Pos()
							}
						}
					}
					continue
				}
				if isPending(lhs) {
					whole, at = true, as.Pos()
					continue
				}
				sel, isSel := lhs.(*ast.SelectorExpr)
				if !isSel {
					continue
				}
				base := unparen(sel.X)
				viaAlias := false
				if id, isId := base.(*ast.Ident); isId {
					if d := m.resolver(b).defs[info.Uses[id]]; d != nil {
						if u, isAddr := unparen(d).(*ast.UnaryExpr); isAddr && u.Op == token.AND && isPending(u.X) {
							viaAlias = true
						}
					}
				}
				if !isPending(base) && !viaAlias {
					continue
				}
				fieldwise++
				if at == token.NoPos {
					at = as.Pos()
				}
				if sel.Sel.Name == "buf" && i < len(as.Rhs) && len(as.Lhs) == len(as.Rhs) {
					rhs := unparen(as.Rhs[i])
					if isNilIdent(info, rhs) {
						bufReset = true
					}
					if sl, isSl := rhs.(*ast.SliceExpr); isSl && sl.High != nil {
						if v, isC := constInt(info, sl.High); isC && v == 0 {
							bufReset = true // buf[:0]
						}
					}
					if cl, isCl := rhs.(*ast.CompositeLit); isCl && len(cl.Elts) == 0 {
						bufReset = true
					}
					if c, isCall := rhs.(*ast.CallExpr); isCall && len(c.Args) >= 2 {
						if id, isId := c.Fun.(*ast.Ident); isId && id.Name == "make" {
							if v, isC := constInt(info, c.Args[1]); isC && v == 0 {
								bufReset = true // make([]byte, 0, n)
							}
						}
					}
				}
			}
			return true
		})
	}
	switch {
	case whole:
		r.ok("r7", "txattrcreate.handle: arming replaces the pending xattr state", at, "whole-struct store: the accumulation buffer starts empty")
	case fieldwise > 0 && bufReset:
		r.ok("r7", "txattrcreate.handle: arming replaces the pending xattr state", at, "field-wise stores, the accumulation buffer among them")
	case fieldwise > 0:
		r.fail("r7", "txattrcreate.handle: arming replaces the pending xattr state", at, "the pending xattr state is updated field by field without resetting its accumulation buffer: a fid that is armed while the buffer holds bytes (armed twice, or after Txattrwalk) refuses the first Twrite at offset 0 and its Tclunk never commits the value")
	default:
		r.undecided("r7", "txattrcreate.handle: arming replaces the pending xattr state", fi.Decl.Pos(), "no store to the pending xattr state found in the handler: the rule's anchor no longer resolves")
	}
}

func nextStmt(l *Loaded, s ast.Stmt) ast.Stmt {
	if s == nil {
		return nil
	}
	blk, ok := l.parent(s).(*ast.BlockStmt)
	if !ok {
		return nil
	}
	for i, x := range blk.List {
		if x == s && i+1 < len(blk.List) {
			return blk.List[i+1]
		}
	}
	return nil
}

func isLocalLiteral(m *ServerModel, fi *FuncInfo, e ast.Expr) bool {
	return isLocalLiteralDepth(m, fi, e, 0)
}

func isLocalLiteralDepth(m *ServerModel, fi *FuncInfo, e ast.Expr, depth int) bool {
	if u, ok := unparen(e).(*ast.UnaryExpr); ok && u.Op == token.AND {
		_, isLit := unparen(u.X).(*ast.CompositeLit)
		return isLit
	}
	v, ok := objOf(m.Info, e).(*types.Var)
	if !ok {
		return false
	}
	res := m.resolver(fi)
	if d, ok := res.defs[v]; ok && d != nil {
		if u, ok := unparen(d).(*ast.UnaryExpr); ok && u.Op == token.AND {
			_, isLit := u.X.(*ast.CompositeLit)
			return isLit
		}
	}
	// the variable receives, once, result i of a private function of the package all of whose
	// returns hand back nil or a reference they built themselves in that position
	if depth >= 2 {
		return false
	}
	var def *ast.AssignStmt
	idx, n := -1, 0
	ast.Inspect(fi.Decl.Body, func(nd ast.Node) bool {
		switch st := nd.(type) {
		case *ast.AssignStmt:
			for i, lhs := range st.Lhs {
				if objOf(m.Info, lhs) == v {
					n++
					def, idx = st, i
				}
			}
		case *ast.UnaryExpr:
			if st.Op == token.AND && objOf(m.Info, st.X) == v {
				n += 2 // its address is taken: other stores are possible
			}
		}
		return true
	})
	if n != 1 || def == nil || len(def.Rhs) != 1 {
		return false
	}
	call, ok := unparen(def.Rhs[0]).(*ast.CallExpr)
	if !ok {
		return false
	}
	tf := m.L.FuncOf(callee(m.Info, call))
	if tf == nil || tf.Decl.Body == nil || tf.Pkg != fi.Pkg || tf.Obj.Exported() {
		return false
	}
	nret, okAll := 0, true
	inspectNoLit(tf.Decl.Body, func(nd ast.Node) {
		ret, ok := nd.(*ast.ReturnStmt)
		if !ok {
			return
		}
		nret++
		if idx >= len(ret.Results) {
			okAll = false
			return
		}
		x := unparen(ret.Results[idx])
		if isNilIdent(m.Info, x) {
			return
		}
		if !isLocalLiteralDepth(m, tf, x, depth+1) {
			okAll = false
		}
	})
	return nret > 0 && okAll
}

func c04FidFieldsUsed(r *Run, m *ServerModel, handlers []*FuncInfo) {
	info := m.Info
	fidT := r.L.Pkg("p9").Types.Scope().Lookup("fid").Type()
	// Group handle+do by receiver type.
	byType := map[string][]*FuncInfo{}
	for _, fi := range handlers {
		parts := strings.Split(fi.Key, ".")
		if len(parts) == 3 {
			byType[parts[1]] = append(byType[parts[1]], fi)
		}
	}
	// clunkHandleXattr belongs to tclunk.
	if fi := r.L.Func("p9", "clunkHandleXattr"); fi != nil {
		byType["tclunk"] = append(byType["tclunk"], fi)
	}
	var tnames []string
	for t := range byType {
		tnames = append(tnames, t)
	}
	sort.Strings(tnames)
	for _, tn := range tnames {
		nt := r.L.namedType("p9", tn)
		if nt == nil {
			continue
		}
		var fields []string
		wireFields(nt, "", &fields, 0)
		st, _ := nt.Underlying().(*types.Struct)
		_ = st
		// usage map: field name -> uses
		uses := map[string][]string{}
		for _, fi := range byType[tn] {
			// Embedded message types delegate to the embedded handler's do().
			ast.Inspect(fi.Decl.Body, func(n ast.Node) bool {
				sel, ok := n.(*ast.SelectorExpr)
				if !ok {
					return true
				}
				fld := fieldOf(info, sel)
				if fld == nil || !types.Identical(fld.Type(), fidT) {
					return true
				}
				how := "other"
				switch p := r.L.parent(sel).(type) {
				case *ast.CallExpr:
					switch calleeKey(info, p) {
					case "p9.connState.LookupFID":
						how = "lookup"
					case "p9.connState.InsertFID":
						how = "insert"
					case "p9.connState.DeleteFID":
						how = "delete"
					}
				case *ast.BinaryExpr:
					how = "compare"
				}
				uses[fld.Name()] = append(uses[fld.Name()], how)
				return true
			})
		}
		for _, f := range fields {
			// Only direct fid-typed fields of this struct (embedded ones are handled by their own type).
			parts := strings.Split(f, ".")
			fname := parts[len(parts)-1]
			var fv *types.Var
			cur := types.Type(nt)
			okPath := true
			for _, p := range parts {
				s, ok := cur.Underlying().(*types.Struct)
				if !ok {
					okPath = false
					break
				}
				found := false
				for i := 0; i < s.NumFields(); i++ {
					if s.Field(i).Name() == p {
						fv = s.Field(i)
						cur = fv.Type()
						found = true
					}
				}
				if !found {
					okPath = false
					break
				}
			}
			if !okPath || fv == nil || !types.Identical(fv.Type(), fidT) {
				continue
			}
			// Fields of embedded request types are used by the embedded type's do().
			if len(parts) > 1 && fv.Embedded() {
				continue
			}
			if len(parts) > 1 {
				// e.g. tucreate.tlcreate.fid or tattach.Auth.Authenticationfid
				outer := parts[0]
				if ont := r.L.namedType("p9", outer); ont != nil && byType[outer] != nil {
					continue // checked under the embedded type
				}
			}
			key := fmt.Sprintf("%s.%s", tn, f)
			u := uses[fname]
			if len(u) == 0 {
				if tn == "tauth" {
					r.ok("r1", key+" fid field", token.NoPos, "Tauth is refused unconditionally")
					continue
				}
				r.fail("r1", key+" fid field", nt.Obj().Pos(), "fid field %s is never looked up, inserted or compared by the handler", f)
				continue
			}
			sort.Strings(u)
			r.ok("r1", key+" fid field", nt.Obj().Pos(), "used as: %s", strings.Join(dedupe(u), ", "))
		}
	}
}

// c04Insert (r3).
func c04Insert(r *Run, m *ServerModel, hinfo map[*FuncInfo]*HandlerInfo) {
	info := m.Info
	n := 0
	for _, cs := range m.DB.Calls["p9.connState.InsertFID"] {
		if cs.St.Dead {
			continue
		}
		n++
		root := cs.Root
		res := m.resolver(root)
		key := fmt.Sprintf("%s: InsertFID(%s, %s)", root.Key, res.str(cs.Call.Args[0]), r.L.str(cs.Call.Args[1]))
		// (i) on every path to it, the error of every effectful call that ran has been tested
		// and found nil (a forward analysis: an error result is pending from the call until a
		// condition establishes that it is nil; paths that return the error leave).
		effectful := func(k string) bool {
			return strings.HasPrefix(k, "p9.File.") || k == "p9.Attacher.Attach" || k == "p9.doWalk" || k == "p9.walkOne"
		}
		var unchecked []string
		pend, seen := pendingErrors(m, root, effectful, cs.Call)
		if !seen {
			unchecked = append(unchecked, "the call site was not reached by the analysis")
		}
		for obj, k := range pend {
			name := obj.Name()
			if u, ok := res.uniq[obj]; ok {
				name = u
			}
			unchecked = append(unchecked, fmt.Sprintf("%s (error %s)", k, name))
		}
		sort.Strings(unchecked)
		if len(unchecked) > 0 {
			r.fail("r3", key, cs.Call.Pos(), "InsertFID is reachable although %v may have failed: a fid must be bound only when the request succeeds", dedupe(unchecked))
		} else {
			r.ok("r3", key, cs.Call.Pos(), "every backend/walk call that may precede it is known to have returned nil")
		}
		// (ii) all handler exits after it are success replies.
		bad := ""
		for _, ex := range m.DB.Exits[root] {
			if ex.St.Dead || !ex.St.May["p9.connState.InsertFID"] || ex.Ret == nil {
				continue
			}
			if ex.Ret.Pos() < cs.Call.Pos() {
				continue
			}
			lastRes := unparen(ex.Ret.Results[len(ex.Ret.Results)-1])
			if _, isErr := errnoExpr(info, lastRes); isErr {
				bad = r.L.relPos(ex.Ret.Pos())
			}
			if c, ok := lastRes.(*ast.CallExpr); ok && calleeKey(info, c) == "p9.newErr" {
				// an error reply after the fid was bound — allowed only if the variable is known nil... it is not
				bad = r.L.relPos(ex.Ret.Pos())
			}
		}
		r.check(bad == "", "r3", key+": exits after bind", cs.Call.Pos(), "every exit after the bind is a success reply", "an error reply at "+bad+" can follow the bind: the client would see a failure but the fid is bound")
	}
	r.floor("r3", "InsertFID sites", n, 5)
	// InsertFID itself releases a replaced binding.
	ins := r.mustFunc("r3", "p9", "connState.InsertFID")
	if ins != nil {
		released := false
		for _, s := range m.DB.ByFunc[ins] {
			_ = s
		}
		ast.Inspect(ins.Decl.Body, func(nd ast.Node) bool {
			if c, ok := nd.(*ast.CallExpr); ok && calleeKey(info, c) == "p9.fidRef.DecRef" {
				released = true
			}
			return true
		})
		r.check(released, "r3", "InsertFID releases the replaced binding", ins.Decl.Pos(), "origRef.DecRef() on replacement", "a replaced binding is not released")
	}
	// tlcreate rebinds its own fid.
	if fi := r.L.Func("p9", "tlcreate.do"); fi != nil {
		h := hinfo[fi]
		for _, cs := range m.DB.Calls["p9.connState.InsertFID"] {
			if cs.Root != fi {
				continue
			}
			res := m.resolver(fi)
			arg0 := res.str(cs.Call.Args[0])
			lookField := ""
			for _, c := range h.LookupSites {
				lookField = res.str(c.Args[0])
			}
			r.check(arg0 == lookField, "r3", "tlcreate rebinds its own fid", cs.Call.Pos(), "InsertFID("+arg0+") = the fid that was looked up", "Tlcreate binds "+arg0+" but looked up "+lookField)
		}
	}
}

// c04WalkGuards: EBUSY for in-place walks from an opened fid; per-step guards in doWalk.
func c04WalkGuards(r *Run, m *ServerModel, hinfo map[*FuncInfo]*HandlerInfo) {
	for _, nm := range []string{"twalk.handle", "twalkgetattr.handle"} {
		fi := r.mustFunc("r4", "p9", nm)
		if fi == nil {
			continue
		}
		h := hinfo[fi]
		for _, cs := range m.DB.Calls["p9.doWalk"] {
			if cs.Root != fi {
				continue
			}
			g := Guard{"walk in place from an opened fid", []Lit{L(true, "$fid.opened"), L(true, "$t.fid == $t.newFID", "$t.newFID == $t.fid")}, 16}
			ok, detail := m.checkGuard(h, cs.St, g, m.exitsDeep(fi))
			key := fmt.Sprintf("p9.%s → doWalk: guard %q", nm, g.Name)
			if ok {
				r.ok("r4", key, cs.Call.Pos(), "%s", detail)
			} else {
				r.fail("r4", key, cs.Call.Pos(), "%s", detail)
			}
		}
	}
	dw := r.mustFunc("r4", "p9", "doWalk")
	if dw == nil {
		return
	}
	h := &HandlerInfo{Fi: dw, Lookups: map[string]string{}}
	for _, b := range m.Backend {
		if b.Outer == nil || b.Outer.Root != dw || isNilIdent(m.Info, unparen(b.Args[0])) {
			continue
		}
		for _, g := range []Guard{
			{"step from a non-directory", []Lit{L(false, b.Base+".mode.IsDir()")}, 22},
			{"step from a deleted directory", []Lit{L(true, b.Base+".isDeleted()")}, 2},
		} {
			ok, detail := m.checkGuard(h, b.Outer.St, g, m.exitsDeep(dw))
			key := fmt.Sprintf("%s: guard %q", b.Key(), g.Name)
			if ok {
				r.ok("r4", key, b.Outer.Call.Pos(), "%s", detail)
			} else {
				r.fail("r4", key, b.Outer.Call.Pos(), "%s", detail)
			}
		}
	}
}

func c04Misc(r *Run, m *ServerModel, hinfo map[*FuncInfo]*HandlerInfo) {
	info := m.Info
	// Tauth: ENOSYS on every exit.
	if fi := r.mustFunc("r4", "p9", "tauth.handle"); fi != nil {
		okAll := len(m.DB.Exits[fi]) > 0
		for _, ex := range m.DB.Exits[fi] {
			if v, ok := errnoOf(info, ex.Ret); !ok || v != 38 {
				okAll = false
			}
		}
		r.check(okAll, "r4", "p9.tauth.handle: ENOSYS", fi.Decl.Pos(), "every exit returns ENOSYS", "Tauth is not refused with ENOSYS on every path")
	}
	// Tattach: auth fid must be NOFID → EINVAL, before Attach; valid.Mode.
	if fi := r.mustFunc("r4", "p9", "tattach.handle"); fi != nil {
		h := hinfo[fi]
		for _, b := range m.Backend {
			if b.Site.Root != fi || b.Method != "Attach" {
				continue
			}
			g := Guard{"attach with an auth fid", []Lit{L(false, "$t.Auth."+r.L.authFidField()+" == noFID", "noFID == $t.Auth."+r.L.authFidField())}, 22}
			ok, detail := m.checkGuard(h, b.Site.St, g, m.exitsDeep(fi))
			if ok {
				r.ok("r4", "p9.tattach.handle: guard \"attach with an auth fid\"", b.Site.Call.Pos(), "%s", detail)
			} else {
				r.fail("r4", "p9.tattach.handle: guard \"attach with an auth fid\"", b.Site.Call.Pos(), "%s", detail)
			}
		}
	}
	// xattr sub-protocol: tread/twrite switch on pendingXattr.op has a default → EINVAL.
	for _, nm := range []string{"tread.handle", "twrite.handle"} {
		fi := r.mustFunc("r4", "p9", nm)
		if fi == nil {
			continue
		}
		// every path on which the pending-xattr state was compared with each state the handler
		// serves and matched none of them ends in EINVAL - whether the dispatch is a switch with
		// a default or a chain of ifs
		found, okDefault := false, true
		// the function (the handler or the literal it hands to safelyRead) that dispatches
		dispatchFn := map[ast.Node]bool{}
		ast.Inspect(fi.Decl.Body, func(n ast.Node) bool {
			if sel, ok := n.(*ast.SelectorExpr); ok && sel.Sel.Name == "op" && strings.HasSuffix(r.L.str(sel), ".pendingXattr.op") {
				dispatchFn[r.L.enclosingFunc(sel)] = true
			}
			return true
		})
		for _, ex := range m.DB.Exits[fi] {
			if ex.St.Dead || ex.Ret == nil || !dispatchFn[ex.Fn] {
				continue
			}
			for _, p := range ex.St.Paths {
				nOp, allFalse := 0, true
				for k, v := range p {
					if strings.Contains(k, ".pendingXattr.op == ") {
						nOp++
						if v {
							allFalse = false
						}
					}
				}
				if nOp < 2 || !allFalse {
					continue
				}
				found = true
				if v, isErrno := errnoOf(info, ex.Ret); !isErrno || v != 22 {
					okDefault = false
				}
			}
		}
		if !found {
			r.undecided("r4", "p9."+nm+": xattr dispatch", fi.Decl.Pos(), "no path on which pendingXattr.op matched none of the served states was found")
		} else {
			r.check(okDefault, "r4", "p9."+nm+": xattr dispatch default", fi.Decl.Pos(), "unserved state → EINVAL", "a pending-xattr state the handler does not serve does not end in EINVAL: an unexpected xattr state would fall through")
		}
	}
	// CanOpen is true exactly for regular/dir/pipe/block/char.
	if fi := r.mustFunc("r4", "p9", "CanOpen"); fi != nil {
		// the set of file types CanOpen accepts, however it is written (disjunction of IsX(),
		// switch on FileType(), ...)
		mt := &modeTab{l: r.L, info: info}
		accepted, okShape := mt.boolFunc(fi, mt.envOf(fi), 0)
		set := map[string]bool{}
		for t := range accepted {
			set[map[uint64]string{0o140000: "IsSocket", 0o120000: "IsSymlink", 0o100000: "IsRegular", 0o60000: "IsBlockDevice", 0o40000: "IsDir", 0o20000: "IsCharacterDevice", 0o10000: "IsNamedPipe"}[t]] = true
		}
		got := strings.Join(sortedKeys(set), ",")
		want := "IsBlockDevice,IsCharacterDevice,IsDir,IsNamedPipe,IsRegular"
		if !okShape {
			r.undecided("r4", "p9.CanOpen", fi.Decl.Pos(), "body cannot be reduced to a set of accepted file types")
		} else {
			r.check(got == want, "r4", "p9.CanOpen", fi.Decl.Pos(), "openable types = {"+got+"}", "openable types are {"+got+"}, the property allows exactly {"+want+"}")
		}
	}
}

func isMaskedFlags(s string) bool {
	s = strings.ReplaceAll(s, " ", "")
	return strings.HasSuffix(s, ".Mode()") || strings.Contains(s, "&OpenFlagsModeMask") || strings.Contains(s, "OpenFlagsModeMask&") ||
		s == "ReadOnly" || s == "WriteOnly" || s == "ReadWrite"
}

func openFlagsStoresMasked(r *Run, m *ServerModel) bool {
	info := m.Info
	all, n := true, 0
	for _, fa := range m.fields() {
		if !fa.Write || fa.Key != "p9.fidRef.openFlags" {
			continue
		}
		as, ok := r.L.parent(fa.Sel).(*ast.AssignStmt)
		if !ok || len(as.Lhs) != len(as.Rhs) {
			all = false
			continue
		}
		for i, l := range as.Lhs {
			if l == ast.Expr(fa.Sel) {
				n++
				if !isMaskedFlags(r.L.str(as.Rhs[i])) {
					all = false
				}
			}
		}
	}
	fidRefT := r.L.namedType("p9", "fidRef")
	for _, fi := range r.L.funcsOfPkg("p9") {
		if fi.Decl.Body == nil {
			continue
		}
		ast.Inspect(fi.Decl.Body, func(nd ast.Node) bool {
			cl, ok := nd.(*ast.CompositeLit)
			if !ok || !types.Identical(info.TypeOf(cl), fidRefT) {
				return true
			}
			for _, el := range cl.Elts {
				if kv, ok := el.(*ast.KeyValueExpr); ok && kv.Key.(*ast.Ident).Name == "openFlags" {
					n++
					if !isMaskedFlags(r.L.str(kv.Value)) {
						all = false
					}
				}
			}
			return true
		})
	}
	return all && n > 0
}

func withUnmaskedAlternatives(g Guard) Guard {
	out := Guard{Name: g.Name, Errno: g.Errno}
	for _, l := range g.Lits {
		nl := Lit{Pol: l.Pol, Keys: append([]string{}, l.Keys...)}
		for _, k := range l.Keys {
			if strings.Contains(k, ".openFlags & OpenFlagsModeMask == ") {
				nl.Keys = append(nl.Keys, strings.Replace(k, ".openFlags & OpenFlagsModeMask == ", ".openFlags == ", 1))
			}
		}
		out.Lits = append(out.Lits, nl)
	}
	return out
}

// pendingErrors: the error results of calls selected by effectful that, on some path to the
// node containing target, have been assigned and not (yet) established to be nil.
func pendingErrors(m *ServerModel, root *FuncInfo, effectful func(key string) bool, target ast.Node) (map[types.Object]string, bool) {
	info := root.Pkg.TypesInfo
	type pset = map[types.Object]string
	cp := func(a pset) pset {
		o := pset{}
		for k, v := range a {
			o[k] = v
		}
		return o
	}
	a := &Analysis[pset]{L: m.L, Info: info, Wrappers: m.DB.Wrappers, Inline: inlinePolicy[pset](m.DB, root),
		Join: func(x, y pset) pset {
			o := cp(x)
			for k, v := range y {
				o[k] = v
			}
			return o
		},
		Equal: func(x, y pset) bool {
			if len(x) != len(y) {
				return false
			}
			for k := range x {
				if _, ok := y[k]; !ok {
					return false
				}
			}
			return true
		},
		Copy: cp,
	}
	a.Stmt = func(s pset, n ast.Node, fc *FlowCtx[pset]) pset {
		as, ok := n.(*ast.AssignStmt)
		if !ok {
			return s
		}
		for _, l := range as.Lhs {
			if obj := objOf(info, l); obj != nil {
				delete(s, obj) // overwritten
			}
		}
		if len(as.Rhs) == 1 {
			if call, ok := unparen(as.Rhs[0]).(*ast.CallExpr); ok {
				if k := calleeKey(info, call); effectful(k) {
					last := unparen(as.Lhs[len(as.Lhs)-1])
					if obj := objOf(info, last); obj != nil && isErrorType(obj.Type()) {
						s[obj] = k
					} else if id, isId := last.(*ast.Ident); isId && id.Name == "_" {
						s[discardedError] = k // thrown away: can never be tested
					}
				}
			}
		}
		return s
	}
	// nilOn lists the variables that cond == branch establishes to be nil.
	var nilOn func(cond ast.Expr, branch bool) []types.Object
	nilOn = func(cond ast.Expr, branch bool) []types.Object {
		cond = unparen(cond)
		if u, ok := cond.(*ast.UnaryExpr); ok && u.Op == token.NOT {
			return nilOn(u.X, !branch)
		}
		be, ok := cond.(*ast.BinaryExpr)
		if !ok {
			return nil
		}
		switch be.Op {
		case token.LAND, token.LOR:
			if (be.Op == token.LAND) == branch {
				return append(nilOn(be.X, branch), nilOn(be.Y, branch)...)
			}
			// decided by either operand: only what both establish
			var out []types.Object
			ys := nilOn(be.Y, branch)
			for _, x := range nilOn(be.X, branch) {
				for _, y := range ys {
					if x == y {
						out = append(out, x)
					}
				}
			}
			return out
		case token.EQL, token.NEQ:
			x, y := unparen(be.X), unparen(be.Y)
			if isNilIdent(info, x) {
				x, y = y, x
			}
			if !isNilIdent(info, y) || (be.Op == token.EQL) != branch {
				return nil
			}
			if obj := objOf(info, x); obj != nil {
				return []types.Object{obj}
			}
		}
		return nil
	}
	a.Cond = func(s pset, cond ast.Expr, branch bool, fc *FlowCtx[pset]) pset {
		for _, obj := range nilOn(cond, branch) {
			delete(s, obj)
		}
		return s
	}
	var out pset
	seen := false
	a.Visit = func(s pset, n ast.Node, fc *FlowCtx[pset]) {
		switch n.(type) {
		case *ast.BlockStmt, *ast.IfStmt, *ast.ForStmt, *ast.RangeStmt, *ast.SwitchStmt, *ast.TypeSwitchStmt, *ast.SelectStmt, *ast.CaseClause, *ast.CommClause, *ast.LabeledStmt:
			return
		}
		inside := false // the target is part of this node itself, not of a literal written in it
		inspectNoLit(n, func(x ast.Node) {
			if x == target {
				inside = true
			}
		})
		if !inside {
			return
		}
		if !seen {
			out, seen = pset{}, true
		}
		for k, v := range s {
			if fc.Nil[k] == isNil {
				continue // the engine knows it is nil here (e.g. returned by a closure whose result was tested)
			}
			out[k] = v
		}
	}
	a.Run(root.Decl, pset{})
	return out, seen
}

// discardedError stands for an error result that was assigned to the blank identifier.
var discardedError types.Object = types.NewVar(token.NoPos, nil, "_", types.Universe.Lookup("error").Type())
