package main

import (
	"fmt"
	"go/ast"
	"go/token"
	"go/types"
	"strings"
)

func init() {
	register(&propInfo{
		id: "C09", fn: checkC09, multiConfig: true,
		explanation: "Name confinement decided per call site: (r1) checkSafeName returns nil only on paths where the name is known to be non-empty, to contain no '/', and to differ from '.' and '..' (path facts at its nil-returning exits; every other exit returns EINVAL); (r2) every argument in a name position of a backend call (Walk/WalkGetAttr list, Create, Mkdir, Mknod, Symlink new name, Link, RenameAt both names, UnlinkAt) is a request field for which a checkSafeName call on the same expression is known to have returned nil on every path to the call, or a slice of the list that doWalk's leading loop checked element by element, or the result of nameFor (a name that entered the tree through a checked position), or nil; (r3) walkOne refuses more than one name, doWalk passes one-element sub-slices, each step is dominated by the IsDir test of the reference walked from and the next reference's mode comes from the attributes of the file just walked; (r4) tattach reaches the backend only through Attach, GetAttr on the fresh root and doWalk. The quantifier over all strings is absorbed by r1. (r5) an entry cannot be removed (and replaced by a symlink) between the checks of a walk step and its backend call: File calls are made under the path-node locks of their class and UnlinkAt holds the write lock of the node of the removed entry (the rule of C07.r3). (r6) a walk never starts from a directory that was removed and replaced: deletion fences reach every fid of the removed entry because path nodes follow renames (the rules of C08.r3).",
		assumptions: []string{"strings.Contains / strings.IndexByte etc. behave as documented"},
	})
}

var namePositions = map[string][]int{
	"Walk": {0}, "WalkGetAttr": {0}, "Create": {0}, "Mkdir": {0}, "Mknod": {0}, "Symlink": {1}, "Link": {1}, "RenameAt": {0, 2}, "UnlinkAt": {0},
}

func checkC09(r *Run) {
	m := buildServerModel(r.L)
	c09CheckSafeName(r, m)
	c09NamePositions(r, m)
	c09OneStep(r, m)
	c09Attach(r, m)

	// r5: no walk step is in flight on an entry while it is removed (and possibly replaced by a
	// symlink): Tunlinkat holds the write lock of the entry's path node, the walk step holds it
	// for read across its deleted-check and its backend call (the rule of C07.r3).
	if r.borrowed == nil {
		r.borrow(checkC07, map[string]string{"r3": "r5"})
		// r6: the cached "is a directory" stays truthful: a removed directory is fenced on every
		// fid that denotes it because path nodes follow renames (the rules of C08.r3)
		r.borrow(checkC08, map[string]string{"r3": "r6"})
	}
}

// slashFree: the facts say the name contains no '/'.
func slashFree(f FactSet, name string) bool {
	q := func(s string) string { return strings.ReplaceAll(s, "NAME", name) }
	neg := []string{`strings.Contains(NAME, "/")`, `strings.ContainsRune(NAME, '/')`, `strings.ContainsAny(NAME, "/")`,
		`strings.IndexByte(NAME, '/') > -1`, `strings.Index(NAME, "/") > -1`, `strings.IndexRune(NAME, '/') > -1`}
	for _, k := range neg {
		if v, ok := f[q(k)]; ok && !v {
			return true
		}
	}
	pos := []string{`0 > strings.IndexByte(NAME, '/')`, `0 > strings.Index(NAME, "/")`, `0 > strings.IndexRune(NAME, '/')`,
		`strings.IndexByte(NAME, '/') == -1`, `strings.Index(NAME, "/") == -1`, `strings.IndexRune(NAME, '/') == -1`}
	for _, k := range pos {
		if v, ok := f[q(k)]; ok && v {
			return true
		}
	}
	return false
}

func neqFact(f FactSet, name, lit string) bool {
	for _, k := range []string{name + " == " + lit, lit + " == " + name} {
		if v, ok := f[k]; ok && !v {
			return true
		}
	}
	if lit == `""` {
		for _, k := range []string{"len(" + name + ") == 0"} {
			if v, ok := f[k]; ok && !v {
				return true
			}
		}
		for _, k := range []string{"len(" + name + ") > 0"} {
			if v, ok := f[k]; ok && v {
				return true
			}
		}
	}
	return false
}

func c09CheckSafeName(r *Run, m *ServerModel) {
	fi := r.mustFunc("r1", "p9", "checkSafeName")
	if fi == nil {
		return
	}
	if fi.Decl.Type.Params.NumFields() != 1 || len(fi.Decl.Type.Params.List[0].Names) != 1 {
		r.undecided("r1", "checkSafeName", fi.Decl.Pos(), "unexpected signature")
		return
	}
	name := fi.Decl.Type.Params.List[0].Names[0].Name
	exits := m.DB.Exits[fi]
	nNil, nErr := 0, 0
	for _, ex := range exits {
		if ex.St.Dead || ex.Ret == nil || len(ex.Ret.Results) != 1 {
			if ex.Ret == nil && !ex.St.Dead {
				r.undecided("r1", "checkSafeName", fi.Decl.Pos(), "function can fall off its end")
			}
			continue
		}
		res := unparen(ex.Ret.Results[0])
		if isNilIdent(m.Info, res) {
			nNil++
			var missing []string
			for _, p := range ex.St.Paths {
				if !neqFact(p, name, `""`) {
					missing = append(missing, "name may be empty")
				}
				if !slashFree(p, name) {
					missing = append(missing, "name may contain '/'")
				}
				if !neqFact(p, name, `"."`) {
					missing = append(missing, `name may be "."`)
				}
				if !neqFact(p, name, `".."`) {
					missing = append(missing, `name may be ".."`)
				}
			}
			if len(missing) > 0 {
				r.fail("r1", "checkSafeName returns nil", ex.Ret.Pos(), "a path returns nil although %s (facts on that path: %s)", strings.Join(dedupe(missing), ", "), describePaths(ex.St))
			} else {
				r.ok("r1", "checkSafeName returns nil", ex.Ret.Pos(), "nil is returned only when name != \"\", contains no '/', != \".\", != \"..\" (facts: %s)", describePaths(ex.St))
			}
			continue
		}
		nErr++
		if v, ok := constInt(m.Info, res); ok && v == 22 {
			r.ok("r1", "checkSafeName rejects with EINVAL", ex.Ret.Pos(), "returns linux.EINVAL")
		} else {
			r.fail("r1", "checkSafeName rejects with EINVAL", ex.Ret.Pos(), "rejecting exit returns %s, the property requires EINVAL", r.L.str(res))
		}
	}
	if nNil == 0 || nErr == 0 {
		r.undecided("r1", "checkSafeName", fi.Decl.Pos(), "expected at least one nil and one EINVAL exit, found %d / %d", nNil, nErr)
	}
}

func dedupe(in []string) []string {
	seen := map[string]bool{}
	var out []string
	for _, s := range in {
		if !seen[s] {
			seen[s] = true
			out = append(out, s)
		}
	}
	return out
}

func describePaths(st *HState) string {
	var ps []string
	for _, p := range st.Paths {
		ps = append(ps, "["+p.key()+"]")
	}
	return strings.Join(ps, " | ")
}

// loopChecked: fn has a leading range loop over the parameter that applies checkSafeName to
// every element and returns on error, before any other statement that could call the backend.
func loopChecked(m *ServerModel, fi *FuncInfo, param types.Object) (token.Pos, bool) {
	info := m.Info
	for _, s := range fi.Decl.Body.List {
		rs, ok := s.(*ast.RangeStmt)
		if !ok {
			// Only declarations may precede the loop.
			if _, isDecl := s.(*ast.DeclStmt); isDecl {
				continue
			}
			return token.NoPos, false
		}
		if objOf(info, rs.X) != param || rs.Value == nil {
			return token.NoPos, false
		}
		elem := info.Defs[rs.Value.(*ast.Ident)]
		body := rs.Body.List
		if len(body) == 1 {
			// if err := checkSafeName(name); err != nil { return ... }
			if ifs, ok := body[0].(*ast.IfStmt); ok && ifs.Init != nil && ifs.Else == nil {
				cp := *ifs
				cp.Init = nil
				body = []ast.Stmt{ifs.Init, &cp}
			}
		}
		if len(body) != 2 {
			return token.NoPos, false
		}
		// err = checkSafeName(name)  |  if err := checkSafeName(name); err != nil { return }
		var errObj types.Object
		if as, ok := body[0].(*ast.AssignStmt); ok && len(as.Rhs) == 1 && len(as.Lhs) == 1 {
			call, ok := as.Rhs[0].(*ast.CallExpr)
			if !ok || calleeKey(info, call) != "p9.checkSafeName" || len(call.Args) != 1 || objOf(info, call.Args[0]) != elem {
				return token.NoPos, false
			}
			errObj = objOf(info, as.Lhs[0])
		} else {
			return token.NoPos, false
		}
		ifs, ok := body[1].(*ast.IfStmt)
		if !ok || ifs.Init != nil {
			return token.NoPos, false
		}
		be, ok := ifs.Cond.(*ast.BinaryExpr)
		if !ok || be.Op != token.NEQ || objOf(info, be.X) != errObj || !isNilIdent(info, unparen(be.Y)) || !endsInReturn(ifs.Body) {
			return token.NoPos, false
		}
		// The parameter must not be reassigned anywhere in the function.
		reassigned := false
		ast.Inspect(fi.Decl.Body, func(n ast.Node) bool {
			if as, ok := n.(*ast.AssignStmt); ok {
				for _, l := range as.Lhs {
					if objOf(info, l) == param {
						reassigned = true
					}
				}
			}
			return true
		})
		return rs.Pos(), !reassigned
	}
	return token.NoPos, false
}

func c09NamePositions(r *Run, m *ServerModel) {
	info := m.Info
	n := 0
	for _, b := range m.Backend {
		posns, ok := namePositions[b.Method]
		if !ok || b.Fresh && b.Method != "Walk" {
			continue
		}
		for _, ai := range posns {
			if ai >= len(b.Args) {
				continue
			}
			n++
			arg := unparen(b.Args[ai])
			argStr := b.ArgStrs[ai]
			key := fmt.Sprintf("%s arg %d (%s)", b.Key(), ai, argStr)
			pos := b.Site.Call.Pos()
			root := b.Site.Root
			st := b.Site.St
			if b.Outer != nil {
				root = b.Outer.Root
				st = b.Outer.St
				pos = b.Outer.Call.Pos()
			}
			if st.Dead {
				continue
			}
			// (d) nil / empty list
			if isNilIdent(info, arg) {
				r.ok("r2", key, pos, "no name (clone)")
				continue
			}
			// (c) nameFor result
			if strings.Contains(argStr, ".nameFor(") {
				r.ok("r2", key, pos, "name comes from the path tree (nameFor): it entered through a checked position")
				continue
			}
			// (b) slice / element of a loop-checked parameter
			baseExpr := arg
			if sl, ok := arg.(*ast.SliceExpr); ok {
				baseExpr = unparen(sl.X)
			} else if ix, ok := arg.(*ast.IndexExpr); ok {
				baseExpr = unparen(ix.X)
			}
			if v, ok := objOf(info, baseExpr).(*types.Var); ok && paramIndex(root, info, v) >= 0 {
				at := b.Site.rootPos()
				if b.Outer != nil {
					at = b.Outer.rootPos()
				}
				if lp, ok := loopChecked(m, root, v); ok && lp < at {
					r.ok("r2", key, pos, "element(s) of parameter %s, every element of which is checked by the leading loop of %s", v.Name(), root.Key)
					continue
				}
			}
			// (a) a checkSafeName call on the same expression is known to have returned nil
			if m.checkedBy(st, root, "p9.checkSafeName", argStr) {
				r.ok("r2", key, pos, "checkSafeName(%s) == nil holds on every path to the call", argStr)
				continue
			}
			r.fail("r2", key, pos, "name %s reaches the backend without a dominating successful checkSafeName on the same value (facts: %s)", argStr, describePaths(st))
		}
	}
	r.floor("r2", "backend name positions", n, 13)
}

func c09OneStep(r *Run, m *ServerModel) {
	info := m.Info
	// walkOne: backend walks are dominated by !(len(names) > 1).
	wo := r.mustFunc("r3", "p9", "walkOne")
	nsteps := 0
	for _, b := range m.Backend {
		if b.Via != "walkOne" || (b.Method != "Walk" && b.Method != "WalkGetAttr") {
			continue
		}
		// inner site state (inside walkOne)
		inner := b.Site.St
		inRes := m.resolver(b.Site.Root)
		_ = inRes
		okOne := false
		for _, k := range []string{"len(names) > 1", "1 > len(names)"} {
			_ = k
		}
		// find the name parameter of the inner call
		innerArg := ""
		if len(b.Site.Call.Args) > 0 {
			innerArg = m.resolver(b.Site.Root).str(b.Site.Call.Args[0])
		}
		if inner.holds("len("+innerArg+") > 1", false) {
			okOne = true
		}
		key := b.Key()
		r.check(okOne, "r3", key+": at most one name", b.Site.Call.Pos(), "walkOne refuses more than one name before calling the backend", "backend walk in walkOne is not dominated by the rejection of len(names) > 1")
		// outer: doWalk step passes a one-element slice and is dominated by IsDir of the walked reference.
		if isNilIdent(info, unparen(b.Args[0])) {
			continue // clone
		}
		nsteps++
		sl, ok := unparen(b.Args[0]).(*ast.SliceExpr)
		one := false
		if ok && sl.Low != nil && sl.High != nil {
			lo := r.L.str(sl.Low)
			hi := strings.ReplaceAll(r.L.str(sl.High), " ", "")
			one = hi == lo+"+1" || hi == "1+"+lo
		}
		r.check(one, "r3", key+": one component per step", b.Outer.Call.Pos(), "names["+"i:i+1]", "the step passes "+b.ArgStrs[0]+", not a one-element sub-slice")
		dirFact := b.Base + ".mode.IsDir()"
		r.check(b.Outer.St.holds(dirFact, true), "r3", key+": only through directories", b.Outer.Call.Pos(),
			dirFact+" holds on every path to the step", "the step from "+b.Base+" is not dominated by "+dirFact+" (facts: "+describePaths(b.Outer.St)+")")
	}
	if wo != nil {
		r.floor("r3", "walk steps through walkOne", nsteps, 2)
	}
	// The mode of every non-clone literal in doWalk comes from attributes of the walked file.
	dw := r.mustFunc("r3", "p9", "doWalk")
	if dw != nil {
		fidRefT := r.L.namedType("p9", "fidRef")
		res := m.resolver(dw)
		ast.Inspect(dw.Decl.Body, func(n ast.Node) bool {
			cl, ok := n.(*ast.CompositeLit)
			if !ok || !types.Identical(info.TypeOf(cl), fidRefT) {
				return true
			}
			fields := map[string]ast.Expr{}
			for _, el := range cl.Elts {
				if kv, ok := el.(*ast.KeyValueExpr); ok {
					fields[kv.Key.(*ast.Ident).Name] = kv.Value
				}
			}
			parent := ""
			if p, ok := fields["parent"]; ok {
				parent = res.str(p)
			}
			mode := ""
			if mm, ok := fields["mode"]; ok {
				mode = res.str(mm)
			}
			if strings.HasSuffix(parent, ".parent") {
				// clone: inherits the mode of the reference it copies
				r.check(strings.HasSuffix(mode, ".mode"), "r3", "doWalk clone literal mode", cl.Pos(), "mode = "+mode, "clone literal's mode is "+mode+", not the cloned reference's mode")
				return true
			}
			// the attributes of the file just walked: the Attr-typed result of the walkOne call
			attrN := ""
			ast.Inspect(dw.Decl.Body, func(n2 ast.Node) bool {
				as, ok := n2.(*ast.AssignStmt)
				if !ok || len(as.Rhs) != 1 {
					return true
				}
				if c, ok := unparen(as.Rhs[0]).(*ast.CallExpr); ok && calleeKey(info, c) == "p9.walkOne" {
					for _, l := range as.Lhs {
						if t := info.TypeOf(l); t != nil && strings.HasSuffix(types.TypeString(t, nil), "p9.Attr") {
							attrN = res.str(l)
						}
					}
				}
				return true
			})
			r.check(attrN != "" && mode == attrN+".Mode.FileType()", "r3", "doWalk step literal mode", cl.Pos(), "mode = attr.Mode.FileType() (attributes of the file just walked)", "step literal's mode is "+mode+": the directory test of the next step would not speak about the walked file")
			return true
		})
		// getattr is forced true for steps.
		for _, cs := range m.DB.Calls["p9.walkOne"] {
			if cs.Root != dw || len(cs.Call.Args) < 4 || isNilIdent(info, unparen(cs.Call.Args[2])) {
				continue
			}
			tv := constValue(info, cs.Call.Args[3])
			r.check(tv != nil && tv.String() == "true", "r3", "doWalk step requests attributes", cs.Call.Pos(), "walkOne(..., true)", "step does not force getattr: the type of the next component would be unknown")
		}
	}
}

func c09Attach(r *Run, m *ServerModel) {
	fi := r.mustFunc("r4", "p9", "tattach.handle")
	if fi == nil {
		return
	}
	info := m.Info
	for _, b := range m.Backend {
		if b.Site.Root != fi && (b.Outer == nil || b.Outer.Root != fi) {
			continue
		}
		switch {
		case b.Method == "Attach":
			r.ok("r4", "tattach: "+b.Key(), b.Site.Call.Pos(), "root from Attacher.Attach()")
		case b.Fresh && (b.Method == "GetAttr" || b.Method == "Close"):
			r.ok("r4", "tattach: "+b.Key(), b.Site.Call.Pos(), "on the fresh root")
		default:
			r.fail("r4", "tattach: "+b.Key(), b.Site.Call.Pos(), "tattach reaches the backend through %s, bypassing the checked walk", b.Method)
		}
	}
	// The only walk is doWalk(cs, root, strings.Split(name, "/"), ...).
	n := 0
	for _, cs := range m.DB.Calls["p9.doWalk"] {
		if cs.Root != fi {
			continue
		}
		n++
		arg := unparen(cs.Call.Args[2])
		okSplit := false
		if v, ok := objOf(info, arg).(*types.Var); ok {
			res := m.resolver(fi)
			if d, ok := res.defs[v]; ok && d != nil {
				if c, ok := unparen(d).(*ast.CallExpr); ok && calleeKey(info, c) == "strings.Split" && len(c.Args) == 2 {
					if sv := constValue(info, c.Args[1]); sv != nil && sv.String() == `"/"` {
						okSplit = true
					}
				}
			}
		}
		r.check(okSplit, "r4", "tattach walks strings.Split(name, \"/\") through doWalk", cs.Call.Pos(), "attach name split at '/' and walked component-wise by doWalk (which checks every component)", "the attach name is not split at '/' before doWalk")
	}
	if n == 0 {
		r.fail("r4", "tattach walks through doWalk", fi.Decl.Pos(), "tattach.handle no longer calls doWalk: attach names would bypass the traversal checks")
	}
	// root.mode from attr under valid.Mode.
	fidRefT := r.L.namedType("p9", "fidRef")
	res := m.resolver(fi)
	ast.Inspect(fi.Decl.Body, func(nd ast.Node) bool {
		cl, ok := nd.(*ast.CompositeLit)
		if !ok || !types.Identical(info.TypeOf(cl), fidRefT) {
			return true
		}
		for _, el := range cl.Elts {
			if kv, ok := el.(*ast.KeyValueExpr); ok && kv.Key.(*ast.Ident).Name == "mode" {
				mode := res.str(kv.Value)
				// the attribute variable: third result of the GetAttr on the attached file
				attrName := m.resultName(fi, 2, isCallTo(info, "p9.File.GetAttr"))
				r.check(attrName != "" && mode == attrName+".Mode.FileType()", "r4", "tattach root mode", cl.Pos(), "root mode = the file type GetAttr reported", "root mode is "+mode+", not the file type of the attributes GetAttr returned")
			}
		}
		return true
	})
}
