// p9check is a repository-specific static analyser for hugelgupf/p9.
//
// It decides the structural clauses of properties C01..C20 (see /verif/DESIGN.md)
// by loading /repo's current source with go/packages and inspecting the typed
// syntax trees, control-flow graphs and SSA form.  Nothing from /repo is executed.
package main

import (
	"encoding/json"
	"flag"
	"fmt"
	"os"
	"os/exec"
	"path/filepath"
	"runtime/debug"
	"sort"
	"strconv"
	"strings"
	"sync"
	"time"
)

const moduleFlag = "github.com/hugelgupf/p9"

var (
	flagProp     = flag.String("prop", "", "property id (C01..C20) or 'all'")
	flagTier     = flag.String("tier", "", "quick|thorough (default: $VERIF_TIER or quick)")
	flagRepo     = flag.String("repo", "/repo", "repository to analyse")
	flagVerif    = flag.String("verif", "/verif", "verification directory (evidence, known findings)")
	flagEvidence = flag.String("evidence", "", "evidence file (default <verif>/evidence/<prop>.json)")
	flagConfig   = flag.String("config", "", "internal: analyse exactly this GOOS/GOARCH and emit raw obligations as JSON on stdout")
	flagExplain  = flag.String("explain", "", "replay: re-derive the obligation stored in this violation file")
	flagList     = flag.Bool("list", false, "print every obligation")
	flagFixture  = flag.String("fixture", "", "internal: analyse a fixture directory instead of the repo (selftest)")
	flagAlarms   = flag.Bool("alarms", false, "development: load the tree once (linux/amd64), run the rules of every property on it and print the obligations that are not discharged (the corpora of tools/*_matrix.sh; the registered checks never use this)")
	flagGenAnch  = flag.Bool("gen-anchors", false, "development: print anchors_gen.go for the tree given by -repo")
)

// propFunc analyses one build configuration for one property.
type propFunc func(r *Run)

type propInfo struct {
	id          string
	fn          propFunc
	needSSA     bool
	multiConfig bool // thorough tier analyses all four configurations
	explanation string
	assumptions []string
	trusted     []string
}

var props = map[string]*propInfo{}

func register(p *propInfo) { props[p.id] = p }

var quickConfigs = []string{"linux/amd64"}
var thoroughConfigs = []string{"linux/amd64", "linux/386", "windows/amd64", "darwin/arm64"}

func main() {
	flag.Parse()
	if *flagGenAnch {
		if err := genAnchors(*flagRepo); err != nil {
			fmt.Fprintln(os.Stderr, err)
			os.Exit(2)
		}
		return
	}
	tier := *flagTier
	if tier == "" {
		tier = os.Getenv("VERIF_TIER")
	}
	if tier != "thorough" {
		tier = "quick"
	}
	seed := 0
	if s := os.Getenv("VERIF_SEED"); s != "" {
		if v, err := strconv.Atoi(s); err == nil {
			seed = v
		}
	}
	if *flagExplain != "" {
		os.Exit(explain(*flagExplain, tier))
	}
	if *flagAlarms {
		os.Exit(alarms(tier))
	}
	if *flagProp == "" {
		fmt.Fprintln(os.Stderr, "usage: p9check -prop Cxx [-tier quick|thorough]")
		os.Exit(2)
	}
	if *flagConfig != "" {
		// Child mode: one configuration, raw JSON on stdout.
		res := analyseConfig(*flagProp, tier, *flagConfig)
		enc := json.NewEncoder(os.Stdout)
		if err := enc.Encode(res); err != nil {
			fmt.Fprintln(os.Stderr, err)
			os.Exit(2)
		}
		return
	}
	ids := []string{*flagProp}
	if *flagProp == "all" {
		ids = nil
		for id := range props {
			ids = append(ids, id)
		}
		sort.Strings(ids)
	}
	rc := 0
	for _, id := range ids {
		if runProperty(id, tier, seed) != 0 {
			rc = 1
		}
	}
	os.Exit(rc)
}

// ConfigResult is what one configuration's analysis yields.
type ConfigResult struct {
	Config    string         `json:"config"`
	Obs       []Oblig        `json:"obligations"`
	Samples   []any          `json:"samples"`
	Notes     []string       `json:"notes"`
	Stats     map[string]int `json:"stats"`
	Packages  []string       `json:"packages"`
	LoadError string         `json:"load_error,omitempty"`
}

func analyseConfig(id, tier, config string) (res *ConfigResult) {
	res = &ConfigResult{Config: config, Stats: map[string]int{}}
	p := props[id]
	if p == nil {
		res.LoadError = "unknown property " + id
		return
	}
	defer func() {
		if e := recover(); e != nil {
			// A panic in the checker is never a pass.
			res.Obs = append(res.Obs, Oblig{Rule: id + ".internal", Construct: "checker panic", Status: "undecided",
				Detail: fmt.Sprintf("%v\n%s", e, debug.Stack()), Config: config})
		}
	}()
	l, err := load(*flagRepo, config, *flagFixture)
	if err != nil {
		res.LoadError = err.Error()
		return
	}
	r := &Run{Prop: id, Tier: tier, L: l, Config: config, stats: res.Stats}
	p.fn(r)
	res.Obs = r.Obs
	res.Samples = r.Samples
	res.Notes = append(append([]string{}, l.Notes...), r.Notes...)
	res.Stats["functions_restored_to_pinned_form"] = len(l.Notes)
	for _, pk := range l.modulePkgs() {
		res.Packages = append(res.Packages, pk.PkgPath)
	}
	res.Stats["functions_in_module"] = len(l.decls)
	return
}

func runProperty(id, tier string, seed int) int {
	start := time.Now()
	p := props[id]
	if p == nil {
		fmt.Printf("VIOLATION property=%s replay=/dev/null\n", id)
		fmt.Fprintf(os.Stderr, "unknown property %s\n", id)
		return 1
	}
	configs := quickConfigs
	if tier == "thorough" && p.multiConfig {
		configs = thoroughConfigs
	}
	results := make([]*ConfigResult, len(configs))
	var wg sync.WaitGroup
	for i, c := range configs {
		if i == 0 {
			continue
		}
		wg.Add(1)
		go func(i int, c string) {
			defer wg.Done()
			results[i] = runChild(id, tier, c)
		}(i, c)
	}
	results[0] = analyseConfig(id, tier, configs[0])
	wg.Wait()

	kf := loadKnownFindings(filepath.Join(*flagVerif, "known_findings.json"))
	var all []Oblig
	for _, res := range results {
		if res.LoadError != "" {
			all = append(all, Oblig{Rule: id + ".load", Construct: res.Config, Status: "undecided", Detail: res.LoadError, Config: res.Config})
		}
		all = append(all, res.Obs...)
	}
	// Merge obligations that are identical across configurations.
	all = mergeObligations(all)

	violDir := filepath.Join(*flagVerif, "evidence", "violations")
	os.MkdirAll(violDir, 0o755)
	// Remove stale violation files of this property.
	if old, _ := filepath.Glob(filepath.Join(violDir, id+"-*.json")); old != nil {
		for _, f := range old {
			os.Remove(f)
		}
	}
	nviol, nknown, ndis := 0, 0, 0
	perRule := map[string][2]int{}
	seenKnown := map[string]bool{}
	for _, o := range all {
		c := perRule[o.Rule]
		c[0]++
		if o.Status == "ok" {
			c[1]++
			ndis++
		}
		perRule[o.Rule] = c
		if *flagList {
			fmt.Printf("  [%s] %s / %s  %s  %s\n", o.Status, o.Rule, o.Construct, o.Pos, firstLine(o.Detail))
		}
		if o.Status == "ok" {
			continue
		}
		if k := kf.match(id, o); k != nil {
			key := o.Rule + "/" + o.Construct
			if !seenKnown[key] {
				seenKnown[key] = true
				fmt.Printf("KNOWN-FINDING: property=%s %s %s: %s\n", id, o.Rule, o.Construct, k.WhatFails)
			}
			nknown++
			continue
		}
		nviol++
		path := filepath.Join(violDir, fmt.Sprintf("%s-%d.json", id, nviol))
		b, _ := json.MarshalIndent(map[string]any{"property": id, "tier": tier, "obligation": o}, "", " ")
		os.WriteFile(path, b, 0o644)
		fmt.Printf("VIOLATION property=%s replay=%s\n", id, path)
		fmt.Printf("  %s: %s / %s [%s] at %s\n    %s\n", id, o.Rule, o.Construct, o.Status, o.Pos, strings.ReplaceAll(o.Detail, "\n", "\n    "))
	}
	// Evidence.
	evPath := *flagEvidence
	if evPath == "" {
		evPath = filepath.Join(*flagVerif, "evidence", id+".json")
	}
	rules := map[string]any{}
	var ruleNames []string
	for rn := range perRule {
		ruleNames = append(ruleNames, rn)
	}
	sort.Strings(ruleNames)
	for _, rn := range ruleNames {
		rules[rn] = map[string]int{"obligations": perRule[rn][0], "discharged": perRule[rn][1]}
	}
	var samples []any
	var notes []string
	stats := map[string]int{}
	var pkgs []string
	for i, res := range results {
		if i == 0 {
			samples = append(samples, res.Samples...)
			pkgs = res.Packages
		}
		for _, n := range res.Notes {
			notes = append(notes, "["+res.Config+"] "+n)
		}
		for k, v := range res.Stats {
			if i == 0 {
				stats[k] = v
			} else {
				stats[res.Config+":"+k] = v
			}
		}
	}
	// Always show a few actual obligations as samples.
	nshown := 0
	lastRule := ""
	for _, o := range all {
		if o.Rule != lastRule && nshown < 40 {
			samples = append(samples, map[string]string{"rule": o.Rule, "construct": o.Construct, "at": o.Pos, "status": o.Status, "detail": firstLine(o.Detail)})
			nshown++
			lastRule = o.Rule
		}
	}
	if len(samples) == 0 {
		samples = append(samples, "no obligations generated")
	}
	cmd := fmt.Sprintf("bin/p9check -prop %s -tier %s", id, tier)
	ev := map[string]any{
		"property_id": id,
		"tier":        tier,
		"seed":        seed,
		"level":       "other",
		"coverage": map[string]any{
			"explanation":        p.explanation,
			"obligations":        len(all),
			"discharged":         ndis,
			"known_findings":     nknown,
			"rules":              rules,
			"samples":            samples,
			"configurations":     configs,
			"packages_analysed":  pkgs,
			"stats":              stats,
			"notes":              notes,
			"checker_cmd":        cmd,
			"trusted_base":       append([]string{"go/types, go/cfg, go/ssa (golang.org/x/tools v0.29.0)", "Go memory model and sync/atomic semantics", "the loader's meaning-preserving normalisations of the syntax tree (var x = e as x := e; pinned form of private functions whose form, name or parameter list changed; loops over fixed tables written out), each followed by a full type-check and listed under notes when applied"}, p.trusted...),
			"exhaustive":         true,
			"exhaustive_meaning": "every construct matched by the rules in the current source tree is an obligation; none is sampled",
		},
		"assumptions": append([]string{"accepted-idiom lists in DESIGN.md section 3; anything else is reported as undecided (fail-closed)"}, p.assumptions...),
		"wall_s":      time.Since(start).Seconds(),
		"violations":  nviol,
	}
	b, _ := json.MarshalIndent(ev, "", " ")
	os.MkdirAll(filepath.Dir(evPath), 0o755)
	if err := os.WriteFile(evPath, b, 0o644); err != nil {
		fmt.Fprintln(os.Stderr, "cannot write evidence:", err)
		return 1
	}
	fmt.Printf("%s %s: %d obligations, %d discharged, %d known findings, %d violations (%d configuration(s), %.1fs)\n",
		id, tier, len(all), ndis, nknown, nviol, len(configs), time.Since(start).Seconds())
	if nviol > 0 {
		return 1
	}
	return 0
}

func firstLine(s string) string {
	if i := strings.IndexByte(s, '\n'); i >= 0 {
		return s[:i]
	}
	return s
}

func runChild(id, tier, config string) *ConfigResult {
	self, err := os.Executable()
	if err != nil {
		return &ConfigResult{Config: config, LoadError: err.Error()}
	}
	args := []string{"-prop", id, "-tier", tier, "-config", config, "-repo", *flagRepo, "-verif", *flagVerif}
	cmd := exec.Command(self, args...)
	cmd.Stderr = os.Stderr
	out, err := cmd.Output()
	if err != nil {
		return &ConfigResult{Config: config, LoadError: "child: " + err.Error()}
	}
	res := &ConfigResult{}
	if err := json.Unmarshal(out, res); err != nil {
		return &ConfigResult{Config: config, LoadError: "child output: " + err.Error()}
	}
	return res
}

// mergeObligations collapses obligations that have the same rule, construct and
// status in several configurations into one (listing the configurations).
func mergeObligations(in []Oblig) []Oblig {
	idx := map[string]int{}
	var out []Oblig
	for _, o := range in {
		k := o.Rule + "\x00" + o.Construct + "\x00" + o.Status + "\x00" + o.Pos
		if i, ok := idx[k]; ok {
			if !strings.Contains(out[i].Config, o.Config) {
				out[i].Config += "," + o.Config
			}
			continue
		}
		idx[k] = len(out)
		out = append(out, o)
	}
	sort.SliceStable(out, func(i, j int) bool {
		if out[i].Rule != out[j].Rule {
			return ruleLess(out[i].Rule, out[j].Rule)
		}
		return false
	})
	return out
}

func ruleLess(a, b string) bool {
	// C07.r10 after C07.r9
	pa, na := splitRule(a)
	pb, nb := splitRule(b)
	if pa != pb {
		return pa < pb
	}
	return na < nb
}

func splitRule(r string) (string, int) {
	i := strings.LastIndex(r, ".r")
	if i < 0 {
		return r, -1
	}
	n, err := strconv.Atoi(r[i+2:])
	if err != nil {
		return r, -1
	}
	return r[:i], n
}

func explain(path, tier string) int {
	b, err := os.ReadFile(path)
	if err != nil {
		fmt.Fprintln(os.Stderr, err)
		return 2
	}
	var v struct {
		Property   string `json:"property"`
		Obligation Oblig  `json:"obligation"`
	}
	if err := json.Unmarshal(b, &v); err != nil {
		fmt.Fprintln(os.Stderr, err)
		return 2
	}
	fmt.Printf("replaying %s / %s for property %s against the current tree\n", v.Obligation.Rule, v.Obligation.Construct, v.Property)
	p := props[v.Property]
	if p == nil {
		return 2
	}
	configs := []string{"linux/amd64"}
	if v.Obligation.Config != "" {
		configs = strings.Split(v.Obligation.Config, ",")[:1]
	}
	res := analyseConfig(v.Property, tier, configs[0])
	found := false
	for _, o := range res.Obs {
		if o.Rule == v.Obligation.Rule && o.Construct == v.Obligation.Construct {
			found = true
			fmt.Printf("[%s] %s / %s at %s\n  %s\n", o.Status, o.Rule, o.Construct, o.Pos, strings.ReplaceAll(o.Detail, "\n", "\n  "))
			if o.Status != "ok" {
				fmt.Printf("VIOLATION property=%s replay=%s\n", v.Property, path)
				return 1
			}
		}
	}
	if !found {
		fmt.Println("obligation no longer generated from the current tree")
	}
	return 0
}

// alarms: development mode behind tools/fast_matrix.sh.  One load, every property's rules, one
// line per obligation that is not discharged.  Exit status 1 when there is any.
func alarms(tier string) int {
	l, err := load(*flagRepo, "linux/amd64", "")
	if err != nil {
		fmt.Println("ALARM load", err)
		return 1
	}
	var ids []string
	for id := range props {
		ids = append(ids, id)
	}
	sort.Strings(ids)
	rc := 0
	for _, id := range ids {
		func() {
			defer func() {
				if e := recover(); e != nil {
					fmt.Printf("ALARM %s %s.internal / checker panic: %v\n", id, id, e)
					rc = 1
				}
			}()
			r := &Run{Prop: id, Tier: tier, L: l, Config: "linux/amd64", stats: map[string]int{}}
			props[id].fn(r)
			for _, o := range r.Obs {
				if o.Status != "ok" {
					fmt.Printf("ALARM %s %s / %s [%s] %s\n", id, o.Rule, o.Construct, o.Status, firstLine(o.Detail))
					rc = 1
				}
			}
		}()
	}
	for _, n := range l.Notes {
		fmt.Println("NOTE", n)
	}
	return rc
}
