package main

import (
	"fmt"
	"golang.org/x/tools/go/packages"
	"golang.org/x/tools/go/ssa"
	"golang.org/x/tools/go/ssa/ssautil"
	"golang.org/x/tools/go/cfg"
	"golang.org/x/tools/go/callgraph/vta"
	"golang.org/x/tools/go/callgraph/cha"
	"golang.org/x/tools/go/types/typeutil"
)

var _ = cfg.New
var _ = vta.CallGraph
var _ = cha.CallGraph
var _ = typeutil.Callee
var _ ssa.BuilderMode
var _ = ssautil.AllFunctions

func main() {
	cfg := &packages.Config{Dir: "/repo", Mode: packages.LoadAllSyntax, Env: append([]string{}, "GOFLAGS=-mod=readonly", "GOPROXY=off", "GOWORK=off", "GOSUMDB=off", "GOTOOLCHAIN=local", "HOME=/root", "PATH=/usr/local/go/bin:/usr/bin:/bin", "GOCACHE=/root/.cache/go-build")}
	pkgs, err := packages.Load(cfg, "./p9", "./vecnet", "./linux", "./internal", "./fsimpl/...", "./cmd/...")
	fmt.Println(len(pkgs), err)
	for _, p := range pkgs { fmt.Println(p.PkgPath, len(p.Errors), len(p.Syntax)) }
}
