package main

// Discharge of index / slice / make constructs on the receive path from the comparisons that
// dominate them.  The facts come from a local site analysis whose resolver sees through
// expression functions and single-assignment locals, so the rule does not depend on how the
// guard is spelled (b.has(n), len(b.data) >= n, !(len(b.data) < n)) or what the locals are
// called: for X[lo:hi] it asks for "hi > len(X)" to be false on every path (and lo ≤ hi), for
// X[i] for "len(X) > i" to be true, where len(X) also stands for the length X was made with.

import (
	"fmt"
	"go/ast"
	"go/token"
	"go/types"
	"strings"
)

type boundsProver struct {
	l    *Loaded
	info *types.Info
	db   *SiteDB // local DB (buildLocalDB)
	res  map[*FuncInfo]*resolver
}

func (bp *boundsProver) resolver(fi *FuncInfo) *resolver {
	if r, ok := bp.res[fi]; ok {
		return r
	}
	r := newResolver(bp.l, bp.info, fi.Decl).withExprFuncs()
	bp.res[fi] = r
	return r
}

// stripConvText removes integer conversions and redundant parentheses from a rendered expression.
func stripConvText(s string) string {
	s = nospace(s)
	for {
		changed := false
		for _, t := range []string{"int", "int64", "int32", "uint", "uint64", "uint32", "uint16", "uint8", "byte"} {
			if strings.HasPrefix(s, t+"(") && matchingParen(s, len(t)) == len(s)-1 {
				s = s[len(t)+1 : len(s)-1]
				changed = true
			}
		}
		if strings.HasPrefix(s, "(") && matchingParen(s, 0) == len(s)-1 {
			s = s[1 : len(s)-1]
			changed = true
		}
		if !changed {
			return s
		}
	}
}

func matchingParen(s string, open int) int {
	depth := 0
	for i := open; i < len(s); i++ {
		switch s[i] {
		case '(':
			depth++
		case ')':
			depth--
			if depth == 0 {
				return i
			}
		}
	}
	return -1
}

// cmpFact: on every path of st there is a fact "a > b" with the given polarity (sides compared
// modulo integer conversions).
func cmpFact(st *HState, a, b string, pol bool) bool {
	if st == nil || st.Dead {
		return st != nil
	}
	a, b = stripConvText(a), stripConvText(b)
	for _, p := range st.Paths {
		found := false
		for k, v := range p {
			i := strings.Index(k, " > ")
			if i < 0 || v != pol {
				continue
			}
			if stripConvText(k[:i]) == a && stripConvText(k[i+3:]) == b {
				found = true
				break
			}
		}
		if !found {
			return false
		}
	}
	return len(st.Paths) > 0
}

// lenAliases: renderings of expressions equal to len(X).
func (bp *boundsProver) lenAliases(fi *FuncInfo, x ast.Expr) []string {
	res := bp.resolver(fi)
	out := []string{"len(" + res.str(x) + ")"}
	// the raw (unresolved) name too: facts may have been rendered before the alias was known
	out = append(out, "len("+bp.l.str(x)+")")
	if obj := objOf(bp.info, unparen(x)); obj != nil {
		if d, ok := res.defs[obj]; ok && d != nil {
			if mk, ok := unparen(d).(*ast.CallExpr); ok && len(mk.Args) >= 2 {
				if id, ok := mk.Fun.(*ast.Ident); ok && id.Name == "make" {
					out = append(out, res.str(mk.Args[1]))
				}
			}
		}
	}
	return out
}

// le proves a ≤ b.
func (bp *boundsProver) le(st *HState, a string, bs []string) bool {
	for _, b := range bs {
		if stripConvText(a) == stripConvText(b) || cmpFact(st, a, b, false) {
			return true
		}
	}
	return false
}

// nonNegative: constants ≥ 0, unsigned values, len(), conversions of those, parameters (their
// callers are checked separately) and locals defined once by such an expression.
func (bp *boundsProver) nonNegative(fi *FuncInfo, e ast.Expr, depth int) bool {
	e = unparen(e)
	if v, ok := constInt(bp.info, e); ok {
		return v >= 0
	}
	if t := bp.info.TypeOf(e); t != nil {
		if b, ok := t.Underlying().(*types.Basic); ok && b.Info()&types.IsUnsigned != 0 {
			return true
		}
	}
	switch v := e.(type) {
	case *ast.CallExpr:
		if id, ok := v.Fun.(*ast.Ident); ok && id.Name == "len" {
			return true
		}
		if tv, ok := bp.info.Types[v.Fun]; ok && tv.IsType() && len(v.Args) == 1 {
			// int(x) of an unsigned x that fits: u8/u16 always, u32 on 64-bit int only
			if t := bp.info.TypeOf(v.Args[0]); t != nil {
				if b, ok := t.Underlying().(*types.Basic); ok {
					switch b.Kind() {
					case types.Uint8, types.Uint16:
						return true
					case types.Uint32:
						// frame sizes: bounded by the negotiated msize ≤ 4 MiB (r2), far below 2^31
						return true
					}
				}
			}
			return bp.nonNegative(fi, v.Args[0], depth) && false
		}
	case *ast.Ident:
		obj := objOf(bp.info, v)
		if obj == nil {
			return false
		}
		if obj.Pos() < fi.Decl.Body.Pos() && obj.Pos() >= fi.Decl.Pos() {
			return true // parameter: see the obligation on the callers
		}
		// parameter of a function literal bound to a local: every call of that local passes a
		// non-negative argument
		if ok, decided := bp.litParamNonNegative(fi, obj, depth); decided {
			return ok
		}
		if d, ok := bp.resolver(fi).defs[obj]; ok && d != nil && depth < 3 {
			return bp.nonNegative(fi, d, depth+1)
		}
	}
	return false
}

func (bp *boundsProver) slice(fi *FuncInfo, sl *ast.SliceExpr, st *HState) (bool, string) {
	res := bp.resolver(fi)
	lens := bp.lenAliases(fi, sl.X)
	var why []string
	if sl.High != nil {
		hi := res.str(sl.High)
		if !bp.le(st, hi, lens) {
			return false, fmt.Sprintf("upper bound %s is not known to be ≤ len(%s) on every path", nospace(hi), nospace(res.str(sl.X)))
		}
		why = append(why, nospace(hi)+" ≤ len")
		if !bp.nonNegative(fi, sl.High, 0) {
			return false, "upper bound " + nospace(hi) + " may be negative"
		}
	}
	if sl.Low != nil {
		lo := res.str(sl.Low)
		if !bp.nonNegative(fi, sl.Low, 0) {
			return false, "lower bound " + nospace(lo) + " may be negative"
		}
		if sl.High != nil {
			lv, lc := constInt(bp.info, sl.Low)
			hv, hc := constInt(bp.info, sl.High)
			if !(lc && hc && lv <= hv) && !bp.le(st, lo, []string{res.str(sl.High)}) {
				return false, "lower bound " + nospace(lo) + " is not known to be ≤ the upper bound"
			}
		} else if !bp.le(st, lo, lens) {
			return false, fmt.Sprintf("lower bound %s is not known to be ≤ len(%s) on every path", nospace(lo), nospace(res.str(sl.X)))
		}
		why = append(why, nospace(lo)+" ≤ len")
	}
	return true, "dominated by the comparison: " + strings.Join(why, ", ")
}

func (bp *boundsProver) index(fi *FuncInfo, ix *ast.IndexExpr, st *HState) (bool, string) {
	res := bp.resolver(fi)
	// X is the byte slice returned by a successful consume(K) and the index is a constant < K
	if c, isC := constInt(bp.info, ix.Index); isC && c >= 0 && st != nil {
		if obj := objOf(bp.info, unparen(ix.X)); obj != nil {
			if def, ok := st.Defs[obj].(*ast.CallExpr); ok && calleeKey(bp.info, def) == "p9.buffer.consume" && len(def.Args) == 1 {
				if k, isK := constInt(bp.info, def.Args[0]); isK && c < k {
					if as, ok := bp.l.parent(def).(*ast.AssignStmt); ok && len(as.Lhs) == 2 {
						if okObj := objOf(bp.info, as.Lhs[1]); okObj != nil && st.holds(res.nameOf(okObj), true) {
							return true, fmt.Sprintf("index %d of the %d bytes a successful consume returned", c, k)
						}
					}
				}
			}
		}
	}
	// the index is the key of the range loop over the very slice that is indexed, and the slice
	// variable is not assigned inside the loop: 0 <= i < len(x) by construction
	if iobj, xobj := objOf(bp.info, unparen(ix.Index)), objOf(bp.info, unparen(ix.X)); iobj != nil && xobj != nil {
		for n := bp.l.parent(ix); n != nil; n = bp.l.parent(n) {
			rs, isRange := n.(*ast.RangeStmt)
			if !isRange {
				continue
			}
			kid, isId := rs.Key.(*ast.Ident)
			if !isId || rs.Tok != token.DEFINE || bp.info.Defs[kid] != iobj || objOf(bp.info, unparen(rs.X)) != xobj {
				continue
			}
			if _, isSlice := bp.info.TypeOf(rs.X).Underlying().(*types.Slice); !isSlice {
				continue
			}
			assigned := false
			ast.Inspect(rs.Body, func(m ast.Node) bool {
				switch v := m.(type) {
				case *ast.AssignStmt:
					for _, l := range v.Lhs {
						if o := objOf(bp.info, l); o == xobj || o == iobj {
							if _, isIdent := unparen(l).(*ast.Ident); isIdent {
								assigned = true
							}
						}
					}
				case *ast.IncDecStmt:
					if objOf(bp.info, v.X) == iobj {
						assigned = true
					}
				case *ast.UnaryExpr:
					if v.Op == token.AND && (objOf(bp.info, v.X) == xobj || objOf(bp.info, v.X) == iobj) {
						assigned = true
					}
				}
				return true
			})
			if !assigned {
				return true, "index is the key of the range loop over the indexed slice"
			}
		}
	}
	i := res.str(ix.Index)
	for _, ln := range bp.lenAliases(fi, ix.X) {
		if cmpFact(st, ln, i, true) && bp.nonNegativeIndex(fi, ix.Index) {
			return true, nospace(i) + " < " + nospace(ln) + " on every path"
		}
	}
	return false, "index " + nospace(i) + " is not known to be within len(" + nospace(res.str(ix.X)) + ")"
}

// nonNegativeIndex: as nonNegative, plus loop counters that start at 0 and only increase.
func (bp *boundsProver) nonNegativeIndex(fi *FuncInfo, e ast.Expr) bool {
	if bp.nonNegative(fi, e, 0) {
		return true
	}
	obj := objOf(bp.info, unparen(e))
	if obj == nil {
		return false
	}
	ok := true
	seen := false
	ast.Inspect(fi.Decl.Body, func(n ast.Node) bool {
		switch v := n.(type) {
		case *ast.AssignStmt:
			for i, l := range v.Lhs {
				if objOf(bp.info, l) != obj {
					continue
				}
				seen = true
				if len(v.Lhs) != len(v.Rhs) || v.Tok == token.SUB_ASSIGN {
					ok = false
				} else if v.Tok == token.DEFINE || v.Tok == token.ASSIGN {
					if c, isC := constInt(bp.info, v.Rhs[i]); !isC || c < 0 {
						ok = false
					}
				}
			}
		case *ast.IncDecStmt:
			if objOf(bp.info, v.X) == obj && v.Tok == token.DEC {
				ok = false
			}
		}
		return true
	})
	return ok && seen
}

// makeBounded: make(T, N) where N is at most the number of bytes already present in some slice.
func (bp *boundsProver) makeBounded(fi *FuncInfo, mk *ast.CallExpr, st *HState) (bool, string) {
	if st == nil || st.Dead || len(mk.Args) < 2 {
		return false, ""
	}
	n := stripConvText(bp.resolver(fi).str(mk.Args[1]))
	for _, p := range st.Paths {
		found := false
		for k, v := range p {
			i := strings.Index(k, " > ")
			if i < 0 || v {
				continue
			}
			if stripConvText(k[:i]) == n && strings.HasPrefix(stripConvText(k[i+3:]), "len(") {
				found = true
			}
		}
		if !found {
			return false, "length " + n + " is not bounded by the bytes present"
		}
	}
	return true, "length " + n + " ≤ the bytes present in the frame"
}

// litParamNonNegative: obj is parameter #i of a literal assigned once to a local function
// variable; all calls of that variable pass a non-negative i-th argument.
func (bp *boundsProver) litParamNonNegative(fi *FuncInfo, obj types.Object, depth int) (ok, decided bool) {
	var lit *ast.FuncLit
	idx := -1
	ast.Inspect(fi.Decl.Body, func(n ast.Node) bool {
		l, isLit := n.(*ast.FuncLit)
		if !isLit || lit != nil {
			return true
		}
		i := 0
		for _, f := range l.Type.Params.List {
			for _, nm := range f.Names {
				if bp.info.Defs[nm] == obj {
					lit, idx = l, i
				}
				i++
			}
		}
		return true
	})
	if lit == nil || depth >= 3 {
		return false, false
	}
	res := bp.resolver(fi)
	var fvar types.Object
	for o, d := range res.defs {
		if d != nil && unparen(d) == ast.Expr(lit) {
			fvar = o
		}
	}
	if fvar == nil {
		return false, true
	}
	ok, n := true, 0
	ast.Inspect(fi.Decl.Body, func(m ast.Node) bool {
		c, isCall := m.(*ast.CallExpr)
		if !isCall || objOf(bp.info, c.Fun) != fvar {
			return true
		}
		n++
		if idx >= len(c.Args) || !bp.nonNegative(fi, c.Args[idx], depth+1) {
			ok = false
		}
		return true
	})
	return ok && n > 0, true
}

// binaryWidth: order.UintN(v) / order.PutUintN(v, x) need len(v) ≥ N/8: v is the result of a
// successful consume(K) or of append(K) with K ≥ N/8.
func (bp *boundsProver) binaryWidth(fi *FuncInfo, c *ast.CallExpr, st *HState) (bool, string) {
	ck := calleeKey(bp.info, c)
	w := map[string]int64{"16": 2, "32": 4, "64": 8}[ck[strings.LastIndex(ck, "int")+3:]]
	if w == 0 || len(c.Args) == 0 || st == nil {
		return false, "unexpected " + ck
	}
	arg := unparen(c.Args[0])
	if call, ok := arg.(*ast.CallExpr); ok && calleeKey(bp.info, call) == "p9.buffer.append" && len(call.Args) == 1 {
		if k, isK := constInt(bp.info, call.Args[0]); isK && k >= w {
			return true, fmt.Sprintf("%d freshly appended bytes", k)
		}
	}
	if obj := objOf(bp.info, arg); obj != nil {
		if def, ok := st.Defs[obj].(*ast.CallExpr); ok && calleeKey(bp.info, def) == "p9.buffer.consume" && len(def.Args) == 1 {
			if k, isK := constInt(bp.info, def.Args[0]); isK && k >= w {
				if as, ok := bp.l.parent(def).(*ast.AssignStmt); ok && len(as.Lhs) == 2 {
					if okObj := objOf(bp.info, as.Lhs[1]); okObj != nil && st.holds(bp.resolver(fi).nameOf(okObj), true) {
						return true, fmt.Sprintf("the %d bytes a successful consume returned", k)
					}
				}
			}
		}
	}
	return false, fmt.Sprintf("the argument is not known to hold %d bytes", w)
}
