package main

// Loops over a fixed table are brought into the straight-line form before the rules run.
//
//	for _, c := range [...]io.Closer{cs.r, cs.t} { c.Close() }
//	for _, bit := range specialModeBits { if mode&bit.osBit != 0 { m |= bit.p9Bit } }
//
// say the same as the statements written out one after the other, and the rules were
// confirmed on the written-out form ("stop closes cs.r and cs.t", "send appends the fixed part,
// then the payload", "OSMode maps Setuid to os.ModeSetuid").  A range statement is unrolled when
//
//   - its operand is a composite literal of an array or slice type without keys, or the name of
//     a package-level variable of this module that is initialised with such a literal and is
//     effectively constant (every mention of it is the operand of range or len, or an indexed
//     read; it is never assigned, its address is never taken);
//   - the table has at most 16 elements;
//   - the body contains no break / continue / goto / label that refers to this loop, no defer
//     and no function literal (per-iteration variables would otherwise be observable).
//
// Iteration i becomes a block { k := i; v := <element i>; body }.  Where v is a row of a table
// of structs and the body only selects fields of it, the selection v.f is replaced by the
// field's initialiser in row i, so that constants stay visible as constants.  The rewritten
// packages are type-checked again (identity.go: recheck); if that fails nothing is unrolled.

import (
	"go/ast"
	"go/token"
	"go/types"
	"os"
	"reflect"
	"strconv"

	"golang.org/x/tools/go/packages"
)

const maxUnroll = 16
const maxUnrollOneStmt = 128

// cloneNode makes a deep copy of a syntax tree (positions kept, objects/scopes dropped).
func cloneNode[T ast.Node](n T) T {
	v := cloneValue(reflect.ValueOf(n))
	return v.Interface().(T)
}

func cloneValue(v reflect.Value) reflect.Value {
	switch v.Kind() {
	case reflect.Ptr:
		if v.IsNil() {
			return v
		}
		switch v.Interface().(type) {
		case *ast.Object, *ast.Scope:
			return reflect.Zero(v.Type())
		}
		n := reflect.New(v.Type().Elem())
		n.Elem().Set(cloneValue(v.Elem()))
		return n
	case reflect.Interface:
		if v.IsNil() {
			return v
		}
		n := reflect.New(v.Type()).Elem()
		n.Set(cloneValue(v.Elem()))
		return n
	case reflect.Slice:
		if v.IsNil() {
			return v
		}
		n := reflect.MakeSlice(v.Type(), v.Len(), v.Len())
		for i := 0; i < v.Len(); i++ {
			n.Index(i).Set(cloneValue(v.Index(i)))
		}
		return n
	case reflect.Struct:
		n := reflect.New(v.Type()).Elem()
		for i := 0; i < v.NumField(); i++ {
			if n.Field(i).CanSet() {
				n.Field(i).Set(cloneValue(v.Field(i)))
			}
		}
		return n
	}
	return v
}

// tableOf returns the composite literal a range operand stands for, and the expression of
// the element type (for rows written without their type).
func (l *Loaded) tableOf(p *packages.Package, x ast.Expr, constTables map[types.Object]*ast.CompositeLit) *ast.CompositeLit {
	x = unparen(x)
	if cl, ok := x.(*ast.CompositeLit); ok {
		return cl
	}
	if id, ok := x.(*ast.Ident); ok {
		if obj := p.TypesInfo.Uses[id]; obj != nil {
			return constTables[obj]
		}
	}
	return nil
}

// constantTables finds the effectively constant package-level tables of the module.
func constantTables(pkgs []*packages.Package) map[types.Object]*ast.CompositeLit {
	cand := map[types.Object]*ast.CompositeLit{}
	for _, p := range pkgs {
		for _, f := range p.Syntax {
			for _, d := range f.Decls {
				gd, ok := d.(*ast.GenDecl)
				if !ok || gd.Tok != token.VAR {
					continue
				}
				for _, sp := range gd.Specs {
					vs := sp.(*ast.ValueSpec)
					if len(vs.Names) != len(vs.Values) {
						continue
					}
					for i, nm := range vs.Names {
						cl, ok := unparen(vs.Values[i]).(*ast.CompositeLit)
						if !ok || nm.Name == "_" {
							continue
						}
						switch t := cl.Type.(type) {
						case *ast.ArrayType:
						case *ast.MapType:
							// only tables of functions selected by a boolean: T[cond](args)
							if k, isId := t.Key.(*ast.Ident); !isId || k.Name != "bool" {
								continue
							}
						default:
							continue
						}
						if obj := p.TypesInfo.Defs[nm]; obj != nil && !obj.Exported() {
							cand[obj] = cl
						}
					}
				}
			}
		}
	}
	if len(cand) == 0 {
		return cand
	}
	// every mention must be a read of the allowed kinds
	for _, p := range pkgs {
		for _, f := range p.Syntax {
			var stack []ast.Node
			ast.Inspect(f, func(n ast.Node) bool {
				if n == nil {
					stack = stack[:len(stack)-1]
					return true
				}
				stack = append(stack, n)
				id, ok := n.(*ast.Ident)
				if !ok {
					return true
				}
				obj := p.TypesInfo.Uses[id]
				if obj == nil || cand[obj] == nil || len(stack) < 2 {
					return true
				}
				okUse := false
				switch par := stack[len(stack)-2].(type) {
				case *ast.RangeStmt:
					okUse = par.X == ast.Expr(id)
				case *ast.CallExpr:
					if fn, isId := par.Fun.(*ast.Ident); isId && fn.Name == "len" && len(par.Args) == 1 {
						okUse = true
					}
				case *ast.IndexExpr:
					if par.X == ast.Expr(id) {
						okUse = true
						// not the target of an assignment, not under &
						var child ast.Node = par
						for k := len(stack) - 3; k >= 0; k-- {
							switch up := stack[k].(type) {
							case *ast.SelectorExpr, *ast.ParenExpr, *ast.IndexExpr:
								child = up
								continue
							case *ast.AssignStmt:
								for _, lhs := range up.Lhs {
									if lhs == child {
										okUse = false
									}
								}
							case *ast.IncDecStmt:
								okUse = false
							case *ast.UnaryExpr:
								if up.Op == token.AND {
									okUse = false
								}
							}
							break
						}
					}
				}
				if !okUse {
					delete(cand, obj)
				}
				return true
			})
		}
	}
	return cand
}

// refersToLoop: the body contains a statement whose meaning depends on being inside this
// loop (or that makes per-iteration variables observable).
func refersToLoop(body *ast.BlockStmt) bool {
	found := false
	var walk func(n ast.Node, inLoop, inSwitch bool)
	walk = func(n ast.Node, inLoop, inSwitch bool) {
		ast.Inspect(n, func(m ast.Node) bool {
			if found || m == nil {
				return false
			}
			if m == n {
				return true
			}
			switch v := m.(type) {
			case *ast.FuncLit, *ast.DeferStmt, *ast.LabeledStmt, *ast.GoStmt:
				found = true
				return false
			case *ast.ForStmt, *ast.RangeStmt:
				walk(v, true, false)
				return false
			case *ast.SwitchStmt, *ast.TypeSwitchStmt, *ast.SelectStmt:
				walk(v, inLoop, true)
				return false
			case *ast.BranchStmt:
				switch {
				case v.Label != nil, v.Tok == token.GOTO:
					found = true
				case v.Tok == token.CONTINUE && !inLoop:
					found = true
				case v.Tok == token.BREAK && !inLoop && !inSwitch:
					found = true
				}
			case *ast.UnaryExpr:
				if v.Op == token.AND {
					if _, isId := unparen(v.X).(*ast.Ident); isId {
						found = true // &v of a loop variable (conservatively: of any variable)
					}
				}
			}
			return true
		})
	}
	walk(body, false, false)
	return found
}

// unrollConstantRanges implements the normalisation described at the top of this file.
func (l *Loaded) unrollConstantRanges(pkgs []*packages.Package) []string {
	if skipIdentity || os.Getenv("P9_NO_IDENTITY") != "" {
		return nil
	}
	tables := constantTables(pkgs)
	affected := map[*packages.Package]bool{}
	var notes []string
	for _, p := range pkgs {
		info := p.TypesInfo
		for _, f := range p.Syntax {
			imported := map[string]bool{}
			for _, im := range f.Imports {
				if id, ok := info.Implicits[im].(*types.PkgName); ok {
					imported[id.Name()] = true
				}
				if im.Name != nil {
					imported[im.Name.Name] = true
				}
			}
			var fix func(list []ast.Stmt)
			fix = func(list []ast.Stmt) {
				for i, st := range list {
					if es, isES := st.(*ast.ExprStmt); isES {
						if nst := l.dispatchThroughTable(p, es, tables); nst != nil {
							list[i] = nst
							affected[p] = true
							notes = append(notes, "call through a fixed table of two functions at "+l.relPos(es.Pos())+" is judged as the if/else it stands for")
						}
						continue
					}
					rs, ok := st.(*ast.RangeStmt)
					if !ok || rs.Tok == token.ASSIGN {
						continue
					}
					cl := l.tableOf(p, rs.X, tables)
					// (a one-statement body may run over a long table: the registration of the
					// message types, one call per row)
					limit := maxUnroll
					if len(rs.Body.List) == 1 {
						limit = maxUnrollOneStmt
					}
					if cl == nil || len(cl.Elts) == 0 || len(cl.Elts) > limit || refersToLoop(rs.Body) {
						continue
					}
					at, isArr := cl.Type.(*ast.ArrayType)
					if !isArr {
						continue
					}
					keyed := false
					for _, e := range cl.Elts {
						if _, isKV := e.(*ast.KeyValueExpr); isKV {
							keyed = true
						}
					}
					if keyed {
						continue
					}
					// a table declared elsewhere may mention packages this file does not import
					fromDecl := unparen(rs.X) != ast.Expr(cl)
					usable := true
					if fromDecl {
						ast.Inspect(cl, func(n ast.Node) bool {
							if sel, ok := n.(*ast.SelectorExpr); ok {
								if id, ok := sel.X.(*ast.Ident); ok {
									if _, isPkg := l.pkgOfIdent(pkgs, id).(*types.PkgName); isPkg && !imported[id.Name] {
										usable = false
									}
								}
							}
							return true
						})
					}
					var keyId, valId *ast.Ident
					if rs.Key != nil {
						keyId, _ = rs.Key.(*ast.Ident)
					}
					if rs.Value != nil {
						valId, _ = rs.Value.(*ast.Ident)
					}
					if !usable || rs.Key != nil && keyId == nil || rs.Value != nil && valId == nil {
						continue
					}
					// rows of structs whose fields are only selected: v.f -> initialiser of f
					rowFields := l.rowFieldNames(info, at.Elt)
					selectOnly := valId != nil && valId.Name != "_" && rowFields != nil && onlySelected(info, rs.Body, info.Defs[valId])
					blk := &ast.BlockStmt{Lbrace: rs.Pos(), Rbrace: rs.End()}
					okAll := true
					pristine := cloneNode(rs.Body) // (iteration 0 rewrites rs.Body itself)
					for k, elt := range cl.Elts {
						body := rs.Body
						if k > 0 || fromDecl {
							body = cloneNode(pristine)
						}
						it := &ast.BlockStmt{Lbrace: body.Lbrace, Rbrace: body.Rbrace}
						if keyId != nil && keyId.Name != "_" {
							it.List = append(it.List, &ast.AssignStmt{Lhs: []ast.Expr{&ast.Ident{Name: keyId.Name, NamePos: keyId.Pos()}}, TokPos: rs.TokPos, Tok: token.DEFINE,
								Rhs: []ast.Expr{&ast.BasicLit{Kind: token.INT, Value: strconv.Itoa(k), ValuePos: keyId.Pos()}}})
							it.List = append(it.List, &ast.AssignStmt{Lhs: []ast.Expr{&ast.Ident{Name: "_", NamePos: keyId.Pos()}}, TokPos: rs.TokPos, Tok: token.ASSIGN,
								Rhs: []ast.Expr{&ast.Ident{Name: keyId.Name, NamePos: keyId.Pos()}}})
						}
						if valId != nil && valId.Name != "_" {
							if selectOnly {
								row, isRow := unparen(elt).(*ast.CompositeLit)
								if !isRow || !substituteFields(body, valId.Name, row, rowFields, fromDecl || k > 0) {
									okAll = false
									break
								}
							} else {
								var val ast.Expr = elt
								if fromDecl {
									val = cloneNode(elt)
								}
								if row, isRow := unparen(val).(*ast.CompositeLit); isRow && row.Type == nil {
									row.Type = cloneNode(at.Elt)
								}
								it.List = append(it.List, &ast.AssignStmt{Lhs: []ast.Expr{&ast.Ident{Name: valId.Name, NamePos: valId.Pos()}}, TokPos: rs.TokPos, Tok: token.DEFINE, Rhs: []ast.Expr{val}})
								it.List = append(it.List, &ast.AssignStmt{Lhs: []ast.Expr{&ast.Ident{Name: "_", NamePos: valId.Pos()}}, TokPos: rs.TokPos, Tok: token.ASSIGN,
									Rhs: []ast.Expr{&ast.Ident{Name: valId.Name, NamePos: valId.Pos()}}})
							}
						}
						it.List = append(it.List, body.List...)
						blk.List = append(blk.List, it)
					}
					if !okAll {
						continue
					}
					list[i] = blk
					affected[p] = true
					notes = append(notes, "loop over a fixed table of "+strconv.Itoa(len(cl.Elts))+" elements at "+l.relPos(rs.Pos())+" is judged in its written-out form")
				}
				// nested statement lists
				for _, st := range list {
					ast.Inspect(st, func(n ast.Node) bool {
						switch v := n.(type) {
						case *ast.BlockStmt:
							if ast.Node(v) != ast.Node(st) {
								fix(v.List)
								return false
							}
						case *ast.CaseClause:
							fix(v.Body)
							return false
						case *ast.CommClause:
							fix(v.Body)
							return false
						}
						return true
					})
					if b, ok := st.(*ast.BlockStmt); ok {
						fix(b.List)
					}
				}
			}
			for _, d := range f.Decls {
				if fd, ok := d.(*ast.FuncDecl); ok && fd.Body != nil {
					fix(fd.Body.List)
				}
			}
		}
	}
	if len(affected) == 0 {
		return nil
	}
	if err := l.recheck(affected); err != nil {
		l.identityErr = err
		return nil
	}
	return notes
}

// pkgOfIdent resolves an identifier in whichever module package declares it.
func (l *Loaded) pkgOfIdent(pkgs []*packages.Package, id *ast.Ident) types.Object {
	for _, p := range pkgs {
		if o := p.TypesInfo.Uses[id]; o != nil {
			return o
		}
	}
	return nil
}

// rowFieldNames: the field names of a struct element type written in place or named.
func (l *Loaded) rowFieldNames(info *types.Info, elt ast.Expr) []string {
	t := info.TypeOf(elt)
	if t == nil {
		return nil
	}
	st, ok := t.Underlying().(*types.Struct)
	if !ok {
		return nil
	}
	var out []string
	for i := 0; i < st.NumFields(); i++ {
		out = append(out, st.Field(i).Name())
	}
	return out
}

// onlySelected: every use of obj in body is the operand of a field selection.
func onlySelected(info *types.Info, body ast.Node, obj types.Object) bool {
	if obj == nil {
		return false
	}
	ok := true
	var stack []ast.Node
	ast.Inspect(body, func(n ast.Node) bool {
		if n == nil {
			stack = stack[:len(stack)-1]
			return true
		}
		stack = append(stack, n)
		if id, isId := n.(*ast.Ident); isId && info.Uses[id] == obj {
			sel, isSel := stack[len(stack)-2].(*ast.SelectorExpr)
			if !isSel || sel.X != ast.Expr(id) {
				ok = false
			}
			// not assigned to
			if len(stack) >= 3 {
				if as, isAs := stack[len(stack)-3].(*ast.AssignStmt); isAs {
					for _, lhs := range as.Lhs {
						if lhs == ast.Expr(sel) {
							ok = false
						}
					}
				}
			}
		}
		return true
	})
	return ok
}

// substituteFields replaces name.f in body by the initialiser of f in row.
func substituteFields(body *ast.BlockStmt, name string, row *ast.CompositeLit, fields []string, copyInit bool) bool {
	init := map[string]ast.Expr{}
	for i, e := range row.Elts {
		if kv, ok := e.(*ast.KeyValueExpr); ok {
			k, isId := kv.Key.(*ast.Ident)
			if !isId {
				return false
			}
			init[k.Name] = kv.Value
		} else if i < len(fields) {
			init[fields[i]] = e
		}
	}
	okAll := true
	var rewrite func(n ast.Node)
	replace := func(e ast.Expr) ast.Expr {
		sel, ok := e.(*ast.SelectorExpr)
		if !ok {
			return e
		}
		id, ok := sel.X.(*ast.Ident)
		if !ok || id.Name != name {
			return e
		}
		v, has := init[sel.Sel.Name]
		if !has {
			okAll = false // a field the row leaves at its zero value
			return e
		}
		return parenIfNeeded(cloneNode(v))
	}
	rewrite = func(n ast.Node) {
		rv := reflect.ValueOf(n)
		if rv.Kind() != reflect.Ptr || rv.IsNil() {
			return
		}
		sv := rv.Elem()
		if sv.Kind() != reflect.Struct {
			return
		}
		exprT := reflect.TypeOf((*ast.Expr)(nil)).Elem()
		for i := 0; i < sv.NumField(); i++ {
			fv := sv.Field(i)
			switch {
			case fv.Type() == exprT && !fv.IsNil():
				ne := replace(fv.Interface().(ast.Expr))
				fv.Set(reflect.ValueOf(ne))
				rewrite(ne)
			case fv.Kind() == reflect.Slice:
				for j := 0; j < fv.Len(); j++ {
					ev := fv.Index(j)
					if ev.Type() == exprT && !ev.IsNil() {
						ne := replace(ev.Interface().(ast.Expr))
						ev.Set(reflect.ValueOf(ne))
						rewrite(ne)
					} else if nd, isNode := ev.Interface().(ast.Node); isNode {
						rewrite(nd)
					}
				}
			default:
				if fv.Kind() == reflect.Ptr || fv.Kind() == reflect.Interface {
					if !fv.IsNil() {
						if nd, isNode := fv.Interface().(ast.Node); isNode {
							rewrite(nd)
						}
					}
				}
			}
		}
	}
	_ = copyInit
	rewrite(body)
	simplifyApplied(body)
	return okAll
}

// simplifyApplied reduces, inside n, a function literal that is applied on the spot and only
// returns an expression - (func(a *T) *bool { return &a.F })(x) becomes &x.F - and *(&e)
// becomes e.  (Arguments are substituted for the parameters; the literal's body must be a
// single return of an expression built from its parameters by selection and address-of.)
func simplifyApplied(n ast.Node) {
	var reduce func(e ast.Expr) ast.Expr
	reduce = func(e ast.Expr) ast.Expr {
		switch v := e.(type) {
		case *ast.ParenExpr:
			v.X = reduce(v.X)
			switch v.X.(type) {
			case *ast.Ident, *ast.SelectorExpr, *ast.BasicLit:
				return v.X
			}
		case *ast.CallExpr:
			v.Fun = reduce(v.Fun)
			for i := range v.Args {
				v.Args[i] = reduce(v.Args[i])
			}
			lit, ok := unparen(v.Fun).(*ast.FuncLit)
			if !ok || len(lit.Body.List) != 1 || lit.Type.Params == nil {
				return e
			}
			ret, ok := lit.Body.List[0].(*ast.ReturnStmt)
			if !ok || len(ret.Results) != 1 {
				return e
			}
			var names []string
			for _, f := range lit.Type.Params.List {
				for _, nm := range f.Names {
					names = append(names, nm.Name)
				}
			}
			if len(names) != len(v.Args) {
				return e
			}
			okBody := true
			var subst func(x ast.Expr) ast.Expr
			subst = func(x ast.Expr) ast.Expr {
				switch w := x.(type) {
				case *ast.Ident:
					for i, nm := range names {
						if w.Name == nm {
							return parenIfNeeded(cloneNode(v.Args[i]))
						}
					}
					okBody = false // a free variable of the literal
				case *ast.SelectorExpr:
					w.X = subst(w.X)
				case *ast.ParenExpr:
					w.X = subst(w.X)
				case *ast.UnaryExpr:
					if w.Op != token.AND {
						okBody = false
					}
					w.X = subst(w.X)
				case *ast.StarExpr:
					w.X = subst(w.X)
				default:
					okBody = false
				}
				return x
			}
			res := subst(cloneNode(ret.Results[0]))
			if !okBody {
				return e
			}
			return reduce(res)
		case *ast.StarExpr:
			v.X = reduce(v.X)
			if u, ok := unparen(v.X).(*ast.UnaryExpr); ok && u.Op == token.AND {
				return u.X
			}
		case *ast.UnaryExpr:
			v.X = reduce(v.X)
		case *ast.BinaryExpr:
			v.X = reduce(v.X)
			v.Y = reduce(v.Y)
		case *ast.SelectorExpr:
			v.X = reduce(v.X)
		case *ast.IndexExpr:
			v.X = reduce(v.X)
			v.Index = reduce(v.Index)
		}
		return e
	}
	ast.Inspect(n, func(m ast.Node) bool {
		switch v := m.(type) {
		case *ast.AssignStmt:
			for i := range v.Lhs {
				v.Lhs[i] = reduce(v.Lhs[i])
			}
			for i := range v.Rhs {
				v.Rhs[i] = reduce(v.Rhs[i])
			}
		case *ast.IfStmt:
			v.Cond = reduce(v.Cond)
		case *ast.ExprStmt:
			v.X = reduce(v.X)
		case *ast.ReturnStmt:
			for i := range v.Results {
				v.Results[i] = reduce(v.Results[i])
			}
		}
		return true
	})
}

// dispatchThroughTable: T[cond](args) for an effectively constant map[bool]func... literal with
// the keys true and false becomes if cond { Ttrue(args) } else { Tfalse(args) }; a method
// expression (*R).m applied to (x, rest...) is written x.m(rest...).
func (l *Loaded) dispatchThroughTable(p *packages.Package, es *ast.ExprStmt, tables map[types.Object]*ast.CompositeLit) ast.Stmt {
	call, ok := es.X.(*ast.CallExpr)
	if !ok || call.Ellipsis.IsValid() {
		return nil
	}
	ix, ok := unparen(call.Fun).(*ast.IndexExpr)
	if !ok {
		return nil
	}
	id, ok := unparen(ix.X).(*ast.Ident)
	if !ok {
		return nil
	}
	cl := tables[p.TypesInfo.Uses[id]]
	if cl == nil || len(cl.Elts) != 2 {
		return nil
	}
	if _, isMap := cl.Type.(*ast.MapType); !isMap {
		return nil
	}
	var onTrue, onFalse ast.Expr
	for _, e := range cl.Elts {
		kv, ok := e.(*ast.KeyValueExpr)
		if !ok {
			return nil
		}
		k, ok := kv.Key.(*ast.Ident)
		if !ok {
			return nil
		}
		switch k.Name {
		case "true":
			onTrue = kv.Value
		case "false":
			onFalse = kv.Value
		}
	}
	if onTrue == nil || onFalse == nil {
		return nil
	}
	mk := func(fn ast.Expr, args []ast.Expr) ast.Stmt {
		fn = unparen(cloneNode(fn))
		var c *ast.CallExpr
		// (*R).m or R.m with the receiver as first argument
		if sel, isSel := fn.(*ast.SelectorExpr); isSel && len(args) > 0 {
			isMethodExpr := false
			switch x := unparen(sel.X).(type) {
			case *ast.StarExpr:
				_, isMethodExpr = unparen(x.X).(*ast.Ident)
			}
			if isMethodExpr {
				c = &ast.CallExpr{Fun: &ast.SelectorExpr{X: parenIfNeeded(args[0]), Sel: sel.Sel}, Lparen: call.Lparen, Args: args[1:], Rparen: call.Rparen}
			}
		}
		if c == nil {
			c = &ast.CallExpr{Fun: fn, Lparen: call.Lparen, Args: args, Rparen: call.Rparen}
		}
		return &ast.ExprStmt{X: c}
	}
	argsCopy := make([]ast.Expr, len(call.Args))
	for i, a := range call.Args {
		argsCopy[i] = cloneNode(a)
	}
	return &ast.IfStmt{If: es.Pos(), Cond: ix.Index,
		Body: &ast.BlockStmt{Lbrace: es.Pos(), List: []ast.Stmt{mk(onTrue, call.Args)}, Rbrace: es.End()},
		Else: &ast.BlockStmt{Lbrace: es.Pos(), List: []ast.Stmt{mk(onFalse, argsCopy)}, Rbrace: es.End()}}
}
