package main

import (
	"fmt"
	"go/ast"
	"go/token"
	"go/types"
	"sort"
	"strings"
)

func init() {
	register(&propInfo{
		id: "C07", fn: checkC07, multiConfig: true,
		explanation: "Lock-context analysis of every call site of a p9.File method on the server side. The concurrency class of each method is read from the doc comments of the File interface and compared with the property's own table (r0). For every call site the set of locks held on every path is computed (lexical Lock/Unlock regions, wrapper summaries for safelyRead/safelyWrite/safelyGlobal/forEachChild*/removeWithName derived from their bodies, closure inlining, interprocedural entry contexts as the meet over all call sites) and must contain: read class — the path node's opMu (R or W) of the very reference the call is made on plus renameMu:R, or renameMu:W (r1); write class — that node's opMu:W plus renameMu:R, or renameMu:W (r2); UnlinkAt additionally the opMu:W of pathNodeFor(same name) (r3); global class — renameMu:W (r4). r5: the test of ref.opened guarding File.Open and the store ref.opened=true lie in one critical section that is exclusive for that reference. r6: fields documented as protected by opMu/renameMu are accessed only under such a lock or on an unpublished literal. r7: every fidRef literal takes its pathNode from the parent's pathNodeFor(name)/the cloned reference/the server root, never a fresh node. Decides the clause for all interleavings and connections at once, given sync.RWMutex semantics. (r8) the lock follows the path: renameChildTo re-attaches the moved path node under the target directory and path nodes are detached/fenced only after the backend removed the entry (the rules of C08.r1/r3), so that a later walk to the same path finds the same node and therefore the same opMu.",
		assumptions: []string{"one Server per path tree (renameMu instances are identified)", "receiver-expression equality is structural after resolving single-assignment local aliases (no alias analysis is available offline)", "calls on a fresh File not yet reachable through any fid (sf.GetAttr/sf.Close) need no lock"},
	})
}

func checkC07(r *Run) {
	m := buildServerModel(r.L)
	// r0: class table from the source vs the property's.
	classes, problems := fileMethodClasses(r.L)
	for _, p := range problems {
		r.fail("r0", "File doc comments", token.NoPos, "%s", p)
	}
	if len(classes) == 0 {
		r.undecided("r0", "File interface", token.NoPos, "interface p9.File not found")
		return
	}
	var names []string
	for n := range propertyClasses {
		names = append(names, n)
	}
	sort.Strings(names)
	for _, n := range names {
		want := propertyClasses[n]
		got, ok := classes[n]
		switch {
		case !ok:
			r.fail("r0", "File."+n, token.NoPos, "method no longer in the File interface")
		case got != want:
			r.fail("r0", "File."+n, token.NoPos, "source documents a %q concurrency guarantee, the property states %q", got, want)
		default:
			r.ok("r0", "File."+n, token.NoPos, "class %s (source comment = property)", want)
		}
	}
	r.sample(map[string]any{"class_table_from_source": classes})

	// r1..r4: every backend call site.
	n := 0
	for _, b := range m.Backend {
		cls := propertyClasses[b.Method]
		if cls == "" {
			continue // none / unspecified: no obligation (listed in evidence)
		}
		n++
		st := b.State()
		key := b.Key()
		pos := b.Site.Call.Pos()
		if b.Outer != nil {
			pos = b.Outer.Call.Pos()
		}
		if st.Dead {
			r.ok("r1", key, pos, "unreachable")
			continue
		}
		if b.Fresh {
			r.ok(ruleFor(cls), key, pos, "exempt: %s is a fresh File not yet reachable through any fid", b.Recv)
			continue
		}
		held := st.Locks
		if b.Outer != nil {
			// Locks held inside the helper in addition to those at its call site.
			held = unionSet(held, stripCaller(b.Site.St.Locks))
		}
		desc := describeSet(held)
		global := held[tokRenameW]
		switch cls {
		case "global":
			r.check(global, "r4", key, pos, "renameMu held for write: "+desc, "global-class call without renameMu:W; held "+desc)
		case "read", "write":
			if b.Base == "" {
				r.undecided(ruleFor(cls), key, pos, "receiver %s is not of the form X.file: cannot relate the call to a path node", b.Recv)
				continue
			}
			okNode := held[opTok("W", b.Base)] || cls == "read" && held[opTok("R", b.Base)]
			ok := global || okNode && (held[tokRenameR] || held[tokRenameW])
			need := "opMu:W"
			if cls == "read" {
				need = "opMu:R|W"
			}
			r.check(ok, ruleFor(cls), key, pos,
				fmt.Sprintf("%s-class call on %s under %s", cls, b.Recv, desc),
				fmt.Sprintf("%s-class call on %s needs %s of %s.pathNode with renameMu:R (or renameMu:W); held on every path: %s", cls, b.Recv, need, b.Base, desc))
			if b.Method == "UnlinkAt" && len(b.ArgStrs) > 0 {
				child := "p9.pathNode.opMu:W@" + b.Base + ".pathNode.pathNodeFor(" + b.ArgStrs[0] + ")"
				r.check(global || held[child], "r3", key, pos, "entry node locked for write: "+child,
					fmt.Sprintf("UnlinkAt(%s) without the write lock of %s.pathNode.pathNodeFor(%s) (or renameMu:W); held %s", b.ArgStrs[0], b.Base, b.ArgStrs[0], desc))
			}
		}
		if len(r.Samples) < 8 {
			r.sample(map[string]any{"site": key, "class": cls, "locks_held_on_every_path": desc})
		}
	}
	r.floor("r1", "backend call sites with a concurrency class", n, 24)

	c07OpenOnce(r, m)
	c07GuardedFields(r, m)
	c07PathNodeProvenance(r, m)

	// r8: the lock follows the path.  Two references on one path exclude each other only while
	// they share one path node: a rename must re-attach the moved node under the target (the
	// rules of C08.r3), and a node is detached / fenced only when the backend has removed the
	// entry (C08.r1) - otherwise a new walk to the same path gets a second node and a second
	// lock.
	if r.borrowed == nil {
		r.borrow(checkC08, map[string]string{"r1": "r8", "r3": "r8"})
	}
}

func ruleFor(cls string) string {
	switch cls {
	case "write":
		return "r2"
	case "global":
		return "r4"
	}
	return "r1"
}

// stripCaller drops tokens inherited from the helper's entry context (they are
// already represented at the outer call site, in the caller's vocabulary).
func stripCaller(in map[string]bool) map[string]bool {
	out := map[string]bool{}
	for t := range in {
		_, _, inst := parseLockToken(t)
		if strings.HasPrefix(inst, "^") {
			continue
		}
		out[t] = true
	}
	return out
}

// exclusiveFor: the held set contains a lock that excludes every other request on base.
func exclusiveFor(held map[string]bool, base string) (string, bool) {
	if held[tokRenameW] {
		return tokRenameW, true
	}
	if held[opTok("W", base)] && (held[tokRenameR] || held[tokRenameW]) {
		return opTok("W", base), true
	}
	// A mutex that is a field of the reference itself.
	for t := range held {
		class, mode, inst := parseLockToken(t)
		if mode == "W" && inst == base && strings.HasPrefix(class, "p9.fidRef.") {
			return t, true
		}
	}
	return "", false
}

// c07OpenOnce (r5): at the File.Open call, !ref.opened is a fact, and there is a
// store ref.opened = true reachable only after it; both must lie inside one
// region of a lock exclusive for ref.
func c07OpenOnce(r *Run, m *ServerModel) {
	info := m.Info
	n := 0
	for _, b := range m.Backend {
		if b.Method != "Open" || b.Fresh {
			continue
		}
		n++
		key := b.Key()
		st := b.State()
		base := b.Base
		// (a) the guard.
		if !st.holds(base+".opened", false) {
			r.fail("r5", key, b.Site.Call.Pos(), "File.Open is not dominated by a test that %s.opened is false", base)
			continue
		}
		excl, ok := exclusiveFor(st.Locks, base)
		if !ok {
			r.fail("r5", key, b.Site.Call.Pos(), "the test of %s.opened and File.Open run under %s, which does not exclude a second Tlopen on the same fid: two requests can both see opened == false and both call Open", base, describeSet(st.Locks))
			continue
		}
		// (b) the store: find writes of .opened on the same base in the same root function.
		found := false
		for _, fa := range m.fields() {
			if fa.Root != b.Site.Root || fa.Key != "p9.fidRef.opened" || !fa.Write {
				continue
			}
			res := m.resolver(fa.Root)
			if res.str(fa.Sel.X) != base {
				continue
			}
			found = true
			if fa.St.Locks[excl] && sameRegion(m, b.Site, fa) {
				r.ok("r5", key, fa.Sel.Pos(), "test, Open and the store %s.opened = true are in one region of %s", base, excl)
			} else {
				r.fail("r5", key, fa.Sel.Pos(), "%s.opened is set under %s, outside the region (%s) in which it was tested: check-then-act window, Open can be invoked twice on one File", base, describeSet(fa.St.Locks), excl)
			}
		}
		if !found {
			r.fail("r5", key, b.Site.Call.Pos(), "no store to %s.opened follows a successful Open in %s", base, b.Site.Root.Key)
		}
		_ = info
	}
	r.floor("r5", "File.Open call sites", n, 1)
}

// sameRegion: both nodes are inside the same inlined literal (the same wrapper call) or
// the same function body with the lock held throughout (approximated by identical literal).
func sameRegion(m *ServerModel, a *Site, fa *FieldAccess) bool {
	return a.Fn == fa.Fn
}

// c07GuardedFields (r6).
func c07GuardedFields(r *Run, m *ServerModel) {
	guarded := map[string]bool{"p9.fidRef.opened": true, "p9.fidRef.openFlags": true, "p9.fidRef.parent": true}
	type agg struct {
		ok, bad int
	}
	n := 0
	worst := map[string]*FieldAccess{}
	status := map[string]string{}
	detail := map[string]string{}
	poss := map[string]token.Pos{}
	for _, fa := range m.fields() {
		if !guarded[fa.Key] || isClientSide(fa.Root) || fa.St.Dead {
			continue
		}
		// Composite-literal keys are not selector expressions; only real accesses get here.
		res := m.resolver(fa.Root)
		base := res.str(fa.Sel.X)
		mode := "read"
		if fa.Write {
			mode = "write"
		}
		key := fmt.Sprintf("%s: %s of %s.%s", fa.Root.Key, mode, base, fa.Field.Name())
		n++
		judge := func(held map[string]bool, base string) (bool, string) {
			switch {
			case held[tokRenameW]:
				return true, "renameMu:W"
			case fa.Write && fa.Key == "p9.fidRef.parent":
				return false, "" // needs renameMu:W (and opMu:W)
			case fa.Write:
				if held[opTok("W", base)] && held[tokRenameR] {
					return true, "opMu:W + renameMu:R"
				}
				// A mutex that belongs to the reference itself, inside a safely* region:
				// writers of this reference's open state exclude each other (r5 checks
				// that the test and the store share this region).
				for t := range held {
					class, mode, inst := parseLockToken(t)
					if mode == "W" && inst == base && strings.HasPrefix(class, "p9.fidRef.") && held[tokRenameR] {
						return true, "per-reference mutex " + class + " + renameMu:R"
					}
				}
				return false, ""
			default:
				return held[tokRenameR] || held[opTok("R", base)] || held[opTok("W", base)], "renameMu:R or the node's opMu"
			}
		}
		record := func(key string, okAcc bool, why string, held map[string]bool, base string) {
			if okAcc {
				if status[key] == "" {
					status[key] = "ok"
					detail[key] = why
					worst[key] = fa
				}
				return
			}
			status[key] = "fail"
			detail[key] = fmt.Sprintf("%s of %s.%s with only %s held; the field is documented as protected by pathNode.opMu or renameMu (a rename writes it under renameMu:W)", mode, base, fa.Field.Name(), describeSet(held))
			worst[key] = fa
		}
		held := fa.St.Locks
		if m.isUnpublished(fa, base) {
			record(key, true, "object not yet published", held, base)
			continue
		}
		okAcc, why := judge(held, base)
		if !okAcc && !fa.Write && fa.Root.Key == "p9.fidRef.DecRef" {
			// DecRef reads parent when the count reached zero: the object is no longer discoverable.
			okAcc, why = true, "reference count reached zero: object no longer reachable (documented in DecRef)"
		}
		if okAcc {
			record(key, true, why, held, base)
			continue
		}
		// The function may be a small accessor whose context is that of its callers:
		// judge every static call site instead (one level).
		callers := m.DB.Calls[fa.Root.Key]
		if len(callers) == 0 && fa.Root.Decl.Recv != nil && !fa.Root.Obj.Exported() && !implementsInterfaceMethod(m.L, fa.Root) {
			record(key, true, "accessor has no call site in the module (dead code): the access never executes", held, base)
			continue
		}
		if len(callers) == 0 || fa.Root.Decl.Recv == nil {
			record(key, false, "", held, base)
			continue
		}
		for _, cs := range callers {
			if isClientSide(cs.Root) || cs.St.Dead {
				continue
			}
			cres := m.resolver(cs.Root)
			cbase := base
			if sel, ok := unparen(cs.Call.Fun).(*ast.SelectorExpr); ok {
				cbase = cres.str(sel.X)
			}
			ckey := fmt.Sprintf("%s → %s: %s of %s.%s", cs.Root.Key, fa.Root.Decl.Name.Name, mode, cbase, fa.Field.Name())
			ok2, why2 := judge(cs.St.Locks, cbase)
			if ok2 {
				if status[ckey] == "" {
					status[ckey], detail[ckey], worst[ckey] = "ok", why2, fa
					poss[ckey] = cs.Call.Pos()
				}
			} else {
				status[ckey] = "fail"
				detail[ckey] = fmt.Sprintf("%s.%s() reads %s.%s with only %s held; the field is documented as protected by pathNode.opMu or renameMu (a rename writes it under renameMu:W)", cbase, fa.Root.Decl.Name.Name, cbase, fa.Field.Name(), describeSet(cs.St.Locks))
				worst[ckey] = fa
				poss[ckey] = cs.Call.Pos()
			}
		}
	}
	var keys []string
	for k := range status {
		keys = append(keys, k)
	}
	sort.Strings(keys)
	for _, k := range keys {
		pos := worst[k].Sel.Pos()
		if p, ok := poss[k]; ok {
			pos = p
		}
		if status[k] == "ok" {
			r.ok("r6", k, pos, "%s", detail[k])
		} else {
			r.fail("r6", k, pos, "%s", detail[k])
		}
	}
	r.floor("r6", "accesses to opened/openFlags/parent", n, 20)
}

// isUnpublished: base is a local variable bound to a &fidRef{} literal in this function
// and neither addChild nor InsertFID has been reached with it on this path.
func (m *ServerModel) isUnpublished(fa *FieldAccess, base string) bool {
	info := m.Info
	id, ok := unparen(fa.Sel.X).(*ast.Ident)
	if !ok {
		return false
	}
	obj := objOf(info, id)
	if obj == nil {
		return false
	}
	isLit := false
	ast.Inspect(fa.Root.Decl, func(n ast.Node) bool {
		as, ok := n.(*ast.AssignStmt)
		if !ok || len(as.Lhs) != 1 || len(as.Rhs) != 1 || objOf(info, as.Lhs[0]) != obj {
			return true
		}
		if u, ok := unparen(as.Rhs[0]).(*ast.UnaryExpr); ok && u.Op == token.AND {
			if _, ok := u.X.(*ast.CompositeLit); ok {
				isLit = true
			}
		}
		return true
	})
	if !isLit {
		return false
	}
	return !fa.St.May["p9.pathNode.addChild"] && !fa.St.May["p9.connState.InsertFID"]
}

// c07PathNodeProvenance (r7): every &fidRef{...} literal.
func c07PathNodeProvenance(r *Run, m *ServerModel) {
	info := m.Info
	n := 0
	fidRefT := r.L.namedType("p9", "fidRef")
	for _, fi := range r.L.funcsOfPkg("p9") {
		if fi.Decl.Body == nil {
			continue
		}
		res := m.resolver(fi)
		idx := 0
		ast.Inspect(fi.Decl.Body, func(nd ast.Node) bool {
			cl, ok := nd.(*ast.CompositeLit)
			if !ok || fidRefT == nil || !types.Identical(info.TypeOf(cl), fidRefT) {
				return true
			}
			n++
			idx++
			fields := map[string]ast.Expr{}
			for _, el := range cl.Elts {
				if kv, ok := el.(*ast.KeyValueExpr); ok {
					if id, ok := kv.Key.(*ast.Ident); ok {
						fields[id.Name] = kv.Value
					}
				}
			}
			key := fmt.Sprintf("%s: fidRef literal #%d", fi.Key, idx)
			pn, has := fields["pathNode"]
			if !has {
				r.fail("r7", key, cl.Pos(), "literal has no pathNode: the reference is not tied to a shared path node")
				return true
			}
			pns := res.str(pn)
			parent := ""
			if p, ok := fields["parent"]; ok && !isNilIdent(info, unparen(p)) {
				parent = res.str(p)
			}
			switch {
			case parent != "" && strings.HasPrefix(pns, parent+".pathNode.pathNodeFor("):
				r.ok("r7", key, cl.Pos(), "pathNode = %s (the parent's shared node for the name)", pns)
			case strings.HasSuffix(pns, ".pathNode") && !strings.Contains(pns, "("):
				// clone / xattr fid: same node as the reference it derives from
				r.ok("r7", key, cl.Pos(), "pathNode = %s (shared with the reference it is derived from)", pns)
			case strings.HasSuffix(pns, ".server.pathTree"):
				r.ok("r7", key, cl.Pos(), "pathNode = %s (server root)", pns)
			default:
				r.fail("r7", key, cl.Pos(), "pathNode = %s: not the parent's pathNodeFor(name), not an existing reference's node, not the server root — two references on one path would not share their lock", pns)
			}
			return true
		})
	}
	r.floor("r7", "fidRef literals", n, 5)
}

// implementsInterfaceMethod: the method's name is declared by some interface of package p9
// that its receiver implements (then it may be called dynamically).
func implementsInterfaceMethod(l *Loaded, fi *FuncInfo) bool {
	p9 := l.Pkg("p9")
	sig := fi.Obj.Type().(*types.Signature)
	if sig.Recv() == nil {
		return false
	}
	rt := sig.Recv().Type()
	scope := p9.Types.Scope()
	for _, name := range scope.Names() {
		tn, ok := scope.Lookup(name).(*types.TypeName)
		if !ok {
			continue
		}
		it, ok := tn.Type().Underlying().(*types.Interface)
		if !ok {
			continue
		}
		for i := 0; i < it.NumMethods(); i++ {
			if it.Method(i).Name() == fi.Obj.Name() && (types.Implements(rt, it) || types.Implements(types.NewPointer(rt), it)) {
				return true
			}
		}
	}
	return false
}
