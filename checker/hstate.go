package main

// The "site analysis": one forward dataflow pass per function that records, for
// every call site and field access, the path facts that must hold there (guards
// taken, as a small DNF), the locks held (must and may), and the calls that
// must have happened before.  The per-property rules are queries over these
// site records.

import (
	"fmt"
	"go/ast"
	"go/token"
	"go/types"
	"os"
	"sort"
	"strconv"
	"strings"
	"time"
)

// Fact sets: atom key -> polarity.
type FactSet map[string]bool

func (f FactSet) key() string {
	ks := make([]string, 0, len(f))
	for k, v := range f {
		if v {
			ks = append(ks, "+"+k)
		} else {
			ks = append(ks, "-"+k)
		}
	}
	sort.Strings(ks)
	return strings.Join(ks, "&")
}

func (f FactSet) copy() FactSet {
	o := make(FactSet, len(f))
	for k, v := range f {
		o[k] = v
	}
	return o
}

type HState struct {
	Dead  bool
	Paths []FactSet                 // disjunction of conjunctions
	Locks map[string]bool           // lock tokens that are held on every path
	MayL  map[string]bool           // lock tokens that may be held
	Must  map[string]bool           // events (callee keys, "defer:"+key) that happened on every path
	May   map[string]bool           // events that may have happened
	Defs  map[types.Object]ast.Node // unique reaching definition (assignment RHS call) of a variable
}

const maxPaths = 24

func newHState() *HState {
	return &HState{Paths: []FactSet{{}}, Locks: map[string]bool{}, MayL: map[string]bool{}, Must: map[string]bool{}, May: map[string]bool{}, Defs: map[types.Object]ast.Node{}}
}

func copySet(m map[string]bool) map[string]bool {
	o := make(map[string]bool, len(m))
	for k, v := range m {
		o[k] = v
	}
	return o
}

func hCopy(s *HState) *HState {
	o := &HState{Dead: s.Dead, Locks: copySet(s.Locks), MayL: copySet(s.MayL), Must: copySet(s.Must), May: copySet(s.May), Defs: map[types.Object]ast.Node{}}
	for _, p := range s.Paths {
		o.Paths = append(o.Paths, p.copy())
	}
	for k, v := range s.Defs {
		o.Defs[k] = v
	}
	return o
}

func interSet(a, b map[string]bool) map[string]bool {
	o := map[string]bool{}
	for k := range a {
		if b[k] {
			o[k] = true
		}
	}
	return o
}

func unionSet(a, b map[string]bool) map[string]bool {
	o := copySet(a)
	for k := range b {
		o[k] = true
	}
	return o
}

func hJoin(a, b *HState) *HState {
	if a.Dead {
		return hCopy(b)
	}
	if b.Dead {
		return hCopy(a)
	}
	o := &HState{Locks: interSet(a.Locks, b.Locks), MayL: unionSet(a.MayL, b.MayL), Must: interSet(a.Must, b.Must), May: unionSet(a.May, b.May), Defs: map[types.Object]ast.Node{}}
	seen := map[string]bool{}
	for _, p := range append(append([]FactSet{}, a.Paths...), b.Paths...) {
		k := p.key()
		if !seen[k] {
			seen[k] = true
			o.Paths = append(o.Paths, p.copy())
		}
	}
	if len(o.Paths) > maxPaths {
		o.Paths = []FactSet{commonFacts(o.Paths)}
	}
	sort.Slice(o.Paths, func(i, j int) bool { return o.Paths[i].key() < o.Paths[j].key() })
	for k, v := range a.Defs {
		if b.Defs[k] == v {
			o.Defs[k] = v
		}
	}
	return o
}

func commonFacts(paths []FactSet) FactSet {
	if len(paths) == 0 {
		return FactSet{}
	}
	o := paths[0].copy()
	for _, p := range paths[1:] {
		for k, v := range o {
			if pv, ok := p[k]; !ok || pv != v {
				delete(o, k)
			}
		}
	}
	return o
}

func setEq(a, b map[string]bool) bool {
	if len(a) != len(b) {
		return false
	}
	for k := range a {
		if !b[k] {
			return false
		}
	}
	return true
}

// hKey renders a state canonically (memoisation of inlined callees).
func hKey(s *HState) string {
	if s.Dead {
		return "dead"
	}
	var b strings.Builder
	var ps []string
	for _, p := range s.Paths {
		ps = append(ps, p.key())
	}
	sort.Strings(ps)
	b.WriteString(strings.Join(ps, "|"))
	for _, set := range []map[string]bool{s.Locks, s.MayL, s.Must, s.May} {
		var ks []string
		for k := range set {
			ks = append(ks, k)
		}
		sort.Strings(ks)
		b.WriteString("\x00")
		b.WriteString(strings.Join(ks, ","))
	}
	var ds []string
	for o, n := range s.Defs {
		ds = append(ds, fmt.Sprintf("%p=%p", o, n))
	}
	sort.Strings(ds)
	b.WriteString("\x00")
	b.WriteString(strings.Join(ds, ","))
	return b.String()
}

func hEqual(a, b *HState) bool {
	if a.Dead != b.Dead {
		return false
	}
	if !setEq(a.Locks, b.Locks) || !setEq(a.MayL, b.MayL) || !setEq(a.Must, b.Must) || !setEq(a.May, b.May) || len(a.Paths) != len(b.Paths) || len(a.Defs) != len(b.Defs) {
		return false
	}
	for i := range a.Paths {
		if a.Paths[i].key() != b.Paths[i].key() {
			return false
		}
	}
	for k, v := range a.Defs {
		if b.Defs[k] != v {
			return false
		}
	}
	return true
}

// holdsAll reports whether fact (key,pol) holds on every path.
func (s *HState) holds(key string, pol bool) bool {
	if s.Dead {
		return true
	}
	for _, p := range s.Paths {
		if v, ok := p[key]; !ok || v != pol {
			return false
		}
	}
	return true
}

// factKeys lists facts common to all paths.
func (s *HState) common() FactSet { return commonFacts(s.Paths) }

// Site is the record of one visited node.
type Site struct {
	Node   ast.Node
	Call   *ast.CallExpr // if the node is/contains this call
	Callee string
	Fn     ast.Node  // innermost function (decl or literal)
	Root   *FuncInfo // enclosing declaration
	St     *HState
	Ctx    []string // chain of wrapper calls through which a literal was entered (outermost first)
	// Inl is non-empty for a site inside a callee analysed in place: the chain of calls
	// (outermost first) leading from Root to the function that contains the node.
	Inl []*InlFrame
	Res *resolver // renders expressions at this site in the frame of Root
	// Virtual: not a call written in the source but the call a wrapper makes to a declared
	// function that was handed to it as its callback (forEachChildNode(notifyDelete)); Call is
	// synthetic (Fun = the function reference, no arguments), St the state inside the wrapper.
	Virtual bool
	// NonBlocking: a channel operation (or the select itself) of a select statement that has
	// a default clause: it never waits.
	NonBlocking bool
}

// InlFrame is one step of in-place analysis: Call (in the outer frame) enters Decl.
type InlFrame struct {
	Call *ast.CallExpr
	Decl *ast.FuncDecl
}

// SiteDB holds the results for a set of functions.
type SiteDB struct {
	L         *Loaded
	info      map[*types.Package]*types.Info
	Calls     map[string][]*Site // callee key -> sites (every visit)
	ByFunc    map[*FuncInfo][]*Site
	Wrappers  map[*types.Func]*Wrapper
	wlocks    map[*types.Func][]wlock // lock tokens a wrapper holds around its callback
	atomObjs  map[string][]types.Object
	weights   map[*FuncInfo]int
	noInline  bool
	inlineNew bool // with noInline: helpers that are not part of the pinned tree are still analysed in place
	exprFuncs bool // resolvers see through expression functions (local DBs for bounds reasoning)
	// entry contexts (interprocedural)
	EntryMust    map[*types.Func]map[string]bool
	EntryMay     map[*types.Func]map[string]bool
	Exits        map[*FuncInfo][]*ExitRec
	Virtual      map[*FuncInfo][]*Site    // callbacks that are declared functions (see Site.Virtual)
	DeepExits    map[*FuncInfo][]*ExitRec // exits of helpers analysed in place, keyed by the root function
	Deep         map[*FuncInfo][]*Site    // call sites inside callees analysed in place, keyed by the root function
	DeepFields   []*FieldAccess           // field accesses inside callees analysed in place (Root = the root function)
	Fields       []*FieldAccess
	Exprs        map[ast.Node]*HState       // state before index / slice expressions
	Blocking     []*Site                    // channel operations, select statements, go statements (Callee: "<-chan", "chan<-", "select", "go")
	DeepBlocking []*Site                    // the same inside callees analysed in place (Root = the root function, Inl set)
	CountIn      map[string]map[string]bool // root function key -> callee keys whose calls are counted per path (facts #c1_<key>, #c2_<key>)
	LockAcqs     []*LockAcq
}

// LockAcq is one explicit Lock/RLock call with the locks that may be held at that point.
type LockAcq struct {
	Site  *Site
	Token string
	Class string
	Mode  string
	Inst  string
}

type ExitRec struct {
	Ret *ast.ReturnStmt
	Fn  ast.Node
	St  *HState
	Inl []*InlFrame // non-empty: an exit of a helper analysed in place (DeepExits only)
}

type FieldAccess struct {
	Sel   *ast.SelectorExpr
	Field *types.Var
	Key   string
	Write bool
	Root  *FuncInfo
	Inl   []*InlFrame
	Res   *resolver // renders expressions at this access in the frame of Root
	Fn    ast.Node
	St    *HState
}

type wlock struct {
	Class string // p9.pathNode.opMu
	Mode  string // R | W
	Inst  string // instance expression relative to the wrapper's receiver/params
	RW    bool   // sync.RWMutex (a write hold implies a read hold)
	recv  types.Object
}

// lockToken formats a held-lock token.
func lockToken(class, mode, inst string) string {
	if strings.HasSuffix(class, ".renameMu") {
		inst = "*" // one per Server
	}
	return class + ":" + mode + "@" + inst
}

func parseLockToken(t string) (class, mode, inst string) {
	i := strings.Index(t, ":")
	j := strings.Index(t, "@")
	if i < 0 || j < i {
		return t, "", ""
	}
	return t[:i], t[i+1 : j], t[j+1:]
}

// mutex method classification.
func mutexOp(key string) (op, mode string) {
	switch key {
	case "sync.Mutex.Lock", "sync.RWMutex.Lock":
		return "lock", "W"
	case "sync.RWMutex.RLock":
		return "lock", "R"
	case "sync.Mutex.Unlock", "sync.RWMutex.Unlock":
		return "unlock", "W"
	case "sync.RWMutex.RUnlock":
		return "unlock", "R"
	case "sync.Mutex.TryLock", "sync.RWMutex.TryLock", "sync.RWMutex.TryRLock":
		return "trylock", "W"
	}
	return "", ""
}

// resolver substitutes single-assignment local aliases inside expressions and
// renders them as canonical strings.
type resolver struct {
	l     *Loaded
	info  *types.Info
	defs  map[types.Object]ast.Expr // local var -> its only definition (nil entry = several)
	subst map[types.Object]string   // wrapper receiver/param substitution
	uniq  map[types.Object]string   // disambiguated names of locals that share a name (err#2)
	count map[types.Object]int      // number of assignments (address-taking counts double)
	// Instantiation of a callee analysed in place: its receiver and parameters are rendered as
	// the caller's argument expressions, its own locals carry the suffix ~frame.
	frame     string
	lo, hi    token.Pos
	substObjs map[types.Object][]types.Object // parameter -> variables of the argument expression (caller frames)
	// exprFuncs (opt-in): a call of a declared function whose whole body is "return <expr>"
	// is rendered as that expression with the arguments substituted (b.has(n) becomes
	// len(b.data) >= n, payloadSizeFor(x) becomes roundDown(x - largestFixedSize, 512)).
	exprFuncs bool
}

// withExprFuncs returns a copy of the resolver that sees through expression functions.
func (r *resolver) withExprFuncs() *resolver {
	c := *r
	c.exprFuncs = true
	return &c
}

// exprFuncBody returns the returned expression of a function that consists of one return.
func exprFuncBody(decl *ast.FuncDecl) ast.Expr {
	if decl == nil || decl.Body == nil || len(decl.Body.List) != 1 {
		return nil
	}
	ret, ok := decl.Body.List[0].(*ast.ReturnStmt)
	if !ok || len(ret.Results) != 1 || !pureExpr(ret.Results[0]) {
		return nil
	}
	return ret.Results[0]
}

func newResolver(l *Loaded, info *types.Info, fn ast.Node) *resolver {
	r := &resolver{l: l, info: info, defs: map[types.Object]ast.Expr{}, subst: map[types.Object]string{}}
	count := map[types.Object]int{}
	ast.Inspect(fn, func(n ast.Node) bool {
		switch v := n.(type) {
		case *ast.AssignStmt:
			for i, lhs := range v.Lhs {
				obj := objOf(info, lhs)
				if obj == nil {
					continue
				}
				count[obj]++
				if len(v.Lhs) == len(v.Rhs) {
					r.defs[obj] = v.Rhs[i]
				} else if i == 0 && len(v.Lhs) == 2 && len(v.Rhs) == 1 && isCommaOk(v.Rhs[0]) {
					r.defs[obj] = v.Rhs[0] // m, ok := x[k]
				} else {
					r.defs[obj] = nil
				}
			}
		case *ast.ValueSpec:
			for i, nm := range v.Names {
				obj := info.Defs[nm]
				count[obj]++
				if i < len(v.Values) {
					r.defs[obj] = v.Values[i]
				} else {
					r.defs[obj] = nil
				}
			}
		case *ast.RangeStmt:
			for _, e := range []ast.Expr{v.Key, v.Value} {
				if e != nil {
					if obj := objOf(info, e); obj != nil {
						count[obj] += 2
					}
				}
			}
		case *ast.IncDecStmt:
			if obj := objOf(info, v.X); obj != nil {
				count[obj] += 2
			}
		case *ast.UnaryExpr:
			if v.Op == token.AND {
				if obj := objOf(info, v.X); obj != nil {
					count[obj] += 2 // address taken: do not treat as an alias
				}
			}
		}
		return true
	})
	// Parameters, named results and receivers get their first value from the call: an
	// assignment to one of them is never its only definition.
	params := map[types.Object]bool{}
	ast.Inspect(fn, func(n ast.Node) bool {
		var ft *ast.FuncType
		switch v := n.(type) {
		case *ast.FuncDecl:
			ft = v.Type
			if v.Recv != nil {
				for _, f := range v.Recv.List {
					for _, nm := range f.Names {
						params[info.Defs[nm]] = true
					}
				}
			}
		case *ast.FuncLit:
			ft = v.Type
		}
		if ft != nil {
			for _, lst := range []*ast.FieldList{ft.Params, ft.Results} {
				if lst == nil {
					continue
				}
				for _, f := range lst.List {
					for _, nm := range f.Names {
						params[info.Defs[nm]] = true
					}
				}
			}
		}
		return true
	})
	for obj, c := range count {
		if c != 1 || params[obj] {
			delete(r.defs, obj)
		}
	}
	r.count = count
	// Distinct local objects that share a name (err := ... in several scopes) get an ordinal.
	r.uniq = map[types.Object]string{}
	byName := map[string][]types.Object{}
	ast.Inspect(fn, func(n ast.Node) bool {
		if id, ok := n.(*ast.Ident); ok {
			if obj := info.Defs[id]; obj != nil {
				if _, isVar := obj.(*types.Var); isVar {
					byName[id.Name] = append(byName[id.Name], obj)
				}
			}
		}
		return true
	})
	for name, objs := range byName {
		if len(objs) < 2 {
			continue
		}
		sort.Slice(objs, func(i, j int) bool { return objs[i].Pos() < objs[j].Pos() })
		for i, o := range objs {
			if i > 0 {
				r.uniq[o] = fmt.Sprintf("%s#%d", name, i+1)
			}
		}
	}
	return r
}

func (r *resolver) str(e ast.Expr) string { return r.strDepth(e, 0) }

// instantiate builds the resolver for the body of decl analysed in place at call: base is the
// plain resolver of decl, r the resolver of the calling context.
func (r *resolver) instantiate(call *ast.CallExpr, decl *ast.FuncDecl, base *resolver) *resolver {
	n := &resolver{l: base.l, info: base.info, defs: base.defs, uniq: base.uniq, count: base.count,
		subst: map[types.Object]string{}, substObjs: map[types.Object][]types.Object{},
		frame: decl.Name.Name, lo: decl.Pos(), hi: decl.End(), exprFuncs: r.exprFuncs}
	bind := func(nm *ast.Ident, arg ast.Expr) {
		obj := base.info.Defs[nm]
		if obj == nil || nm.Name == "_" || base.count[obj] > 0 {
			return // reassigned inside the callee: stays a local of the callee
		}
		n.subst[obj] = r.str(arg)
		n.substObjs[obj] = r.objsOf(arg)
	}
	if decl.Recv != nil && len(decl.Recv.List) == 1 && len(decl.Recv.List[0].Names) == 1 {
		if sel, ok := unparen(call.Fun).(*ast.SelectorExpr); ok {
			bind(decl.Recv.List[0].Names[0], sel.X)
		}
	}
	idx := 0
	for _, fld := range decl.Type.Params.List {
		_, variadic := fld.Type.(*ast.Ellipsis)
		for _, nm := range fld.Names {
			if idx < len(call.Args) && !variadic {
				bind(nm, call.Args[idx])
			}
			idx++
		}
		if len(fld.Names) == 0 {
			idx++
		}
	}
	return n
}

// objsOf lists the variables an expression depends on, in terms of the outermost frames:
// substituted parameters are replaced by the variables of their argument expressions.
func (r *resolver) objsOf(e ast.Node) []types.Object {
	var out []types.Object
	for _, o := range objsIn(r.info, e) {
		if so, ok := r.substObjs[o]; ok {
			out = append(out, so...)
		} else {
			out = append(out, o)
		}
	}
	return out
}

// nameOf renders a variable the way str does, without following aliases.
func (r *resolver) nameOf(obj types.Object) string {
	if obj == nil {
		return ""
	}
	if s, ok := r.subst[obj]; ok {
		return s
	}
	name := obj.Name()
	if u, ok := r.uniq[obj]; ok {
		name = u
	}
	if r.frame != "" && obj.Pos() >= r.lo && obj.Pos() < r.hi {
		if _, isVar := obj.(*types.Var); isVar {
			name += "~" + r.frame
		}
	}
	return name
}

// local reports whether obj is declared inside the callee this resolver instantiates.
func (r *resolver) local(obj types.Object) bool {
	return r.frame != "" && obj != nil && obj.Pos() >= r.lo && obj.Pos() < r.hi
}

func (r *resolver) strDepth(e ast.Expr, depth int) string {
	e = unparen(e)
	switch v := e.(type) {
	case *ast.Ident:
		obj := objOf(r.info, v)
		if obj != nil {
			if s, ok := r.subst[obj]; ok {
				return s
			}
			if d, ok := r.defs[obj]; ok && d != nil && depth < 4 && pureExpr(d) {
				if _, isVar := obj.(*types.Var); isVar && obj.Parent() != obj.Pkg().Scope() {
					return r.strDepth(d, depth+1)
				}
			}
			if _, isVar := obj.(*types.Var); isVar {
				return r.nameOf(obj)
			}
		}
		return v.Name
	case *ast.SelectorExpr:
		// Package-qualified identifiers stay as they are.
		if id, ok := v.X.(*ast.Ident); ok {
			if _, isPkg := r.info.Uses[id].(*types.PkgName); isPkg {
				return id.Name + "." + v.Sel.Name
			}
		}
		// (a pointer alias "px := &ref.pendingXattr" selects the fields of what it points to)
		return strings.TrimPrefix(r.strDepth(v.X, depth), "&") + "." + v.Sel.Name
	case *ast.CallExpr:
		if r.exprFuncs && depth < 4 {
			if tf := r.l.FuncOf(callee(r.info, v)); tf != nil && tf.Pkg.TypesInfo == r.info {
				if body := exprFuncBody(tf.Decl); body != nil {
					base := newResolver(r.l, r.info, tf.Decl)
					inst := r.instantiate(v, tf.Decl, base)
					inst.exprFuncs = true
					inst.frame = "" // a pure expression has no locals
					return "(" + inst.strDepth(body, depth+1) + ")"
				}
			}
		}
		var args []string
		for _, a := range v.Args {
			args = append(args, r.strDepth(a, depth))
		}
		return r.strDepth(v.Fun, depth) + "(" + strings.Join(args, ", ") + ")"
	case *ast.StarExpr:
		if xs := r.strDepth(v.X, depth); strings.HasPrefix(xs, "&") {
			return xs[1:]
		} else {
			return "*" + xs
		}
	case *ast.UnaryExpr:
		return v.Op.String() + r.strDepth(v.X, depth)
	case *ast.BinaryExpr:
		return r.strDepth(v.X, depth) + " " + v.Op.String() + " " + r.strDepth(v.Y, depth)
	case *ast.IndexExpr:
		return r.strDepth(v.X, depth) + "[" + r.strDepth(v.Index, depth) + "]"
	case *ast.SliceExpr:
		part := func(x ast.Expr) string {
			if x == nil {
				return ""
			}
			return r.strDepth(x, depth)
		}
		out := r.strDepth(v.X, depth) + "[" + part(v.Low) + ":" + part(v.High)
		if v.Slice3 {
			out += ":" + part(v.Max)
		}
		return out + "]"
	case *ast.TypeAssertExpr:
		if v.Type != nil {
			return r.strDepth(v.X, depth) + ".(" + r.l.str(v.Type) + ")"
		}
	}
	return r.l.str(e)
}

// pureExpr: selector / call chains without function literals (good enough for aliases such as
// childPathNode := ref.pathNode.pathNodeFor(t.Name)).
func pureExpr(e ast.Expr) bool {
	ok := true
	ast.Inspect(e, func(n ast.Node) bool {
		switch n.(type) {
		case *ast.FuncLit, *ast.CompositeLit:
			ok = false
		}
		return ok
	})
	return ok
}

// atomOf canonicalises a condition into (key, polarity-of-true-branch).
func atomOf(res *resolver, info *types.Info, parents func(ast.Node) ast.Node, cond ast.Expr) (string, bool) {
	cond = unparen(cond)
	pol := true
	for {
		u, ok := cond.(*ast.UnaryExpr)
		if !ok || u.Op != token.NOT {
			break
		}
		pol = !pol
		cond = unparen(u.X)
	}
	// Case expression of a tagged switch.
	if parents != nil {
		if cc, ok := parents(cond).(*ast.CaseClause); ok {
			if blk, ok := parents(cc).(*ast.BlockStmt); ok {
				if sw, ok := parents(blk).(*ast.SwitchStmt); ok && sw.Tag != nil {
					return res.str(sw.Tag) + " == " + res.str(cond), pol
				}
			}
		}
	}
	// A predicate that is an expression function is judged by its body.
	if call, ok := cond.(*ast.CallExpr); ok && res.exprFuncs {
		if tf := res.l.FuncOf(callee(info, call)); tf != nil && tf.Pkg.TypesInfo == info {
			if body := exprFuncBody(tf.Decl); body != nil {
				inst := res.instantiate(call, tf.Decl, newResolver(res.l, info, tf.Decl))
				inst.exprFuncs = true
				inst.frame = ""
				k, p := atomOf(inst, info, nil, body)
				return k, p == pol
			}
		}
	}
	if be, ok := cond.(*ast.BinaryExpr); ok {
		x, y := res.str(be.X), res.str(be.Y)
		switch be.Op {
		case token.EQL:
			return x + " == " + y, pol
		case token.NEQ:
			return x + " == " + y, !pol
		case token.GTR:
			return x + " > " + y, pol
		case token.LEQ:
			return x + " > " + y, !pol
		case token.LSS:
			return y + " > " + x, pol
		case token.GEQ:
			return y + " > " + x, !pol
		}
	}
	return res.str(cond), pol
}

func objsIn(info *types.Info, e ast.Node) []types.Object {
	var out []types.Object
	ast.Inspect(e, func(n ast.Node) bool {
		if id, ok := n.(*ast.Ident); ok {
			if o := info.Uses[id]; o != nil {
				if _, isVar := o.(*types.Var); isVar {
					out = append(out, o)
				}
			}
		}
		return true
	})
	return out
}

// buildSiteDB analyses all functions of the given packages.
func buildSiteDB(l *Loaded, pkgs ...string) *SiteDB {
	db := &SiteDB{L: l, Calls: map[string][]*Site{}, ByFunc: map[*FuncInfo][]*Site{}, atomObjs: map[string][]types.Object{},
		EntryMust: map[*types.Func]map[string]bool{}, EntryMay: map[*types.Func]map[string]bool{}, Exits: map[*FuncInfo][]*ExitRec{},
		wlocks: map[*types.Func][]wlock{},
		// the reply discipline of the server loop is judged per path (C06.r1)
		CountIn: map[string]map[string]bool{"p9.connState.handleRequest": {"p9.send": true}}}
	db.Wrappers = findWrappers(l, pkgs...)
	for _, w := range db.Wrappers {
		db.wlocks[w.Fn] = db.wrapperLocks(w)
	}
	var funcs []*FuncInfo
	for _, pk := range pkgs {
		funcs = append(funcs, l.funcsOfPkg(pk)...)
	}
	// Interprocedural entry contexts.  must: intersection over all static call sites,
	// computed downwards from "unknown" (token ⊤) so that recursion converges to the
	// greatest solution; may: union, computed upwards.  Functions without static callers
	// (entry points, interface-dispatched handlers) start with nothing held.
	const top = "\u22a4"
	runAll := func() {
		db.Calls = map[string][]*Site{}
		db.ByFunc = map[*FuncInfo][]*Site{}
		db.Exits = map[*FuncInfo][]*ExitRec{}
		db.Deep = map[*FuncInfo][]*Site{}
		db.Virtual = map[*FuncInfo][]*Site{}
		db.DeepExits = map[*FuncInfo][]*ExitRec{}
		db.DeepFields = nil
		db.Fields = nil
		db.Blocking = nil
		db.DeepBlocking = nil
		db.LockAcqs = nil
		db.Exprs = map[ast.Node]*HState{}
		for _, fi := range funcs {
			if fi.Decl.Body != nil {
				t0 := time.Now()
				if tf := os.Getenv("P9_TRACE"); tf != "" {
					if f, err := os.OpenFile(tf, os.O_APPEND|os.O_CREATE|os.O_WRONLY, 0644); err == nil {
						fmt.Fprintf(f, "start %s\n", fi.Key)
						f.Close()
					}
				}
				db.analyse(fi)
				if tf := os.Getenv("P9_TRACE"); tf != "" && time.Since(t0) > 300*time.Millisecond {
					if f, err := os.OpenFile(tf, os.O_APPEND|os.O_CREATE|os.O_WRONLY, 0644); err == nil {
						fmt.Fprintf(f, "slow %s: %v\n", fi.Key, time.Since(t0))
						f.Close()
					}
				}
			}
		}
	}
	db.noInline = true
	runAll()
	for _, fi := range funcs {
		for _, s := range append(append([]*Site{}, db.ByFunc[fi]...), db.Virtual[fi]...) {
			if s.Call == nil {
				continue
			}
			if tf := l.FuncOf(callee(fi.Pkg.TypesInfo, s.Call)); tf != nil && tf.Decl.Body != nil {
				db.EntryMust[tf.Obj] = map[string]bool{top: true}
			}
		}
	}
	// The contexts are first iterated without in-place analysis of callees (cheap), then the
	// iteration continues with it until nothing changes any more.
	db.noInline = true
	for iter := 0; iter < 20; iter++ {
		runAll()
		newMust := map[*types.Func]map[string]bool{}
		newMay := map[*types.Func]map[string]bool{}
		for f := range db.EntryMust {
			newMust[f] = map[string]bool{top: true}
		}
		for _, fi := range funcs {
			for _, s := range append(append([]*Site{}, db.ByFunc[fi]...), db.Virtual[fi]...) {
				if s.Call == nil || s.St.Dead {
					continue
				}
				tf := l.FuncOf(callee(fi.Pkg.TypesInfo, s.Call))
				if tf == nil || tf.Decl.Body == nil {
					continue
				}
				held := translateLocks(s, tf, fi.Pkg.TypesInfo, l)
				newMay[tf.Obj] = unionSet(newMay[tf.Obj], held.may)
				if held.must[top] {
					continue // caller's own context still unknown: identity
				}
				if cur := newMust[tf.Obj]; cur[top] {
					newMust[tf.Obj] = held.must
				} else {
					newMust[tf.Obj] = meetLocks(cur, held.must)
				}
			}
		}
		changed := false
		for f, m := range newMust {
			if !setEq(m, db.EntryMust[f]) {
				changed = true
			}
		}
		for f, m := range newMay {
			if !setEq(m, db.EntryMay[f]) {
				changed = true
			}
		}
		db.EntryMust, db.EntryMay = newMust, newMay
		if !changed {
			if db.noInline {
				db.noInline = false
				continue
			}
			break
		}
	}
	db.noInline = false
	// Whatever is still unknown is only reachable from itself: nothing is known to be held.
	stripped := false
	for f, m := range db.EntryMust {
		if m[top] {
			db.EntryMust[f] = map[string]bool{}
			stripped = true
		}
	}
	for _, m := range db.EntryMay {
		delete(m, top)
	}
	_ = stripped
	runAll()
	if want := os.Getenv("P9_DUMP"); want != "" {
		// debugging aid: P9_DUMP=<func key>[@file] lists the recorded sites of one function
		out := os.Stderr
		if i := strings.Index(want, "@"); i >= 0 {
			if f, err := os.Create(want[i+1:]); err == nil {
				out = f
				defer f.Close()
			}
			want = want[:i]
		}
		for _, fi := range funcs {
			if fi.Key != want {
				continue
			}
			for _, st := range append(append([]*Site{}, db.ByFunc[fi]...), db.Deep[fi]...) {
				fmt.Fprintf(out, "%s %s inl=%d\n  facts %s\n  locks %s must %s\n", l.Fset.Position(st.Call.Pos()), st.Callee, len(st.Inl), describePaths(st.St), describeSet(st.St.Locks), describeSet(st.St.Must))
			}
			for _, ex := range db.Exits[fi] {
				pos := fi.Decl.End()
				if ex.Ret != nil {
					pos = ex.Ret.Pos()
				}
				fmt.Fprintf(out, "EXIT %s\n  facts %s\n  must %s\n", l.Fset.Position(pos), describePaths(ex.St), describeSet(ex.St.Must))
			}
		}
	}
	return db
}

// buildLocalDB analyses the given functions each on its own: no interprocedural lock
// contexts and no in-place analysis of callees, but with resolvers that see through expression
// functions, so that b.has(n) and len(b.data) >= n give the same fact.  It serves the
// bounds reasoning of C02, which is about comparisons within one function.
func buildLocalDB(l *Loaded, funcs []*FuncInfo) *SiteDB {
	db := &SiteDB{L: l, Calls: map[string][]*Site{}, ByFunc: map[*FuncInfo][]*Site{}, atomObjs: map[string][]types.Object{},
		EntryMust: map[*types.Func]map[string]bool{}, EntryMay: map[*types.Func]map[string]bool{}, Exits: map[*FuncInfo][]*ExitRec{},
		wlocks: map[*types.Func][]wlock{}, Deep: map[*FuncInfo][]*Site{}, DeepExits: map[*FuncInfo][]*ExitRec{}, Virtual: map[*FuncInfo][]*Site{},
		Exprs: map[ast.Node]*HState{}, noInline: true, inlineNew: true, exprFuncs: true}
	db.Wrappers = findWrappers(l, "p9")
	for _, w := range db.Wrappers {
		db.wlocks[w.Fn] = db.wrapperLocks(w)
	}
	for _, fi := range funcs {
		if fi.Decl.Body != nil {
			db.analyse(fi)
		}
	}
	return db
}

type heldSets struct{ must, may map[string]bool }

// maxInlineDepth bounds the in-place analysis of callees (helpers calling helpers).
var maxInlineDepth = func() int {
	if v := os.Getenv("P9_INLINE_DEPTH"); v != "" {
		n, _ := strconv.Atoi(v)
		return n
	}
	return 2
}()

// frameResolvers returns the function that yields the resolver of an analysis context: the
// root's resolver, or - inside callees analysed in place - an instantiation that renders the
// callee's parameters as the caller's argument expressions.
func frameResolvers[S any](l *Loaded, info *types.Info, rootRes *resolver) func(fc *FlowCtx[S]) *resolver {
	baseRes := map[*ast.FuncDecl]*resolver{}
	type instKey struct {
		call   *ast.CallExpr
		parent *resolver
	}
	insts := map[instKey]*resolver{}
	var resOf func(fc *FlowCtx[S]) *resolver
	resOf = func(fc *FlowCtx[S]) *resolver {
		for c := fc; c != nil; c = c.Parent {
			if c.Inl == nil {
				continue
			}
			p := resOf(c.Parent)
			k := instKey{c.Call, p}
			if r, ok := insts[k]; ok {
				return r
			}
			b := baseRes[c.Inl]
			if b == nil {
				b = newResolver(l, info, c.Inl)
				baseRes[c.Inl] = b
			}
			r := p.instantiate(c.Call, c.Inl, b)
			insts[k] = r
			return r
		}
		return rootRes
	}
	return resOf
}

// inlinePolicy decides which calls are analysed in place: statically resolved calls to
// functions of the same package that have a body, are not callback wrappers (those are
// handled by literal inlining), are not already being analysed further up (recursion) and
// stay within the depth and size bounds.
func inlinePolicy[S any](db *SiteDB, fi *FuncInfo) func(*ast.CallExpr, *FlowCtx[S]) *ast.FuncDecl {
	info := fi.Pkg.TypesInfo
	return func(call *ast.CallExpr, fc *FlowCtx[S]) *ast.FuncDecl {
		tf := db.L.FuncOf(callee(info, call))
		if tf == nil || tf.Decl.Body == nil || tf.Pkg != fi.Pkg || tf == fi || db.Wrappers[tf.Obj] != nil {
			return nil
		}
		if db.noInline && !(db.inlineNew && !pinnedFuncs[tf.Key]) {
			return nil // (local databases follow only helpers that did not exist in the pinned tree)
		}
		depth := 0
		for c := fc; c != nil; c = c.Parent {
			if c.Inl != nil {
				depth++
				if c.Inl == tf.Decl {
					return nil // recursion
				}
			}
		}
		if depth >= maxInlineDepth || db.weight(tf) > maxInlineWeight {
			return nil
		}
		return tf.Decl
	}
}

// inlinePathBudget: see InlDone.
const inlinePathBudget = 4

// maxInlineWeight bounds the size (statements, callees of callees included) of a callee that
// is analysed in place; larger functions are analysed on their own only.
var maxInlineWeight = func() int {
	if v := os.Getenv("P9_INLINE_WEIGHT"); v != "" {
		n, _ := strconv.Atoi(v)
		return n
	}
	return 60
}()

// weight counts the statements of a function body.
func (db *SiteDB) weight(fi *FuncInfo) int {
	if w, ok := db.weights[fi]; ok {
		return w
	}
	n := 0
	ast.Inspect(fi.Decl.Body, func(m ast.Node) bool {
		if st, ok := m.(ast.Stmt); ok {
			if _, isBlock := st.(*ast.BlockStmt); !isBlock {
				n++
			}
		}
		return true
	})
	if db.weights == nil {
		db.weights = map[*FuncInfo]int{}
	}
	db.weights[fi] = n
	return n
}

// noteAtom records which variables an atom speaks about (several functions may produce the
// same atom text over their own variables: the sets are united).
func (db *SiteDB) noteAtom(key string, objs []types.Object) {
	have := db.atomObjs[key]
outer:
	for _, o := range objs {
		for _, h := range have {
			if h == o {
				continue outer
			}
		}
		have = append(have, o)
	}
	db.atomObjs[key] = have
}

// translateLocks maps the locks held at a call site into the callee's frame:
// instance expressions that mention the receiver or an argument are rewritten in
// terms of the callee's receiver/parameter names; others are kept with a '^' mark
// (held by a caller, instance not expressible in the callee).
func translateLocks(s *Site, callee *FuncInfo, info *types.Info, l *Loaded) heldSets {
	// Build substitution: caller expression string -> callee name.
	type sub struct{ from, to string }
	var subs []sub
	res := newResolver(l, info, s.Root.Decl)
	if sel, ok := unparen(s.Call.Fun).(*ast.SelectorExpr); ok && callee.Decl.Recv != nil && len(callee.Decl.Recv.List) == 1 && len(callee.Decl.Recv.List[0].Names) == 1 {
		subs = append(subs, sub{res.str(sel.X), callee.Decl.Recv.List[0].Names[0].Name})
	}
	idx := 0
	for _, fld := range callee.Decl.Type.Params.List {
		for _, nm := range fld.Names {
			if idx < len(s.Call.Args) {
				subs = append(subs, sub{res.str(s.Call.Args[idx]), nm.Name})
			}
			idx++
		}
		if len(fld.Names) == 0 {
			idx++
		}
	}
	tr := func(in map[string]bool) map[string]bool {
		out := map[string]bool{}
		for t := range in {
			if t == "\u22a4" {
				out[t] = true
				continue
			}
			class, mode, inst := parseLockToken(t)
			ninst := "^" + strings.TrimPrefix(inst, "^")
			if inst == "*" {
				ninst = "*"
			} else {
				for _, sb := range subs {
					if inst == sb.from {
						ninst = sb.to
						break
					}
					if strings.HasPrefix(inst, sb.from+".") {
						ninst = sb.to + inst[len(sb.from):]
						break
					}
				}
			}
			out[class+":"+mode+"@"+ninst] = true
		}
		return out
	}
	return heldSets{tr(s.St.Locks), tr(s.St.MayL)}
}

func (db *SiteDB) analyse(fi *FuncInfo) {
	info := fi.Pkg.TypesInfo
	l := db.L
	counted := db.CountIn[fi.Key]
	resCache := map[ast.Node]*resolver{}
	resFor := func(fn ast.Node) *resolver {
		// Aliases are resolved within the enclosing declaration (literals share its locals).
		if r, ok := resCache[fi.Decl]; ok {
			return r
		}
		r := newResolver(l, info, fi.Decl)
		resCache[fi.Decl] = r
		return r
	}
	if db.exprFuncs {
		resCache[fi.Decl] = newResolver(l, info, fi.Decl).withExprFuncs()
	}
	resOf := frameResolvers[*HState](l, info, resFor(fi.Decl))
	inlChain := func(fc *FlowCtx[*HState]) []*InlFrame {
		var out []*InlFrame
		for c := fc; c != nil; c = c.Parent {
			if c.Inl != nil {
				out = append([]*InlFrame{{Call: c.Call, Decl: c.Inl}}, out...)
			}
		}
		return out
	}
	a := &Analysis[*HState]{L: l, Info: info, Join: hJoin, Equal: hEqual, Copy: hCopy, Key: hKey, Wrappers: db.Wrappers}
	a.Inline = inlinePolicy[*HState](db, fi)
	inlined := map[*ast.FuncLit]bool{}
	ctxChain := func(fc *FlowCtx[*HState]) []string {
		var out []string
		for c := fc; c != nil; c = c.Parent {
			if c.W != nil {
				out = append([]string{c.W.Key}, out...)
			}
		}
		return out
	}
	var res *resolver // resolver of the context whose node is being processed (set by every callback)
	killObj := func(s *HState, obj types.Object) {
		if obj == nil {
			return
		}
		// Atoms are rendered through the resolver of the current context, so a fact speaks
		// about the variable exactly when its text mentions the variable's rendered name.
		name := res.nameOf(obj)
		for _, p := range s.Paths {
			for k := range p {
				if mentionsIdent(k, name) {
					delete(p, k)
				}
			}
		}
		delete(s.Defs, obj)
		// Lock tokens whose instance expression mentions the variable no longer
		// denote the lock that was taken.
		for _, set := range []map[string]bool{s.Locks, s.MayL} {
			for t := range set {
				class, mode, inst := parseLockToken(t)
				if !strings.HasSuffix(inst, "#stale") && mentionsIdent(inst, res.nameOf(obj)) {
					delete(set, t)
					set[class+":"+mode+"@"+inst+"#stale"] = true
				}
			}
		}
	}
	a.Stmt = func(s *HState, n ast.Node, fc *FlowCtx[*HState]) *HState {
		if s.Dead {
			return s
		}
		res = resOf(fc)
		// Lock operations and events, in source order within the node (literals excluded).
		deferred := false
		switch v := n.(type) {
		case *ast.DeferStmt:
			deferred = true
			_ = v
		case *ast.GoStmt:
			deferred = true
		}
		inspectNoLit(n, func(m ast.Node) {
			call, ok := m.(*ast.CallExpr)
			if !ok {
				return
			}
			key := calleeKey(info, call)
			if key == "" {
				// builtins with an effect on shared maps/channels are events too
				if id, ok := unparen(call.Fun).(*ast.Ident); ok && (id.Name == "delete" || id.Name == "close") && len(call.Args) >= 1 {
					if _, isB := info.Uses[id].(*types.Builtin); isB {
						k := id.Name + ":" + res.str(call.Args[0])
						if deferred {
							k = "defer:" + k
						}
						s.Must[k] = true
						s.May[k] = true
					}
				}
				return
			}
			if deferred {
				s.Must["defer:"+key] = true
				s.May["defer:"+key] = true
				if op, _ := mutexOp(key); op == "unlock" {
					if sel, ok := unparen(call.Fun).(*ast.SelectorExpr); ok {
						class := db.L.fieldKey(fieldOf(info, sel.X))
						inst := res.str(sel.X)
						if ms, ok := unparen(sel.X).(*ast.SelectorExpr); ok {
							inst = res.str(ms.X)
						}
						if class == "" {
							class = "local." + res.str(sel.X)
						}
						for _, m := range []string{"R", "W"} {
							s.Must["deferunlock:"+lockToken(class, m, inst)] = true
						}
					}
				}
				return
			}
			if op, mode := mutexOp(key); op != "" {
				if sel, ok := unparen(call.Fun).(*ast.SelectorExpr); ok {
					class := db.L.fieldKey(fieldOf(info, sel.X))
					inst := ""
					if ms, ok := unparen(sel.X).(*ast.SelectorExpr); ok {
						inst = res.str(ms.X)
					} else {
						inst = res.str(sel.X)
					}
					if class == "" {
						class = "local." + res.str(sel.X)
					}
					switch op {
					case "lock":
						t := lockToken(class, mode, inst)
						s.Locks[t] = true
						s.MayL[t] = true
						s.May["acquired:"+t] = true
						if mode == "W" && strings.HasPrefix(key, "sync.RWMutex.") {
							// Holding a RWMutex for write implies everything a read hold gives.
							s.Locks[lockToken(class, "R", inst)] = true
						}
					case "unlock":
						for _, m := range []string{"R", "W"} {
							t := lockToken(class, m, inst)
							delete(s.Locks, t)
							delete(s.MayL, t)
						}
					}
				}
			}
			s.Must[key] = true
			s.May[key] = true
			// a call may change what a copied memory read stands for
			for _, p := range s.Paths {
				for k := range p {
					if i := strings.Index(k, copyOp); i >= 0 && readsMemory(k[i+len(copyOp):]) {
						delete(p, k)
					}
				}
			}
			if counted[key] {
				// per-path call count, saturating at two
				c1, c2 := countFact(1, key), countFact(2, key)
				for _, p := range s.Paths {
					if v, ok := p[c1]; ok && v {
						if _, ok := p[c2]; ok {
							p[c2] = true
						}
					} else if ok {
						p[c1] = true
					}
				}
			}
		})
		// Kills and definitions.
		switch v := n.(type) {
		case *ast.AssignStmt:
			for _, lhs := range v.Lhs {
				killObj(s, objOf(info, lhs))
				if ix, ok := unparen(lhs).(*ast.IndexExpr); ok {
					if _, isMap := info.TypeOf(ix.X).Underlying().(*types.Map); isMap {
						k := "mapstore:" + res.str(ix.X)
						s.Must[k] = true
						s.May[k] = true
					}
				}
			}
			if len(v.Rhs) == 1 {
				if call, ok := unparen(v.Rhs[0]).(*ast.CallExpr); ok {
					for _, lhs := range v.Lhs {
						if obj := objOf(info, lhs); obj != nil {
							s.Defs[obj] = call
						}
					}
				}
			}
			// copy facts (see copyOp)
			for _, lhs := range v.Lhs {
				if _, isId := unparen(lhs).(*ast.Ident); !isId {
					// a store through a field, element or pointer
					for _, p := range s.Paths {
						for k := range p {
							if i := strings.Index(k, copyOp); i >= 0 && readsMemory(k[i+len(copyOp):]) {
								delete(p, k)
							}
						}
					}
				}
			}
			if len(v.Lhs) == len(v.Rhs) && (v.Tok == token.ASSIGN || v.Tok == token.DEFINE) {
				for i, lhs := range v.Lhs {
					id, isId := unparen(lhs).(*ast.Ident)
					if !isId || id.Name == "_" {
						continue
					}
					obj, isVar := objOf(info, id).(*types.Var)
					if !isVar || obj.Pkg() == nil || obj.Parent() == obj.Pkg().Scope() || !copyableExpr(info, v.Rhs[i]) {
						continue
					}
					if tv, ok := info.Types[v.Rhs[i]]; ok && (tv.Value != nil || tv.IsNil()) {
						continue // a constant is not a place that later tests could speak about
					}
					x, e := res.nameOf(obj), res.str(v.Rhs[i])
					if x == e || strings.Contains(e, " ") || mentionsIdent(e, x) || res.str(id) != x {
						continue // not a plain read, or x is an alias the resolver already expands
					}
					for _, p := range s.Paths {
						p[x+copyOp+e] = true
					}
				}
			}
		case *ast.IncDecStmt:
			killObj(s, objOf(info, v.X))
		case *ast.RangeStmt:
			killObj(s, objOf(info, v.Key))
			killObj(s, objOf(info, v.Value))
		case *ast.DeclStmt:
			if gd, ok := v.Decl.(*ast.GenDecl); ok {
				for _, sp := range gd.Specs {
					if vs, ok := sp.(*ast.ValueSpec); ok {
						for _, nm := range vs.Names {
							killObj(s, info.Defs[nm])
						}
					}
				}
			}
		case *ast.ValueSpec:
			for _, nm := range v.Names {
				killObj(s, info.Defs[nm])
			}
		}
		return s
	}
	var applyCond func(paths []FactSet, cond ast.Expr, branch bool) []FactSet
	applyCond = func(paths []FactSet, cond ast.Expr, branch bool) []FactSet {
		cond = unparen(cond)
		if u, ok := cond.(*ast.UnaryExpr); ok && u.Op == token.NOT {
			return applyCond(paths, u.X, !branch)
		}
		if be, ok := cond.(*ast.BinaryExpr); ok && (be.Op == token.LAND || be.Op == token.LOR) {
			conj := (be.Op == token.LAND) == branch // both operands have value 'branch'
			if conj {
				return applyCond(applyCond(paths, be.X, branch), be.Y, branch)
			}
			// X has value !branch... i.e. the expression is decided by X alone, or by Y after X.
			first := applyCond(clonePaths(paths), be.X, branch)
			second := applyCond(applyCond(clonePaths(paths), be.X, !branch), be.Y, branch)
			return append(first, second...)
		}
		key, pol := atomOf(res, info, l.parent, cond)
		db.noteAtom(key, res.objsOf(cond))
		want := pol == branch
		var kept []FactSet
		for _, p := range paths {
			if v, ok := p[key]; ok && v != want {
				continue // infeasible path
			}
			p[key] = want
			if !withCopies(p, key, want) {
				continue // contradicts what is known about the value the variable was copied from
			}
			kept = append(kept, p)
		}
		return kept
	}
	a.Cond = func(s *HState, cond ast.Expr, branch bool, fc *FlowCtx[*HState]) *HState {
		if s.Dead {
			return s
		}
		res = resOf(fc)
		kept := applyCond(s.Paths, cond, branch)
		// de-duplicate
		seen := map[string]bool{}
		var out []FactSet
		for _, p := range kept {
			k := p.key()
			if !seen[k] {
				seen[k] = true
				out = append(out, p)
			}
		}
		if len(out) > maxPaths {
			out = []FactSet{commonFacts(out)}
		}
		sort.Slice(out, func(i, j int) bool { return out[i].key() < out[j].key() })
		s.Paths = out
		if len(out) == 0 {
			s.Dead = true
		}
		return s
	}
	addWrapperLocks := func(s *HState, call *ast.CallExpr, w *Wrapper) {
		recv := ""
		if sel, ok := unparen(call.Fun).(*ast.SelectorExpr); ok {
			recv = res.str(sel.X)
		}
		for _, wl := range db.wlocks[w.Fn] {
			inst := wl.Inst
			if wl.recv != nil {
				rn := wl.recv.Name()
				if inst == rn {
					inst = recv
				} else if strings.HasPrefix(inst, rn+".") {
					inst = recv + inst[len(rn):]
				}
			}
			t := lockToken(wl.Class, wl.Mode, inst)
			s.Locks[t] = true
			s.MayL[t] = true
			if wl.Mode == "W" && wl.RW {
				s.Locks[lockToken(wl.Class, "R", inst)] = true
			}
		}
	}
	a.WrapEnter = func(s *HState, call *ast.CallExpr, w *Wrapper, fc *FlowCtx[*HState]) *HState {
		res = resOf(fc)
		if lit, ok := unparen(call.Args[w.ParamIdx]).(*ast.FuncLit); ok {
			inlined[lit] = true
		}
		addWrapperLocks(s, call, w)
		s.Must["enter:"+w.Key] = true
		s.May["enter:"+w.Key] = true
		// Deferred unlocks registered by the caller do not run when the literal returns.
		var ks []string
		for k := range s.Must {
			if strings.HasPrefix(k, "deferunlock:") || strings.HasPrefix(k, "outer|") {
				ks = append(ks, k)
			}
		}
		for _, k := range ks {
			delete(s.Must, k)
		}
		for _, k := range ks {
			s.Must["outer|"+k] = true
		}
		return s
	}
	a.WrapExit = func(s *HState, call *ast.CallExpr, w *Wrapper, fc *FlowCtx[*HState]) *HState {
		res = resOf(fc)
		// Unlocks deferred inside the literal run when it returns.
		for k := range s.Must {
			if strings.HasPrefix(k, "deferunlock:") {
				t := strings.TrimPrefix(k, "deferunlock:")
				delete(s.Locks, t)
				delete(s.MayL, t)
				delete(s.Locks, t+"#stale")
				delete(s.MayL, t+"#stale")
				delete(s.Must, k)
			}
		}
		var outer []string
		for k := range s.Must {
			if strings.HasPrefix(k, "outer|") {
				outer = append(outer, k)
			}
		}
		for _, k := range outer {
			delete(s.Must, k)
		}
		for _, k := range outer {
			s.Must[strings.TrimPrefix(k, "outer|")] = true // exactly one level
		}
		recv := ""
		if sel, ok := unparen(call.Fun).(*ast.SelectorExpr); ok {
			recv = res.str(sel.X)
		}
		for _, wl := range db.wlocks[w.Fn] {
			inst := wl.Inst
			if wl.recv != nil {
				rn := wl.recv.Name()
				if inst == rn {
					inst = recv
				} else if strings.HasPrefix(inst, rn+".") {
					inst = recv + inst[len(rn):]
				}
			}
			t := lockToken(wl.Class, wl.Mode, inst)
			delete(s.Locks, t)
			delete(s.MayL, t)
			delete(s.Locks, t+"#stale")
			delete(s.MayL, t+"#stale")
			if wl.Mode == "W" && wl.RW {
				delete(s.Locks, lockToken(wl.Class, "R", inst))
				delete(s.Locks, lockToken(wl.Class, "R", inst)+"#stale")
			}
		}
		return s
	}
	// Path facts established inside a callee survive into the caller only while they stay
	// cheap: when the call multiplies the paths beyond the budget, the atoms the callee added
	// are forgotten again (the caller then knows what it knew before the call).
	entryAtoms := map[*FlowCtx[*HState]]map[string]bool{}
	entryPaths := map[*FlowCtx[*HState]]int{}
	a.InlDone = func(s *HState, call *ast.CallExpr, sub, fc *FlowCtx[*HState]) *HState {
		if s.Dead {
			return s
		}
		budget := 2 * entryPaths[sub]
		if budget < inlinePathBudget {
			budget = inlinePathBudget
		}
		returnsErr := false
		if rl := sub.Inl.Type.Results; rl != nil && len(rl.List) > 0 {
			if t := info.TypeOf(rl.List[len(rl.List)-1].Type); t != nil && (t.String() == "error" || t.String() == "bool") {
				returnsErr = true // an error or a predicate result: the caller can test it
			}
		}
		// Only a callee whose error result the caller can test correlates its internal
		// decisions with something visible in the caller.
		if returnsErr && len(s.Paths) <= budget {
			return s
		}
		// A function that is not part of the pinned tree is a helper introduced by a
		// refactoring: its decisions are the caller's decisions moved elsewhere, and the rules
		// that classify the caller's exits need them (dispatch(tag, m) containing the
		// StartTag test).  They are kept while the path set stays small.
		if fobj, ok := info.Defs[sub.Inl.Name].(*types.Func); ok && !pinnedFuncs[funcKey(fobj)] && len(s.Paths) <= 16 {
			return s
		}
		known := entryAtoms[sub]
		seen := map[string]bool{}
		var kept []FactSet
		for _, p := range s.Paths {
			for k := range p {
				if !known[k] {
					delete(p, k)
				}
			}
			if key := p.key(); !seen[key] {
				seen[key] = true
				kept = append(kept, p)
			}
		}
		sort.Slice(kept, func(i, j int) bool { return kept[i].key() < kept[j].key() })
		s.Paths = kept
		return s
	}
	a.InlEnter = func(s *HState, call *ast.CallExpr, sub, fc *FlowCtx[*HState]) *HState {
		if s.Dead {
			return s
		}
		atoms := map[string]bool{}
		for _, p := range s.Paths {
			for k := range p {
				atoms[k] = true
			}
		}
		entryAtoms[sub] = atoms
		entryPaths[sub] = len(s.Paths)
		// Deferred calls registered by the caller do not run when the callee returns.
		for _, set := range []map[string]bool{s.Must, s.May} {
			var ks []string
			for k := range set {
				if strings.HasPrefix(k, "deferunlock:") || strings.HasPrefix(k, "defer:") || strings.HasPrefix(k, "outer|") {
					ks = append(ks, k)
				}
			}
			for _, k := range ks {
				delete(set, k)
			}
			for _, k := range ks {
				set["outer|"+k] = true
			}
		}
		return s
	}
	a.InlExit = func(s *HState, call *ast.CallExpr, sub, fc *FlowCtx[*HState]) *HState {
		if s.Dead {
			return s
		}
		cres := resOf(sub)
		// The callee's deferred calls have run by the time it returns.
		for k := range s.Must {
			if strings.HasPrefix(k, "deferunlock:") {
				t := strings.TrimPrefix(k, "deferunlock:")
				for _, set := range []map[string]bool{s.Locks, s.MayL} {
					delete(set, t)
					delete(set, t+"#stale")
				}
				delete(s.Must, k)
			}
		}
		for _, set := range []map[string]bool{s.Must, s.May} {
			var own, outer []string
			for k := range set {
				if strings.HasPrefix(k, "defer:") {
					own = append(own, k)
				} else if strings.HasPrefix(k, "outer|") {
					outer = append(outer, k)
				}
			}
			for _, k := range own {
				delete(set, k)
				set[strings.TrimPrefix(k, "defer:")] = true
			}
			for _, k := range outer {
				delete(set, k)
			}
			for _, k := range outer {
				set[strings.TrimPrefix(k, "outer|")] = true // exactly one level
			}
		}
		// Facts, definitions and lock instances that speak about the callee's own variables
		// mean nothing in the caller.
		var kept []FactSet
		seen := map[string]bool{}
		mark := "~" + cres.frame
		for _, p := range s.Paths {
			for k := range p {
				if mentionsFrame(k, mark) {
					delete(p, k) // the callee's locals are always rendered with its frame mark
				}
			}
			if key := p.key(); !seen[key] {
				seen[key] = true
				kept = append(kept, p)
			}
		}
		sort.Slice(kept, func(i, j int) bool { return kept[i].key() < kept[j].key() })
		s.Paths = kept
		for o := range s.Defs {
			if cres.local(o) {
				delete(s.Defs, o)
			}
		}
		for _, set := range []map[string]bool{s.Locks, s.MayL} {
			for t := range set {
				if mentionsFrame(t, mark) && !strings.HasSuffix(t, "#stale") {
					delete(set, t)
					set[t+"#stale"] = true
				}
			}
		}
		return s
	}
	litState := map[*ast.FuncLit]*HState{}
	a.Visit = func(s *HState, n ast.Node, fc *FlowCtx[*HState]) {
		res = resOf(fc)
		snap := hCopy(s)
		chain := ctxChain(fc)
		inl := inlChain(fc)
		// state at the creation of function literals contained in this node
		ast.Inspect(n, func(m ast.Node) bool {
			if lit, ok := m.(*ast.FuncLit); ok {
				if prev, ok := litState[lit]; ok {
					litState[lit] = hJoin(prev, snap)
				} else {
					litState[lit] = snap
				}
				return false
			}
			return true
		})
		// a channel operation that is the communication of a select with a default clause never waits
		nonBlocking := func(m ast.Node) bool {
			for p := l.parent(m); p != nil; p = l.parent(p) {
				switch v := p.(type) {
				case *ast.CommClause:
					if v.Comm == nil || !containsNode(v.Comm, m) {
						return false
					}
					if blk, ok := l.parent(v).(*ast.BlockStmt); ok {
						for _, c := range blk.List {
							if cc, ok := c.(*ast.CommClause); ok && cc.Comm == nil {
								return true
							}
						}
					}
					return false
				case *ast.FuncLit, *ast.FuncDecl:
					return false
				}
			}
			return false
		}
		selectHasDefault := func(v *ast.SelectStmt) bool {
			for _, c := range v.Body.List {
				if cc, ok := c.(*ast.CommClause); ok && cc.Comm == nil {
					return true
				}
			}
			return false
		}
		if len(inl) > 0 {
			// Inside a callee analysed in place: the callee's own analysis records its sites;
			// here they are kept apart, for the rules that follow an operation into helpers.
			switch v := n.(type) {
			case *ast.GoStmt:
				db.DeepBlocking = append(db.DeepBlocking, &Site{Node: v, Callee: "go", Fn: fc.Fn, Root: fi, St: snap, Ctx: chain, Inl: inl, Res: res})
			case *ast.SelectStmt:
				db.DeepBlocking = append(db.DeepBlocking, &Site{Node: v, Callee: "select", Fn: fc.Fn, Root: fi, St: snap, Ctx: chain, Inl: inl, Res: res, NonBlocking: selectHasDefault(v)})
			case *ast.SendStmt:
				db.DeepBlocking = append(db.DeepBlocking, &Site{Node: v, Callee: "chan<-", Fn: fc.Fn, Root: fi, St: snap, Ctx: chain, Inl: inl, Res: res, NonBlocking: nonBlocking(v)})
			}
			inspectNoLit(n, func(m ast.Node) {
				switch v := m.(type) {
				case *ast.UnaryExpr:
					if v.Op == token.ARROW {
						db.DeepBlocking = append(db.DeepBlocking, &Site{Node: v, Callee: "<-chan", Fn: fc.Fn, Root: fi, St: snap, Ctx: chain, Inl: inl, Res: res, NonBlocking: nonBlocking(v)})
					}
				case *ast.CallExpr:
					db.Deep[fi] = append(db.Deep[fi], &Site{Node: n, Call: v, Callee: calleeKey(info, v), Fn: fc.Fn, Root: fi, St: snap, Ctx: chain, Inl: inl, Res: res})
				case *ast.SelectorExpr:
					if fld := fieldOf(info, v); fld != nil {
						db.DeepFields = append(db.DeepFields, &FieldAccess{Sel: v, Field: fld, Key: l.fieldKey(fld), Write: isWriteTarget(l, v), Root: fi, Inl: inl, Res: res, Fn: fc.Fn, St: snap})
					}
				}
			})
			return
		}
		switch v := n.(type) {
		case *ast.GoStmt:
			db.Blocking = append(db.Blocking, &Site{Node: v, Callee: "go", Fn: fc.Fn, Root: fi, St: snap, Ctx: chain})
		case *ast.SelectStmt:
			db.Blocking = append(db.Blocking, &Site{Node: v, Callee: "select", Fn: fc.Fn, Root: fi, St: snap, Ctx: chain, NonBlocking: selectHasDefault(v)})
		case *ast.SendStmt:
			db.Blocking = append(db.Blocking, &Site{Node: v, Callee: "chan<-", Fn: fc.Fn, Root: fi, St: snap, Ctx: chain, NonBlocking: nonBlocking(v)})
		}
		inspectNoLit(n, func(m ast.Node) {
			switch v := m.(type) {
			case *ast.SliceExpr, *ast.IndexExpr:
				if prev, ok := db.Exprs[v]; ok {
					db.Exprs[v] = hJoin(prev, snap)
				} else {
					db.Exprs[v] = snap
				}
			case *ast.UnaryExpr:
				if v.Op == token.ARROW {
					db.Blocking = append(db.Blocking, &Site{Node: v, Callee: "<-chan", Fn: fc.Fn, Root: fi, St: snap, Ctx: chain, NonBlocking: nonBlocking(v)})
				}
			case *ast.CallExpr:
				key := calleeKey(info, v)
				site := &Site{Node: n, Call: v, Callee: key, Fn: fc.Fn, Root: fi, St: snap, Ctx: chain, Res: res}
				db.Calls[key] = append(db.Calls[key], site)
				db.ByFunc[fi] = append(db.ByFunc[fi], site)
				if w := db.Wrappers[callee(info, v)]; w != nil && w.ParamIdx < len(v.Args) {
					cb := unparen(v.Args[w.ParamIdx])
					if _, isLit := cb.(*ast.FuncLit); !isLit {
						syn := &ast.CallExpr{Fun: cb, Lparen: cb.End(), Rparen: cb.End()}
						if tf := l.FuncOf(callee(info, syn)); tf != nil {
							inside := hCopy(snap)
							addWrapperLocks(inside, v, w)
							db.Virtual[fi] = append(db.Virtual[fi], &Site{Node: n, Call: syn, Callee: tf.Key, Fn: fc.Fn, Root: fi, St: inside, Ctx: chain, Res: res, Virtual: true})
						}
					}
				}
				if op, mode := mutexOp(key); op == "lock" {
					if sel, ok := unparen(v.Fun).(*ast.SelectorExpr); ok {
						class := db.L.fieldKey(fieldOf(info, sel.X))
						inst := res.str(sel.X)
						if ms, ok := unparen(sel.X).(*ast.SelectorExpr); ok {
							inst = res.str(ms.X)
						}
						if class == "" {
							class = "local." + res.str(sel.X)
						}
						db.LockAcqs = append(db.LockAcqs, &LockAcq{Site: site, Token: lockToken(class, mode, inst), Class: class, Mode: mode, Inst: inst})
					}
				}
			case *ast.SelectorExpr:
				if fld := fieldOf(info, v); fld != nil {
					db.Fields = append(db.Fields, &FieldAccess{Sel: v, Field: fld, Key: l.fieldKey(fld), Write: isWriteTarget(l, v), Root: fi, Res: res, Fn: fc.Fn, St: snap})
				}
			}
		})
	}
	a.Exit = func(s *HState, ret *ast.ReturnStmt, fc *FlowCtx[*HState]) {
		if inl := inlChain(fc); len(inl) > 0 {
			// exit of a callee analysed in place, not of fi
			db.DeepExits[fi] = append(db.DeepExits[fi], &ExitRec{Ret: ret, Fn: fc.Fn, St: hCopy(s), Inl: inl})
			return
		}
		db.Exits[fi] = append(db.Exits[fi], &ExitRec{Ret: ret, Fn: fc.Fn, St: hCopy(s)})
	}
	init := newHState()
	for k := range counted {
		init.Paths[0][countFact(1, k)] = false
		init.Paths[0][countFact(2, k)] = false
	}
	for t := range db.EntryMust[fi.Obj] {
		init.Locks[t] = true
	}
	for t := range db.EntryMay[fi.Obj] {
		if t != "\u22a4" {
			init.MayL[t] = true
		}
	}
	for t := range db.EntryMust[fi.Obj] {
		if t != "\u22a4" {
			init.MayL[t] = true
		}
	}
	a.Run(fi.Decl, init)
	// Function literals that are not arguments of a wrapper (go statements, deferred
	// closures, stored callbacks) run in a context this pass does not know: analyse them
	// from an empty state (no facts, no locks known to be held).
	for pass := 0; pass < 3; pass++ {
		var pending []*ast.FuncLit
		ast.Inspect(fi.Decl, func(n ast.Node) bool {
			if lit, ok := n.(*ast.FuncLit); ok && !inlined[lit] {
				pending = append(pending, lit)
				inlined[lit] = true
				return false // nested literals are found when this one is analysed
			}
			return true
		})
		if len(pending) == 0 {
			break
		}
		for _, lit := range pending {
			st := newHState()
			// Facts and events established before the literal was created still hold whenever
			// it runs, provided the variables they mention are not assigned after its creation
			// (or inside any literal).  Locks are not inherited: when the literal runs is unknown.
			if cs, ok := litState[lit]; ok && !cs.Dead {
				assignedLater := map[types.Object]bool{}
				ast.Inspect(fi.Decl, func(m ast.Node) bool {
					var lhs []ast.Expr
					switch v := m.(type) {
					case *ast.AssignStmt:
						lhs = v.Lhs
					case *ast.IncDecStmt:
						lhs = []ast.Expr{v.X}
					case *ast.RangeStmt:
						lhs = []ast.Expr{v.Key, v.Value}
					}
					for _, l := range lhs {
						if l == nil {
							continue
						}
						if obj := objOf(info, l); obj != nil && (m.Pos() > lit.Pos() || l.Pos() > lit.Pos()) {
							assignedLater[obj] = true
						}
					}
					return true
				})
				for _, p := range cs.Paths {
					np := FactSet{}
					for k, v := range p {
						stable := true
						for _, o := range db.atomObjs[k] {
							if assignedLater[o] {
								stable = false
							}
						}
						if stable {
							np[k] = v
						}
					}
					st.Paths = append(st.Paths, np)
				}
				if len(st.Paths) > 1 {
					st.Paths = st.Paths[1:] // drop the initial empty set
				}
				for k, v := range cs.Must {
					if !strings.HasPrefix(k, "deferunlock:") && !strings.HasPrefix(k, "outer|") {
						st.Must[k] = v
					}
				}
				for k, v := range cs.May {
					st.May[k] = v
				}
			}
			st.Must["detached-literal"] = true
			a.Run(lit, st)
		}
	}
}

// isWriteTarget: the selector is assigned to (lhs of assignment, inc/dec, or address taken).
func isWriteTarget(l *Loaded, sel *ast.SelectorExpr) bool {
	var child ast.Node = sel
	p := l.parent(sel)
	for {
		if pe, ok := p.(*ast.ParenExpr); ok {
			child, p = pe, l.parent(pe)
			continue
		}
		break
	}
	switch v := p.(type) {
	case *ast.AssignStmt:
		for _, lhs := range v.Lhs {
			if lhs == child {
				return true
			}
		}
	case *ast.IncDecStmt:
		return v.X == child
	case *ast.UnaryExpr:
		return v.Op == token.AND
	}
	return false
}

// inspectNoLit walks n without descending into function literals.
func inspectNoLit(n ast.Node, f func(ast.Node)) {
	ast.Inspect(n, func(m ast.Node) bool {
		if m == nil {
			return false
		}
		if _, ok := m.(*ast.FuncLit); ok {
			return false
		}
		f(m)
		return true
	})
}

// wrapperLocks derives the locks a wrapper holds around its callback from its body:
// Lock/RLock calls that precede the callback call without a matching unlock in between
// (deferred unlocks do not release).
func (db *SiteDB) wrapperLocks(w *Wrapper) []wlock {
	fi := db.L.FuncOf(w.Fn)
	if fi == nil || fi.Decl.Body == nil {
		return nil
	}
	info := fi.Pkg.TypesInfo
	var recvObj types.Object
	if fi.Decl.Recv != nil && len(fi.Decl.Recv.List) == 1 && len(fi.Decl.Recv.List[0].Names) == 1 {
		recvObj = info.Defs[fi.Decl.Recv.List[0].Names[0]]
	}
	// Locate the parameter object.
	var param types.Object
	idx := 0
	for _, fld := range fi.Decl.Type.Params.List {
		for _, nm := range fld.Names {
			if idx == w.ParamIdx {
				param = info.Defs[nm]
			}
			idx++
		}
	}
	var held []wlock
	var result []wlock
	found := false
	var walk func(n ast.Node)
	walk = func(n ast.Node) {
		ast.Inspect(n, func(m ast.Node) bool {
			if found {
				return false
			}
			switch v := m.(type) {
			case *ast.DeferStmt:
				return false
			case *ast.FuncLit:
				return false
			case *ast.CallExpr:
				if objOf(info, v.Fun) == param {
					result = append([]wlock{}, held...)
					found = true
					return false
				}
				// the callback is called inside a literal handed to another wrapper on the same
				// receiver (p.withChildrenRLocked(func() { ... fn(x) ... })): that wrapper's
				// locks are held as well
				if w2 := db.Wrappers[callee(info, v)]; w2 != nil && w2.Fn != w.Fn && w2.ParamIdx < len(v.Args) {
					if lit, isLit := unparen(v.Args[w2.ParamIdx]).(*ast.FuncLit); isLit {
						if sel, ok := unparen(v.Fun).(*ast.SelectorExpr); ok && recvObj != nil && objOf(info, sel.X) == recvObj {
							saved := held
							for _, il := range db.wrapperLocks(w2) {
								if il.recv != nil {
									f2 := db.L.FuncOf(w2.Fn)
									if f2 != nil && f2.Decl.Recv != nil && len(f2.Decl.Recv.List[0].Names) == 1 && il.Inst == f2.Decl.Recv.List[0].Names[0].Name {
										il.Inst = fi.Decl.Recv.List[0].Names[0].Name
										il.recv = recvObj
										held = append(held, il)
									}
								}
							}
							walkLit := lit.Body
							ast.Inspect(walkLit, func(k ast.Node) bool {
								if found {
									return false
								}
								if c, isCall := k.(*ast.CallExpr); isCall && objOf(info, c.Fun) == param {
									result = append([]wlock{}, held...)
									found = true
									return false
								}
								return true
							})
							held = saved
							if found {
								return false
							}
						}
					}
				}
				key := calleeKey(info, v)
				if op, mode := mutexOp(key); op != "" {
					if sel, ok := unparen(v.Fun).(*ast.SelectorExpr); ok {
						class := db.L.fieldKey(fieldOf(info, sel.X))
						inst := db.L.str(sel.X)
						if ms, ok := unparen(sel.X).(*ast.SelectorExpr); ok {
							inst = db.L.str(ms.X)
						}
						switch op {
						case "lock":
							held = append(held, wlock{Class: class, Mode: mode, Inst: inst, recv: recvObj, RW: strings.HasPrefix(key, "sync.RWMutex.")})
						case "unlock":
							var nh []wlock
							for _, h := range held {
								if !(h.Class == class && h.Inst == inst) {
									nh = append(nh, h)
								}
							}
							held = nh
						}
					}
				}
			}
			return true
		})
	}
	walk(fi.Decl.Body)
	return result
}

func (db *SiteDB) describeLocks(s *HState) string {
	var ts []string
	for t := range s.Locks {
		ts = append(ts, t)
	}
	sort.Strings(ts)
	if len(ts) == 0 {
		return "{}"
	}
	return "{" + strings.Join(ts, ", ") + "}"
}

func describeSet(m map[string]bool) string {
	var ts []string
	for t := range m {
		ts = append(ts, t)
	}
	sort.Strings(ts)
	return "{" + strings.Join(ts, ", ") + "}"
}

func (db *SiteDB) siteName(s *Site) string {
	return fmt.Sprintf("%s → %s", s.Root.Key, s.Callee)
}

// mentionsFrame reports whether a rendered expression mentions a local of the inlined frame
// (mark = "~name"): the mark must end the identifier.
func mentionsFrame(expr, mark string) bool {
	for i := 0; i+len(mark) <= len(expr); i++ {
		if expr[i:i+len(mark)] == mark && (i+len(mark) == len(expr) || !isIdentChar(expr[i+len(mark)])) {
			return true
		}
	}
	return false
}

// mentionsIdent reports whether the identifier name occurs in expr as a whole word.
func mentionsIdent(expr, name string) bool {
	for i := 0; i+len(name) <= len(expr); i++ {
		if expr[i:i+len(name)] != name {
			continue
		}
		before := i == 0 || !isIdentChar(expr[i-1]) && expr[i-1] != '.' // x.name is a field, not the variable
		after := i+len(name) == len(expr) || !isIdentChar(expr[i+len(name)])
		if before && after {
			return true
		}
	}
	return false
}

func isIdentChar(c byte) bool {
	return c == '_' || c == '~' || c == '#' || c >= '0' && c <= '9' || c >= 'a' && c <= 'z' || c >= 'A' && c <= 'Z'
}

func clonePaths(in []FactSet) []FactSet {
	out := make([]FactSet, len(in))
	for i, p := range in {
		out[i] = p.copy()
	}
	return out
}

func isCommaOk(e ast.Expr) bool {
	switch unparen(e).(type) {
	case *ast.IndexExpr, *ast.TypeAssertExpr:
		return true
	}
	return false
}

// meetLocks is the interprocedural meet of two held-lock sets: identical tokens are kept;
// a lock class held in the same mode at both sites but on different (or untranslatable)
// instances is kept with the anonymous instance "?".
func meetLocks(a, b map[string]bool) map[string]bool {
	o := map[string]bool{}
	for t := range a {
		if b[t] {
			o[t] = true
		}
	}
	type cm struct{ c, m string }
	ca, cb := map[cm]bool{}, map[cm]bool{}
	for t := range a {
		c, m, _ := parseLockToken(t)
		ca[cm{c, m}] = true
	}
	for t := range b {
		c, m, _ := parseLockToken(t)
		cb[cm{c, m}] = true
	}
	for k := range ca {
		if cb[k] && k.m != "" {
			found := false
			for t := range o {
				c, m, _ := parseLockToken(t)
				if c == k.c && m == k.m {
					found = true
				}
			}
			if !found {
				o[k.c+":"+k.m+"@?"] = true
			}
		}
	}
	return o
}

// countFact names the path fact "at least n calls of key so far" (see SiteDB.CountIn).  The
// name is not a Go identifier, so no assignment can kill it.
func countFact(n int, key string) string {
	return fmt.Sprintf("#c%d_%s", n, strings.NewReplacer(".", "_", "*", "", "(", "", ")", "").Replace(key))
}

// pathCount reads the number of calls of key made on path p of a function listed in
// SiteDB.CountIn: 0, 1 or 2 (two or more); known is false when the facts were lost (paths
// collapsed beyond the budget).
func pathCount(p FactSet, key string) (n int, known bool) {
	v1, ok1 := p[countFact(1, key)]
	v2, ok2 := p[countFact(2, key)]
	if !ok1 || !ok2 {
		return 0, false
	}
	switch {
	case v2:
		return 2, true
	case v1:
		return 1, true
	}
	return 0, true
}

// Copy facts.  After "x := E" (x a local, E a plain read: identifiers, fields, indexing,
// dereference, conversions, len/cap) the path carries the fact "x := E" until x or an
// identifier of E is assigned, or - when E reads memory - a call runs.  While it holds, a
// condition established about x is also established about E and vice versa, so "msize :=
// t.MSize; if msize == 0 { return }" refutes t.MSize == 0 on the continuing path exactly as
// "if t.MSize == 0 { return }" does.  The operator is not "==" on purpose: rules that look
// for tested equalities never see these.
const copyOp = " := "

func copyableExpr(info *types.Info, e ast.Expr) bool {
	ok := true
	ast.Inspect(e, func(n ast.Node) bool {
		switch v := n.(type) {
		case *ast.Ident, *ast.SelectorExpr, *ast.IndexExpr, *ast.StarExpr, *ast.ParenExpr, *ast.BasicLit:
		case *ast.CallExpr:
			if tv, isType := info.Types[v.Fun]; isType && tv.IsType() {
				return ok // conversion
			}
			if id, isId := unparen(v.Fun).(*ast.Ident); isId {
				if _, isB := info.Uses[id].(*types.Builtin); isB && (id.Name == "len" || id.Name == "cap") {
					return ok
				}
			}
			ok = false
		case nil:
		default:
			ok = false
		}
		return ok
	})
	return ok
}

func readsMemory(e string) bool { return strings.ContainsAny(e, ".[*") }

// replaceExpr replaces every occurrence of the expression text e that is delimited like an
// operand (not part of a longer selector chain or identifier).
func replaceExpr(expr, e, repl string) (string, bool) {
	var b strings.Builder
	found := false
	for i := 0; i < len(expr); {
		if i+len(e) <= len(expr) && expr[i:i+len(e)] == e {
			before := i == 0 || !isIdentChar(expr[i-1]) && expr[i-1] != '.' && expr[i-1] != '&' && expr[i-1] != '*'
			j := i + len(e)
			after := j == len(expr) || !isIdentChar(expr[j]) && expr[j] != '.' && expr[j] != '[' && expr[j] != '('
			if before && after {
				b.WriteString(repl)
				i = j
				found = true
				continue
			}
		}
		b.WriteByte(expr[i])
		i++
	}
	return b.String(), found
}

// withCopies adds to p the facts that follow from key=want through the copy facts of p;
// it reports false when one of them contradicts what p already says (infeasible path).
func withCopies(p FactSet, key string, want bool) bool {
	var derived []string
	for k, v := range p {
		i := strings.Index(k, copyOp)
		if i < 0 || !v {
			continue
		}
		x, e := k[:i], k[i+len(copyOp):]
		if strings.Contains(key, copyOp) {
			continue
		}
		if mentionsIdent(key, x) {
			derived = append(derived, replaceIdent(key, x, e))
		} else if d, ok := replaceExpr(key, e, x); ok {
			derived = append(derived, d)
		}
	}
	for _, d := range derived {
		if v, ok := p[d]; ok && v != want {
			return false
		}
	}
	for _, d := range derived {
		p[d] = want
	}
	return true
}
