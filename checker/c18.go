package main

import (
	"fmt"
	"go/ast"
	"go/token"
	"go/types"
	"sort"
	"strings"
)

func init() {
	register(&propInfo{
		id: "C18", fn: checkC18, multiConfig: true,
		explanation: "A definite-assignment argument over recycled objects and buffers: (r1) for each of the 65 registered types the decode method assigns every wire field on every path (the layout extractor only accepts straight-line assignments, nested decoders and the list idiom), every list decoded by appending is reset to length 0 (or rebuilt) before the loop, and no decoder reads its receiver's fields except the payload-length comparison; (r2) cache hygiene: registry.put clears the payload of payloaders before caching, objects enter the cache only through put, handleRequest calls put(m) only after the reply was sent and drops m afterwards; (r3) pooled byte slices: a dataPool slice is used as [:0] extended only by the encoder (send) or as [:size] that ReadFrom fills completely before decode (recv: decode is reached only when ReadFrom reported no error — io.EOF included — on every path that read), an existing payload buffer is reused only when its length equals the incoming payload length exactly, and slices go back to the pool only after their last use (deferred in recv, after the write in send); (r4) read buffers: the Data of an Rread is buf[:n] with n the count the backend (or the xattr copy) returned for that request, only PayloadCleanup returns read buffers to their pool, it zeroes them first and hands back the full buffer, and send defers the cleanup so that it runs after the bytes were written; (r5) no handler stores a slice-typed field of the request into state that outlives the handler without copying; (r6) every reply returned by a handler is allocated in that activation — registry.get is used only as recv's lookup.",
		assumptions: []string{"backends do not retain p beyond WriteAt (backend contract)", "complete fill by ReadFrom is C17.r2"},
	})
}

func checkC18(r *Run) {
	m := buildServerModel(r.L)
	info := m.Info
	db := m.DB
	norm := func(e ast.Node) string { return strings.ReplaceAll(r.L.str(e), " ", "") }
	x, err := newCodecX(r.L)
	if err != nil {
		r.undecided("r1", "codec", token.NoPos, "%v", err)
		return
	}
	// ---- r1 ----
	entries, _ := x.registryEntries()
	n := 0
	for _, e := range entries {
		name := e.Type.Obj().Name()
		dec, err := x.Layout(e.Type, "decode")
		if err != nil {
			r.undecided("r1", name+".decode", errPos(err), "cannot extract: %v (a decoder outside the accepted idioms may read stale state)", err)
			continue
		}
		n++
		// field coverage
		var want []string
		wireFields(e.Type, "", &want, 0)
		have := map[string]bool{}
		var unreset []string
		var walk func(items []LItem)
		walk = func(items []LItem) {
			for _, it := range items {
				switch it.Kind {
				case "bits32", "bits64":
					for f := range it.Bits {
						have[f] = true
					}
				case "list16", "dirents":
					if !it.Reset {
						unreset = append(unreset, it.Field)
					}
					have[it.Field] = true
					walk(it.Elem)
				default:
					have[it.Field] = true
				}
			}
		}
		walk(dec)
		var missing []string
		for _, w := range want {
			if _, skip := c01NotOnWire[name+"."+w]; skip {
				continue
			}
			if !have[w] && !have[strings.TrimSuffix(w, "[]")] {
				missing = append(missing, w)
			}
		}
		switch {
		case len(unreset) > 0:
			r.fail("r1", name+".decode", e.Pos, "list field(s) %v are appended to without being reset first: when the cached object is decoded again, entries of the previous message survive in front of the new ones", unreset)
		case len(missing) > 0:
			r.fail("r1", name+".decode", e.Pos, "field(s) %v are not assigned by decode: a recycled object keeps the previous message's value", missing)
		default:
			r.ok("r1", name+".decode", e.Pos, "every wire field assigned; %d list(s) reset before appending", countLists(dec))
		}
	}
	r.floor("r1", "decoders analysed", n, 65)

	// ---- r2 ----
	if put := r.mustFunc("r2", "p9", "registry.put"); put != nil {
		okClear := false
		var clearPos, sendPos token.Pos
		for _, s := range db.ByFunc[put] {
			if s.Call != nil && strings.HasSuffix(s.Callee, ".SetPayload") && len(s.Call.Args) == 1 && isNilIdent(info, unparen(s.Call.Args[0])) {
				okClear = true
				clearPos = s.Call.Pos()
			}
		}
		// (the send may sit in a private helper that put calls: it then counts at that call)
		for _, b := range m.blockingIn(put, "chan<-") {
			sendPos = b.Node.Pos()
			if len(b.Inl) > 0 {
				sendPos = b.Inl[0].Call.Pos()
			}
		}
		r.check(okClear && (sendPos == 0 || clearPos < sendPos), "r2", "registry.put clears the payload before caching", put.Decl.Pos(), "SetPayload(nil) for payloaders, before the object enters the cache", "a cached payloader keeps its payload: the next message of that type would see (or alias) the previous message's data")
	}
	// cache channel sends only in put
	for _, b := range db.Blocking {
		if b.Callee != "chan<-" {
			continue
		}
		if ss, ok := b.Node.(*ast.SendStmt); ok && strings.HasSuffix(norm(ss.Chan), ".cache") {
			// (a private helper that only registry.put calls acts for it)
			only := true
			for _, root := range m.rootsOf(b.Root) {
				if root.Key != "p9.registry.put" {
					only = false
				}
			}
			r.check(only, "r2", b.Root.Key+": message enters the cache", ss.Pos(), "only through put", "a message object is put into the cache outside registry.put (without its payload being cleared)")
		}
	}
	if hr := r.mustFunc("r2", "p9", "connState.handleRequest"); hr != nil {
		for _, s := range m.callsIn(hr, "p9.registry.put") {
			r.check(s.St.Must["p9.send"], "r2", "handleRequest recycles the request only after the reply was sent", s.Call.Pos(), "put(m) after send", "the request object is returned to the cache before the reply has been sent: a concurrent decode into it can change what the handler's reply still references")
			// no use of m after put
			mName := norm(s.Call.Args[0])
			usedAfter := false
			ast.Inspect(hr.Decl.Body, func(nd ast.Node) bool {
				if id, ok := nd.(*ast.Ident); ok && id.Name == mName && id.Pos() > s.Call.End() {
					if as, ok := r.L.parent(id).(*ast.AssignStmt); ok && len(as.Lhs) == 1 && as.Lhs[0] == ast.Expr(id) {
						return true // m = nil
					}
					usedAfter = true
				}
				return true
			})
			r.check(!usedAfter, "r2", "handleRequest does not touch the request after recycling it", s.Call.Pos(), "no use of m after put", "m is used after it was returned to the cache")
		}
	}

	// ---- r3 ----
	recv := r.mustFunc("r3", "p9", "recv")
	if recv != nil {
		var readFrom *ast.CallExpr
		for _, s := range m.callsIn(recv, "vecnet.Buffers.ReadFrom") {
			readFrom = s.Call
		}
		nDec := 0
		for _, s := range db.ByFunc[recv] {
			if s.Call == nil || !strings.HasSuffix(s.Callee, ".decode") || s.St.Dead {
				continue
			}
			nDec++
			okAll := readFrom != nil
			res := m.resolver(recv)
			vecsName := ""
			if readFrom != nil {
				if sel, isSel := unparen(readFrom.Fun).(*ast.SelectorExpr); isSel {
					vecsName = res.str(sel.X)
				}
			}
			for _, p := range s.St.Paths {
				// either nothing was read (len(vecs) > 0 false) or the read returned a nil error
				noRead := false
				for k, v := range p {
					if vecsName != "" && strings.HasPrefix(k, "len("+vecsName+") > 0") && !v {
						noRead = true
					}
				}
				okErr := false
				if readFrom != nil {
					if v, ok := p[res.str(readFrom)+" == nil"]; ok && v {
						okErr = true
					}
					if as, ok := r.L.parent(readFrom).(*ast.AssignStmt); ok && len(as.Lhs) > 0 {
						if obj := objOf(info, as.Lhs[len(as.Lhs)-1]); obj != nil && isErrorType(obj.Type()) {
							nm := obj.Name()
							if u, ok := res.uniq[obj]; ok {
								nm = u
							}
							if v, ok := p[nm+" == nil"]; ok && v {
								okErr = true
							}
						}
					}
				}
				if !noRead && !okErr {
					okAll = false
				}
			}
			if !okAll {
				r.note("decode site facts: %s", describePaths(s.St))
			}
			r.check(okAll, "r3", "recv decodes only completely filled buffers", s.Call.Pos(), "decode is reached only when ReadFrom returned a nil error (or nothing had to be read)",
				"m.decode can run after vecs.ReadFrom reported an error (a frame cut short, io.EOF included): the pooled buffer is then only partly overwritten and the rest still holds a previous message — possibly another connection's")
		}
		r.check(nDec == 1, "r3", "recv has one decode site", recv.Decl.Pos(), "1", fmt.Sprintf("%d decode calls in recv", nDec))
		// payload reuse only on exact length
		// The payload vector: the variable p handed to SetPayload / appended to the vectors is, by
		// symbolic evaluation, a fresh make([]byte, N) unless the existing buffer is non-nil and
		// has exactly length N (N the frame's payload size), in which case it is the existing one.
		okReuse := false
		res3 := m.resolver(recv)
		var pObj types.Object
		var nText string
		ast.Inspect(recv.Decl.Body, func(nd ast.Node) bool {
			as, ok := nd.(*ast.AssignStmt)
			if !ok || len(as.Lhs) != 1 || len(as.Rhs) != 1 {
				return true
			}
			mk, ok := unparen(as.Rhs[0]).(*ast.CallExpr)
			if !ok || len(mk.Args) != 2 {
				return true
			}
			if id, isId := mk.Fun.(*ast.Ident); !isId || id.Name != "make" {
				return true
			}
			// the variable that also holds Payload()
			obj := objOf(info, as.Lhs[0])
			if obj == nil {
				return true
			}
			holdsPayload := false
			ast.Inspect(recv.Decl.Body, func(n2 ast.Node) bool {
				if a2, ok := n2.(*ast.AssignStmt); ok && len(a2.Lhs) == 1 && len(a2.Rhs) == 1 && objOf(info, a2.Lhs[0]) == obj {
					if c, ok := unparen(a2.Rhs[0]).(*ast.CallExpr); ok && strings.HasSuffix(calleeKey(info, c), ".Payload") {
						holdsPayload = true
					}
				}
				return true
			})
			if holdsPayload {
				pObj, nText = obj, nospace(res3.str(mk.Args[1]))
			}
			return true
		})
		if pObj != nil {
			// the use: the append of p to the vectors
			var use ast.Expr
			ast.Inspect(recv.Decl.Body, func(nd ast.Node) bool {
				if c, ok := nd.(*ast.CallExpr); ok && len(c.Args) == 2 {
					if id, isId := c.Fun.(*ast.Ident); isId && id.Name == "append" && objOf(info, c.Args[1]) == pObj {
						use = c.Args[1]
					}
				}
				return true
			})
			if use != nil {
				eval := func(isNil, lenEq bool) string {
					v := valueAt(r.L, res3, recv, use, func(key string) (bool, bool) {
						k := nospace(key)
						switch {
						case strings.HasSuffix(k, ".Payload()==nil"):
							return isNil, true
						case strings.HasPrefix(k, "len(") && (strings.HasSuffix(k, "==int("+nText+")") || strings.HasSuffix(k, "=="+nText)):
							return lenEq, true
						case strings.HasPrefix(k, "len(") && strings.HasSuffix(k, ">0"):
							return true, true
						}
						return false, false
					})
					if v.undef {
						return "unassigned"
					}
					return nospace(v.s)
				}
				fresh := "make([]byte," + nText + ")"
				a, b2, c2, d := eval(true, false), eval(true, true), eval(false, false), eval(false, true)
				okReuse = a == fresh && b2 == fresh && c2 == fresh && strings.HasSuffix(d, ".Payload()")
			}
		}
		r.check(okReuse, "r3", "recv reuses a payload buffer only when its length matches exactly", recv.Decl.Pos(), "p == nil || len(p) != remaining-fixedSize → fresh buffer", "an existing payload buffer can be reused although its length differs from the incoming payload: stale bytes beyond (or short reads of) the new payload")
		// appendBuffer: data[:size] or fresh
		// the slice the decoder reads (buffer{data: X}) has exactly the requested length: X is,
		// by symbolic evaluation, make([]byte, size) when size exceeds the pooled slice and
		// pooled[:size] otherwise
		okApp := false
		// (the literal may sit in a closure of recv or in a private helper that only recv uses)
		var homes []*FuncInfo
		homes = append(homes, recv)
		for _, fi := range r.L.funcsOfPkg("p9") {
			if fi != recv && fi.Decl.Body != nil && m.transparent(fi) && m.onlyFor(fi, "p9.recv") {
				homes = append(homes, fi)
			}
		}
		for _, home := range homes {
			hres := m.resolver(home)
			ast.Inspect(home.Decl.Body, func(nd ast.Node) bool {
				cl, ok := nd.(*ast.CompositeLit)
				if !ok || len(cl.Elts) != 1 || !strings.HasSuffix(types.TypeString(info.TypeOf(cl), nil), "p9.buffer") {
					return true
				}
				kv, ok := cl.Elts[0].(*ast.KeyValueExpr)
				if !ok || norm(kv.Key) != "data" || objOf(info, kv.Value) == nil {
					return true
				}
				// size: the int parameter of the enclosing function (literal or helper)
				var ft *ast.FuncType
				switch f := r.L.enclosingFunc(cl).(type) {
				case *ast.FuncLit:
					ft = f.Type
				case *ast.FuncDecl:
					if home != recv {
						ft = f.Type
					}
				}
				if ft == nil {
					return true
				}
				var sizeObj types.Object
				for _, f := range ft.Params.List {
					for _, nm := range f.Names {
						if o := info.Defs[nm]; o != nil && o.Type().String() == "int" {
							sizeObj = o
						}
					}
				}
				if sizeObj == nil {
					return true
				}
				size := hres.nameOf(sizeObj)
				eval := func(tooSmall bool) string {
					v := valueAt(r.L, hres, home, kv.Value, func(key string) (bool, bool) {
						k := nospace(key)
						if strings.HasPrefix(k, size+">len(") {
							return tooSmall, true
						}
						return false, false
					})
					if v.undef {
						return "unassigned"
					}
					return nospace(v.s)
				}
				big, fits := eval(true), eval(false)
				if big == "make([]byte,"+size+")" && strings.HasSuffix(fits, "[:"+size+"]") {
					okApp = true
				}
				// X is result i of a private helper of recv that is handed the size
				// (datap, data := getData(size)): the same evaluation inside the helper
				if !okApp {
					xobj := objOf(info, kv.Value)
					ast.Inspect(home.Decl.Body, func(n2 ast.Node) bool {
						as, isAs := n2.(*ast.AssignStmt)
						if !isAs || len(as.Rhs) != 1 {
							return true
						}
						call, isCall := unparen(as.Rhs[0]).(*ast.CallExpr)
						if !isCall || len(call.Args) != 1 || nospace(hres.str(call.Args[0])) != size {
							return true
						}
						tf := r.L.FuncOf(callee(info, call))
						if tf == nil || tf.Decl.Body == nil || tf.Obj.Exported() || pinnedFuncs[tf.Key] || !m.onlyFor(tf, "p9.recv") {
							return true
						}
						idx := -1
						for i, l := range as.Lhs {
							if objOf(info, l) == xobj {
								idx = i
							}
						}
						var psize types.Object
						for _, f := range tf.Decl.Type.Params.List {
							for _, nm := range f.Names {
								if o := info.Defs[nm]; o != nil && o.Type().String() == "int" {
									psize = o
								}
							}
						}
						if idx < 0 || psize == nil {
							return true
						}
						tres := m.resolver(tf)
						sz := tres.nameOf(psize)
						nret, okAll := 0, true
						inspectNoLit(tf.Decl.Body, func(n3 ast.Node) {
							ret, isRet := n3.(*ast.ReturnStmt)
							if !isRet {
								return
							}
							nret++
							if idx >= len(ret.Results) {
								okAll = false
								return
							}
							ev := func(tooSmall bool) string {
								v := valueAt(r.L, tres, tf, ret.Results[idx], func(key string) (bool, bool) {
									if strings.HasPrefix(nospace(key), sz+">len(") {
										return tooSmall, true
									}
									return false, false
								})
								if v.undef {
									return "unassigned"
								}
								return nospace(v.s)
							}
							if !(ev(true) == "make([]byte,"+sz+")" && strings.HasSuffix(ev(false), "[:"+sz+"]")) {
								okAll = false
							}
						})
						if nret > 0 && okAll {
							okApp = true
						}
						return true
					})
				}
				return true
			})
		}
		r.check(okApp, "r3", "recv limits the pooled buffer to the frame's size", recv.Decl.Pos(), "data = data[:size]", "the pooled buffer is not cut to exactly the announced size: bytes of an earlier message lie inside the slice that is decoded")
		// Put deferred
		okPut := true
		nPut := 0
		for _, s := range db.ByFunc[recv] {
			if s.Callee == "sync.Pool.Put" {
				nPut++
				if _, isDefer := s.Node.(*ast.DeferStmt); !isDefer {
					okPut = false
				}
			}
		}
		r.check(okPut && nPut >= 2, "r3", "recv returns pooled buffers only when it is done", recv.Decl.Pos(), fmt.Sprintf("%d deferred dataPool.Put", nPut), "a pooled buffer is returned before recv has finished decoding from it")
	}
	if send := r.mustFunc("r3", "p9", "send"); send != nil {
		okZero := false
		ast.Inspect(send.Decl.Body, func(nd ast.Node) bool {
			if kv, ok := nd.(*ast.KeyValueExpr); ok && norm(kv.Key) == "data" && strings.HasSuffix(norm(kv.Value), "[:0]") {
				okZero = true
			}
			return true
		})
		r.check(okZero, "r3", "send starts from an empty slice of the pooled buffer", send.Decl.Pos(), "buffer{data: (*data)[:0]}", "send does not start encoding at length 0 of the pooled buffer: old bytes would be sent")
		for _, s := range db.ByFunc[send] {
			if s.Callee == "sync.Pool.Put" {
				r.check(s.St.Must["net.Buffers.WriteTo"], "r3", "send returns the buffer after the write", s.Call.Pos(), "Put after WriteTo", "the encode buffer goes back to the pool before it was written")
			}
			if s.Call != nil && strings.HasSuffix(s.Callee, ".PayloadCleanup") {
				_, isDefer := s.Node.(*ast.DeferStmt)
				r.check(isDefer, "r4", "send defers PayloadCleanup", s.Call.Pos(), "cleanup runs after the bytes were written", "PayloadCleanup is not deferred: the read buffer would be zeroed/recycled before its bytes are on the wire")
			}
		}
	}

	// ---- r4 ----
	var putters []string
	for _, s := range db.Calls["sync.Pool.Put"] {
		if strings.HasSuffix(norm(unparen(s.Call.Fun).(*ast.SelectorExpr).X), ".readBufPool") {
			putters = append(putters, s.Root.Key)
			if s.Root.Key == "p9.rreadServerPayloader.PayloadCleanup" {
				// zeroing precedes, full buffer returned
				zeroed := false
				for _, c2 := range db.ByFunc[s.Root] {
					if c2.Call != nil {
						if id, ok := c2.Call.Fun.(*ast.Ident); ok && id.Name == "copy" && c2.Call.Pos() < s.Call.Pos() && strings.HasSuffix(norm(c2.Call.Args[1]), ".pristineZeros") && strings.HasSuffix(norm(c2.Call.Args[0]), ".Data") {
							zeroed = true
						}
					}
				}
				full := strings.HasSuffix(norm(s.Call.Args[0]), ".fullBuffer")
				r.check(zeroed && full, "r4", "PayloadCleanup zeroes the data and returns the full buffer", s.Call.Pos(), "copy(Data, pristineZeros); Put(&fullBuffer)", fmt.Sprintf("read buffer recycled without zeroing the bytes just sent (zeroed=%v) or not as the full buffer (full=%v): the next reader of the pool sees this request's file data", zeroed, full))
			}
		}
	}
	sort.Strings(putters)
	r.check(strings.Join(dedupe(putters), ",") == "p9.rreadServerPayloader.PayloadCleanup", "r4", "only PayloadCleanup returns read buffers to their pool", token.NoPos, "single Put site",
		"readBufPool.Put is called from "+strings.Join(dedupe(putters), ", ")+": a read buffer can go back to the pool while the reply that aliases it has not been written (a concurrent Tread then overwrites the bytes of this reply)")

	// ---- r5 ----
	nAli := 0
	for _, fi := range r.L.funcsOfPkg("p9") {
		if !isHandlerFunc(fi) || fi.Decl.Body == nil {
			continue
		}
		h := m.handlerInfo(fi)
		ast.Inspect(fi.Decl.Body, func(nd ast.Node) bool {
			var target, val ast.Expr
			switch v := nd.(type) {
			case *ast.AssignStmt:
				if len(v.Lhs) == 1 && len(v.Rhs) == 1 {
					target, val = v.Lhs[0], v.Rhs[0]
				}
			case *ast.KeyValueExpr:
				// key of a fidRef / pendingXattr literal
				if cl, ok := r.L.parent(v).(*ast.CompositeLit); ok {
					ts := types.TypeString(info.TypeOf(cl), nil)
					if strings.HasSuffix(ts, "p9.fidRef") || strings.HasSuffix(ts, "p9.pendingXattr") {
						target, val = v.Key, v.Value
					}
				}
			}
			if target == nil || val == nil {
				return true
			}
			vs := unparen(val)
			if sl, ok := vs.(*ast.SliceExpr); ok {
				vs = unparen(sl.X)
			}
			t := info.TypeOf(vs)
			if t == nil {
				return true
			}
			if _, isSlice := t.Underlying().(*types.Slice); !isSlice {
				return true
			}
			s := norm(vs)
			if h.Recv == "" || !strings.HasPrefix(s, h.Recv+".") {
				return true
			}
			// target outlives the handler?
			ts := norm(target)
			persistent := false
			if _, isKV := nd.(*ast.KeyValueExpr); isKV {
				persistent = true
			} else if sel, ok := unparen(target).(*ast.SelectorExpr); ok {
				if fld := fieldOf(info, sel); fld != nil && (strings.HasPrefix(r.L.fieldKey(fld), "p9.fidRef.") || strings.HasPrefix(r.L.fieldKey(fld), "p9.pendingXattr.") || strings.HasPrefix(r.L.fieldKey(fld), "p9.connState.")) {
					persistent = true
				}
			}
			if persistent {
				nAli++
				r.fail("r5", fi.Key+": "+ts+" aliases "+s, nd.Pos(), "the slice %s of the request object is stored in %s, which outlives the handler: the request object is recycled and decoded into again, changing (or exposing) the stored data", s, ts)
			}
			return true
		})
	}
	if nAli == 0 {
		r.ok("r5", "no handler keeps a slice of its request", token.NoPos, "request slices are only passed to the backend or copied (append(dst, t.Data...))")
	}

	// ---- r6 ----
	var getters []string
	p9 := r.L.Pkg("p9")
	for _, f := range p9.Syntax {
		ast.Inspect(f, func(nd ast.Node) bool {
			sel, ok := nd.(*ast.SelectorExpr)
			if !ok || sel.Sel.Name != "get" {
				return true
			}
			if fn, ok := info.Uses[sel.Sel].(*types.Func); ok && funcKey(fn) == "p9.registry.get" {
				fd := r.L.enclosingDecl(sel)
				if fd != nil {
					// a private helper that is judged in its callers' context stands for them
					if fo, ok := info.Defs[fd.Name].(*types.Func); ok && r.L.FuncOf(fo) != nil {
						for _, root := range m.rootsOf(r.L.FuncOf(fo)) {
							getters = append(getters, root.Decl.Name.Name)
						}
					} else {
						getters = append(getters, fd.Name.Name)
					}
				}
			}
			return true
		})
	}
	sort.Strings(getters)
	okGet := true
	for _, g := range getters {
		if g != "handleRequest" && g != "Fuzz" {
			okGet = false
		}
	}
	r.check(okGet && len(getters) > 0, "r6", "cached objects are used only for decoding requests", token.NoPos, "registry.get referenced in "+strings.Join(dedupe(getters), ", "), "registry.get is used in "+strings.Join(dedupe(getters), ", ")+": a reply built from a cached object can carry an earlier message's content")
	// handler returns: literals, newErr, or locals holding those
	nRet := 0
	for _, fi := range r.L.funcsOfPkg("p9") {
		if fi.Decl.Recv == nil || fi.Decl.Name.Name != "handle" || !isHandlerFunc(fi) || fi.Decl.Body == nil {
			continue
		}
		for _, ex := range db.Exits[fi] {
			if ex.Fn != ast.Node(fi.Decl) || ex.Ret == nil || len(ex.Ret.Results) != 1 {
				continue
			}
			nRet++
			e := unparen(ex.Ret.Results[0])
			ok := false
			switch v := e.(type) {
			case *ast.UnaryExpr:
				_, ok = v.X.(*ast.CompositeLit)
				// &reply with reply a local value declared in this activation (var reply rgetattr)
				if lo := objOf(info, v.X); !ok && v.Op == token.AND && lo != nil && lo.Parent() != lo.Pkg().Scope() && lo.Pos() > fi.Decl.Body.Pos() {
					if _, isPtr := lo.Type().Underlying().(*types.Pointer); !isPtr {
						ok = true
					}
				}
			case *ast.CallExpr:
				ok = calleeKey(info, v) == "p9.newErr"
			case *ast.Ident:
				// local holding a literal / result of do() / clunkHandleXattr
				ok = allDefsAre(info, fi, v, func(d ast.Expr) bool {
					d = unparen(d)
					if u, ok := d.(*ast.UnaryExpr); ok {
						_, isLit := u.X.(*ast.CompositeLit)
						return isLit
					}
					if c, ok := d.(*ast.CallExpr); ok {
						k := calleeKey(info, c)
						return k == "p9.newErr" || strings.HasSuffix(k, ".do") || k == "p9.clunkHandleXattr"
					}
					return false
				}) || isMultiResultOfDo(info, fi, v)
			}
			if !ok {
				r.fail("r6", fi.Key+": reply is fresh", ex.Ret.Pos(), "the reply %s is not a literal / newErr built in this activation", r.L.str(e))
			}
		}
	}
	r.check(nRet >= 60, "r6", "handler replies are allocated per request", token.NoPos, fmt.Sprintf("%d returns: composite literals or newErr", nRet), fmt.Sprintf("only %d handler returns found", nRet))
}

func countLists(items []LItem) int {
	n := 0
	for _, it := range items {
		if it.Kind == "list16" || it.Kind == "dirents" {
			n++
		}
		n += countLists(it.Elem)
	}
	return n
}

// isMultiResultOfDo: v is assigned from a multi-value call of a do() method (rlcreate, err := t.do(...)).
func isMultiResultOfDo(info *types.Info, fi *FuncInfo, v *ast.Ident) bool {
	obj := objOf(info, v)
	found := false
	ast.Inspect(fi.Decl, func(n ast.Node) bool {
		as, ok := n.(*ast.AssignStmt)
		if !ok || len(as.Rhs) != 1 || len(as.Lhs) != 2 {
			return true
		}
		if objOf(info, as.Lhs[0]) == obj {
			if c, ok := unparen(as.Rhs[0]).(*ast.CallExpr); ok && strings.HasSuffix(calleeKey(info, c), ".do") {
				found = true
			}
		}
		return true
	})
	return found
}
