package main

import (
	"bytes"
	"fmt"
	"go/ast"
	"go/constant"
	"go/parser"
	"go/printer"
	"go/token"
	"go/types"
	"os"
	"path/filepath"
	"sort"
	"strings"

	"golang.org/x/tools/go/packages"
	"golang.org/x/tools/go/ssa"
	"golang.org/x/tools/go/ssa/ssautil"
	"golang.org/x/tools/go/types/typeutil"
)

const modPath = "github.com/hugelgupf/p9"

// FuncInfo is a declared function of the module with its syntax.
type FuncInfo struct {
	Obj  *types.Func
	Decl *ast.FuncDecl
	Pkg  *packages.Package
	Key  string // e.g. p9.tread.handle, p9.recv
}

// Loaded is one type-checked build configuration of the repository.
type Loaded struct {
	Config  string
	Repo    string
	Fset    *token.FileSet
	Roots   []*packages.Package
	ByPath  map[string]*packages.Package
	decls   map[string]*FuncInfo // by key
	byObj   map[*types.Func]*FuncInfo
	parents map[ast.Node]ast.Node // parent links for module syntax
	prog    *ssa.Program
	ssaPkgs []*ssa.Package
	// functions that were given back their pinned form before the rules run (identity.go)
	Notes       []string
	orderNotes  []string
	objDecl     map[types.Object]*ast.FuncDecl
	identityErr error
}

var wantedPkgs = []string{"p9", "vecnet", "linux", "internal", "fsimpl/localfs", "fsimpl/qids", "fsimpl/readdir",
	"fsimpl/staticfs", "fsimpl/composefs", "fsimpl/templatefs", "fsimpl/xattr"}

func load(repo, config, fixture string) (*Loaded, error) {
	parts := strings.Split(config, "/")
	if len(parts) != 2 {
		return nil, fmt.Errorf("bad configuration %q", config)
	}
	env := []string{}
	for _, e := range os.Environ() {
		k := e
		if i := strings.IndexByte(e, '='); i >= 0 {
			k = e[:i]
		}
		switch k {
		case "GOFLAGS", "GOPROXY", "GOWORK", "GOSUMDB", "GOTOOLCHAIN", "GOOS", "GOARCH", "CGO_ENABLED":
			continue
		}
		env = append(env, e)
	}
	env = append(env, "GOFLAGS=-mod=readonly", "GOPROXY=off", "GOWORK=off", "GOSUMDB=off", "GOTOOLCHAIN=local",
		"GOOS="+parts[0], "GOARCH="+parts[1], "CGO_ENABLED=0")
	dir := repo
	patterns := []string{"./p9", "./vecnet", "./linux", "./internal", "./fsimpl/...", "./cmd/..."}
	if fixture != "" {
		dir = fixture
		patterns = []string{"./..."}
	}
	cfg := &packages.Config{
		Dir:        dir,
		Mode:       packages.LoadAllSyntax,
		Env:        env,
		BuildFlags: []string{"-tags=verif"},
		Tests:      false,
		// The repository's own files are brought into one spelling before type checking, so
		// that the rules see one form of constructs that mean the same (normalizeAST).
		ParseFile: func(fset *token.FileSet, filename string, src []byte) (*ast.File, error) {
			f, err := parser.ParseFile(fset, filename, src, parser.AllErrors|parser.ParseComments)
			if err == nil && strings.HasPrefix(filename, dir) {
				normalizeAST(f)
			}
			return f, err
		},
	}
	pkgs, err := packages.Load(cfg, patterns...)
	if err != nil {
		return nil, fmt.Errorf("go/packages: %v", err)
	}
	if len(pkgs) == 0 {
		return nil, fmt.Errorf("no packages loaded from %s", dir)
	}
	l := &Loaded{Config: config, Repo: dir, Roots: pkgs, ByPath: map[string]*packages.Package{},
		decls: map[string]*FuncInfo{}, byObj: map[*types.Func]*FuncInfo{}, parents: map[ast.Node]ast.Node{}}
	var errs []string
	packages.Visit(pkgs, nil, func(p *packages.Package) {
		l.ByPath[p.PkgPath] = p
		if l.Fset == nil {
			l.Fset = p.Fset
		}
		if strings.HasPrefix(p.PkgPath, modPath) {
			for _, e := range p.Errors {
				errs = append(errs, e.Error())
			}
		}
	})
	if len(errs) > 0 {
		return nil, fmt.Errorf("type errors in module packages (%s): %s", config, strings.Join(errs, "; "))
	}
	if fixture == "" {
		for _, w := range wantedPkgs {
			p := l.ByPath[modPath+"/"+w]
			if p == nil {
				return nil, fmt.Errorf("package %s not loaded for %s", w, config)
			}
			// Some packages are legitimately empty on some platforms (build tags).
			if len(p.Syntax) == 0 && (w == "p9" || w == "vecnet" || w == "linux") {
				return nil, fmt.Errorf("package %s has no files for %s", w, config)
			}
		}
	}
	if fixture == "" {
		unrolled := l.unrollConstantRanges(l.modulePkgs())
		if l.identityErr == nil {
			l.Notes = l.restoreIdentities()
		}
		l.Notes = append(append(unrolled, l.orderNotes...), l.Notes...)
		if l.identityErr == nil {
			hof, err := func() (notes []string, err error) {
				defer func() {
					if e := recover(); e != nil {
						err = fmt.Errorf("internal: %v", e)
					}
				}()
				n1, err := l.inlineSingleUseClosures()
				if err != nil {
					return nil, err
				}
				n2, err := l.specialiseCallbacks()
				return append(n1, n2...), err
			}()
			if err != nil {
				// the trees were touched: load again without this step
				fmt.Fprintln(os.Stderr, "note: callbacks not specialised:", err)
				prev := skipHOF
				skipHOF = true
				defer func() { skipHOF = prev }()
				return load(repo, config, fixture)
			}
			l.Notes = append(l.Notes, hof...)
		}
		if l.identityErr != nil {
			// the trees were touched: load again and judge the program as it is written
			fmt.Fprintln(os.Stderr, "note:", l.identityErr)
			prev := skipIdentity
			skipIdentity = true
			defer func() { skipIdentity = prev }()
			return load(repo, config, fixture)
		}
	}
	for _, p := range l.modulePkgs() {
		for _, f := range p.Syntax {
			l.indexFile(p, f)
		}
	}
	return l, nil
}

func (l *Loaded) modulePkgs() []*packages.Package {
	var out []*packages.Package
	for path, p := range l.ByPath {
		if strings.HasPrefix(path, modPath) || l.Repo != "/repo" && !strings.Contains(path, ".") && p.Module != nil {
			out = append(out, p)
		}
	}
	sort.Slice(out, func(i, j int) bool { return out[i].PkgPath < out[j].PkgPath })
	return out
}

func (l *Loaded) indexFile(p *packages.Package, f *ast.File) {
	var stack []ast.Node
	ast.Inspect(f, func(n ast.Node) bool {
		if n == nil {
			stack = stack[:len(stack)-1]
			return true
		}
		if len(stack) > 0 {
			l.parents[n] = stack[len(stack)-1]
		}
		stack = append(stack, n)
		return true
	})
	for _, d := range f.Decls {
		fd, ok := d.(*ast.FuncDecl)
		if !ok {
			continue
		}
		obj, _ := p.TypesInfo.Defs[fd.Name].(*types.Func)
		if obj == nil {
			continue
		}
		fi := &FuncInfo{Obj: obj, Decl: fd, Pkg: p, Key: funcKey(obj)}
		if fd.Name.Name == "init" || fd.Name.Name == "_" {
			fi.Key = fmt.Sprintf("%s#%d", fi.Key, len(l.decls))
		}
		l.decls[fi.Key] = fi
		l.byObj[obj] = fi
	}
}

// shortPkg turns an import path into the short form used in keys.
func shortPkg(path string) string {
	if path == modPath {
		return "."
	}
	if strings.HasPrefix(path, modPath+"/") {
		return path[len(modPath)+1:]
	}
	return path
}

// funcKey gives a stable name for a function or method:
//
//	p9.recv, p9.tread.handle, sync.RWMutex.Lock, p9.File.Walk (interface method)
func funcKey(f *types.Func) string {
	if f == nil {
		return ""
	}
	pkg := ""
	if f.Pkg() != nil {
		pkg = shortPkg(f.Pkg().Path())
	}
	sig, _ := f.Type().(*types.Signature)
	if sig != nil && sig.Recv() != nil {
		t := sig.Recv().Type()
		if p, ok := t.(*types.Pointer); ok {
			t = p.Elem()
		}
		switch tt := t.(type) {
		case *types.Named:
			name := tt.Obj().Name()
			if tt.Obj().Pkg() != nil {
				pkg = shortPkg(tt.Obj().Pkg().Path())
			}
			return pkg + "." + name + "." + f.Name()
		case *types.Alias:
			return pkg + "." + tt.Obj().Name() + "." + f.Name()
		default:
			// Method of an unnamed interface type.
			return pkg + ".(interface)." + f.Name()
		}
	}
	return pkg + "." + f.Name()
}

// Func finds a function by package (short path) and name ("recv", "tread.handle").
func (l *Loaded) Func(pkg, name string) *FuncInfo {
	return l.decls[pkg+"."+name]
}

// FuncOf returns the declaration of a function object, if it is in the module.
func (l *Loaded) FuncOf(f *types.Func) *FuncInfo {
	if f == nil {
		return nil
	}
	if fi := l.byObj[f]; fi != nil {
		return fi
	}
	if o := f.Origin(); o != f {
		return l.byObj[o]
	}
	return nil
}

func (l *Loaded) Pkg(short string) *packages.Package {
	if short == "." {
		return l.ByPath[modPath]
	}
	if p := l.ByPath[modPath+"/"+short]; p != nil {
		return p
	}
	return l.ByPath[short]
}

// allFuncs returns all module functions, sorted by key.
func (l *Loaded) allFuncs() []*FuncInfo {
	var out []*FuncInfo
	for _, fi := range l.decls {
		out = append(out, fi)
	}
	sort.Slice(out, func(i, j int) bool { return out[i].Key < out[j].Key })
	return out
}

func (l *Loaded) funcsOfPkg(short string) []*FuncInfo {
	var out []*FuncInfo
	for _, fi := range l.allFuncs() {
		if shortPkg(fi.Pkg.PkgPath) == short {
			out = append(out, fi)
		}
	}
	return out
}

func (l *Loaded) relPos(p token.Pos) string {
	pos := l.Fset.Position(p)
	fn := pos.Filename
	if rel, err := filepath.Rel(l.Repo, fn); err == nil && !strings.HasPrefix(rel, "..") {
		fn = rel
	}
	return fmt.Sprintf("%s:%d:%d", fn, pos.Line, pos.Column)
}

func (l *Loaded) parent(n ast.Node) ast.Node { return l.parents[n] }

// enclosingFunc returns the innermost FuncDecl or FuncLit containing n (not n itself).
func (l *Loaded) enclosingFunc(n ast.Node) ast.Node {
	for p := l.parents[n]; p != nil; p = l.parents[p] {
		switch p.(type) {
		case *ast.FuncDecl, *ast.FuncLit:
			return p
		}
	}
	return nil
}

func (l *Loaded) enclosingDecl(n ast.Node) *ast.FuncDecl {
	for p := n; p != nil; p = l.parents[p] {
		if fd, ok := p.(*ast.FuncDecl); ok {
			return fd
		}
	}
	return nil
}

// callee resolves the static callee of a call (function, method, or interface method).
func callee(info *types.Info, call *ast.CallExpr) *types.Func {
	f, _ := typeutil.Callee(info, call).(*types.Func)
	return f
}

func calleeKey(info *types.Info, call *ast.CallExpr) string {
	return funcKey(callee(info, call))
}

// exprString prints an expression compactly (with literals, unlike types.ExprString).
func exprString(fset *token.FileSet, e ast.Node) string {
	if e == nil {
		return ""
	}
	var buf bytes.Buffer
	printer.Fprint(&buf, fset, e)
	s := buf.String()
	s = strings.Join(strings.Fields(s), " ")
	return s
}

func (l *Loaded) str(e ast.Node) string { return exprString(l.Fset, e) }

// constValue returns the constant value of e, if it has one.
func constValue(info *types.Info, e ast.Expr) constant.Value {
	if tv, ok := info.Types[e]; ok && tv.Value != nil {
		return tv.Value
	}
	return nil
}

func constInt(info *types.Info, e ast.Expr) (int64, bool) {
	v := constValue(info, e)
	if v == nil {
		return 0, false
	}
	if v.Kind() != constant.Int {
		v = constant.ToInt(v)
		if v.Kind() != constant.Int {
			return 0, false
		}
	}
	if i, ok := constant.Int64Val(v); ok {
		return i, true
	}
	if u, ok := constant.Uint64Val(v); ok {
		return int64(u), true
	}
	return 0, false
}

func constUint(info *types.Info, e ast.Expr) (uint64, bool) {
	v := constValue(info, e)
	if v == nil {
		return 0, false
	}
	v = constant.ToInt(v)
	if v.Kind() != constant.Int {
		return 0, false
	}
	u, ok := constant.Uint64Val(v)
	return u, ok
}

// pkgConst looks up a package-level constant and returns its integer value.
func (l *Loaded) pkgConst(pkg, name string) (int64, bool) {
	p := l.Pkg(pkg)
	if p == nil {
		return 0, false
	}
	c, _ := p.Types.Scope().Lookup(name).(*types.Const)
	if c == nil {
		return 0, false
	}
	v := constant.ToInt(c.Val())
	if v.Kind() != constant.Int {
		return 0, false
	}
	if i, ok := constant.Int64Val(v); ok {
		return i, true
	}
	if u, ok := constant.Uint64Val(v); ok {
		return int64(u), true
	}
	return 0, false
}

func (l *Loaded) pkgConstString(pkg, name string) (string, bool) {
	p := l.Pkg(pkg)
	if p == nil {
		return "", false
	}
	c, _ := p.Types.Scope().Lookup(name).(*types.Const)
	if c == nil || c.Val().Kind() != constant.String {
		return "", false
	}
	return constant.StringVal(c.Val()), true
}

// namedType returns the named type pkg.name.
func (l *Loaded) namedType(pkg, name string) *types.Named {
	p := l.Pkg(pkg)
	if p == nil {
		return nil
	}
	tn, _ := p.Types.Scope().Lookup(name).(*types.TypeName)
	if tn == nil {
		return nil
	}
	n, _ := tn.Type().(*types.Named)
	return n
}

// fieldOf resolves a selector expression to the struct field it selects (nil if not a field).
func fieldOf(info *types.Info, e ast.Expr) *types.Var {
	sel, ok := unparen(e).(*ast.SelectorExpr)
	if !ok {
		return nil
	}
	if s := info.Selections[sel]; s != nil && s.Kind() == types.FieldVal {
		v, _ := s.Obj().(*types.Var)
		return v
	}
	return nil
}

// fieldKey names a field as pkg.Type.field using the struct that declares it.
func (l *Loaded) fieldKey(v *types.Var) string {
	if v == nil || !v.IsField() {
		return ""
	}
	// Find the declaring struct by scanning named types of the field's package.
	if v.Pkg() == nil {
		return v.Name()
	}
	scope := v.Pkg().Scope()
	for _, name := range scope.Names() {
		tn, ok := scope.Lookup(name).(*types.TypeName)
		if !ok {
			continue
		}
		st, ok := tn.Type().Underlying().(*types.Struct)
		if !ok {
			continue
		}
		for i := 0; i < st.NumFields(); i++ {
			if st.Field(i) == v {
				return shortPkg(v.Pkg().Path()) + "." + name + "." + v.Name()
			}
		}
	}
	return shortPkg(v.Pkg().Path()) + ".?." + v.Name()
}

// objOf returns the object an identifier expression denotes.
func objOf(info *types.Info, e ast.Expr) types.Object {
	if id, ok := unparen(e).(*ast.Ident); ok {
		if o := info.Uses[id]; o != nil {
			return o
		}
		return info.Defs[id]
	}
	return nil
}

// --- SSA (built lazily) ---

func (l *Loaded) SSA() *ssa.Program {
	if l.prog != nil {
		return l.prog
	}
	prog, pkgs := ssautil.AllPackages(l.Roots, ssa.InstantiateGenerics)
	prog.Build()
	l.prog = prog
	l.ssaPkgs = pkgs
	return prog
}

func (l *Loaded) ssaFunc(fi *FuncInfo) *ssa.Function {
	prog := l.SSA()
	return prog.FuncValue(fi.Obj)
}

// declAt returns the function declaration whose extent contains pos.
// declOf: the function declaration an object is declared in (parameters, results and locals).
// Unlike declAt it does not go by position, so the per-call-site copies of a specialised
// helper (hof.go), which share their positions, are told apart.
func (l *Loaded) declOf(obj types.Object) *ast.FuncDecl {
	if obj == nil {
		return nil
	}
	if l.objDecl == nil {
		l.objDecl = map[types.Object]*ast.FuncDecl{}
		for _, fi := range l.allFuncs() {
			info := fi.Pkg.TypesInfo
			decl := fi.Decl
			ast.Inspect(decl, func(n ast.Node) bool {
				if id, ok := n.(*ast.Ident); ok {
					if o := info.Defs[id]; o != nil {
						if _, dup := l.objDecl[o]; !dup {
							l.objDecl[o] = decl
						}
					}
				}
				return true
			})
		}
	}
	if d := l.objDecl[obj]; d != nil {
		return d
	}
	return l.declAt(obj.Pos())
}

func (l *Loaded) declAt(pos token.Pos) *ast.FuncDecl {
	for _, fi := range l.allFuncs() {
		if fi.Decl.Pos() <= pos && pos < fi.Decl.End() {
			return fi.Decl
		}
	}
	return nil
}

// normalizeAST rewrites, inside function bodies, the statement "var x = e" (one spec, no
// explicit type) into the equivalent "x := e": both declare x with the type of e in the
// enclosing block.  Positions are kept.  Nothing else is changed.
func normalizeAST(f *ast.File) {
	fix := func(list []ast.Stmt) {
		for i, st := range list {
			ds, ok := st.(*ast.DeclStmt)
			if !ok {
				continue
			}
			gd, ok := ds.Decl.(*ast.GenDecl)
			if !ok || gd.Tok != token.VAR || len(gd.Specs) != 1 || gd.Lparen.IsValid() {
				continue
			}
			vs := gd.Specs[0].(*ast.ValueSpec)
			if vs.Type != nil || len(vs.Values) == 0 {
				continue
			}
			allBlank := true
			var lhs []ast.Expr
			for _, nm := range vs.Names {
				if nm.Name != "_" {
					allBlank = false
				}
				lhs = append(lhs, nm)
			}
			if allBlank {
				continue
			}
			list[i] = &ast.AssignStmt{Lhs: lhs, TokPos: gd.TokPos, Tok: token.DEFINE, Rhs: vs.Values}
		}
	}
	ast.Inspect(f, func(n ast.Node) bool {
		switch v := n.(type) {
		case *ast.BlockStmt:
			fix(v.List)
		case *ast.CaseClause:
			fix(v.Body)
		case *ast.CommClause:
			fix(v.Body)
		}
		return true
	})
}

// authFidField: the name of the field of tauth that carries the authentication fid - the only
// field of that struct whose type is fid (Authenticationfid on the pinned tree; the rules go by
// the type so that a respelling of the name does not matter).
func (l *Loaded) authFidField() string {
	name := "Authenticationfid"
	nt := l.namedType("p9", "tauth")
	if nt == nil {
		return name
	}
	st, ok := nt.Underlying().(*types.Struct)
	if !ok {
		return name
	}
	var found []string
	for i := 0; i < st.NumFields(); i++ {
		if ft, ok := st.Field(i).Type().(*types.Named); ok && ft.Obj().Name() == "fid" && ft.Obj().Pkg() == nt.Obj().Pkg() {
			found = append(found, st.Field(i).Name())
		}
	}
	if len(found) == 1 {
		return found[0]
	}
	return name
}
